#!/bin/sh
# tools/seed_run.sh <seeded-dir> [tier] [extra check IDs...]
# The official procedure for one seeded change: confirm it against /repo's HEAD in a scratch worktree
# (tools/seed_verify.sh), then apply it to /repo itself (git -C /repo apply), run the property's own check
# (and any extra checks named), undo it straight afterwards (git -C /repo checkout -- .), and record
# everything in <seeded-dir>/meta.json.
D=$(cd "$1" && pwd); TIER=${2:-quick}; shift; [ $# -gt 0 ] && shift
ID=$(basename "$D" | cut -d- -f1)
ROOT=$(cd "$(dirname "$0")/.." && pwd)
if [ -n "$(git -C /repo status --porcelain --untracked-files=no)" ]; then echo "/repo has uncommitted changes; refusing"; exit 2; fi
# the confirmation is tied to a tree: it is repeated unless meta.json already records one for /repo's current HEAD
HEAD=$(git -C /repo rev-parse --short HEAD)
CONF=$(python3 - "$D" "$HEAD" <<'PY'
import json,sys
try:
    m=json.load(open(sys.argv[1]+"/meta.json"))["confirmed"]
    if m.get("base_tree","").endswith("@"+sys.argv[2]) and m.get("result","").startswith("CONFIRMED"): print(m["result"])
except Exception: pass
PY
)
[ -n "$CONF" ] || CONF=$("$ROOT/tools/seed_verify.sh" "$D" /repo 2>&1 | head -1)
echo "$(basename $D): $CONF"
case "$CONF" in CONFIRMED*) ;; *) python3 - "$D" "$CONF" <<'PY'
import json,sys
d,conf=sys.argv[1:3]
m=json.load(open(d+"/meta.json")); m["confirmed"]["result_on_current_repo"]=conf; json.dump(m,open(d+"/meta.json","w"),indent=1)
PY
exit 1;; esac
git -C /repo apply "$D/patch.diff" || { echo "patch does not apply to /repo"; exit 2; }
RES=""
for C in $ID "$@"; do
  OUT=$("$ROOT/bin/check" $C $TIER 2>&1); RC=$?
  SIGS=$(echo "$OUT" | grep "signature=" | sed 's/ *signature=\([^ ]*\) ::.*/\1/' | sort -u | tr '\n' ' ')
  LAST=$(echo "$OUT" | tail -n 1)
  echo "  $C $TIER exit=$RC $SIGS"
  RES="$RES$C|$TIER|$RC|$SIGS|$LAST
"
done
git -C /repo checkout -- .
git -C /repo status --porcelain --untracked-files=no | grep -q . && echo "WARNING: /repo not clean after undo"
python3 - "$D" "$CONF" "$RES" <<'PY'
import json,sys,subprocess,datetime
d,conf,res=sys.argv[1:4]
m=json.load(open(d+"/meta.json"))
head=subprocess.run(["git","-C","/repo","rev-parse","--short","HEAD"],capture_output=True,text=True).stdout.strip()
vh=subprocess.run(["git","-C","/verif","rev-parse","--short","HEAD"],capture_output=True,text=True).stdout.strip()
m["confirmed"].update({"base_tree":"/repo@"+head,"result":conf})
runs=[r for r in m.get("checks_run",[]) if r.get("verif_commit")!=vh]
for line in res.strip().split("\n"):
    if not line: continue
    c,tier,rc,sigs,last=line.split("|",4)
    runs.append({"check":c,"tier":tier,"command":f"git -C /repo apply {d}/patch.diff && bin/check {c} {tier}; git -C /repo checkout -- .",
                 "exit":int(rc),"caught":int(rc)==1,"signatures":sigs.split(),"summary":last,"repo_head":head,"verif_commit":vh,
                 "date":datetime.datetime.now().isoformat(timespec="seconds")})
m["checks_run"]=runs
json.dump(m,open(d+"/meta.json","w"),indent=1)
PY
