#!/usr/bin/env python3
"""Summarise findings/silence-*.log (one line per run: 'seed=S Cxx rc=R Cxx tier seed=.. evaluations=.. ... wall=..s')
into DESIGN.md between the SILENCE markers."""
import glob,re,collections
rows=[]
for f in sorted(glob.glob("/verif/findings/silence-*.log")):
    per=collections.OrderedDict(); bad=[]
    tier=None; seeds=set()
    for l in open(f):
        m=re.match(r"seed=(\d+) (C\d+) rc=(\d+) .*? (quick|thorough) .*evaluations=(\d+) .*wall=([0-9.]+)s",l)
        if not m:
            m2=re.match(r"seed=(\d+) (C\d+) rc=(\d+)",l)
            if m2 and m2.group(3)!="0": bad.append(l.strip()[:160])
            continue
        s,c,rc,t,ev,w=m.groups(); tier=t; seeds.add(int(s))
        d=per.setdefault(c,{"n":0,"fail":0,"ev":0,"wmin":1e9,"wmax":0})
        d["n"]+=1; d["fail"]+= (rc!="0"); d["ev"]=max(d["ev"],int(ev)); d["wmin"]=min(d["wmin"],float(w)); d["wmax"]=max(d["wmax"],float(w))
        if rc!="0": bad.append(l.strip()[:160])
    if not per: continue
    name=f.split("/")[-1]
    tot=sum(d["n"] for d in per.values()); fails=sum(d["fail"] for d in per.values())
    rows.append(f"**{name}** — tier {tier}, seeds {min(seeds)}..{max(seeds)} ({len(seeds)}), {tot} runs, {fails} non-zero exits"+(": "+"; ".join(bad[:5]) if bad else "")+"\n")
    rows.append("| Check | runs | evaluations per run (max) | wall s (min–max) |\n|---|---|---|---|")
    for c,d in per.items():
        rows.append(f"| {c} | {d['n']} | {d['ev']} | {d['wmin']:.1f}–{d['wmax']:.1f} |")
    rows.append("")
p="/verif/DESIGN.md"; s=open(p).read()
s=re.sub(r"<!-- SILENCE-BEGIN -->.*?<!-- SILENCE-END -->","<!-- SILENCE-BEGIN -->\n"+"\n".join(rows)+"\n<!-- SILENCE-END -->",s,flags=re.S)
open(p,"w").write(s); print(len(rows),"lines")
