#!/usr/bin/env python3
"""Regenerate /verif/MANIFEST.json from the table below (claimed checks only)."""
import json, os, sys
ROOT = os.path.dirname(os.path.dirname(os.path.abspath(__file__)))

# id -> (technique, level text, level note, DESIGN section)
CHECKS = {
 "C12": ("exhaustive enumeration of small shape pairs + proptest random shapes, bit-exact NumPy-broadcast reference model",
         "All 1296 shape pairs with dims 1..6 x 4 operators x 3 operand kinds x 4 ownership forms are enumerated in every run and compared bit for bit with an index-level reference model; larger shapes are sampled by proptest. Exhaustive on the small space, sampling beyond it.",
         "Trusts IEEE f64 scalar arithmetic of the host and the panic-as-rejection convention; shapes above 6x6 are sampled, not enumerated.",
         "4/C12"),
}

def main():
    props = [json.loads(l) for l in open(os.path.join(ROOT, "properties.jsonl"))]
    checks = []
    for p in props:
        pid = p["id"]
        if pid not in CHECKS:
            continue
        tech, text, note, ref = CHECKS[pid]
        checks.append({
            "property_id": pid,
            "quick_cmd": f"bin/check {pid} quick",
            "thorough_cmd": f"bin/check {pid} thorough",
            "evidence_file": f"/verif/evidence/{pid}.json",
            "replay_cmd_template": "bin/check replay {path}",
            "engine": "vcheck",
            "level_claimed": {"category": "exploration", "text": text, "design_ref": "DESIGN.md section " + ref},
            "level_note": note,
            "technique": tech,
        })
    na = []
    for p in props:
        if p["id"] not in CHECKS:
            na.append({"property_id": p["id"], "reason": "check not yet registered (under construction; the technique applies, see DESIGN.md section 7)"})
    m = {
        "version": 1,
        "setup_cmd": "cd harness && CARGO_NET_OFFLINE=true cargo build --release --offline",
        "hooks": {
            "guard": "compute_verif",
            "enable": "no hooks are needed: every property is observable through the public API; the harness depends on /repo by path and rebuilds it from the working tree",
            "baseline_off_cmd": "cd /repo && cargo test --workspace --no-fail-fast --offline",
            "source_commits": [],
            "add_only": True,
        },
        "engines": [
            {"name": "vcheck", "path": "harness", "serves_properties": sorted(CHECKS.keys()),
             "kind_free_text": "Rust binary driving proptest 1.11 strategies, exhaustive enumerators and a parallel statistical driver against independent oracles (double-double arithmetic, exact integer models, reference models); shrinks failures to replay files"},
        ],
        "checks": checks,
        "notes": "bin/check <ID> <tier> rebuilds harness + /repo working tree, runs regress/<ID>/*.json replays first, then generated cases; VERIF_SEED selects the PRNG stream. Exit 2 = inconclusive (never a violation).",
        "not_applicable": na,
    }
    json.dump(m, open(os.path.join(ROOT, "MANIFEST.json"), "w"), indent=1)
    print("wrote MANIFEST.json with", len(checks), "checks")

if __name__ == "__main__":
    main()
