#!/usr/bin/env python3
"""Regenerate /verif/MANIFEST.json from the table below (claimed checks only)."""
import json, os, sys
ROOT = os.path.dirname(os.path.dirname(os.path.abspath(__file__)))

# id -> (technique, level text, level note, DESIGN section)
X = "Sampling beyond the enumerated sub-spaces: held on everything explored, not a proof."
CHECKS = {
 "C01": ("proptest matrix classes + full (class,n) grid, dd residual oracle with a-priori backward-error bound, all 6 entry points",
         "Every generated nonsingular system (15 matrix classes incl. symmetric indefinite with positive diagonal, exactly symmetric indefinite graded to cond 1e10, sparse diagonally dominant with exact zeros (arrowhead, grid Laplacian, bands with holes), route-flip, nearly symmetric, row/column-graded and singular-value-graded to cond 1e10; random and consistent right-hand sides; each problem also rescaled exactly by powers of two down to 2^-200; n 1..32; 1..6 right-hand sides) is pushed through all six solve/invert entry points; residuals are evaluated in double-double against 64 n eps g (|A||x|+|b|). " + X,
         "Trusts the oracle's own LU/Jacobi/dd arithmetic (self-tested at start-up); nonsingular means cond <= 1e12 by the oracle's estimate.", "4/C01"),
 "C02": ("per-distribution/per-clause proptest + grids; textbook log-space densities via glibc lgamma, tanh-sinh quadrature of the library's own pdf, dd pmf sums",
         "76 sub-checks (13 univariate laws + MVN x {formula, outside-support, ln_pdf, total mass, mean, variance, Normal cdf}) compare the library against independent closed forms and integrate its own density; two thirds of the objects are reached by re-parameterising another valid object (update / setters) rather than by the constructor, and a third are first offered one invalid setter value (panic caught) which must not be applied; ln_pdf must be the logarithm of the library's own pdf or of the textbook density. " + X,
         "Trusts glibc lgamma/erfc and the harness quadrature (gated by integrating the textbook density to 1 with the same nodes); parameter points where textbook factors are not representable are only required not to panic.", "4/C02"),
 "C03": ("parallel statistical driver: DKW band (alpha=1e-12) of n=2e5 (thorough 4e6) seeded draws against independent CDFs; termination watchdog; MVN whitening",
         "Every distribution x algorithm regime (grid of all branch switch points + proptest parameters; half of the objects re-parameterised by update before sampling; MVN covariances from 1e-16 to 1e16) is sampled from a fixed alea seed; support, integrality, bulk shapes and the DKW sup-distance to the harness's own CDFs (incomplete gamma/beta, erfc) are checked; a single call without progress for 30 s is a termination violation. Detectable effect: sup-distance > 0.0084 quick / 0.0019 thorough.",
         "CDF oracles self-tested against 83 SciPy reference values at start-up; false-alarm probability < 2e-9 per run by the DKW inequality; smaller sampler biases than the band pass.", "4/C03"),
 "C04": ("exhaustive lengths 0..=40 x 45 operator forms x all factorizations + proptest lengths to 1e4; bit-exact scalar reference, poison allocator; dd reductions",
         "All operator/ownership/assign forms and 31 maps are compared bit for bit with the scalar f64 operation at every length 0..40 (every residue of the unroll width) for Vector and every Matrix factorization incl. Matrix::empty(); mismatches must panic; data include a rounding-critical kind (half-way cases and neighbours, integers around 2^52..2^53); reductions against double-double within proven rounding bounds, also on all-zero / half-zero data and log-domain data with -inf entries. Exhaustive on lengths 0..40, sampled beyond.",
         "Trusts host IEEE arithmetic and libm being the same functions the library calls (black_boxed exponents); NaN payloads not compared.", "4/C04"),
 "C05": ("exhaustive shapes 1..9^3 x 4 flags x all block sizes with exact integer oracle + proptest real shapes; Dot trait fan-out; non-conformable grid",
         "matmul, matmul_blocked (every block size 1..2 max dim), xtx and every Dot method/ownership combination are compared with a naive dd triple loop: equality for integer entries, l eps sum|a||b| for reals (also with one operand scaled to 2^-80 and the other to 2^60); wherever m = n also with the very same buffer / object as both operands; every non-conformable stored-shape combination up to 5^4 must panic. Exhaustive on shapes <= 9, sampled to 64 (128).",
         "Integer entries are small enough that all products/sums are exact in f64.", "4/C05"),
 "C06": ("proptest over family x design x weights/offsets/penalty/tolerance with harness-simulated responses; Newton-decrement certificate and closed-form LS/deviance/covariance oracles",
         "42 sub-checks (clause x family, standard errors also for ridge fits, deviance also for weighted fits under either reading, dispersion also for weights summing to n, re-use of a GLM value for a second fit): whenever fit returns Ok the penalised score at the returned coefficients must have Newton decrement <= 100 tol max(D,1); Gaussian fits equal (weighted ridge) least squares; deviance, dispersion, covariance/standard errors, predictions, permutation invariance and Err-on-non-convergence are checked against the harness's own recomputation. " + X,
         "Only successful fits on problems whose MLE exists (by the harness's own damped scoring) are judged; the reported deviance/information may lag one scoring step (tolerated, made exact by replaying the previous iterate); penalised information for alpha>0 and weighted dispersion are outside the statement.", "4/C06"),
 "C07": ("proptest + enumerated monomial basis; exact dd antiderivatives, 21-member integrand catalogue with known max|f''|; measured evaluation counts in the rounding allowance",
         "Polynomial exactness (trapz deg<=1 for n=1..4096, Romberg k levels deg<=2k-1, quad5 deg<=9), linearity, limit swap, the (b-a)h^2/12 max|f''| bound, Romberg tolerance (100 tau) on a resolved catalogue and on degree<=5 polynomials built to make the two coarsest estimates coincide, Romberg exactness also on polynomials built to vanish on the coarse nodes (bit-exact ties), sample-array trapezoid against dd sums incl. dyadic grids with displaced interior nodes; the integrand handed to the rules is NaN outside the interval of integration. " + X,
         "Catalogue intervals are restricted to resolved (non-aliasing) ranges, as any adaptive rule can be fooled by many-period integrands.", "4/C07"),
 "C08": ("proptest over 9 data classes + enumerated lengths 1..40; exact rational (i128) / dd definitions; kappa-scaled a-priori bounds; shift/scale metamorphic relations",
         "32 sub-checks: each statistic (free function, Vector and Matrix wrappers; covariances also with the same slice passed twice) against its definition in exact integer or double-double arithmetic within the bound of a stable algorithm, plus shift invariance (offsets to 1e8 sd), scaling (data grids 2^-70..2^20, factors 2^-40..2^10), first-occurrence indices and non-uniform bin centres. " + X,
         "Bounds carry 8x slack over the proven worst case of an updating algorithm; a formula needing kappa^2 eps fails on offset data by design.", "4/C08"),
 "C09": ("stratified (quick) / exhaustive-f32 (thorough) sweeps on 16 threads against glibc tgamma/erf, own dd digamma, exact factorials; identities",
         "gamma (positive, reflection with pole-proximity scaling, recurrence, factorial), beta (value, symmetry; also the complete quarter-integer grid below 80), digamma (value, recurrence, harmonic numbers), erf (value 1.5e-7, odd, bounded). Thorough enumerates every f32 argument in the stated ranges (8e9 evaluations); quick a stratified 1.8e7 subsample incl. neighbourhoods of integers, half-integers, 143 and 171.",
         "Trusts glibc tgamma/lgamma/erf to a few ulp; arguments within 1e-6|x| of a pole are skipped and counted.", "4/C09"),
 "C10": ("trajectory reconstruction: objectives as serialisable expression trees interpreted over reverse::Var (library) and forward-mode duals (reference); published Adam/SGD recurrences for every budget k; LM descent / linear-model / covariance oracles",
         "For every budget k = 0..k_max the library's k-th iterate must equal the published recurrence (Kingma-Ba Adam with bias correction; plain, momentum, Nesterov SGD) within 1e-10(1+|x|) on prefixes where six perturbed shadow references agree (chaotic continuations truncated, never failed); early stopping only once the reference has stopped changing relative to its own size (oscillating, sign-flip, tiny-gradient and tiny-scale classes); determinism bit-exact (also for clones); Adam::default() / with_stepsize equal Adam::new with the documented Kingma-Ba defaults; budgets beyond 200 (400..800 quick, to 2000 thorough) with slow first-moment decay; LM: RSS never above the start, least-squares solution reached on linear models (basis columns scaled 0.01..1000, cond(J'J) <= 1e9, gradient tolerance 1e-12 and the default 1e-6) within 100 steps, covariance s^2 (J'J)^-1. " + X,
         "Objectives avoid two defects of the `reverse` dependency (f64/Var derivative weight, powi(0)); about 12 % of trajectory prefixes are truncated by the chaos gate.", "4/C10"),
 "C11": ("exhaustive permutation matrices of order <=6 + proptest matrix classes; dd reconstruction bounds, Bareiss exact determinant, inversion-count sign",
         "Cholesky structure/reconstruction/rejection of non-PD input (SPD classes incl. nearly dependent coordinate pairs and one tiny eigenvalue at cond 2e6..8e7), LU permutation/|l|<=1/reconstruction, slice-vs-Matrix identity, det sign and value (exact for integer matrices n<=12), triangular solves (right-hand sides with unit-vector / leading-zero / sparse patterns, zeros inside the triangle). Exhaustive on the 873 permutation matrices, sampled elsewhere.",
         "Rejection is only demanded for clearly non-PD input (lambda_min <= -1e-6 max|lambda|, non-positive diagonal, asymmetry >= 1e-3).", "4/C11"),
 "C12": ("exhaustive enumeration of small shape pairs + proptest random shapes + libFuzzer (thorough), bit-exact NumPy-broadcast reference model",
         "All 1296 shape pairs with dims 1..6 x 4 operators x 3 operand kinds x 4 ownership forms, and six large shapes (16k-90k elements) x 9 broadcast patterns, are enumerated in every run and compared bit for bit with an index-level reference model; larger shapes are sampled by proptest and by a coverage-guided libFuzzer campaign in the thorough tier. Exhaustive on the small space, sampling beyond it.",
         "Trusts IEEE f64 scalar arithmetic of the host and the panic-as-rejection convention; shapes above 6x6 are sampled, not enumerated.", "4/C12"),
 "C13": ("proptest over harness-simulated AR/trend/offset/integer series; dd autocovariance, own Toeplitz solver/condition estimate, impulse-response error amplification",
         "11 sub-checks: acovf/acf definitions, evenness, bounds, difference-of-cumsum, Yule-Walker residual, intercept, h-step forecasts against the dd recursion on the mean-centred history (training series and another history; models re-used after an earlier fit), predict_one, shift equivariance (s up to 1e6), convergence to the mean for fitted roots < 0.98. " + X,
         "AR tolerances (1e-9 kappa) are far above rounding and far below any rule change.", "4/C13"),
 "C14": ("proptest over degree/abscissa classes/noise; normal-equation residual in dd with Jacobi condition number, perturbation test, exact reproduction, coefficient-order check",
         "Fitted coefficients (fresh regressors and regressors re-used after an earlier fit) must make the residual orthogonal to all powers within (C_m kappa + 4n) eps scale, no perturbation may lower the RSS, noiseless data are reproduced, predict evaluates c0 + c1 x + ... in the right order; mismatched lengths panic. " + X,
         "Cases with cond(V'V) > 1e9 are regenerated with lower degree (counted).", "4/C14"),
 "C15": ("model-based testing: random programs of 28 structural ops in lock-step with a Vec<Vec<f64>> model (proptest, whole program shrinks) + exhaustive two-step programs; constructor and predicate oracles",
         "After every step all registers must satisfy nrows*ncols == len and equal the model bit for bit; impossible requests must panic, possible ones must not. 110848 enumerated two-step programs + random programs whose entries are also rescaled by 2^-300..2^200 (quick) + libFuzzer campaign (thorough); constructors (eye, diag, toeplitz, vandermonde, design, linspace, arange, rotations) and predicates (square, symmetric, triangular, design, close_to incl. opposite signs at any magnitude, ==) by definition. " + X,
         "Predicates are not judged inside their own tolerance band; triangular predicates only on square matrices.", "4/C15"),
 "C16": ("proptest over knot grids/ordinate classes/targets incl. +-1 ulp around knots and beyond both ends; dd chord/extrapolation oracle; mode-by-side sub-checks",
         "Knot exactness (a zero knot is also asked for with the zero of the other sign), chord within 4 eps(|yi|+|yi+1|), Panic/Fill/Extrapolate on the left and on the right (fill values bit-identical), no panic in range, output order, checked variant rejects unsorted abscissae (down to one-ulp descents and tiny scales) and length mismatch; libFuzzer campaign in the thorough tier. " + X,
         "Domain: <= 200 knots, |x| <= 1e15, non-zero |y| in [1e-200,1e200], spacing ratio <= 1e6.", "4/C16"),
 "C17": ("stratified / exhaustive-f32 sweeps for logistic/logit, proptest for softmax and Box-Cox, exhaustive u128 oracle for binomial coefficients n<=67",
         "logistic range/monotone/reflection/logit round trip (relative bound in the lower tail), logit rejection, softmax finite/sum/order/shift/value for entries in +-1e4, Box-Cox against expm1(lambda ln x)/lambda incl. |lambda|<1e-8 and shifted domain, binom_coeff exact whenever it fits u64 with symmetry and Pascal. Exhaustive for (n,k), n<=67; thorough enumerates every f32 in +-745 and [0,1].",
         "Binomial values that do not fit in 64 bits are outside the statement.", "4/C17"),
 "C18": ("model-based testing: histories of constructor/setter/update ops with valid and invalid targets vs a freshly constructed twin (bit-exact pdf/mean/var/seeded streams); exhaustive class grid + proptest per distribution",
         "13 distributions x (exhaustive grid of all single and ordered-pair mutations by target class + random histories up to 20 (60) ops): valid targets must succeed, invalid must panic, object must equal its twin after every step, seeded sampling reproducible regardless of other objects, bulk sample_n / sample_matrix of up to 300000 draws reproducible from the seed, NaN treated alike by constructor / setter / update, Default::default() objects in-domain, draws of an interval law after a rejected update have positive density under the object itself; every history runs on a watched thread (a history that does not terminate is a violation, not a time-out); libFuzzer campaign over byte-decoded histories in the thorough tier. " + X,
         "A rejected bulk update of a two-parameter law is only required to leave an in-domain object; identical panics on object and twin count as identical behaviour.", "4/C18"),
 "C19": ("enumerated lengths 1..40 x data classes x seeds + proptest; bit-pattern multiset/pairing oracles; Bernstein/DKW position-uniformity bounds at alpha=1e-12",
         "bootstrap count/length/membership and per-position uniformity (pooled, and separately for the first and last slot of the resamples), data incl. NaN of both signs, jackknife exact leave-one-out, shuffle multiset, shuffle_two common permutation (pair multiset), 5000 (thorough 100000) seeds each at the longest listed length for rare random events, mismatch panic; every length from 1. " + X,
         "Uniformity can only reject deviations larger than the Bernstein/DKW band of the pooled draws.", "4/C19"),
 "C20": ("proptest scalar triples and point sets for RBF/RQ; dd closed forms, delta-expansion entry bound, cyclic Jacobi smallest eigenvalue + dd quadratic forms",
         "Scalar symmetry, variance at zero, bounds, monotonicity in distance, closed form; matrix form shape and entry-by-entry agreement with the scalar form; Gram matrix symmetric within 4 eps (1+|ln(K/var)|) and PSD within the expansion's rounding bound; constructors reject non-positive parameters. " + X,
         "Point sets whose expansion error delta > 1e-3 would only be checked for shape/finiteness (never occurred).", "4/C20"),
}

def main():
    props = [json.loads(l) for l in open(os.path.join(ROOT, "properties.jsonl"))]
    checks = []
    for p in props:
        pid = p["id"]
        if pid not in CHECKS:
            continue
        tech, text, note, ref = CHECKS[pid]
        checks.append({
            "property_id": pid,
            "quick_cmd": f"bin/check {pid} quick",
            "thorough_cmd": f"bin/check {pid} thorough",
            "evidence_file": f"/verif/evidence/{pid}.json",
            "replay_cmd_template": "bin/check replay {path}",
            "engine": "vcheck",
            "level_claimed": {"category": "exploration", "text": text, "design_ref": "DESIGN.md section " + ref},
            "level_note": note,
            "technique": tech,
        })
    na = []
    for p in props:
        if p["id"] not in CHECKS:
            na.append({"property_id": p["id"], "reason": "not claimed yet: the check for this property is still under construction (the technique applies; see DESIGN.md section 7)"})
    m = {
        "version": 1,
        "setup_cmd": "cd harness && CARGO_NET_OFFLINE=true cargo build --release --offline",
        "hooks": {
            "guard": "compute_verif",
            "enable": "no hooks are needed: every property is observable through the public API; the harness depends on /repo by path and rebuilds it from the working tree",
            "baseline_off_cmd": "cd /repo && cargo test --workspace --no-fail-fast --offline",
            "source_commits": [],
            "add_only": True,
        },
        "engines": [
            {"name": "vcheck", "path": "harness", "serves_properties": sorted(CHECKS.keys()),
             "kind_free_text": "Rust binary driving proptest 1.11 strategies, exhaustive enumerators and a parallel statistical driver against independent oracles (double-double arithmetic, exact integer models, reference models); shrinks failures to replay files"},
        ],
        "checks": checks,
        "notes": "bin/check <ID> <tier> rebuilds harness + /repo working tree, runs regress/<ID>/*.json replays first, then generated cases; VERIF_SEED selects the PRNG stream. Exit 2 = inconclusive (watchdog of the whole run, failed oracle self-test, fuzz build or time-out problems) and is never a violation; the one exception to 'time is not a verdict' is a single library call or history that does not come back (C03: 30 s without progress, C18: 45 s twice), which is reported as a violation with its replay file.",
        "not_applicable": na,
    }
    json.dump(m, open(os.path.join(ROOT, "MANIFEST.json"), "w"), indent=1)
    print("wrote MANIFEST.json with", len(checks), "checks")

if __name__ == "__main__":
    main()
