#!/bin/sh
# Development helper only (nothing registered in MANIFEST.json uses it). Needs a scratch clone of /repo at /tmp/repo_fixed
# (git clone /repo /tmp/repo_fixed) and builds in /tmp/hw/<workspace>; both are removed at the end of a session.
# tools/try_fixed.sh <workspace> <ID> [tier] [seed] — development helper: run the current /verif/harness sources against
# /tmp/repo_fixed (a clone whose tree equals /repo HEAD) without touching /repo (which may have a seed applied).
WS=$1; ID=$2; TIER=${3:-quick}; SEED=${4:-20260926}
W=/tmp/hw/$WS
[ -d $W ] || /verif/tools/mkwork.sh $WS >/dev/null 2>&1
rsync -a --delete ${VCHECK_SRC:-/verif/harness/src}/ $W/src/
rsync -a --delete /verif/regress/ $W/root/regress/
cp /verif/known_findings.json $W/root/
$W/run.sh fixed $ID $TIER $SEED
