#!/bin/sh
# tools/seed_keep.sh <ID> [base-repo] [candidate-root] [tag] — confirm every candidate /tmp/seed/out/<ID>/<k> with seed_verify.sh and keep the
# confirmed ones as /verif/seeded/<ID>-<k>/ (patch.diff, demo.rs, notes.md, meta.json with the confirmation record).
ID=$1; BASE=${2:-/repo}; SRC=${3:-/tmp/seed/out}; TAG=${4:-}
for d in $SRC/$ID/[0-9]*; do
  k=$(basename $d)
  [ -f $d/patch.diff ] && [ -f $d/demo.rs ] || continue
  OUT=$(/verif/tools/seed_verify.sh $d $BASE 2>&1 | head -1)
  echo "$ID-$TAG$k: $OUT"
  case "$OUT" in CONFIRMED*)
    T=/verif/seeded/$ID-$TAG$k; mkdir -p $T
    cp $d/patch.diff $d/demo.rs $T/; [ -f $d/notes.md ] && cp $d/notes.md $T/
    python3 - "$ID" "$TAG$k" "$OUT" "$BASE" <<'PY'
import json,sys,os,subprocess
pid,k,out,base=sys.argv[1:5]
t=f"/verif/seeded/{pid}-{k}"
notes=open(f"{t}/notes.md").read() if os.path.exists(f"{t}/notes.md") else ""
head=subprocess.run(["git","-C",base,"rev-parse","--short","HEAD"],capture_output=True,text=True).stdout.strip()
meta={"id":f"{pid}-{k}","property":pid,
 "origin":"independent sub-agent given only the property text and a scratch worktree (nothing from /verif)",
 "what_it_needs_to_manifest":"see notes.md (written by the author of the change)",
 "confirmed":{"by":"tools/seed_verify.sh in a scratch worktree","base_tree":f"{base}@{head}",
   "clean_tree":"demo.rs passes","patched_tree":"crate builds; 66 unit + 3 doc tests pass; demo.rs fails","result":out},
 "checks_run":[]}
old=f"{t}/meta.json"
if os.path.exists(old):
    try: meta["checks_run"]=json.load(open(old)).get("checks_run",[])
    except Exception: pass
json.dump(meta,open(old,"w"),indent=1)
PY
  ;; esac
done
