#!/bin/sh
# tools/mkwork.sh <name>  — scratch workspace for developing a property module outside /verif and /repo.
#   /tmp/hw/<name>/src        copy of /verif/harness/src (edit here)
#   /tmp/hw/<name>/{fixed,orig,mut}/  harness crates sharing src/, depending on
#        /tmp/repo_fixed (all planned fixes applied), /repo (unchanged tree), /tmp/hw/<name>/repo_mut (yours to mutate)
#   /tmp/hw/<name>/root       --root directory (regress/, evidence/, replays/, known_findings.json)
#   /tmp/hw/<name>/run.sh <fixed|orig|mut> <ID> <quick|thorough> [seed]     build + run
#   /tmp/hw/<name>/run.sh <fixed|orig|mut> replay <FILE>
set -e
N=$1
W=/tmp/hw/$N
rm -rf "$W"; mkdir -p "$W/root/regress" "$W/root/evidence"
cp -r /verif/harness/src "$W/src"
cp /verif/known_findings.json "$W/root/"
[ -d /verif/regress ] && cp -r /verif/regress/. "$W/root/regress/" 2>/dev/null || true
rsync -a --exclude target --exclude .git /tmp/repo_fixed/ "$W/repo_mut/"
(cd "$W/repo_mut" && git init -q && git add -A && git commit -qm base) 
for v in fixed orig mut; do
  mkdir -p "$W/$v/.cargo"
  case $v in fixed) P=/tmp/repo_fixed;; orig) P=/repo;; mut) P=$W/repo_mut;; esac
  sed "s#path = \"/repo\"#path = \"$P\"#" /verif/harness/Cargo.toml > "$W/$v/Cargo.toml"
  cp /verif/harness/Cargo.lock "$W/$v/Cargo.lock"
  cp /verif/harness/.cargo/config.toml "$W/$v/.cargo/config.toml"
  ln -s ../src "$W/$v/src"
done
cat > "$W/run.sh" <<EOS
#!/bin/sh
V=\$1; shift
cd $W/\$V || exit 2
if ! CARGO_NET_OFFLINE=true cargo build --release --offline >build.log 2>&1; then echo "BUILD FAILED"; grep -E "^(error|warning: unused)" -A 14 build.log | head -120; exit 2; fi
if [ "\$1" = "replay" ]; then exec ./target/release/vcheck --replay "\$2" --root $W/root; fi
SEED=\${3:-20260926}
exec ./target/release/vcheck --property "\$1" --tier "\${2:-quick}" --seed "\$SEED" --root $W/root
EOS
chmod +x "$W/run.sh"
echo "workspace $W ready"
