#!/bin/sh
# tools/preserve_run.sh <preserving-dir> [tier]
# False-alarm test with a behaviour-preserving change (written by an independent sub-agent that saw only the
# property text): apply it to /repo, check that the crate builds and the pinned suite passes, run the property's
# own check — which must stay silent (exit 0) — undo the change, and record the outcome in <dir>/meta.json.
D=$(cd "$1" && pwd); TIER=${2:-quick}
ID=$(basename "$D" | cut -d- -f1)
ROOT=$(cd "$(dirname "$0")/.." && pwd)
if [ -n "$(git -C /repo status --porcelain --untracked-files=no)" ]; then echo "/repo has uncommitted changes; refusing"; exit 2; fi
if ! git -C /repo apply "$D/patch.diff" 2>/dev/null; then
  echo "$(basename $D): patch does not apply to /repo HEAD"
  python3 - "$D" <<'PY'
import json,sys,subprocess
d=sys.argv[1]
head=subprocess.run(["git","-C","/repo","rev-parse","--short","HEAD"],capture_output=True,text=True).stdout.strip()
json.dump({"id":d.split("/")[-1],"property":d.split("/")[-1].split("-")[0],"origin":"independent sub-agent given only the property text and a scratch worktree","result":"not applicable: the patch no longer applies to /repo@"+head+" (it overlaps a later fix: commit)"},open(d+"/meta.json","w"),indent=1)
PY
  exit 0
fi
SUITE=$(cd /repo && cargo test --offline --no-fail-fast 2>&1 | grep "^test result" | tr '\n' ' ')
OUT=$("$ROOT/bin/check" $ID $TIER 2>&1); RC=$?
SIGS=$(echo "$OUT" | grep "signature=" | sed 's/ *signature=\([^ ]*\) ::.*/\1/' | sort -u | tr '\n' ' ')
LAST=$(echo "$OUT" | tail -n 1)
git -C /repo checkout -- .
echo "$(basename $D): suite [$SUITE] check $ID $TIER exit=$RC $SIGS"
python3 - "$D" "$ID" "$TIER" "$RC" "$SIGS" "$LAST" "$SUITE" <<'PY'
import json,sys,subprocess,datetime
d,pid,tier,rc,sigs,last,suite=sys.argv[1:8]
head=subprocess.run(["git","-C","/repo","rev-parse","--short","HEAD"],capture_output=True,text=True).stdout.strip()
vh=subprocess.run(["git","-C","/verif","rev-parse","--short","HEAD"],capture_output=True,text=True).stdout.strip()
json.dump({"id":d.split("/")[-1],"property":pid,
 "origin":"independent sub-agent given only the property text and a scratch worktree; asked for a realistic change under which the property remains true (argument in notes.md)",
 "suite_with_change":suite,
 "check_run":{"check":pid,"tier":tier,"command":f"git -C /repo apply {d}/patch.diff && bin/check {pid} {tier}; git -C /repo checkout -- .",
   "exit":int(rc),"silent":int(rc)==0,"signatures":sigs.split(),"summary":last,"repo_head":head,"verif_commit":vh,
   "date":datetime.datetime.now().isoformat(timespec="seconds")}},open(d+"/meta.json","w"),indent=1)
PY
