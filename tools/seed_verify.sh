#!/bin/sh
# tools/seed_verify.sh <candidate-dir> [base-repo]
# Independently confirm a candidate seeded change (patch.diff + demo.rs) in a scratch worktree of
# <base-repo> (default /repo): clean tree => demo passes; patched tree => crate builds, the pinned
# suite (66 unit + 3 doc tests) passes, the demo fails. Prints CONFIRMED or the reason it is rejected.
# The worktree and its build output are removed afterwards.
D=$(cd "$1" && pwd); BASE=${2:-/repo}
W=$(mktemp -d /tmp/seedverify.XXXXXX); rmdir "$W"
git -C "$BASE" worktree add -q --detach "$W" HEAD || { echo "REJECT cannot create worktree"; exit 2; }
cleanup() { git -C "$BASE" worktree remove --force "$W" 2>/dev/null; rm -rf "$W"; }
trap cleanup EXIT
cd "$W" || exit 2
export CARGO_NET_OFFLINE=true CARGO_TARGET_DIR="$W/target"
mkdir -p tests && cp "$D/demo.rs" tests/demo.rs
if ! cargo test --offline --test demo >"$W/clean.log" 2>&1; then echo "REJECT demo fails on the clean tree"; tail -n 15 "$W/clean.log"; exit 1; fi
if ! git apply "$D/patch.diff" 2>"$W/apply.log"; then echo "REJECT patch does not apply"; cat "$W/apply.log"; exit 1; fi
cargo test --offline --no-fail-fast >"$W/patched.log" 2>&1
# the repository's distribution moment tests (t, pareto, exponential, ...) are randomly flaky even on the
# unchanged tree: if the only failures of the unit suite are `*::tests::test_moments`, rerun (up to 4 times)
for try in 1 2 3 4; do
  LIBFAILS=$(awk '/Running unittests src\/lib.rs/{f=1} /Running tests\/demo.rs/{f=0} f&&/^test .* \.\.\. FAILED/{print $2}' "$W/patched.log")
  [ -z "$LIBFAILS" ] && break
  if echo "$LIBFAILS" | grep -qv "::tests::test_moments$"; then break; fi
  cargo test --offline --no-fail-fast >"$W/patched.log" 2>&1
done
LIBLINE=$(grep -m1 "^test result:" "$W/patched.log")
case "$LIBLINE" in *"66 passed; 0 failed"*) ;; *) echo "REJECT unit suite does not pass with the change: $LIBLINE"; grep "FAILED" "$W/patched.log" | head; exit 1;; esac
if ! grep -q "Doc-tests" "$W/patched.log"; then :; fi
DOCLINE=$(grep "^test result:" "$W/patched.log" | tail -1)
case "$DOCLINE" in *"0 failed"*) ;; *) echo "REJECT doc tests fail with the change: $DOCLINE"; exit 1;; esac
# the demo must fail
if awk '/Running tests\/demo.rs/{f=1} f&&/^test result:/{print; exit}' "$W/patched.log" | grep -q "FAILED"; then
  echo "CONFIRMED $(awk '/Running tests\/demo.rs/{f=1} f&&/^test result:/{print; exit}' "$W/patched.log")"
  exit 0
fi
echo "REJECT demo does not fail with the change"; awk '/Running tests\/demo.rs/{f=1} f' "$W/patched.log" | head -20; exit 1
