#!/bin/sh
# tools/seed_try.sh <candidate-dir> <ID> [tier]  — development helper: run a check against a scratch copy of the fixed
# tree (/tmp/hw/me/repo_mut) with the candidate patch applied, using the current /verif/harness sources.
D=$1; ID=$2; TIER=${3:-quick}
W=/tmp/hw/me
rsync -a --delete /verif/harness/src/ $W/src/
rsync -a --delete --exclude target --exclude .git /tmp/repo_fixed/ $W/repo_mut/
(cd $W/repo_mut && git apply "$D/patch.diff") || { echo "patch does not apply"; exit 2; }
$W/run.sh mut $ID $TIER; RC=$?
rsync -a --delete --exclude target --exclude .git /tmp/repo_fixed/ $W/repo_mut/
echo "exit=$RC"
