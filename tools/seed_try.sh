#!/bin/sh
# Development helper only (nothing registered in MANIFEST.json uses it). Needs a scratch clone of /repo at /tmp/repo_fixed
# (git clone /repo /tmp/repo_fixed) and builds in /tmp/hw/<workspace>; both are removed at the end of a session.
# tools/seed_try.sh <workspace> <candidate-dir> <ID> [tier]  — development helper: run a check against a scratch copy of
# the current /repo HEAD (/tmp/hw/<workspace>/repo_mut) with the candidate patch applied, using the current /verif/harness sources.
WS=$1; D=$(cd "$2" && pwd); ID=$3; TIER=${4:-quick}
W=/tmp/hw/$WS
[ -d $W ] || /verif/tools/mkwork.sh $WS >/dev/null 2>&1
SRC=${VCHECK_SRC:-/verif/harness/src}; [ -z "$VCHECK_SRC" ] && [ -d /tmp/hw/src_frozen ] && SRC=/tmp/hw/src_frozen   # a frozen copy lets long batches run while the sources are edited
rsync -a --delete $SRC/ $W/src/
rsync -a --delete /verif/regress/ $W/root/regress/
cp /verif/known_findings.json $W/root/
rm -rf $W/repo_mut.tmp; git -C /repo worktree prune; rsync -a --delete --exclude target --exclude .git /tmp/repo_fixed/ $W/repo_mut/   # /tmp/repo_fixed has the same tree as /repo HEAD (checked with diff -r); /repo itself may have a seed applied by an official run
(cd $W/repo_mut && git apply "$D/patch.diff") || { echo "patch does not apply"; exit 2; }
$W/run.sh mut $ID $TIER; RC=$?
echo "exit=$RC"
