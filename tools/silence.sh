#!/bin/sh
# tools/silence.sh <tier> <seed>...   run every registered check for each seed, print one line per run (exit code + summary)
TIER=$1; shift
ROOT=$(cd "$(dirname "$0")/.." && pwd)
for s in "$@"; do
  for id in C01 C02 C03 C04 C05 C06 C07 C08 C09 C10 C11 C12 C13 C14 C15 C16 C17 C18 C19 C20; do
    OUT=$(VERIF_SEED=$s "$ROOT/bin/check" $id $TIER 2>&1); RC=$?
    echo "seed=$s $id rc=$RC $(echo "$OUT" | tail -n 1)"
    [ $RC -ne 0 ] && echo "$OUT" | grep -E "VIOLATION|signature=|INCONCLUSIVE" | cut -c1-400
  done
done
