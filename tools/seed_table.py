#!/usr/bin/env python3
"""Insert the table of seeded changes (from seeded/*/meta.json) into DESIGN.md between the SEED-TABLE markers."""
import json,glob,os,re
REMARK={"C02-r3-1":"accepted by design: value at the end point of an open support interval (section 8.5)",
        "C03-r4-2":"state after a rejected call is C18's clause (section 8.5)",
        "C10-r2-3":"reported on the tree before F41; since the F41 repair the change no longer breaks the property (the acceptance test cannot see a NaN ratio any more) and its demonstration passes"}
rows=[]
for d in sorted(glob.glob("/verif/seeded/C*-*")):
    m=json.load(open(d+"/meta.json"))
    notes=open(d+"/notes.md").read() if os.path.exists(d+"/notes.md") else ""
    title=next((l.strip("# ").strip() for l in notes.splitlines() if l.strip()),"")[:110]
    runs=m.get("checks_run",[])
    own=[r for r in runs if r["check"]==m["property"]]
    latest=own[-1] if own else None
    others=[r for r in runs if r["check"]!=m["property"] and r.get("caught")]
    caught="not run" if not latest else (("caught ("+latest["tier"]+")") if latest["caught"] else "not reported")
    if m["id"] in REMARK: caught+=" — "+REMARK[m["id"]]
    sigs=", ".join(latest["signatures"][:3]) if latest else ""
    if latest and len(latest["signatures"])>3: sigs+=f", … ({len(latest['signatures'])})"
    extra="; also "+", ".join(sorted({r['check'] for r in others})) if others else ""
    rows.append(f"| {m['id']} | {title} | {caught}{extra} | {sigs} |")
tab="| Seed | Change (first line of the author's notes) | Own check | Signatures reported |\n|---|---|---|---|\n"+"\n".join(rows)
p="/verif/DESIGN.md"; s=open(p).read()
s=re.sub(r"<!-- SEED-TABLE-BEGIN -->.*?<!-- SEED-TABLE-END -->","<!-- SEED-TABLE-BEGIN -->\n"+tab+"\n<!-- SEED-TABLE-END -->",s,flags=re.S)
krows=[]
for d in sorted(glob.glob("/verif/preserving/C*-*")):
    if not os.path.exists(d+"/meta.json"): continue
    m=json.load(open(d+"/meta.json"))
    notes=open(d+"/notes.md").read() if os.path.exists(d+"/notes.md") else ""
    title=next((l.strip("# ").strip() for l in notes.splitlines() if l.strip()),"")[:120]
    if "check_run" in m:
        r=m["check_run"]; res=("silent ("+r["tier"]+")") if r["silent"] else "ALARM: "+", ".join(r["signatures"][:3])
    else:
        res=m.get("result","not run")
    krows.append(f"| {m['id']} | {title} | {res} |")
ktab="| Change | First line of the author's notes | Own check |\n|---|---|---|\n"+"\n".join(krows)
s=re.sub(r"<!-- KEEP-TABLE-BEGIN -->.*?<!-- KEEP-TABLE-END -->","<!-- KEEP-TABLE-BEGIN -->\n"+ktab+"\n<!-- KEEP-TABLE-END -->",s,flags=re.S)
open(p,"w").write(s); print(len(rows),"seeds",len(krows),"preserving")
