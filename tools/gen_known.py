#!/usr/bin/env python3
"""Regenerate /verif/known_findings.json: one entry per root cause; commit hashes are looked up in /repo by subject."""
import json, subprocess
log = subprocess.run(["git","-C","/repo","log","--format=%h\t%s"],capture_output=True,text=True).stdout.strip().split("\n")
def commit(prefix):
    for l in log:
        h,s=l.split("\t",1)
        if s.startswith("fix: "+prefix): return h
    return None
# F, property (primary; others), subject prefix, signatures seen on the unchanged tree, what failed
T=[
("F1","C01","solve, solve_sys and invert_matrix fall back",["C01/solve/nonfinite","C01/solve_sys/nonfinite","C01/invert_matrix/nonfinite"],"solve/solve_sys/invert_matrix route symmetric matrices with positive diagonal to Cholesky: A=[[1,2],[2,1]] gives NaN"),
("F2","C02","Normal::var",["C02/Normal/var"],"Normal(0,2).var() = 2 (sigma instead of sigma^2)"),
("F3","C02","Student's t density",["C02/T/pdf/value","C02/T/mass","C02/T/var-vs-density"],"T(3).pdf(1) = 0.2757 (0.2067): exponent -(dof-1)/2"),
("F4","C02","Pareto density",["C02/Pareto/pdf/value","C02/Pareto/mass","C02/Pareto/mean-vs-density","C02/Pareto/var-vs-density"],"Pareto(2,1).pdf(2) = 1 (0.25): divides by x^(alpha-1)"),
("F5","C02","Gumbel variance",["C02/Gumbel/var"],"Gumbel::var uses pi instead of pi^2/6"),
("F6","C02","Poisson::pmf divides",["C02/Poisson/pmf/value","C02/Poisson/pmf/not-finite","C02/Poisson/mass","C02/Poisson/mean-vs-density","C02/Poisson/var-vs-density"],"Poisson pmf(0) = 0 (divides by Gamma(k)) and NaN for rates >~ 150"),
("F7","C02","Binomial::pmf returns 0 outside",["C02/Binomial/outside-support/panic"],"Binomial pmf(-1), pmf(n+1) panic instead of returning 0"),
("F8","C02","Binomial::pmf works for n > 67",["C02/Binomial/pmf/value","C02/Binomial/pmf/panic"],"Binomial(100,.5).pmf(50) = 0; n = 1000 panics (integer coefficient overflow)"),
("F9","C02","DiscreteUniform::mean",["C02/DiscreteUniform/mean"],"DiscreteUniform(0,1).mean() = 0 (integer division)"),
("F10","C03","Gamma sampler handles shape < 1",["C03/Gamma/shape<1/3/hang","C03/Beta/shape<1/3/hang","C03/T/dof<2/3/hang","C03/Gamma/shape<1/dkw","C03/Beta/shape<1/dkw","C03/ChiSquared/dof=1/dkw","C03/T/dof<2/dkw"],"Gamma::sample hangs for shape < 1/3 and draws from the wrong law for shape < 1 (beta, chi-squared(1), t(dof<2) inherit it)"),
("F11","C03","Poisson sampler evaluates",["C03/Poisson/rate>=100/dkw"],"Poisson::sample wrong for rates >~ 130 (overflowing gamma in the acceptance test): variance 147 at rate 200"),
("F12","C03, C19","DiscreteUniform::sample supports equal bounds",["C03/DiscreteUniform/equal-bounds/panic","C19/bootstrap/panic/len=1","C19/shuffle/panic/len=1","C19/shuffle_two/panic/len=1"],"DiscreteUniform(3,3).sample() panics; bootstrap/shuffle/shuffle_two of one element panic"),
("F13","C05","matmul with both transpose flags",["C05/matmul/flags=TT/value","C05/matmul/flags=TT/panic","C05/Dot/Matrix.Matrix/t_dot_t/value","C05/Dot/Matrix.Matrix/t_dot_t/panic"],"matmul(.., true, true) computes (A.B)^T: wrong values or index panic on 215 of 216 small shapes; Matrix::t_dot_t inherits it"),
("F14","C05","matmul and matmul_blocked reject",["C05/matmul/nonconformable/missing-panic","C05/matmul_blocked/nonconformable/missing-panic"],"matmul / matmul_blocked return a value for non-conformable operands (2x2 times 3x2)"),
("F15","C06","GLM ridge penalty gradient",["C06/score/Gaussian/ridge","C06/score/Bernoulli/ridge","C06/score/QuasiPoisson/ridge","C06/score/Poisson/ridge","C06/score/Gamma/ridge","C06/score/Exponential/ridge","C06/ls/Gaussian/ridge"],"ridge term added to the gradient without its strength: every alpha > 0 yields the alpha = 1 fit"),
("F16","C06","Gaussian deviance",["C06/deviance/Gaussian","C06/dispersion/Gaussian","C06/stderr/Gaussian"],"Gaussian deviance is ||y-mu|| instead of ||y-mu||^2 (dispersion and standard errors wrong)"),
("F17","C07","trapz counts",["C07/trapz/affine-exact","C07/swap-limits/trapz","C07/trapz/error-bound"],"trapz counts the left end point with weight 3/2: integral of 1 over [0,1] with 10 panels = 1.1"),
("F18","C08","sample_covariance_online",["C08/covariance/online"],"sample_covariance_online: 1.0833 instead of 1 on x = y = (0,1,2)"),
("F19","C08","hist_bin_centers",["C08/hist_bin_centers"],"hist_bin_centers only right for uniform edges: (0,1,3,7) -> (.5,1.5,3.5)"),
("F20","C09, C02, C03","gamma no longer overflows",["C09/gamma/positive","C09/gamma/reflection","C09/gamma/recurrence","C09/gamma/factorial","C09/beta/value","C02/Gamma/pdf/value","C02/Beta/pdf/not-finite","C02/ChiSquared/pdf/value","C02/T/pdf/not-finite","C02/Gamma/mass","C02/Gamma/mean-vs-density","C02/Gamma/var-vs-density"],"gamma(x) = inf for x >~ 143.3 (finite up to 171.6), -0 by reflection, beta = 0 for a+b >~ 143"),
("F21","C10","Adam and SGD only stop early",["C10/early-stop/sgd","C10/early-stop/adam"],"Adam/SGD convergence test compares |x| with |x_prev|: SGD(0.5) on 2x^2 from 1 returns -1 for every k"),
("F22","C11","cholesky rejects",["C11/cholesky/slice/non-pd-accepted","C11/cholesky/Matrix/non-pd-accepted"],"cholesky (both forms) returns NaN factors for symmetric indefinite input with positive diagonal"),
("F23","C11, C02","ipiv_parity",["C11/Matrix.det/sign","C11/Matrix.lu_det/sign","C02/MVN/pdf/negative-or-not-finite","C02/MVN/lnpdf/value"],"ipiv_parity mis-counts transpositions: det of a 4-cycle permutation matrix = +1; MVN pdf NaN through the determinant"),
("F24","C13","AR forecasts",["C13/AR/predict/recursion","C13/AR/predict_one","C13/AR/shift/forecast","C13/AR/converges-to-mean"],"AR::predict / predict_one apply the recursion to raw instead of mean-centred values: shift by 1000 moves forecast by 1620"),
("F25","C15","Matrix::diag",["C15/program/diag/value"],"Matrix::diag of [[1,2,3],[4,5,6]] = (1,4)"),
("F26","C15","reshape_mut with an inferred dimension",["C15/program/reshape_mut/invariant","C15/program/new/invariant","C15/program/vec_reshape/invariant"],"reshape_mut(-1,c) / Matrix::new(v,-1,c) with c not dividing len: 9 elements -> 2x4"),
("F27","C15","arange keeps",["C15/ctor/arange/count"],"arange(0,1,0.3) = (0,.3,.6): count truncated"),
("F28","C15","close_to no longer",["C15/pred/close_to/opposite-sign"],"close_to equates 1 and -1"),
("F29","C16","interp1d_linear detects",["C16/right/Panic","C16/right/Fill"],"targets above the last abscissa are always extrapolated: Panic does not panic, Fill ignores its right value"),
("F30","C17","softmax subtracts",["C17/softmax/finite","C17/softmax/sum","C17/softmax/value","C17/softmax/shift"],"softmax((1000,1001,999)) = NaN (no max shift)"),
("F31","C17","boxcox_shifted requires",["C17/boxcox_shifted/value","C17/boxcox_shifted/rejects"],"boxcox_shifted asserts x > shift instead of x + shift > 0: (1,.5,2) panics, (-1,.5,-2) gives NaN"),
("F32","C18","ChiSquared::set_dof",["C18/ChiSquared/set_dof/stale-sampler"],"ChiSquared::set_dof / update keep the gamma sampler of the old dof"),
("F33","C18","Uniform and DiscreteUniform update()",["C18/Uniform/update/valid-rejected","C18/DiscreteUniform/update/valid-rejected"],"Uniform/DiscreteUniform update (0,1) -> (2,3) panics (lower validated against old upper)"),
("F34","C20","rational quadratic kernel",["C20/RQ/scalar/bounded","C20/RQ/scalar/monotone","C20/RQ/scalar/closed-form","C20/RQ/gram/psd"],"rational-quadratic kernel raises to +alpha: grows with distance, Gram matrices indefinite"),
("F35","C10","Levenberg-Marquardt scales",["C10/lm/linear-reaches-ls"],"LM assigns instead of scales its damping after an accepted step: linear models not reached within the step budget"),
("F36","C08","sample_covariance_onepass",["C08/covariance/onepass"],"sample_covariance_onepass lacks the -sum(u)sum(v)/n term: 2.5 instead of 1 on x = y = (0,1,2)"),
("F37","C04","element-wise operations on an empty matrix",["C04/Matrix/empty/panic"],"every value-returning element-wise operator/map on Matrix::empty() panics 'invalid shape'"),
("F39","C01","solve and solve_sys take the Cholesky route only",["C01/solve/residual","C01/solve_sys/residual","C01/invert_matrix/residual"],"solve/solve_sys/invert_matrix: the routing's symmetry test has an absolute tolerance of EPSILON, so a tiny-scaled non-symmetric matrix (entries ~1e-17) is handed to Cholesky, which reads one triangle: solve(&[4e-17,1e-17,3e-17,3e-17],&[1,2]) returns the solution of the symmetrised system"),
("F41","C10","Levenberg-Marquardt accepts a step only",["C10/lm/descent"],"LM accepted any step with a positive gain ratio; with a (nearly) singular damped system the predicted reduction can be non-positive or non-finite, so an increase of the RSS over a negative prediction counted as a gain and optimize returned parameters worse than the start (gauss-peak, 139 points, tau = 1, budget 7: RSS 658 vs 183). Latent since the snapshot, masked there by the inconsistent predicted-reduction formula that F40 corrected; surfaced in a thorough run after F40"),
("F40","C10","Levenberg-Marquardt gain ratio",["C10/lm/linear-reaches-ls"],"LM computes the predicted reduction of its gain ratio for an unscaled damping term although the damping is mu*diag(JtJ): with basis columns of different size mu grows after accepted steps and the iteration stalls short of the least-squares solution whatever the budget (p0*0.01 + p1*x + p2*x^2 on 7 points: p0 = 0.0095217 instead of 0.0095238; 5 parameters / 120 points with column scales 0.01..1000: distance 0.57)"),
("F38","C06","GLM fit only reports convergence",["C06/score/premature-stop"],"GLM::fit returns Ok far from the optimum: the monitored quantity is non-monotone and its relative change dips below the tolerance (Bernoulli n=37 alpha=10 tol 6e-7: intercept 1.0412 vs 1.0677)"),
]
out=[]
for f,prop,pre,sigs,what in T:
    h=commit(pre)
    for i,s in enumerate(sigs):
        out.append({"finding":f,"property":s.split("/")[0],"signature":s,"status":"fixed" if h else "pending-fix","commit":h,"what":what,
                    "record":f"fixed: property={s.split('/')[0]} {h} {what}" if h else None})
doc={"comment":"Genuine defects of al-jshen/compute found by the checks (root causes F1..F41, one entry per signature under which a root cause was reported on the unchanged tree; logs in findings/*.before.txt, minimal reproductions in regress/<ID>/F*.json). status=open: reported as 'KNOWN-FINDING:' (exit 0) for exactly this signature; status=fixed: repaired by the named 'fix:' commit in /repo — suppresses nothing, the check reports the violation again if it returns. Never written at run time.",
 "findings":out}
json.dump(doc,open("/verif/known_findings.json","w"),indent=1)
print(len(out),"entries;",sum(1 for e in out if e["status"]!="fixed"),"not yet fixed")
