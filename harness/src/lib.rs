//! vcheck — property-based checks for al-jshen/compute (library part, shared with the fuzz targets).
#[macro_use]
pub mod engine;
pub mod oracle;
pub mod props;
