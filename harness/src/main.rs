//! vcheck — property-based checks for al-jshen/compute.
//!   vcheck --property C07 --tier quick|thorough [--seed N] --root /verif
//!   vcheck --replay FILE --root /verif
//! Exit codes: 0 held on everything explored; 1 violation (one `VIOLATION property=<id> replay=<path>`
//! line each); 2 inconclusive (watchdog, generator failure, bad usage).

use vcheck::engine::{self, report, Ctx, Tier};
use vcheck::props;
use std::path::PathBuf;
use std::sync::atomic::Ordering;

#[global_allocator]
static GLOBAL: engine::alloc::Poison = engine::alloc::Poison;

fn main() {
    let args: Vec<String> = std::env::args().collect();
    let mut property = String::new();
    let mut tier = match std::env::var("VERIF_TIER").ok().as_deref() {
        Some("thorough") => Tier::Thorough,
        _ => Tier::Quick,
    };
    let mut seed: u64 = std::env::var("VERIF_SEED").ok().and_then(|s| s.trim().parse::<i128>().ok()).map(|v| v as u64).unwrap_or(20260926);
    let mut root = PathBuf::from("/verif");
    let mut replay: Option<String> = None;
    let mut i = 1;
    while i < args.len() {
        match args[i].as_str() {
            "--property" => {
                property = args[i + 1].clone();
                i += 1;
            }
            "--tier" => {
                tier = if args[i + 1] == "thorough" { Tier::Thorough } else { Tier::Quick };
                i += 1;
            }
            "--seed" => {
                seed = args[i + 1].parse::<i128>().map(|v| v as u64).unwrap_or(seed);
                i += 1;
            }
            "--root" => {
                root = PathBuf::from(&args[i + 1]);
                i += 1;
            }
            "--replay" => {
                replay = Some(args[i + 1].clone());
                i += 1;
            }
            _ => {}
        }
        i += 1;
    }
    engine::silence_library_output();

    if let Some(file) = replay {
        std::process::exit(run_replay(&file, root));
    }
    if property.is_empty() {
        report("usage: vcheck --property <ID> --tier quick|thorough [--seed N] [--root DIR] | --replay FILE");
        std::process::exit(2);
    }
    let t = engine::Timer::start();
    engine::start_watchdog(if tier == Tier::Quick { 1500 } else { 4 * 3600 }, property.clone());
    let mut ctx = Ctx::new(&property, tier, seed, root);
    if !props::self_test() {
        report(&format!("INCONCLUSIVE property={} oracle self-test failed", property));
        std::process::exit(2);
    }
    ctx.replay_regress(&|c, sub, v| props::replay(c, sub, v));
    if !props::run(&mut ctx) {
        report(&format!("unknown property {}", property));
        std::process::exit(2);
    }
    let wall = t.secs();
    ctx.write_evidence(wall);
    for (sig, n) in &ctx.known_hits {
        let what = ctx.known.iter().find(|k| &k.signature == sig).map(|k| k.what.clone()).unwrap_or_default();
        report(&format!("KNOWN-FINDING: property={} {} [{}] ({} hits)", property, what, sig, n));
    }
    for v in &ctx.violations {
        report(&format!("VIOLATION property={} replay={}", property, v.replay));
        report(&format!("  signature={} :: {}", v.sig, v.what));
    }
    report(&format!(
        "{} {} seed={} evaluations={} distinct_nontrivial={} violations={} wall={:.1}s",
        property,
        if tier == Tier::Quick { "quick" } else { "thorough" },
        seed,
        ctx.evaluations,
        ctx.distinct_count(),
        ctx.violations.len(),
        wall
    ));
    if !ctx.violations.is_empty() {
        std::process::exit(1);
    }
    if engine::INCONCLUSIVE.load(Ordering::SeqCst) != 0 {
        std::process::exit(2);
    }
    std::process::exit(0);
}

fn run_replay(file: &str, root: PathBuf) -> i32 {
    let txt = match std::fs::read_to_string(file) {
        Ok(t) => t,
        Err(e) => {
            report(&format!("cannot read {}: {}", file, e));
            return 2;
        }
    };
    let doc: serde_json::Value = match serde_json::from_str(&txt) {
        Ok(v) => v,
        Err(e) => {
            report(&format!("cannot parse {}: {}", file, e));
            return 2;
        }
    };
    let property = doc["property"].as_str().unwrap_or("").to_string();
    let sub = doc["subcheck"].as_str().unwrap_or("").to_string();
    let mut ctx = Ctx::new(&property, Tier::Quick, doc["seed"].as_u64().unwrap_or(0), root);
    let r = engine::catch(std::panic::AssertUnwindSafe(|| props::replay(&mut ctx, &sub, doc["case"].clone())));
    match r {
        Ok(Some(Ok(()))) => {
            report(&format!("REPLAY property={} sub={} : property holds on this case", property, sub));
            0
        }
        Ok(Some(Err(f))) => {
            if ctx.is_open_known(&f.sig) {
                report(&format!("KNOWN-FINDING: property={} [{}] {}", property, f.sig, f.what));
                0
            } else {
                report(&format!("VIOLATION property={} replay={}", property, file));
                report(&format!("  signature={} :: {}", f.sig, f.what));
                1
            }
        }
        Ok(None) => {
            report(&format!("unknown subcheck {} for {}", sub, property));
            2
        }
        Err(msg) => {
            report(&format!("VIOLATION property={} replay={}", property, file));
            report(&format!("  harness panic: {}", msg));
            1
        }
    }
}
