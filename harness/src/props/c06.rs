//! C06 — GLM fitting returns the (penalised) MLE with correct inference.
//!
//! Public API exercised: `GLM::new(family)`, `set_penalty`, `set_tolerance`, `set_weights`, `set_offset`,
//! `fit(x, y, max_iter)` with `x` a row-major n×p design whose first column is all ones (the caller supplies
//! the intercept column, `p` counts it), then `coef()`, `deviance()`, `dispersion()`,
//! `coef_covariance_matrix()`, `coef_standard_error()`, `predict(x)`.
//!
//! Every sub-check draws a problem (family, design, weights, offsets, α, tolerance), simulates the responses
//! from the model with the harness's own simulators, calls `fit`, and — only when `fit` returns `Ok` —
//! evaluates one clause of the statement with quantities recomputed by the harness from the *returned
//! coefficients* (`oracle::glm_ref`). Sub-checks are separate proptest runs (clause × family) so that a
//! defect in one clause / family cannot hide the others:
//!
//!   score/<Fam>, score/<Fam>/ridge   (i)    Newton-decrement certificate of the penalised score equations
//!   ls/Gaussian, ls/Gaussian/ridge   (ii)   coefficients = explicit (weighted, ridge) least squares
//!   deviance/<Fam>                   (iii)  deviance() = Σ d(y, μ̂) (unweighted fits)
//!   dispersion/<Fam>                 (iv)   dispersion() = deviance/(n−p) or 1 (unweighted fits)
//!   stderr/<Fam>                     (v)    covariance = dispersion·(XᵀŴX)⁻¹, standard errors = √diag (α = 0)
//!   predict                          (vi)   predict(X') = g⁻¹(X'β + offset)
//!   permutation                      (vii)  row permutation (with weights and offsets) leaves β unchanged
//!   nonconvergence                   (viii) max_iter ∈ 1..=3: Err, or Ok with the certificate of (i)
//!
//! Tolerances (derivations next to each check): all are functions of the configured convergence tolerance
//! because the statement promises the score equations "to within the convergence tolerance". Clauses (iii)–(v)
//! are two-stage: a cheap comparison at the returned coefficients within a tolerance that covers the tolerated
//! "evaluated one scoring step behind", and — only if that fails — an exact comparison at the library's previous
//! iterate (recovered by replaying the call with smaller max_iter) within rounding.
//!
//! Signatures: `C06/<clause>/<Family>[/ridge]` (wrong value / wrong fixed point), `…/divisor`, `…/se-vs-cov`,
//! `…/coef`, `…/panic`, `C06/predict/offset`, `C06/permutation`, `C06/nonconvergence` and
//! `C06/score/premature-stop` (the iteration's fixed point is right but `fit` returned Ok before reaching it:
//! root cause = stopping rule, established by refitting with tolerance 1e-13).

use crate::engine::{self, catch, decode, fail, Ctx, Fail, Hx, R};
use crate::oracle::glm_ref::{self as gr, AtBeta, Problem, Rng, FAMS};
use compute::predict::{ExponentialFamily, GLM};
use proptest::prelude::*;
use serde::{Deserialize, Serialize};
use serde_json::{json, Value};
use std::sync::atomic::Ordering;

#[derive(Clone, Debug, Serialize, Deserialize)]
pub struct Case {
    /// 0 Gaussian, 1 Bernoulli, 2 QuasiPoisson, 3 Poisson, 4 Gamma, 5 Exponential
    pub fam: u8,
    pub n: usize,
    pub p: usize,
    /// class labels of the generator (design / weights / offsets / α / tolerance band) — histogram only
    pub cls: String,
    /// row-major n×p design, first column all ones
    pub x: Vec<f64>,
    pub y: Vec<f64>,
    pub w: Option<Vec<f64>>,
    pub off: Option<Vec<f64>>,
    pub alpha: f64,
    pub tol: f64,
    pub max_iter: usize,
    /// second design with the same n and p (prediction sub-check)
    #[serde(default)]
    pub x2: Option<Vec<f64>>,
    /// row permutation (permutation sub-check)
    #[serde(default)]
    pub perm: Option<Vec<usize>>,
}

fn lib_family(f: u8) -> ExponentialFamily {
    match f {
        0 => ExponentialFamily::Gaussian,
        1 => ExponentialFamily::Bernoulli,
        2 => ExponentialFamily::QuasiPoisson,
        3 => ExponentialFamily::Poisson,
        4 => ExponentialFamily::Gamma,
        _ => ExponentialFamily::Exponential,
    }
}

fn fam_name(f: u8) -> &'static str {
    FAMS[(f as usize).min(5)]
}

// -------------------------------------------------------------------------------------------------
// generation

#[derive(Clone, Copy, Debug, PartialEq)]
enum AlphaSet {
    Zero,
    Positive,
    Any,
    /// {0, 1}: the two strengths for which the unrepaired ridge gradient (F15) is right, so that clause
    /// (viii) is not polluted by it
    ZeroOrOne,
}

#[derive(Clone, Copy, Debug)]
struct Spec {
    fam: Option<u8>,
    alpha: AlphaSet,
    weights: bool,
    offsets: bool,
    pmin: usize,
    short_iter: bool,
    x2: bool,
    perm: bool,
}

impl Spec {
    fn new(fam: Option<u8>, alpha: AlphaSet) -> Spec {
        Spec { fam, alpha, weights: true, offsets: true, pmin: 1, short_iter: false, x2: false, perm: false }
    }
}

#[derive(Clone, Debug)]
struct Params {
    fam: u8,
    n: usize,
    p: usize,
    dclass: u8,
    wsel: u8,
    osel: u8,
    alpha: f64,
    tol: f64,
    max_iter: usize,
    seed: u64,
    x2: bool,
    perm: bool,
}

const DCLASS: [&str; 4] = ["std", "poly", "indicator", "mixed"];

fn standardise(col: &mut [f64]) {
    let n = col.len() as f64;
    let m = col.iter().sum::<f64>() / n;
    let v = col.iter().map(|x| (x - m) * (x - m)).sum::<f64>() / n;
    let s = if v > 0.0 { v.sqrt() } else { 1.0 };
    for x in col.iter_mut() {
        *x = (*x - m) / s;
    }
}

/// Row-major n×p design: intercept + (p−1) columns of the requested class.
fn build_design(rng: &mut Rng, n: usize, p: usize, dclass: u8) -> Vec<f64> {
    let mut cols: Vec<Vec<f64>> = vec![vec![1.0; n]];
    // the shared standardised variable for polynomial columns (uniform, so that powers stay moderate)
    let mut z: Vec<f64> = (0..n).map(|_| rng.u()).collect();
    standardise(&mut z);
    let mut next_power = 1i32;
    for _j in 1..p {
        let kind = match dclass {
            0 => 0,
            1 => 1,
            2 => 2,
            _ => rng.below(3) as u8,
        };
        let col: Vec<f64> = match kind {
            0 => {
                let mut c: Vec<f64> = (0..n).map(|_| gr::norm_inv(rng.u())).collect();
                standardise(&mut c);
                c
            }
            1 => {
                let k = next_power;
                next_power += 1;
                z.iter().map(|v| v.powi(k)).collect()
            }
            _ => {
                let q = rng.range(0.25, 0.75);
                let mut c: Vec<f64> = (0..n).map(|_| if rng.u() < q { 1.0 } else { 0.0 }).collect();
                // both levels present
                if c.iter().all(|v| *v == c[0]) {
                    c[0] = 1.0 - c[0];
                }
                let ones = c.iter().filter(|v| **v == 1.0).count();
                if ones < 2 {
                    c[1] = 1.0;
                    c[2] = 1.0;
                } else if n - ones < 2 {
                    c[1] = 0.0;
                    c[2] = 0.0;
                }
                c
            }
        };
        cols.push(col);
    }
    let mut x = vec![0.0; n * p];
    for i in 0..n {
        for j in 0..p {
            x[i * p + j] = cols[j][i];
        }
    }
    x
}

fn build(pr: &Params) -> Case {
    let (n, p, fam) = (pr.n, pr.p, pr.fam);
    let mut rng = Rng(pr.seed);
    let x = build_design(&mut rng, n, p, pr.dclass);
    let w: Option<Vec<f64>> = match pr.wsel {
        0 => None,
        1 => Some((0..n).map(|_| 1.0 + rng.below(4) as f64).collect()),
        2 => Some((0..n).map(|_| rng.range(0.5, 2.0)).collect()),
        _ => {
            // real weights rescaled to mean one: they sum to n up to rounding (often an ulp below or above it), so the
            // number of observations is the same under every convention (row count or total weight)
            let w: Vec<f64> = (0..n).map(|_| rng.range(0.5, 2.0)).collect();
            let s: f64 = w.iter().sum();
            Some(w.iter().map(|v| v * n as f64 / s).collect())
        }
    };
    let off: Option<Vec<f64>> = match pr.osel {
        0 => None,
        _ => Some((0..n).map(|_| rng.range(-1.0, 1.0)).collect()),
    };
    // true coefficients, |β_j| ≤ 1.5; slopes rescaled so that the linear predictor stays in [−3, 3]
    let b0 = match fam {
        1 => rng.range(-1.0, 1.0),
        2 | 3 => rng.range(0.3, 1.5),
        _ => rng.range(-1.5, 1.5),
    };
    let mut beta = vec![b0];
    for _ in 1..p {
        beta.push(rng.range(-1.5, 1.5));
    }
    let maxoff = off.as_ref().map(|o| o.iter().fold(0.0f64, |m, v| m.max(v.abs()))).unwrap_or(0.0);
    let lin: Vec<f64> = (0..n).map(|i| (1..p).map(|j| x[i * p + j] * beta[j]).sum::<f64>()).collect();
    let maxlin = lin.iter().fold(0.0f64, |m, v| m.max(v.abs()));
    // Log-link families with a variance function mu^2 (Gamma, Exponential) are scale-free: a fitted mean of 1e-5 is as
    // legitimate as one of 10, and |β| ≤ 1.5 with six columns reaches linear predictors near −10. A quarter of those
    // problems therefore let the linear predictor range over [−10, 10] (negative intercept), so that thresholds on mu or V(mu) are crossed.
    let wide = fam >= 4 && pr.seed % 4 == 0;
    let b0 = if wide { -b0.abs() } else { b0 };
    let room = if wide { 10.0 - b0.abs() - maxoff } else { 3.0 - b0.abs() - maxoff };
    let s = if maxlin > room { room / maxlin } else { 1.0 };
    let aux = rng.below(12) as u8;
    let y: Vec<f64> = (0..n)
        .map(|i| {
            let eta = b0 + s * lin[i] + off.as_ref().map(|o| o[i]).unwrap_or(0.0);
            gr::simulate(fam, gr::inv_link(fam, eta), aux, &mut rng)
        })
        .collect();
    let x2 = if pr.x2 { Some(build_design(&mut rng, n, p, pr.dclass)) } else { None };
    let perm = if pr.perm {
        let mut v: Vec<usize> = (0..n).collect();
        for i in (1..n).rev() {
            let j = rng.below(i as u64 + 1) as usize;
            v.swap(i, j);
        }
        Some(v)
    } else {
        None
    };
    let cls = format!(
        "{}/w={}/off={}/a={}/tol={}",
        DCLASS[pr.dclass as usize],
        ["none", "int", "real", "mean-one"][pr.wsel as usize],
        ["none", "unif"][pr.osel as usize],
        pr.alpha,
        if pr.tol <= 1e-9 { "tight" } else { "loose" }
    );
    Case { fam, n, p, cls, x, y, w, off, alpha: pr.alpha, tol: pr.tol, max_iter: pr.max_iter, x2, perm }
}

fn strat(spec: Spec) -> impl Strategy<Value = Case> {
    let n_st = prop_oneof![5 => 20usize..=60, 3 => 61usize..=200, 2 => 201usize..=500];
    (
        0u8..6,
        n_st,
        spec.pmin..=6usize,
        0u8..4,
        0u8..4,
        0u8..2,
        0u8..12,
        (0u8..10, 0.0f64..1.0),
        1usize..=3,
        any::<u64>(),
    )
        .prop_map(move |(fdraw, n, p, dclass, wsel, osel, asel, (tsel, tu), miter, seed)| {
            let fam = spec.fam.unwrap_or(fdraw);
            let alpha = match spec.alpha {
                AlphaSet::Zero => 0.0,
                AlphaSet::Positive => [0.1, 1.0, 10.0][(asel % 3) as usize],
                AlphaSet::Any => [0.0, 0.1, 1.0, 10.0][(asel % 4) as usize],
                AlphaSet::ZeroOrOne => [0.0, 1.0][(asel % 2) as usize],
            };
            // log-uniform in [1e-12, 1e-9] (70 %) or [1e-8, 1e-5] (30 %)
            let tol = if tsel < 7 { 10f64.powf(-12.0 + 3.0 * tu) } else { 10f64.powf(-8.0 + 3.0 * tu) };
            let pr = Params {
                fam,
                n,
                p,
                dclass,
                wsel: if spec.weights { wsel } else { 0 },
                osel: if spec.offsets { osel } else { 0 },
                alpha,
                tol,
                max_iter: if spec.short_iter { miter } else { 100 },
                seed,
                x2: spec.x2,
                perm: spec.perm,
            };
            build(&pr)
        })
}

// -------------------------------------------------------------------------------------------------
// shared machinery of the oracle functions

/// Is the decoded case inside the quantifier (shape, intercept column, response domain of the family)?
fn valid(c: &Case) -> bool {
    let (n, p) = (c.n, c.p);
    if c.fam > 5 || n < 2 || p < 1 || p > 12 || n <= p || c.x.len() != n * p || c.y.len() != n {
        return false;
    }
    if !(c.alpha >= 0.0 && c.alpha.is_finite() && c.tol > 0.0 && c.tol < 1.0 && c.max_iter >= 1) {
        return false;
    }
    if c.x.iter().chain(c.y.iter()).any(|v| !v.is_finite()) || (0..n).any(|i| c.x[i * p] != 1.0) {
        return false;
    }
    if let Some(w) = &c.w {
        if w.len() != n || w.iter().any(|v| !(*v > 0.0 && v.is_finite())) {
            return false;
        }
        // the library derives the number of observations from Σw (frequency weights)
        if w.iter().sum::<f64>() < p as f64 + 1.5 {
            return false;
        }
    }
    if let Some(o) = &c.off {
        if o.len() != n || o.iter().any(|v| !v.is_finite()) {
            return false;
        }
    }
    if let Some(x2) = &c.x2 {
        if x2.len() != n * p || x2.iter().any(|v| !v.is_finite()) || (0..n).any(|i| x2[i * p] != 1.0) {
            return false;
        }
    }
    if let Some(pm) = &c.perm {
        let mut seen = vec![false; n];
        if pm.len() != n {
            return false;
        }
        for &i in pm {
            if i >= n || seen[i] {
                return false;
            }
            seen[i] = true;
        }
    }
    match c.fam {
        1 => c.y.iter().all(|v| *v == 0.0 || *v == 1.0),
        2 | 3 => c.y.iter().all(|v| *v >= 0.0),
        4 | 5 => c.y.iter().all(|v| *v > 0.0),
        _ => true,
    }
}

fn problem(c: &Case) -> Problem<'_> {
    Problem { fam: c.fam, n: c.n, p: c.p, x: &c.x, y: &c.y, w: c.w.as_deref(), off: c.off.as_deref(), alpha: c.alpha }
}

fn case_hash(c: &Case) -> u64 {
    let mut h = Hx::new().u(c.fam as u64).u(c.n as u64).u(c.p as u64).fs(&c.x).fs(&c.y).f(c.alpha).f(c.tol).u(c.max_iter as u64);
    if let Some(w) = &c.w {
        h = h.s("w").fs(w);
    }
    if let Some(o) = &c.off {
        h = h.s("o").fs(o);
    }
    if let Some(pm) = &c.perm {
        h = h.s("perm");
        for &i in pm {
            h = h.u(i as u64);
        }
    }
    if let Some(x2) = &c.x2 {
        h = h.s("x2").fs(x2);
    }
    h.finish()
}

/// Call the library: Ok((fit returned Ok?, model)) or Err(panic message).
fn lib_fit(fam: u8, x: &[f64], y: &[f64], w: Option<&[f64]>, off: Option<&[f64]>, alpha: f64, tol: f64, max_iter: usize) -> Result<(bool, GLM), String> {
    catch(|| {
        let mut g = GLM::new(lib_family(fam));
        g.set_penalty(alpha).set_tolerance(tol);
        if let Some(w) = w {
            g.set_weights(w);
        }
        if let Some(o) = off {
            g.set_offset(o);
        }
        let ok = g.fit(x, y, max_iter).is_ok();
        (ok, g)
    })
}

struct Fitted {
    glm: GLM,
    coef: Vec<f64>,
    at: AtBeta,
    /// reference (penalised) MLE of the harness — exists by construction of `prelude`
    beta_ref: Vec<f64>,
}

/// Accounting + fit shared by all sub-checks. Ok(None): nothing to assert (outside the quantifier, no finite
/// MLE, or `fit` returned Err). `clause` is the first component of the signatures.
fn prelude(ctx: &mut Ctx, sub: &str, clause: &str, c: &Case) -> Result<Option<Fitted>, Fail> {
    if !valid(c) {
        return Ok(None);
    }
    let fam = fam_name(c.fam);
    let h = case_hash(c);
    let pb = problem(c);
    // "responses simulated … so that the MLE exists": decided by the harness's own damped fit
    let beta_ref = match pb.reference_fit(12.0) {
        Some(b) => b,
        None => {
            ctx.case(sub, "skipped/no-finite-mle-or-rank-deficient", false, h);
            return Ok(None);
        }
    };
    let (ok, glm) = match lib_fit(c.fam, &c.x, &c.y, c.w.as_deref(), c.off.as_deref(), c.alpha, c.tol, c.max_iter) {
        Ok(v) => v,
        Err(msg) => {
            ctx.case(sub, &c.cls, false, h);
            ctx.label(sub, "fit=panic");
            return fail(format!("C06/{}/{}/panic", clause, fam), format!("{} fit (n={}, p={}, alpha={}, tol={:e}, max_iter={}) panicked on a problem whose MLE exists: {}", fam, c.n, c.p, c.alpha, c.tol, c.max_iter, msg));
        }
    };
    ctx.case(sub, &c.cls, ok && c.p >= 2, h);
    ctx.label(sub, if ok { "fit=Ok" } else { "fit=Err" });
    ctx.sample(sub, || json!(c));
    if !ok {
        return Ok(None);
    }
    let coef: Vec<f64> = match glm.coef() {
        Ok(b) => b.to_vec(),
        Err(e) => return fail(format!("C06/{}/{}/coef", clause, fam), format!("fit returned Ok but coef() is Err({})", e)),
    };
    ensure!(
        coef.len() == c.p && coef.iter().all(|b| b.is_finite()),
        format!("C06/{}/{}/coef", clause, fam),
        "fit returned Ok with coefficients {:?} (expected {} finite values)",
        coef,
        c.p
    );
    if c.w.is_some() {
        ctx.label(sub, "counted:weighted");
    }
    if c.off.is_some() {
        ctx.label(sub, "counted:offset");
    }
    if c.alpha > 0.0 && coef[1..].iter().map(|b| b * b).sum::<f64>().sqrt() > 0.1 {
        ctx.label(sub, "counted:penalised-effective");
    }
    let at = pb.at(&coef);
    Ok(Some(Fitted { glm, coef, at, beta_ref }))
}

/// Bound B of the Newton-decrement certificate, clause (i): gᵀH⁻¹g ≤ 100·tol·max(D_pen, 1) + 1e-18.
/// The library stops on a relative change < tol of (a variant of) the penalised deviance. One scoring step
/// changes the penalised deviance by ≈ the decrement gᵀH⁻¹g, so at a point where that test has legitimately
/// passed the decrement is ≲ tol·D_pen. Factor 100: if the iteration converges only linearly with rate r (the
/// library's Hessian carries the ridge term on the intercept as well, which is tolerated but makes the intercept
/// converge with r = α/(ΣW+α)), the test passes when H·e²·(1−r²) < tol·D and the returned point is two steps
/// further, decrement ≈ r⁴/(1−r²)·tol·D, which is < 100·tol·D for every r ≤ 0.99. D_pen is the larger of the
/// weighted and the unweighted deviance plus α‖β₁..‖², so that an implementation monitoring either is accepted.
/// 1e-18 covers D_pen·tol underflowing the rounding of g (never active for tol ≥ 1e-14).
fn cert_bound(c: &Case, at: &AtBeta, coef: &[f64]) -> f64 {
    let pen = c.alpha * coef[1..].iter().map(|b| b * b).sum::<f64>();
    100.0 * c.tol * (at.dev_w.max(at.dev_u) + pen).max(1.0) + 1e-18
}

fn decrement(at: &AtBeta, p: usize) -> Option<(f64, Vec<f64>)> {
    let l = gr::chol(&at.h, p)?;
    let step = gr::chol_solve(&l, p, &at.g);
    let d: f64 = step.iter().zip(&at.g).map(|(s, g)| s * g).sum();
    Some((d, gr::chol_inverse(&l, p)))
}

fn describe(c: &Case) -> String {
    format!(
        "{} n={} p={} [{}] alpha={} tol={:.3e} max_iter={}",
        fam_name(c.fam),
        c.n,
        c.p,
        c.cls,
        c.alpha,
        c.tol,
        c.max_iter
    )
}

fn inf_norm(v: &[f64]) -> f64 {
    v.iter().fold(0.0f64, |m, x| m.max(x.abs()))
}

/// Signature of the stopping-rule defect (see REPORT.md, "new finding"): the iteration's fixed point is right
/// but `fit` declares convergence before reaching it.
const SIG_PREMATURE: &str = "C06/score/premature-stop";

fn cert_holds(c: &Case, f: &Fitted) -> bool {
    match decrement(&f.at, c.p) {
        Some((dec, _)) => dec <= cert_bound(c, &f.at, &f.coef),
        None => false,
    }
}

/// Root-cause discrimination for a failed certificate (never decides pass/fail): refit the same problem with
/// tolerance 1e-13 and 1000 iterations. If the coefficients reached that way satisfy the certificate with the
/// *original* bound, the fixed point of the library's iteration is right and the failure is a premature stop of
/// the convergence test; otherwise the iteration converges to the wrong point (e.g. a wrong penalty gradient).
fn stops_prematurely(c: &Case) -> Option<String> {
    let (_, g2) = lib_fit(c.fam, &c.x, &c.y, c.w.as_deref(), c.off.as_deref(), c.alpha, 1e-13, 1000).ok()?;
    let b2: Vec<f64> = g2.coef().ok()?.to_vec();
    if b2.len() != c.p || b2.iter().any(|b| !b.is_finite()) {
        return None;
    }
    let at2 = problem(c).at(&b2);
    let (dec2, _) = decrement(&at2, c.p)?;
    if dec2 <= cert_bound(c, &at2, &b2) {
        Some(format!("with tolerance 1e-13 the same call continues to {:?} (decrement {:.3e}), so the convergence test passed prematurely", b2, dec2))
    } else {
        None
    }
}

/// The certificate itself; used by (i) and (viii). `short` = the case ran with max_iter ≤ 3 (clause viii).
fn certificate(ctx: &mut Ctx, c: &Case, f: &Fitted, sig: &str, worst_key: &str, short: bool) -> R {
    let (dec, _) = match decrement(&f.at, c.p) {
        Some(v) => v,
        None => {
            return fail(
                sig,
                format!("{}: Fisher information at the returned coefficients {:?} is not positive definite although a finite MLE {:?} exists", describe(c), f.coef, f.beta_ref),
            )
        }
    };
    let bound = cert_bound(c, &f.at, &f.coef);
    ctx.worst(worst_key, dec / bound);
    if dec <= bound {
        return Ok(());
    }
    // failed: which root cause?
    let mut sig = sig.to_string();
    let mut extra = String::new();
    let mut stop_rule_fired = true;
    if short {
        // did the convergence test fire, or was the iteration cut by max_iter and still reported as Ok?
        stop_rule_fired = match lib_fit(c.fam, &c.x, &c.y, c.w.as_deref(), c.off.as_deref(), c.alpha, c.tol, 100) {
            Ok((_, g)) => g.coef().map(|b| b.iter().zip(&f.coef).all(|(a, b)| a.to_bits() == b.to_bits())).unwrap_or(false),
            Err(_) => false,
        };
        if !stop_rule_fired {
            extra = "; with max_iter = 100 the same call returns different coefficients, i.e. the iteration was cut by max_iter and still reported Ok".into();
        }
    }
    if stop_rule_fired {
        if let Some(d) = stops_prematurely(c) {
            sig = SIG_PREMATURE.to_string();
            extra = format!("; {}", d);
        }
    }
    fail(
        sig,
        format!(
            "{}: returned coefficients {:?} do not satisfy the penalised score equations: Newton decrement g'H^-1g = {:.3e} > {:.3e} = 100*tol*max(D_pen,1); score = {:?}; harness MLE = {:?}{}",
            describe(c),
            f.coef,
            dec,
            bound,
            f.at.g,
            f.beta_ref,
            extra
        ),
    )
}

/// The tolerance of clause (vii) is derived from the convergence certificate; a fit that fails (i) is reported by
/// the score sub-checks and is not examined further there.
fn skip_unless_cert(ctx: &mut Ctx, sub: &str, c: &Case, f: &Fitted) -> bool {
    if cert_holds(c, f) {
        false
    } else {
        ctx.label(sub, "skipped:certificate-(i)-fails");
        true
    }
}

// -------------------------------------------------------------------------------------------------
// (i) score equations

fn sub_score(c: &Case) -> String {
    format!("score/{}{}", fam_name(c.fam), if c.alpha > 0.0 { "/ridge" } else { "" })
}

pub fn check_score(ctx: &mut Ctx, c: &Case) -> R {
    let sub = sub_score(c);
    let f = match prelude(ctx, &sub, "score", c)? {
        Some(f) => f,
        None => return Ok(()),
    };
    let sig = format!("C06/{}", sub);
    certificate(ctx, c, &f, &sig, if c.alpha > 0.0 { "score/decrement/ridge" } else { "score/decrement" }, false)
}

// -------------------------------------------------------------------------------------------------
// (ii) Gaussian = (weighted, ridge) least squares

pub fn check_ls(ctx: &mut Ctx, c: &Case) -> R {
    if c.fam != 0 {
        return Ok(());
    }
    let sub = format!("ls/Gaussian{}", if c.alpha > 0.0 { "/ridge" } else { "" });
    let f = match prelude(ctx, &sub, "ls", c)? {
        Some(f) => f,
        None => return Ok(()),
    };
    let p = c.p;
    let pb = problem(c);
    // explicit solution of (XᵀWX + α·diag(0,1,…,1)) β = XᵀW(y − offset) by the harness's Cholesky, with one
    // step of iterative refinement (the objective is quadratic, so a Newton step from any point is exact)
    let zero = vec![0.0; p];
    let a0 = pb.at(&zero);
    let l = match gr::chol(&a0.h, p) {
        Some(l) => l,
        None => return Ok(()),
    };
    let s0 = gr::chol_solve(&l, p, &a0.g);
    let mut bls: Vec<f64> = s0.iter().map(|s| -s).collect();
    let a1 = pb.at(&bls);
    let s1 = gr::chol_solve(&l, p, &a1.g);
    for j in 0..p {
        bls[j] -= s1[j];
    }
    let hinv = gr::chol_inverse(&l, p);
    // Tolerance. For a quadratic objective (β−β*)ᵀH(β−β*) equals the Newton decrement, which the statement
    // bounds by the convergence tolerance (certificate bound B of clause (i)); by Cauchy–Schwarz
    // |β_j−β*_j| ≤ sqrt(B·(H⁻¹)_jj). Rounding of either solver: 1e-8·(1+‖β*‖) (cond(H) ≤ 1e9 is enforced by
    // the reference fit's pivot test, so cond·ε·‖β‖ ≤ 2e-7·… is never approached: worst ratio is logged).
    let bound = cert_bound(c, &f.at, &f.coef);
    let sig = format!("C06/{}", sub);
    for j in 0..p {
        let tolj = (bound * hinv[j * p + j]).sqrt() + 1e-8 * (1.0 + inf_norm(&bls));
        let d = (f.coef[j] - bls[j]).abs();
        ctx.worst(if c.alpha > 0.0 { "ls/coef/ridge" } else { "ls/coef" }, d / tolj);
        // the pure rounding part, to see how far the library is from the explicit solution when tol is tight
        if c.tol <= 1e-9 {
            ctx.worst(if c.alpha > 0.0 { "ls/coef/ridge/tight:|d|/(1e-8(1+|b|))" } else { "ls/coef/tight:|d|/(1e-8(1+|b|))" }, d / (1e-8 * (1.0 + inf_norm(&bls))));
        }
        if d > tolj {
            let (sig, extra) = match stops_prematurely(c) {
                Some(dsc) => (SIG_PREMATURE.to_string(), format!("; {}", dsc)),
                None => (sig.clone(), String::new()),
            };
            return fail(
                sig,
                format!(
                    "{}: coefficient {} = {:e} but the (weighted, ridge) least-squares solution is {:e} (difference {:.3e} > {:.3e}); returned {:?}, least squares {:?}{}",
                    describe(c),
                    j,
                    f.coef[j],
                    bls[j],
                    d,
                    tolj,
                    f.coef,
                    bls,
                    extra
                ),
            );
        }
    }
    Ok(())
}

// -------------------------------------------------------------------------------------------------
// (iii) deviance, (iv) dispersion — unweighted fits
//
// Tolerated behaviour (DESIGN §4/§5): the reported deviance and information may be evaluated one scoring step
// behind the returned coefficients. The checks below are two-stage:
//   stage 1 (cheap): compare with the value recomputed at the *returned* coefficients, within a tolerance that
//            bounds the effect of a lag of one step from the convergence tolerance (derivations below);
//   stage 2 (only if stage 1 fails): recover the library's previous iterate exactly (re-run the same call with
//            max_iter = 1, 2, … until the returned coefficients are reproduced bit for bit; the iterate before
//            is what `fit(max_iter − 1)` leaves in `coef()`), recompute the quantity there with the harness's
//            formulas and compare within rounding (1e-9 / 1e-6 relative). Only a value that matches neither the
//            returned coefficients nor the previous iterate is a violation.
// Stage 2 makes the checks independent of how good the stopping rule is (see the premature-stop finding).

/// The library's iterate one step before the returned coefficients, found by replaying the same call.
fn prev_iterate(c: &Case, coef: &[f64]) -> Option<Vec<f64>> {
    let mut prev: Option<Vec<f64>> = None;
    for m in 1..=c.max_iter.min(200) {
        let (_, g) = lib_fit(c.fam, &c.x, &c.y, c.w.as_deref(), c.off.as_deref(), c.alpha, c.tol, m).ok()?;
        let b: Vec<f64> = g.coef().ok()?.to_vec();
        if b.len() == coef.len() && b.iter().zip(coef).all(|(a, b)| a.to_bits() == b.to_bits()) {
            return prev;
        }
        prev = Some(b);
    }
    None
}

/// Stage-1 tolerance of the reported deviance against the deviance recomputed at the returned coefficients β:
///   (100·tol + 1e-9)·D + 2·sqrt(q·B) + 1e-12,   q = g_Dᵀ H⁻¹ g_D,  g_D = ∇(D/2)(β),  B = certificate bound of (i).
/// By the mean value theorem the deviances at β and one step δ before differ by |∇D·δ| ≤ 2·‖g_D‖_{H⁻¹}·‖δ‖_H, and
/// ‖δ‖_H² is the Newton decrement at the point where the convergence test was passed, ≲ tol·D_pen ≤ B/100. Without
/// a penalty g_D is the score itself (q ≤ B), so the term is of second order (≤ 2B); with a penalty the
/// *unpenalised* deviance is not stationary at the penalised optimum (g_D = −α(0, β₁..)) and a lag of one step is
/// a first-order change. The first term covers the second-order remainder and rounding of either summation
/// (n·ε·cancellation ≤ 1e-12).
fn dev_tol(c: &Case, f: &Fitted, dev: f64) -> f64 {
    let p = c.p;
    let mut gd = f.at.g.clone();
    for j in 1..p {
        gd[j] -= c.alpha * f.coef[j];
    }
    let q = match gr::chol(&f.at.h, p) {
        Some(l) => {
            let s = gr::chol_solve(&l, p, &gd);
            s.iter().zip(&gd).map(|(a, b)| a * b).sum::<f64>().max(0.0)
        }
        None => 0.0,
    };
    let b = cert_bound(c, &f.at, &f.coef);
    (100.0 * c.tol + 1e-9) * dev.abs() + 2.0 * (q * b).sqrt() + 1e-12
}

/// Rounding-only tolerance of a deviance (stage 2).
fn dev_tight(dev: f64) -> f64 {
    1e-9 * dev.abs() + 1e-12
}

/// Weighted fits: the statement does not say whether "the family's deviance at the fitted means" carries the
/// prior weights, so either reading is accepted — Σ d(y_i, μ̂_i) or Σ w_i d(y_i, μ̂_i) — at the returned
/// coefficients or (tolerated lag) at the library's previous iterate, within rounding. A value that is neither
/// (for instance a formula that silently assumes Σ(y − μ̂) = 0, which only holds for unweighted maximum-likelihood
/// fits with an intercept) is a violation. Undecidable cases (previous iterate not recoverable) are counted.
fn check_deviance_weighted(ctx: &mut Ctx, c: &Case) -> R {
    let sub = format!("deviance/{}", fam_name(c.fam));
    let f = match prelude(ctx, &sub, "deviance", c)? {
        Some(f) => f,
        None => return Ok(()),
    };
    ctx.label(&sub, "weighted");
    let sig = format!("C06/{}", sub);
    let got = match f.glm.deviance() {
        Ok(d) => d,
        Err(e) => return fail(sig, format!("{}: deviance() is Err({}) after a successful fit", describe(c), e)),
    };
    let tight = |want: f64| 10.0 * dev_tight(want);
    let near = |u: f64, w: f64| (got - u).abs() <= tight(u) || (got - w).abs() <= tight(w);
    if near(f.at.dev_u, f.at.dev_w) {
        ctx.label(&sub, "weighted:matches-at-returned-coefficients");
        return Ok(());
    }
    let prev = match prev_iterate(c, &f.coef) {
        Some(b) => b,
        None => {
            ctx.label(&sub, "weighted:undecided(previous iterate not recoverable)");
            return Ok(());
        }
    };
    let atp = problem(c).at(&prev);
    if near(atp.dev_u, atp.dev_w) {
        ctx.label(&sub, "weighted:accepted-one-step-behind");
        return Ok(());
    }
    fail(
        sig,
        format!(
            "{}: deviance() = {:e} is neither the unweighted ({:e}) nor the weighted ({:e}) {} deviance at the fitted means, nor either of them at the library's previous iterate ({:e}, {:e})",
            describe(c), got, f.at.dev_u, f.at.dev_w, fam_name(c.fam), atp.dev_u, atp.dev_w
        ),
    )
}

pub fn check_deviance(ctx: &mut Ctx, c: &Case) -> R {
    if c.w.is_some() {
        return check_deviance_weighted(ctx, c);
    }
    let sub = format!("deviance/{}", fam_name(c.fam));
    let f = match prelude(ctx, &sub, "deviance", c)? {
        Some(f) => f,
        None => return Ok(()),
    };
    let sig = format!("C06/{}", sub);
    let got = match f.glm.deviance() {
        Ok(d) => d,
        Err(e) => return fail(sig, format!("{}: deviance() is Err({}) after a successful fit", describe(c), e)),
    };
    let want = f.at.dev_u;
    let tol = dev_tol(c, &f, want);
    let d0 = (got - want).abs();
    if d0 <= tol {
        ctx.worst(if c.alpha > 0.0 { "deviance/ridge (stage 1)" } else { "deviance (stage 1)" }, d0 / tol);
        return Ok(());
    }
    // stage 2
    ctx.label(&sub, "stage2");
    let prev = prev_iterate(c, &f.coef);
    let dprev = prev.as_ref().map(|b| problem(c).at(b).dev_u);
    if let Some(dp) = dprev {
        if (got - dp).abs() <= dev_tight(dp) {
            ctx.worst("deviance (stage 2, previous iterate)", (got - dp).abs() / dev_tight(dp));
            ctx.label(&sub, "stage2:accepted-one-step-behind");
            return Ok(());
        }
    }
    fail(
        sig,
        format!(
            "{}: deviance() = {:e} but the {} deviance at the fitted means is {:e} (|diff| {:.3e} > {:.3e}){}",
            describe(c),
            got,
            fam_name(c.fam),
            want,
            d0,
            tol,
            match dprev {
                Some(dp) => format!("; at the library's previous iterate it is {:e}, which does not match either", dp),
                None => String::new(),
            }
        ),
    )
}

/// Weighted fits whose weights sum to the number of rows (within 1e-9 relative): the residual degrees of freedom are
/// n − p under every convention, so dispersion() must be deviance/(n − p) for the weighted or the unweighted deviance, at
/// the returned coefficients or the library's previous iterate. (For other weights the statement defines no estimator.)
fn check_dispersion_weighted(ctx: &mut Ctx, c: &Case) -> R {
    let w = c.w.as_ref().unwrap();
    let sw: f64 = w.iter().sum();
    if !((sw - c.n as f64).abs() <= 1e-9 * c.n as f64) || !gr::has_dispersion(c.fam) {
        return Ok(());
    }
    let sub = format!("dispersion/{}", fam_name(c.fam));
    let f = match prelude(ctx, &sub, "dispersion", c)? {
        Some(f) => f,
        None => return Ok(()),
    };
    ctx.label(&sub, "weights-sum-to-n");
    let sig = format!("C06/{}", sub);
    let got = match catch(|| f.glm.dispersion().map_err(|e| e.to_string())) {
        Ok(Ok(d)) => d,
        Ok(Err(e)) => return fail(sig, format!("{}: dispersion() is Err({}) after a successful fit", describe(c), e)),
        Err(m) => return fail(format!("{}/panic", sig), format!("{}: dispersion() panicked: {}", describe(c), m)),
    };
    let dof = (c.n - c.p) as f64;
    let near = |u: f64, wd: f64| (got - u / dof).abs() <= 10.0 * dev_tight(u) / dof || (got - wd / dof).abs() <= 10.0 * dev_tight(wd) / dof;
    if near(f.at.dev_u, f.at.dev_w) {
        return Ok(());
    }
    let prev = match prev_iterate(c, &f.coef) {
        Some(b) => b,
        None => {
            ctx.label(&sub, "weights-sum-to-n:undecided(previous iterate not recoverable)");
            return Ok(());
        }
    };
    let atp = problem(c).at(&prev);
    if near(atp.dev_u, atp.dev_w) {
        ctx.label(&sub, "weights-sum-to-n:accepted-one-step-behind");
        return Ok(());
    }
    fail(
        sig,
        format!(
            "{}: weights sum to n = {} (sum {:e}), dispersion() = {:e} is neither deviance/(n-p) for the unweighted ({:e}) nor the weighted ({:e}) deviance with n-p = {}, at the returned coefficients or the previous iterate ({:e}, {:e})",
            describe(c), c.n, sw, got, f.at.dev_u, f.at.dev_w, dof, atp.dev_u, atp.dev_w
        ),
    )
}

pub fn check_dispersion(ctx: &mut Ctx, c: &Case) -> R {
    if c.w.is_some() {
        return check_dispersion_weighted(ctx, c);
    }
    let sub = format!("dispersion/{}", fam_name(c.fam));
    let f = match prelude(ctx, &sub, "dispersion", c)? {
        Some(f) => f,
        None => return Ok(()),
    };
    let sig = format!("C06/{}", sub);
    let got = match catch(|| f.glm.dispersion().map_err(|e| e.to_string())) {
        Ok(Ok(d)) => d,
        Ok(Err(e)) => return fail(sig, format!("{}: dispersion() is Err({}) after a successful fit", describe(c), e)),
        Err(m) => return fail(format!("{}/panic", sig), format!("{}: dispersion() panicked: {}", describe(c), m)),
    };
    let dof = (c.n - c.p) as f64;
    if !gr::has_dispersion(c.fam) {
        ensure!((got - 1.0).abs() <= 1e-15, sig, "{}: dispersion() = {:e}, expected 1 for a family without a dispersion parameter", describe(c), got);
        return Ok(());
    }
    // first the relation to the library's own deviance (isolates the divisor from the deviance formula) …
    if let Ok(dl) = f.glm.deviance() {
        let r = dl / dof;
        ensure!(
            (got - r).abs() <= 1e-12 * r.abs(),
            format!("{}/divisor", sig),
            "{}: dispersion() = {:e} but deviance()/(n-p) = {:e}/{} = {:e}",
            describe(c),
            got,
            dl,
            dof,
            r
        );
    }
    // … then the value itself against the deviance recomputed at the fitted means
    let want = f.at.dev_u / dof;
    let tol = dev_tol(c, &f, f.at.dev_u) / dof;
    let d0 = (got - want).abs();
    if d0 <= tol {
        ctx.worst(if c.alpha > 0.0 { "dispersion/ridge (stage 1)" } else { "dispersion (stage 1)" }, d0 / tol);
        return Ok(());
    }
    ctx.label(&sub, "stage2");
    let dprev = prev_iterate(c, &f.coef).map(|b| problem(c).at(&b).dev_u);
    if let Some(dp) = dprev {
        if (got - dp / dof).abs() <= dev_tight(dp) / dof {
            ctx.label(&sub, "stage2:accepted-one-step-behind");
            return Ok(());
        }
    }
    fail(
        sig,
        format!(
            "{}: dispersion() = {:e} but deviance at the fitted means / (n-p) = {:e}/{} = {:e}{}",
            describe(c),
            got,
            f.at.dev_u,
            dof,
            want,
            match dprev {
                Some(dp) => format!("; at the library's previous iterate {:e}/{} = {:e}, which does not match either", dp, dof, dp / dof),
                None => String::new(),
            }
        ),
    )
}

// -------------------------------------------------------------------------------------------------
// (v) covariance and standard errors (α = 0)

/// Compare covariance and standard errors with dispersion × inverse information; entries relative to
/// sqrt(C_ii C_jj). Returns (worst ratio to the tolerance, description of the first mismatch).
fn cmp_cov(cov: &[f64], se: &[f64], disp: f64, inv: &[f64], p: usize, rel: f64) -> (f64, Option<String>) {
    let mut worst = 0.0f64;
    let mut first: Option<String> = None;
    for i in 0..p {
        for j in 0..p {
            let want = disp * inv[i * p + j];
            let scale = disp * (inv[i * p + i] * inv[j * p + j]).sqrt();
            let d = (cov[i * p + j] - want).abs();
            let r = d / (rel * scale);
            if !(r <= 1.0) && first.is_none() {
                first = Some(format!(
                    "covariance[{},{}] = {:e}, expected dispersion {:e} x inverse information {:e} = {:e} (|diff| {:.3e} > {:.3e})",
                    i,
                    j,
                    cov[i * p + j],
                    disp,
                    inv[i * p + j],
                    want,
                    d,
                    rel * scale
                ));
            }
            worst = if r.is_nan() { f64::INFINITY } else { worst.max(r) };
        }
    }
    for j in 0..p {
        let want = (disp * inv[j * p + j]).sqrt();
        let d = (se[j] - want).abs();
        let r = d / (rel * want);
        if !(r <= 1.0) && first.is_none() {
            first = Some(format!("standard error {} = {:e}, expected sqrt(dispersion {:e} x {:e}) = {:e}", j, se[j], disp, inv[j * p + j], want));
        }
        worst = if r.is_nan() { f64::INFINITY } else { worst.max(r) };
    }
    (worst, first)
}

pub fn check_stderr(ctx: &mut Ctx, c: &Case) -> R {
    // The statement says "dispersion × inverse Fisher information": the Fisher information XᵀŴX does not
    // contain the penalty, so for α > 0 the reference is still the unpenalised information at the returned
    // coefficients (a stored X'WX + αI makes every standard error too small). Ridge fits get their own
    // sub-check and signature.
    let sub = format!("stderr/{}{}", fam_name(c.fam), if c.alpha > 0.0 { "/ridge" } else { "" });
    let f = match prelude(ctx, &sub, "stderr", c)? {
        Some(f) => f,
        None => return Ok(()),
    };
    let p = c.p;
    let sig = format!("C06/{}", sub);
    let res = catch(|| {
        let cov = f.glm.coef_covariance_matrix().map_err(|e| e.to_string());
        let se = f.glm.coef_standard_error().map_err(|e| e.to_string());
        let disp = f.glm.dispersion().map_err(|e| e.to_string());
        (cov, se.map(|v| v.to_vec()), disp)
    });
    let (cov, se, disp_lib) = match res {
        Ok((Ok(cv), Ok(se), Ok(d))) => (cv, se, d),
        Ok(_) => return fail(sig, format!("{}: covariance / standard error / dispersion accessor returned Err after a successful fit", describe(c))),
        Err(m) => return fail(format!("{}/panic", sig), format!("{}: covariance accessors panicked: {}", describe(c), m)),
    };
    ensure!(cov.len() == p * p && se.len() == p, sig, "{}: covariance has {} entries, standard errors {} (p = {})", describe(c), cov.len(), se.len(), p);
    // the standard errors are √diag of the library's own covariance
    for j in 0..p {
        let own = cov[j * p + j].sqrt();
        ensure!(
            (se[j] - own).abs() <= 1e-12 * own,
            format!("{}/se-vs-cov", sig),
            "{}: standard error {} = {:e} is not the square root of covariance[{},{}] = {:e}",
            describe(c),
            j,
            se[j],
            j,
            j,
            cov[j * p + j]
        );
    }
    // dispersion: 1 for the families without one; deviance at the fitted means/(n−p) for unweighted fits;
    // for weighted fits of a dispersion family the statement does not define the estimate (frequency vs
    // precision weights), so the library's own dispersion() is used and only the product is checked
    let oracle_disp = gr::has_dispersion(c.fam) && c.w.is_none();
    let disp_at = |dev_u: f64| -> f64 {
        if !gr::has_dispersion(c.fam) {
            1.0
        } else if c.w.is_none() {
            dev_u / (c.n - c.p) as f64
        } else {
            disp_lib
        }
    };
    if gr::has_dispersion(c.fam) && c.w.is_some() {
        ctx.label(&sub, "dispersion=as-reported");
    }
    let disp = disp_at(f.at.dev_u);
    let l = match gr::chol(&f.at.info, p) {
        Some(l) => l,
        None => return fail(sig, format!("{}: Fisher information at the returned coefficients is not positive definite", describe(c))),
    };
    let inv = gr::chol_inverse(&l, p);
    // Stage-1 relative tolerance, entries scaled by sqrt(C_ii C_jj):
    //   rel = 1e-6 + tol_D/D·[dispersion recomputed by the oracle] + expm1(m)·[information depends on β]
    // The information may be evaluated one scoring step δ_k behind the returned coefficients (tolerated). Its
    // working weights depend on β only for Bernoulli / Poisson / quasi-Poisson, where |d ln W/dη| ≤ 1, so
    // e^{−m}·I(β) ≼ I(β−δ_k) ≼ e^{m}·I(β) with m = max_i |x_iᵀδ_k| ≤ L·λ_k, L² = max_i x_iᵀ I⁻¹ x_i and λ_k² the
    // Newton decrement of that step; the two-sided Loewner bound carries over to the inverse, entry-wise
    // relative to sqrt(C_ii C_jj).
    //  * always: λ_k² ≤ B, the certificate bound of (i) (the step was taken from the point at which the
    //    convergence test passed): m ≤ L·sqrt(B);
    //  * unweighted fits: these families have canonical links, so scoring is Newton's method,
    //    λ_k ≤ ½·L·λ_{k−1}²·(1+o(1)), and the convergence test (relative deviance change, which for an unweighted,
    //    unpenalised fit is λ_{k−1}² to leading order) gives λ_{k−1}² < tol·D: m ≤ ½·L²·tol·D; slack ×16. For weighted
    //    fits the monitored (unweighted) deviance is not the objective, so only the first bound applies.
    // The dispersion carries the deviance tolerance of (iii); 1e-6 is the design's floor (rounding of a p ≤ 6 inverse
    // with cond ≤ 1e9 stays below 1e-7).
    let mut rel = 1e-6;
    if oracle_disp {
        rel += dev_tol(c, &f, f.at.dev_u) / f.at.dev_u.abs().max(1e-300);
    }
    if matches!(c.fam, 1 | 2 | 3) {
        let mut l2 = 0.0f64;
        for i in 0..c.n {
            let xi = &c.x[i * p..(i + 1) * p];
            let s = gr::chol_solve(&l, p, xi);
            l2 = l2.max(s.iter().zip(xi).map(|(a, b)| a * b).sum::<f64>());
        }
        let mut m = (l2 * cert_bound(c, &f.at, &f.coef)).sqrt();
        // (the lag step δ_k has ‖δ_k‖_H² ≤ B with H = I + αI₀ ≽ I, and x_iᵀH⁻¹x_i ≤ x_iᵀI⁻¹x_i = L², so the
        // first bound also holds for ridge fits; the quadratic-convergence bound needs α = 0)
        if c.w.is_none() && c.alpha == 0.0 {
            m = m.min(8.0 * l2 * c.tol * f.at.dev_u.max(1.0));
        }
        rel += m.exp_m1();
    }
    let wk = if c.w.is_some() { "weighted" } else { "unweighted" };
    let tk = if c.tol <= 1e-9 { "tight" } else { "loose" };
    let (w1, first1) = cmp_cov(&cov, &se, disp, &inv, p, rel);
    if first1.is_none() {
        ctx.worst(&format!("stderr/{}/{} (stage 1)", wk, tk), w1);
        return Ok(());
    }
    // stage 2: exactly at the library's previous iterate, within rounding (1e-6 relative)
    ctx.label(&sub, "stage2");
    let mut second = String::new();
    if let Some(bp) = prev_iterate(c, &f.coef) {
        let atp = problem(c).at(&bp);
        if let Some(lp) = gr::chol(&atp.info, p) {
            let invp = gr::chol_inverse(&lp, p);
            let (w2, first2) = cmp_cov(&cov, &se, disp_at(atp.dev_u), &invp, p, 1e-6);
            match first2 {
                None => {
                    ctx.worst("stderr (stage 2, previous iterate)", w2);
                    ctx.label(&sub, "stage2:accepted-one-step-behind");
                    return Ok(());
                }
                Some(m2) => second = format!("; with the information and dispersion at the library's previous iterate {:?}: {}", bp, m2),
            }
        }
    }
    fail(sig, format!("{}: {}; dispersion() = {:e}{}", describe(c), first1.unwrap_or_default(), disp_lib, second))
}

// -------------------------------------------------------------------------------------------------
// (vi) predictions

pub fn check_predict(ctx: &mut Ctx, c: &Case) -> R {
    let x2 = match &c.x2 {
        Some(x) => x,
        None => return Ok(()),
    };
    let sub = "predict";
    let f = match prelude(ctx, sub, "predict", c)? {
        Some(f) => f,
        None => return Ok(()),
    };
    ctx.label(sub, &format!("family={}", fam_name(c.fam)));
    let sig = if c.off.is_some() { "C06/predict/offset".to_string() } else { format!("C06/predict/{}", fam_name(c.fam)) };
    let p = c.p;
    for (which, xm) in [("training design", &c.x), ("new design", x2)] {
        let pred: Vec<f64> = match catch(|| f.glm.predict(xm).map(|v| v.to_vec()).map_err(|e| e.to_string())) {
            Ok(Ok(v)) => v,
            Ok(Err(e)) => return fail(sig, format!("{}: predict() on the {} is Err({})", describe(c), which, e)),
            Err(m) => return fail(format!("{}/panic", sig), format!("{}: predict() on the {} panicked: {}", describe(c), which, m)),
        };
        ensure!(pred.len() == c.n, sig, "{}: predict() on the {} returned {} values for {} rows", describe(c), which, pred.len(), c.n);
        for i in 0..c.n {
            let mut eta = 0.0;
            let mut s = 0.0;
            for j in 0..p {
                eta += xm[i * p + j] * f.coef[j];
                s += (xm[i * p + j] * f.coef[j]).abs();
            }
            if let Some(o) = &c.off {
                eta += o[i];
                s += o[i].abs();
            }
            let want = gr::inv_link(c.fam, eta);
            // 1e-12 of the statement's design, scaled: the linear predictor carries a rounding error of at
            // most (p+1)·ε·Σ|x_j β_j| ≤ 1e-15·S, which the inverse link multiplies by dμ/dη ≤ max(μ, 1)
            let tol = 1e-12 * want.abs().max(1.0) * s.max(1.0);
            let d = (pred[i] - want).abs();
            ctx.worst("predict", d / tol);
            ensure!(
                d <= tol,
                sig,
                "{}: predict() on the {}, row {}: {:e}, expected inverse link of (x.beta{} = {:e}) = {:e}",
                describe(c),
                which,
                i,
                pred[i],
                if c.off.is_some() { " + offset" } else { "" },
                eta,
                want
            );
        }
    }
    Ok(())
}

// -------------------------------------------------------------------------------------------------
// (vii) permutation invariance

pub fn check_perm(ctx: &mut Ctx, c: &Case) -> R {
    let pm = match &c.perm {
        Some(v) => v,
        None => return Ok(()),
    };
    let sub = "permutation";
    let f = match prelude(ctx, sub, "permutation", c)? {
        Some(f) => f,
        None => return Ok(()),
    };
    if skip_unless_cert(ctx, sub, c, &f) {
        return Ok(());
    }
    ctx.label(sub, &format!("family={}", fam_name(c.fam)));
    let (n, p) = (c.n, c.p);
    let mut xp = vec![0.0; n * p];
    let mut yp = vec![0.0; n];
    for (k, &i) in pm.iter().enumerate() {
        xp[k * p..(k + 1) * p].copy_from_slice(&c.x[i * p..(i + 1) * p]);
        yp[k] = c.y[i];
    }
    let wp: Option<Vec<f64>> = c.w.as_ref().map(|w| pm.iter().map(|&i| w[i]).collect());
    let op: Option<Vec<f64>> = c.off.as_ref().map(|o| pm.iter().map(|&i| o[i]).collect());
    let sig = "C06/permutation";
    let (ok2, g2) = match lib_fit(c.fam, &xp, &yp, wp.as_deref(), op.as_deref(), c.alpha, c.tol, c.max_iter) {
        Ok(v) => v,
        Err(m) => return fail(format!("{}/panic", sig), format!("{}: fit of the row-permuted problem panicked: {}", describe(c), m)),
    };
    if !ok2 {
        // the stopping decision may legitimately differ by rounding; nothing to compare
        ctx.label(sub, "permuted-fit=Err");
        return Ok(());
    }
    let b2: Vec<f64> = match g2.coef() {
        Ok(b) => b.to_vec(),
        Err(_) => return fail(sig, format!("{}: permuted fit returned Ok without coefficients", describe(c))),
    };
    // the permuted fit must itself satisfy (i) for the tolerance below to apply (otherwise: score sub-checks)
    {
        let at2 = problem(c).at(&b2);
        let ok2 = match decrement(&at2, p) {
            Some((d2, _)) => d2 <= cert_bound(c, &at2, &b2),
            None => false,
        };
        if !ok2 {
            ctx.label(sub, "skipped:certificate-(i)-fails");
            return Ok(());
        }
    }
    // Tolerance: both fits satisfy certificate (i), hence each lies within sqrt(B·(H⁻¹)_jj) of the unique
    // optimum (local quadratic model; Cauchy–Schwarz); rounding 1e-8·(1+‖β‖). The two runs may stop one
    // iteration apart when the relative change is within rounding of tol, so 1e-8 alone would not be sound.
    let (_, hinv) = match decrement(&f.at, p) {
        Some(v) => v,
        None => return Ok(()),
    };
    let bound = cert_bound(c, &f.at, &f.coef);
    for j in 0..p {
        let tolj = 2.0 * (bound * hinv[j * p + j]).sqrt() + 1e-8 * (1.0 + inf_norm(&f.coef));
        let d = (b2[j] - f.coef[j]).abs();
        ctx.worst("permutation", d / tolj);
        if c.tol <= 1e-9 {
            ctx.worst("permutation/tight:|d|/(1e-8(1+|b|))", d / (1e-8 * (1.0 + inf_norm(&f.coef))));
        }
        ensure!(
            d <= tolj,
            sig,
            "{}: coefficient {} changes from {:e} to {:e} when the observations are reordered (|diff| {:.3e} > {:.3e})",
            describe(c),
            j,
            f.coef[j],
            b2[j],
            d,
            tolj
        );
    }
    Ok(())
}

// -------------------------------------------------------------------------------------------------
// re-use of a model object: "whenever fitting reports success … for the given design, weights and offsets" also
// holds for the second and third `fit` on the same GLM value (after an attempt that ran out of iterations, or
// after a complete fit): nothing may be lost or carried over between calls

pub fn check_refit(ctx: &mut Ctx, c: &Case) -> R {
    let sub = "refit";
    let f = match prelude(ctx, sub, "refit", c)? {
        Some(f) => f,
        None => return Ok(()),
    };
    if skip_unless_cert(ctx, sub, c, &f) {
        return Ok(());
    }
    let first_iters = [1usize, 2, 3, c.max_iter][(case_hash(c) % 4) as usize];
    ctx.label(sub, &format!("family={}/first-attempt-max_iter={}", fam_name(c.fam), if first_iters == c.max_iter { "full".to_string() } else { first_iters.to_string() }));
    let sig = "C06/refit";
    let res = catch(|| {
        let mut g = GLM::new(lib_family(c.fam));
        g.set_penalty(c.alpha).set_tolerance(c.tol);
        if let Some(w) = &c.w {
            g.set_weights(w);
        }
        if let Some(o) = &c.off {
            g.set_offset(o);
        }
        let first_ok = g.fit(&c.x, &c.y, first_iters).is_ok();
        let ok = g.fit(&c.x, &c.y, c.max_iter).is_ok();
        (first_ok, ok, g)
    });
    let (first_ok, ok, g) = match res {
        Ok(v) => v,
        Err(m) => return fail(format!("{}/panic", sig), format!("{}: fit, then fit again on the same GLM value panicked: {}", describe(c), m)),
    };
    ctx.label(sub, if first_ok { "first-attempt=Ok" } else { "first-attempt=Err" });
    if !ok {
        ctx.label(sub, "second-fit=Err");
        return Ok(());
    }
    let b2: Vec<f64> = match g.coef() {
        Ok(b) => b.to_vec(),
        Err(_) => return fail(sig, format!("{}: second fit returned Ok without coefficients", describe(c))),
    };
    ensure!(b2.len() == c.p && b2.iter().all(|b| b.is_finite()), sig, "{}: second fit returned Ok with coefficients {:?}", describe(c), b2);
    let p = c.p;
    let at2 = problem(c).at(&b2);
    let bound = cert_bound(c, &at2, &b2);
    let (d2, _) = match decrement(&at2, p) {
        Some(v) => v,
        None => return fail(sig, format!("{}: information matrix at the coefficients of the second fit {:?} is not positive definite", describe(c), b2)),
    };
    ctx.worst("refit/decrement", d2 / bound);
    ensure!(
        d2 <= bound,
        sig,
        "{}: after a first attempt with max_iter = {} ({}), the second fit on the same GLM value returned {:?}, which does not satisfy the penalised score equations for the given design, weights and offsets: Newton decrement {:.3e} > {:.3e}; a fresh object returns {:?}",
        describe(c), first_iters, if first_ok { "Ok" } else { "Err" }, b2, d2, bound, f.coef
    );
    Ok(())
}

// -------------------------------------------------------------------------------------------------
// (viii) non-convergence is an Err

pub fn check_nonconv(ctx: &mut Ctx, c: &Case) -> R {
    let sub = "nonconvergence";
    let f = match prelude(ctx, sub, "nonconvergence", c)? {
        Some(f) => f,
        None => return Ok(()),
    };
    ctx.label(sub, &format!("ok/family={}/max_iter={}", fam_name(c.fam), c.max_iter));
    certificate(ctx, c, &f, "C06/nonconvergence", "nonconvergence/decrement", true)
}

// -------------------------------------------------------------------------------------------------

pub fn run(ctx: &mut Ctx) {
    ctx.rule = "family x n in 20..=500 (50% <= 60) x p in 1..=6 (intercept + standardised Gaussian / polynomial-of-a-standardised-variable / 0-1 indicator / mixed columns); \
true coefficients |b_j| <= 1.5 with slopes rescaled so that the linear predictor stays in [-3,3]; responses from the harness's own simulators (splitmix64 uniforms, inverse-CDF normal and Poisson, \
Bernoulli by comparison, integer-shape Gamma as a sum of exponentials, d*Poisson(mu/d) for over-dispersed counts); weights none / integer 1..4 / real [0.5,2] / real rescaled to mean one; offsets none / uniform[-1,1]; \
alpha in {0,0.1,1,10}; tolerance log-uniform [1e-12,1e-9] (70%) or [1e-8,1e-5] (30%); max_iter 100 (1..=3 for the non-convergence clause). A case is non-trivial when fit returns Ok and p >= 2 \
(an Ok fit always took at least two scoring iterations); distinct by the hash of all data; weighted / offset / effectively penalised (alpha > 0 and |slopes| > 0.1) Ok-fits are counted separately as counted:* labels"
        .into();
    ctx.assumptions = vec![
        "links are the library's documented ones: identity (Gaussian), logit (Bernoulli), log (Poisson, quasi-Poisson, Gamma, Exponential)".into(),
        "x is row-major n x p with the intercept column supplied by the caller; weights multiply the log-likelihood terms".into(),
        "a case is inside the quantifier only if the harness's own damped Fisher scoring finds a finite (penalised) MLE with |b| <= 12 and a numerically full-rank information matrix; other cases are skipped and counted".into(),
        "the oracle is evaluated only when fit returns Ok; Err results are counted (fraction must stay below 20 %)".into(),
        "dispersion is checked for unweighted fits and for weighted fits whose weights sum to the number of rows (same degrees of freedom under every convention); the deviance of a weighted fit may be the weighted or the unweighted sum of unit deviances (either reading accepted); covariance for alpha = 0 only (the statement defines neither a weighted dispersion estimate nor a penalised information)".into(),
        "tolerated: deviance / information evaluated one scoring step behind the returned coefficients (tolerances are functions of the convergence tolerance)".into(),
    ];
    if !gr::self_test() {
        engine::report("INCONCLUSIVE property=C06 glm_ref self-test failed");
        engine::INCONCLUSIVE.store(1, Ordering::SeqCst);
        return;
    }
    let th = 16usize;
    // (i)
    let n_score = ctx.scale(2000, 64000);
    for fam in 0u8..6 {
        let s0 = Spec::new(Some(fam), AlphaSet::Zero);
        ctx.run_prop_par(&format!("score/{}", fam_name(fam)), n_score, th, || strat(s0), check_score);
        let mut s1 = Spec::new(Some(fam), AlphaSet::Positive);
        s1.pmin = 2;
        ctx.run_prop_par(&format!("score/{}/ridge", fam_name(fam)), n_score, th, || strat(s1), check_score);
    }
    // (ii)
    let n_ls = ctx.scale(2000, 64000);
    let s0 = Spec::new(Some(0), AlphaSet::Zero);
    ctx.run_prop_par("ls/Gaussian", n_ls, th, || strat(s0), check_ls);
    let mut s1 = Spec::new(Some(0), AlphaSet::Positive);
    s1.pmin = 2;
    ctx.run_prop_par("ls/Gaussian/ridge", n_ls, th, || strat(s1), check_ls);
    // (iii), (iv): unweighted
    let n_dev = ctx.scale(1500, 48000);
    let n_disp = ctx.scale(1000, 32000);
    for fam in 0u8..6 {
        let mut s = Spec::new(Some(fam), AlphaSet::Any);
        s.weights = false;
        ctx.run_prop_par(&format!("deviance/{}", fam_name(fam)), n_dev, th, || strat(s), check_deviance);
        ctx.run_prop_par(&format!("dispersion/{}", fam_name(fam)), n_disp, th, || strat(s), check_dispersion);
        // weighted fits (either reading of the deviance accepted); a third of these draw no weights
        let sw = Spec::new(Some(fam), AlphaSet::Any);
        ctx.run_prop_par(&format!("deviance/{}", fam_name(fam)), n_dev / 2, th, || strat(sw), check_deviance);
        if gr::has_dispersion(fam) {
            ctx.run_prop_par(&format!("dispersion/{}", fam_name(fam)), n_disp / 2, th, || strat(sw), check_dispersion);
        }
    }
    // (v): α = 0
    let n_se = ctx.scale(1500, 48000);
    for fam in 0u8..6 {
        let s = Spec::new(Some(fam), AlphaSet::Zero);
        ctx.run_prop_par(&format!("stderr/{}", fam_name(fam)), n_se, th, || strat(s), check_stderr);
    }
    // (v) for ridge fits: same reference (unpenalised Fisher information at the returned coefficients)
    for fam in 0u8..6 {
        let s = Spec::new(Some(fam), AlphaSet::Positive);
        ctx.run_prop_par(&format!("stderr/{}/ridge", fam_name(fam)), n_se / 2, th, || strat(s), check_stderr);
    }
    // (vi)
    let mut s = Spec::new(None, AlphaSet::Any);
    s.x2 = true;
    ctx.run_prop_par("predict", ctx.scale(3000, 96000), th, || strat(s), check_predict);
    // model object re-use
    ctx.run_prop_par("refit", ctx.scale(3000, 96000), th, || strat(Spec::new(None, AlphaSet::Any)), check_refit);
    // (vii)
    let mut s = Spec::new(None, AlphaSet::Any);
    s.perm = true;
    ctx.run_prop_par("permutation", ctx.scale(3000, 96000), th, || strat(s), check_perm);
    // (viii)
    let mut s = Spec::new(None, AlphaSet::ZeroOrOne);
    s.short_iter = true;
    ctx.run_prop_par("nonconvergence", ctx.scale(4000, 128000), th, || strat(s), check_nonconv);

    // Err / skip fractions over the sub-checks that run with max_iter = 100
    let (mut ok, mut err, mut skipped, mut panics) = (0u64, 0u64, 0u64, 0u64);
    let mut per_family: std::collections::BTreeMap<String, (u64, u64)> = Default::default();
    for (k, v) in &ctx.classes {
        if k.starts_with("nonconvergence:") {
            continue;
        }
        let sub = k.split(':').next().unwrap_or("").to_string();
        if k.ends_with(":fit=Ok") {
            ok += v;
            per_family.entry(sub).or_insert((0, 0)).0 += v;
        } else if k.ends_with(":fit=Err") {
            err += v;
            per_family.entry(sub).or_insert((0, 0)).1 += v;
        } else if k.ends_with(":fit=panic") {
            panics += v;
        } else if k.contains(":skipped/") {
            skipped += v;
        }
    }
    let total = (ok + err).max(1);
    let frac = err as f64 / total as f64;
    let worst_sub = per_family
        .iter()
        .filter(|(_, (o, e))| o + e >= 50)
        .map(|(k, (o, e))| (k.clone(), *e as f64 / (*o + *e) as f64))
        .fold((String::new(), 0.0f64), |m, v| if v.1 > m.1 { v } else { m });
    ctx.note(
        "fit_results(max_iter=100)",
        json!({"ok": ok, "err": err, "err_fraction": frac, "panics": panics, "skipped_no_finite_mle": skipped,
               "skipped_fraction": skipped as f64 / (ok + err + skipped).max(1) as f64,
               "worst_subcheck_err_fraction": {"subcheck": worst_sub.0, "fraction": worst_sub.1}}),
    );
    if frac > 0.20 {
        engine::report(&format!("INCONCLUSIVE property=C06 fit returned Err in {:.1} % of the generated problems (> 20 %): generator broken", 100.0 * frac));
        engine::INCONCLUSIVE.store(1, Ordering::SeqCst);
    }
}

pub fn replay(ctx: &mut Ctx, sub: &str, v: Value) -> Option<R> {
    let c = decode::<Case>(v)?;
    let head = sub.split('/').next().unwrap_or("");
    match head {
        "score" => Some(check_score(ctx, &c)),
        "ls" => Some(check_ls(ctx, &c)),
        "deviance" => Some(check_deviance(ctx, &c)),
        "dispersion" => Some(check_dispersion(ctx, &c)),
        "stderr" => Some(check_stderr(ctx, &c)),
        "refit" => Some(check_refit(ctx, &c)),
        "predict" => Some(check_predict(ctx, &c)),
        "permutation" => Some(check_perm(ctx, &c)),
        "nonconvergence" => Some(check_nonconv(ctx, &c)),
        _ => None,
    }
}
