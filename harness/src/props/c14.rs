//! C14 — Polynomial regression returns the least-squares polynomial.
//!
//! Cases are generator parameters (degree, n, abscissa class, generating coefficients, noise class, salt);
//! the data set is rebuilt deterministically from them. The oracle forms the Gram matrix G = VᵀV in
//! double-double, gets its eigenvalues with a cyclic Jacobi iteration (κ = λmax/λmin) and lowers the degree
//! until κ ≤ 1e9 (counted in the class histogram): beyond that the normal-equation method cannot be held to
//! a fixed accuracy and the statement does not promise it.
//!
//! With c = `coef`, r = y − Vc in dd and
//!     B = (C_m·κ + 4n)·ε·(λmax‖c‖₂ + ‖|V|ᵀ|y|‖₂),  C_m = 32·m^2.5, m = d+1
//! (solve by an explicit inverse: ‖Gc − g‖₂ ≤ 4m^2.5 κ ε ‖g‖₂, slack ×8; forming G and g = Vᵀy in
//! f64: ≤ nε(|G||c| + |V|ᵀ|y|)):
//!   normal-equations   ‖Vᵀr‖₂ ≤ B
//!   perturbation       RSS(c+δ) ≥ RSS(c)(1 − 1e-9) − B²/λmin for 32 random δ of scales 1e-8..1 ‖c‖ and the
//!                      exact line minimum along the gradient Vᵀr (B²/λmin bounds RSS(c) − min RSS when the
//!                      first clause holds)
//!   reproduce          noiseless degree-d data: ‖c − c_gen‖₂ ≤ min(B_gen/λmin, 2000·m²·κ·ε‖c_gen‖) + ε√κ‖c_gen‖ (first term: exact consequence of
//!                      the first clause plus the rounding of the data), predict(x_i) = y_i within that
//!                      times ‖(1,|x|,..,|x|^d)‖₂ plus evaluation rounding
//!   predict/order      predict(x) = Σ c_j x^j (dd) within 8(2d+2)ε Σ|c_j||x|^j, coefficients set through the
//!                      public field or by a fit
//!   mismatch-panic     fit with len(x) ≠ len(y) panics

use crate::engine::{catch, decode, fail, Ctx, Hx, R};
use crate::oracle::dd::DD;
use compute::predict::PolynomialRegressor;
use proptest::prelude::*;
use serde::{Deserialize, Serialize};
use serde_json::{json, Value};

const EPS: f64 = 2.220446049250313e-16;
const KAPPA_MAX: f64 = 1e9;

// ------------------------------------------------------------------------------------------------
// small deterministic generator (SplitMix64) for the data sets
// ------------------------------------------------------------------------------------------------

struct Rng(u64);
impl Rng {
    fn next(&mut self) -> u64 {
        self.0 = self.0.wrapping_add(0x9e3779b97f4a7c15);
        let mut z = self.0;
        z = (z ^ (z >> 30)).wrapping_mul(0xbf58476d1ce4e5b9);
        z = (z ^ (z >> 27)).wrapping_mul(0x94d049bb133111eb);
        z ^ (z >> 31)
    }
    /// uniform in [0,1)
    fn unit(&mut self) -> f64 {
        (self.next() >> 11) as f64 / (1u64 << 53) as f64
    }
    /// approximately standard normal (sum of 12 uniforms − 6: bounded, no transcendental functions)
    fn normal(&mut self) -> f64 {
        (0..12).map(|_| self.unit()).sum::<f64>() - 6.0
    }
}

// ------------------------------------------------------------------------------------------------
// cyclic Jacobi eigenvalues of a small symmetric matrix
// ------------------------------------------------------------------------------------------------

fn jacobi_eigenvalues(a: &[Vec<f64>]) -> Vec<f64> {
    let m = a.len();
    let mut a: Vec<Vec<f64>> = a.to_vec();
    for _sweep in 0..100 {
        let mut off = 0.0;
        let mut diag = 0.0;
        for i in 0..m {
            diag += a[i][i] * a[i][i];
            for j in i + 1..m {
                off += a[i][j] * a[i][j];
            }
        }
        if off <= 1e-40 * diag || off == 0.0 {
            break;
        }
        for p in 0..m {
            for q in p + 1..m {
                let apq = a[p][q];
                if apq == 0.0 {
                    continue;
                }
                let theta = (a[q][q] - a[p][p]) / (2.0 * apq);
                let t = theta.signum() / (theta.abs() + (theta * theta + 1.0).sqrt());
                let t = if theta == 0.0 { 1.0 } else { t };
                let c = 1.0 / (t * t + 1.0).sqrt();
                let s = t * c;
                for k in 0..m {
                    let (akp, akq) = (a[k][p], a[k][q]);
                    a[k][p] = c * akp - s * akq;
                    a[k][q] = s * akp + c * akq;
                }
                for k in 0..m {
                    let (apk, aqk) = (a[p][k], a[q][k]);
                    a[p][k] = c * apk - s * aqk;
                    a[q][k] = s * apk + c * aqk;
                }
            }
        }
    }
    let mut ev: Vec<f64> = (0..m).map(|i| a[i][i]).collect();
    ev.sort_by(|x, y| x.partial_cmp(y).unwrap_or(std::cmp::Ordering::Equal));
    ev
}

pub fn self_test() -> bool {
    // [[2,1],[1,2]] → 1, 3
    let e = jacobi_eigenvalues(&[vec![2.0, 1.0], vec![1.0, 2.0]]);
    if (e[0] - 1.0).abs() > 1e-14 || (e[1] - 3.0).abs() > 1e-14 {
        return false;
    }
    // Q diag(1, 1e-3, 1e-6, 10) Qᵀ with Q a product of two Givens rotations and a Householder reflector: check
    // trace, determinant and the extreme eigenvalues
    let d = [1.0, 1e-3, 1e-6, 10.0];
    let v = [0.5, -0.5, 0.5, 0.5]; // unit vector, H = I − 2vvᵀ
    let mut q = vec![vec![0.0; 4]; 4];
    for i in 0..4 {
        for j in 0..4 {
            q[i][j] = if i == j { 1.0 } else { 0.0 } - 2.0 * v[i] * v[j];
        }
    }
    let mut a = vec![vec![0.0; 4]; 4];
    for i in 0..4 {
        for j in 0..4 {
            a[i][j] = (0..4).map(|k| q[i][k] * d[k] * q[j][k]).sum();
        }
    }
    let e = jacobi_eigenvalues(&a);
    (e[0] - 1e-6).abs() < 1e-6 * 1e-6 && (e[1] - 1e-3).abs() < 1e-12 && (e[2] - 1.0).abs() < 1e-13 && (e[3] - 10.0).abs() < 1e-13
}

// ------------------------------------------------------------------------------------------------
// data sets
// ------------------------------------------------------------------------------------------------

#[derive(Clone, Debug, Serialize, Deserialize)]
pub struct FitCase {
    /// requested degree 0..=6 (lowered by the oracle while κ(VᵀV) > 1e9)
    pub d: usize,
    /// number of points, d+1..=2000
    pub n: usize,
    /// 0 uniform random in [−2,2], 1 clustered, 2 Chebyshev nodes, 3 integers −2..=2 with repeats, 4 equispaced grid
    pub xclass: u8,
    /// coefficients of the generating polynomial c0.. (may have higher degree than d)
    pub gen: Vec<f64>,
    /// noise: 0 none, 1 σ=1e-3, 2 σ=1, 3 σ=1e3, 4 integer noise round(3z)
    pub noise: u8,
    pub salt: u64,
}

const XCLASS: [&str; 5] = ["uniform", "clustered", "chebyshev", "integer", "grid"];
const NOISE: [&str; 5] = ["noise=0", "noise=1e-3", "noise=1", "noise=1e3", "noise=int"];

fn abscissae(c: &FitCase) -> Vec<f64> {
    let n = c.n;
    let mut g = Rng(Hx::new().u(c.salt).s("x").finish());
    match c.xclass {
        0 => (0..n).map(|_| -2.0 + 4.0 * g.unit()).collect(),
        1 => {
            let k = 1 + (g.next() % 4) as usize;
            let spread = [0.3, 0.1, 1e-2, 1e-3][(g.next() % 4) as usize];
            let centres: Vec<f64> = (0..k).map(|_| -1.8 + 3.6 * g.unit()).collect();
            (0..n).map(|i| (centres[i % k] + spread * (2.0 * g.unit() - 1.0)).max(-2.0).min(2.0)).collect()
        }
        2 => (0..n).map(|i| 2.0 * ((2 * i + 1) as f64 * std::f64::consts::PI / (2 * n) as f64).cos()).collect(),
        3 => (0..n).map(|i| if i < 5 { i as f64 - 2.0 } else { (g.next() % 5) as f64 - 2.0 }).collect(),
        _ => (0..n).map(|i| if n == 1 { 0.0 } else { -2.0 + 4.0 * i as f64 / (n - 1) as f64 }).collect(),
    }
}

fn horner_dd(c: &[f64], x: f64) -> DD {
    let xd = DD::new(x);
    c.iter().rev().fold(DD::ZERO, |acc, cj| acc * xd + *cj)
}

fn abs_poly(c: &[f64], x: f64) -> f64 {
    c.iter().rev().fold(0.0, |acc, cj| acc * x.abs() + cj.abs())
}

fn responses(c: &FitCase, x: &[f64], gen: &[f64]) -> Vec<f64> {
    let mut g = Rng(Hx::new().u(c.salt).s("noise").finish());
    x.iter()
        .map(|&xi| {
            let z = g.normal();
            let e = match c.noise {
                0 => 0.0,
                1 => 1e-3 * z,
                2 => z,
                3 => 1e3 * z,
                _ => (3.0 * z).round(),
            };
            // the sum is rounded once: the data are whatever f64 values come out, the oracle works from them
            (horner_dd(gen, xi) + e).f()
        })
        .collect()
}

/// Gram matrix G_jk = Σ x^{j+k} for j,k ≤ d (dd sums rounded to f64)
fn gram(x: &[f64], d: usize) -> Vec<Vec<f64>> {
    let mut mom = vec![DD::ZERO; 2 * d + 1];
    for &xi in x {
        let xd = DD::new(xi);
        let mut p = DD::ONE;
        for m in mom.iter_mut() {
            *m = *m + p;
            p = p * xd;
        }
    }
    (0..=d).map(|j| (0..=d).map(|k| mom[j + k].f()).collect()).collect()
}

struct Spectrum {
    d: usize,
    lmin: f64,
    lmax: f64,
    kappa: f64,
    lowered: bool,
}

/// the largest degree ≤ requested with κ(VᵀV) ≤ 1e9
fn effective_degree(x: &[f64], d_req: usize) -> Spectrum {
    let mut d = d_req.min(x.len().saturating_sub(1));
    loop {
        let ev = jacobi_eigenvalues(&gram(x, d));
        let (lmin, lmax) = (ev[0], ev[ev.len() - 1]);
        let kappa = if lmin > 0.0 { lmax / lmin } else { f64::INFINITY };
        if kappa <= KAPPA_MAX || d == 0 {
            return Spectrum { d, lmin, lmax, kappa, lowered: d != d_req };
        }
        d -= 1;
    }
}

fn norm2(v: &[f64]) -> f64 {
    let m = v.iter().fold(0.0f64, |a, b| a.max(b.abs()));
    if m == 0.0 || !m.is_finite() {
        return m;
    }
    m * v.iter().map(|t| (t / m) * (t / m)).sum::<f64>().sqrt()
}

/// ‖|V|ᵀ|y|‖₂
fn abs_vty(x: &[f64], y: &[f64], d: usize) -> f64 {
    let mut g = vec![0.0; d + 1];
    for (xi, yi) in x.iter().zip(y) {
        let mut p = 1.0;
        for gj in g.iter_mut() {
            *gj += p * yi.abs();
            p *= xi.abs();
        }
    }
    norm2(&g)
}

/// residuals r_i = y_i − Σ c_j x_i^j in dd
fn residuals(x: &[f64], y: &[f64], c: &[f64]) -> Vec<DD> {
    x.iter().zip(y).map(|(&xi, &yi)| DD::new(yi) - horner_dd(c, xi)).collect()
}

fn rss_dd(x: &[f64], y: &[f64], c: &[DD]) -> DD {
    let mut s = DD::ZERO;
    for (&xi, &yi) in x.iter().zip(y) {
        let xd = DD::new(xi);
        let p = c.iter().rev().fold(DD::ZERO, |acc, cj| acc * xd + *cj);
        let r = DD::new(yi) - p;
        s = s + r * r;
    }
    s
}

/// Vᵀr in dd
fn vt_r(x: &[f64], r: &[DD], d: usize) -> Vec<DD> {
    let mut g = vec![DD::ZERO; d + 1];
    for (&xi, ri) in x.iter().zip(r) {
        let xd = DD::new(xi);
        let mut p = DD::ONE;
        for gj in g.iter_mut() {
            *gj = *gj + p * *ri;
            p = p * xd;
        }
    }
    g
}

struct Fitted {
    x: Vec<f64>,
    y: Vec<f64>,
    gen: Vec<f64>,
    sp: Spectrum,
    coef: Vec<f64>,
    reg: PolynomialRegressor,
}

fn case_ok(c: &FitCase) -> bool {
    c.d <= 6 && c.n >= c.d + 1 && c.n <= 2000 && c.xclass <= 4 && c.noise <= 4 && !c.gen.is_empty() && c.gen.len() <= 10 && c.gen.iter().all(|v| v.is_finite() && v.abs() <= 1e3)
}

fn class_of(c: &FitCase, sp: &Spectrum) -> String {
    let kc = if sp.kappa < 1e3 {
        "k<1e3"
    } else if sp.kappa < 1e6 {
        "k<1e6"
    } else {
        "k<=1e9"
    };
    format!("{}/d={}{}/{}/{}", XCLASS[c.xclass as usize], sp.d, if sp.lowered { "(lowered)" } else { "" }, NOISE[c.noise as usize], kc)
}

/// Build the data, account the case, run the fit. `truncate_gen`: the generating polynomial is cut to the
/// effective degree (reproduction clause).
fn do_fit(ctx: &mut Ctx, sub: &str, c: &FitCase, truncate_gen: bool) -> Result<Fitted, crate::engine::Fail> {
    let x = abscissae(c);
    let sp = effective_degree(&x, c.d);
    let mut gen = c.gen.clone();
    if truncate_gen {
        gen.truncate(sp.d + 1);
        while gen.len() < sp.d + 1 {
            gen.push(0.0);
        }
    }
    let y = responses(c, &x, &gen);
    let nontrivial = sp.d >= 2 || c.noise > 0;
    ctx.case(sub, &class_of(c, &sp), nontrivial, Hx::new().json(c).finish());
    let nclass = if c.n <= c.d + 3 { "n<=d+3" } else if c.n <= 50 { "n<=50" } else { "n<=2000" };
    ctx.label(sub, nclass);
    if c.n == sp.d + 1 {
        ctx.label(sub, "interpolation (n = d+1)");
    }
    ctx.sample(sub, || json!({"case": c, "x": x, "y": y, "effective_degree": sp.d, "kappa": sp.kappa}));
    let d = sp.d;
    // One case in three re-uses a regressor that has already been fitted to other valid data (responses of a
    // vastly different scale, or fewer points): the fit must depend on the data it is given, not on what the
    // object held before.
    let reuse = Hx::new().json(c).u(77).finish() % 3;
    if reuse != 0 {
        ctx.label(sub, if reuse == 1 { "regressor re-used after a fit at scale 2^40" } else { "regressor re-used after a fit on the first d+1 points" });
    }
    let fit = catch(|| {
        let mut p = PolynomialRegressor::new(d);
        if reuse == 1 {
            let big: Vec<f64> = y.iter().map(|v| v * 2f64.powi(40) + 2f64.powi(40)).collect();
            p.fit(&x, &big);
        } else if reuse == 2 && x.len() > d + 1 {
            let mut k = d + 1;
            // the first d+1 points may not have d+1 distinct abscissae: extend until the short fit is well posed
            while k < x.len() && effective_degree(&x[..k], d).d < d {
                k += 1;
            }
            if effective_degree(&x[..k], d).d == d {
                p.fit(&x[..k], &y[..k]);
            }
        }
        p.fit(&x, &y);
        p
    });
    let reg = match fit {
        Ok(p) => p,
        Err(m) => {
            return Err(crate::engine::Fail {
                sig: "C14/fit/panic".into(),
                what: format!("PolynomialRegressor::new({}).fit on {} points ({} abscissae, kappa(V'V) = {:e}) panicked: {}", d, c.n, XCLASS[c.xclass as usize], sp.kappa, m),
            })
        }
    };
    let coef = reg.coef.clone();
    if coef.len() != d + 1 || !coef.iter().all(|v| v.is_finite()) {
        return Err(crate::engine::Fail {
            sig: "C14/fit/coef-shape".into(),
            what: format!("degree {} fit on {} points returned coef = {:?} (expected {} finite values)", d, c.n, coef, d + 1),
        });
    }
    Ok(Fitted { x, y, gen, sp, coef, reg })
}

/// C_m = 32·m^2.5, m = d+1: a Cholesky (or LU) solve of G x_j = e_j has backward error ≤ ~4mε‖G‖ (Higham,
/// Thm 10.4 with ‖|L||Lᵀ|‖₂ ≤ m‖G‖₂), so ‖G·X − I‖ ≤ 4m²εκ per column and ‖(GX − I)g‖₂ ≤ 4m^2.5 εκ‖g‖₂;
/// slack ×8.
fn c_m(d: usize) -> f64 {
    32.0 * ((d + 1) as f64).powf(2.5)
}

/// B = (C_m κ + 4n) ε (λmax‖c‖₂ + ‖|V|ᵀ|y|‖₂)
fn first_order_bound(ft: &Fitted, cnorm: f64) -> f64 {
    (c_m(ft.sp.d) * ft.sp.kappa + 4.0 * ft.x.len() as f64) * EPS * (ft.sp.lmax * cnorm + abs_vty(&ft.x, &ft.y, ft.sp.d))
}

pub fn check_normal(ctx: &mut Ctx, c: &FitCase) -> R {
    if !case_ok(c) {
        return Ok(());
    }
    let ft = do_fit(ctx, "normal-equations", c, false)?;
    let r = residuals(&ft.x, &ft.y, &ft.coef);
    let g: Vec<f64> = vt_r(&ft.x, &r, ft.sp.d).iter().map(|v| v.f()).collect();
    let gn = norm2(&g);
    let b = first_order_bound(&ft, norm2(&ft.coef));
    ctx.worst("normal-equations |V'r| / B", if b > 0.0 { gn / b } else if gn == 0.0 { 0.0 } else { f64::INFINITY });
    ctx.worst(
        &format!("normal-equations |V'r| / (kappa eps (lmax|c| + |V|'|y|)) at d={} (C_m = {:.0})  [informative]", ft.sp.d, c_m(ft.sp.d)),
        if b > 0.0 { gn / (b / (c_m(ft.sp.d) * ft.sp.kappa + 4.0 * ft.x.len() as f64) * ft.sp.kappa) } else { 0.0 },
    );
    ensure!(
        gn <= b,
        "C14/normal-equations",
        "degree {} fit of {} points ({} abscissae, {}, kappa = {:.3e}): coef = {:?}, residual is not orthogonal to the powers of x: V'r = {:?}, |V'r| = {:e} > bound {:e}",
        ft.sp.d, c.n, XCLASS[c.xclass as usize], NOISE[c.noise as usize], ft.sp.kappa, ft.coef, g, gn, b
    );
    Ok(())
}

pub fn check_perturb(ctx: &mut Ctx, c: &FitCase) -> R {
    if !case_ok(c) {
        return Ok(());
    }
    let ft = do_fit(ctx, "perturbation", c, false)?;
    let d = ft.sp.d;
    let cd: Vec<DD> = ft.coef.iter().map(|v| DD::new(*v)).collect();
    let rss0 = rss_dd(&ft.x, &ft.y, &cd);
    let cn = norm2(&ft.coef);
    let b = first_order_bound(&ft, cn);
    // RSS(c) − min RSS = eᵀGe ≤ ‖Ge‖²/λmin ≤ B²/λmin when the first-order clause holds; dd evaluation noise
    let yy: f64 = ft.y.iter().map(|v| v * v).sum();
    let slack = b * b / ft.sp.lmin + 1e-28 * yy;
    let floor = rss0.f() * (1.0 - 1e-9) - slack;
    let mut g = Rng(Hx::new().u(c.salt).s("delta").finish());
    let base = if cn > 0.0 { cn } else { 1.0 };
    let mut deltas: Vec<(String, Vec<DD>)> = vec![];
    for k in 0..32 {
        let scale = base * [1e-8, 1e-6, 1e-4, 1e-3, 1e-2, 1e-1, 1.0, 1e-10][k % 8];
        let mut dir: Vec<f64> = (0..=d).map(|_| g.normal()).collect();
        if k >= 16 {
            // single-coordinate perturbations as well
            let keep = (g.next() % (d as u64 + 1)) as usize;
            for (j, v) in dir.iter_mut().enumerate() {
                if j != keep {
                    *v = 0.0;
                }
            }
            if dir[keep] == 0.0 {
                dir[keep] = 1.0;
            }
        }
        let nn = norm2(&dir).max(1e-300);
        deltas.push((format!("random #{} (scale {:e})", k, scale), dir.iter().map(|v| DD::new(v / nn * scale)).collect()));
    }
    // exact line minimum along the gradient direction: t* = ‖g‖²/(gᵀGg), the most effective single perturbation
    let r = residuals(&ft.x, &ft.y, &ft.coef);
    let gr = vt_r(&ft.x, &r, d);
    let grf: Vec<f64> = gr.iter().map(|v| v.f()).collect();
    let gg: f64 = grf.iter().map(|v| v * v).sum();
    if gg > 0.0 {
        let gm = gram(&ft.x, d);
        let ggg: f64 = (0..=d).map(|j| (0..=d).map(|k| grf[j] * gm[j][k] * grf[k]).sum::<f64>()).sum();
        if ggg > 0.0 && (gg / ggg).is_finite() {
            let t = gg / ggg;
            deltas.push(("line minimum along V'r".into(), grf.iter().map(|v| DD::new(v * t)).collect()));
        }
    }
    for (name, dl) in &deltas {
        let cp: Vec<DD> = cd.iter().zip(dl).map(|(a, b)| *a + *b).collect();
        let rss1 = rss_dd(&ft.x, &ft.y, &cp).f();
        if rss0.f() > 0.0 || slack > 0.0 {
            // how much of the allowed decrease is used (≤ 0 when RSS went up)
            let used = (rss0.f() - rss1) / (rss0.f() * 1e-9 + slack);
            ctx.worst("perturbation (RSS(c) - RSS(c+delta)) / allowed decrease", used.max(0.0));
        }
        ensure!(
            rss1 >= floor,
            "C14/perturbation",
            "degree {} fit of {} points ({} abscissae, {}, kappa = {:.3e}): coef = {:?} has RSS {:e}, but coef + delta ({}, delta = {:?}) has RSS {:e}: lower by {:e} (allowed {:e})",
            d, c.n, XCLASS[c.xclass as usize], NOISE[c.noise as usize], ft.sp.kappa, ft.coef, rss0.f(), name, dl.iter().map(|v| v.f()).collect::<Vec<_>>(), rss1, rss0.f() - rss1, rss0.f() * 1e-9 + slack
        );
    }
    Ok(())
}

pub fn check_reproduce(ctx: &mut Ctx, c: &FitCase) -> R {
    if !case_ok(c) || c.noise != 0 || c.gen.len() > c.d + 1 {
        return Ok(());
    }
    let ft = do_fit(ctx, "reproduce", c, true)?;
    let d = ft.sp.d;
    let gn = norm2(&ft.gen);
    // exact LS solution of the (rounded) data differs from c_gen by ≤ ‖δy‖/σmin ≤ ε‖y‖/√λmin ≤ ε√κ‖c_gen‖;
    // the returned coefficients differ from it by ≤ B/λmin
    let b = first_order_bound(&ft, gn);
    let tol_res = b / ft.sp.lmin + EPS * ft.sp.kappa.sqrt() * gn;
    // Forward error of solving the normal equations G c = g with G formed in working precision, by a backward-stable
    // factorisation or through a computed inverse: proportional to κ(G)·ε (not κ², which is what the residual clause
    // turned into a coefficient bound gives). Constant 2000·m² — the largest ratio observed on the unchanged tree over
    // all runs is about 220. This is what separates rounding from a regularised ("jittered") factorisation, whose
    // effect on the residual is below rounding but whose effect on the coefficients is of order one.
    let m1 = (ft.sp.d + 1) as f64;
    let tol_fwd = 2000.0 * m1 * m1 * ft.sp.kappa * EPS * gn + EPS * ft.sp.kappa.sqrt() * gn;
    let tol_c = tol_res.min(tol_fwd);
    let diff: Vec<f64> = ft.coef.iter().zip(&ft.gen).map(|(a, b)| a - b).collect();
    let dn = norm2(&diff);
    if gn > 0.0 && tol_c >= 0.5 * gn {
        ctx.label("reproduce", "vacuous: tolerance >= 50% of |c_gen| (ill-conditioned)");
    }
    ctx.worst("reproduce |c - c_gen| / min(B/lmin, 2000 m^2 kappa eps |c_gen|) + eps sqrt(kappa)|c_gen|", if tol_c > 0.0 { dn / tol_c } else if dn == 0.0 { 0.0 } else { f64::INFINITY });
    if gn > 0.0 {
        ctx.worst("reproduce |c - c_gen| / (kappa eps |c_gen|)  [informative]", dn / (ft.sp.kappa * EPS * gn));
    }
    ensure!(
        dn <= tol_c,
        "C14/reproduce/coef",
        "noiseless data from the degree-{} polynomial {:?} on {} points ({} abscissae, kappa = {:.3e}): fitted coef = {:?}, |coef - generating| = {:e} > {:e}",
        d, ft.gen, c.n, XCLASS[c.xclass as usize], ft.sp.kappa, ft.coef, dn, tol_c
    );
    let pred = match catch(|| ft.reg.predict(&ft.x)) {
        Ok(p) => p,
        Err(m) => return fail("C14/predict/panic", format!("predict on the {} training abscissae panicked: {}", c.n, m)),
    };
    ensure!(pred.len() == ft.x.len(), "C14/predict/length", "predict returned {} values for {} points", pred.len(), ft.x.len());
    for i in 0..ft.x.len() {
        let xi = ft.x[i];
        let vnorm = norm2(&(0..=d).map(|j| xi.abs().powi(j as i32)).collect::<Vec<_>>());
        let tol = tol_c * vnorm + 8.0 * (2.0 * d as f64 + 2.0) * EPS * (abs_poly(&ft.gen, xi) + abs_poly(&ft.coef, xi));
        let e = (pred[i] - ft.y[i]).abs();
        ctx.worst("reproduce |predict(x_i) - y_i| / tol", if tol > 0.0 { e / tol } else if e == 0.0 { 0.0 } else { f64::INFINITY });
        ensure!(
            e <= tol,
            "C14/reproduce/predict",
            "noiseless data from {:?} on {} points ({}): predict(x[{}] = {:e}) = {:e} but y = {:e}; difference {:e} > {:e} (coef = {:?})",
            ft.gen, c.n, XCLASS[c.xclass as usize], i, xi, pred[i], ft.y[i], e, tol, ft.coef
        );
    }
    Ok(())
}

// ------------------------------------------------------------------------------------------------
// predict evaluates Σ c_j x^j
// ------------------------------------------------------------------------------------------------

#[derive(Clone, Debug, Serialize, Deserialize)]
pub struct PredCase {
    /// c0..cd, d ≤ 6
    pub coef: Vec<f64>,
    /// evaluation points in [−2, 2]
    pub x: Vec<f64>,
    /// false: coefficients written to the public `coef` field; true: obtained by fitting noiseless data on
    /// Chebyshev nodes (then the *fitted* coefficients are the reference)
    pub via_fit: bool,
}

pub fn check_predict(ctx: &mut Ctx, c: &PredCase) -> R {
    if c.coef.is_empty() || c.coef.len() > 7 || c.x.len() > 4096 || !c.coef.iter().all(|v| v.is_finite() && v.abs() <= 1e6) || !c.x.iter().all(|v| v.is_finite() && v.abs() <= 2.0) {
        return Ok(());
    }
    let d = c.coef.len() - 1;
    let sub = "predict/order";
    let asym = d >= 1 && c.coef.iter().zip(c.coef.iter().rev()).any(|(a, b)| a != b);
    ctx.case(sub, &format!("d={}/{}{}", d, if c.via_fit { "fitted" } else { "field" }, if asym { "" } else { "/palindromic" }), d >= 2 && asym && !c.x.is_empty(), Hx::new().json(c).finish());
    ctx.sample(sub, || json!(c));
    let mut p = PolynomialRegressor::new(d);
    if c.via_fit {
        let n = d + 1 + 4;
        let xs: Vec<f64> = (0..n).map(|i| 2.0 * ((2 * i + 1) as f64 * std::f64::consts::PI / (2 * n) as f64).cos()).collect();
        let ys: Vec<f64> = xs.iter().map(|&t| horner_dd(&c.coef, t).f()).collect();
        match catch(move || {
            p.fit(&xs, &ys);
            p
        }) {
            Ok(q) => p = q,
            Err(m) => return fail("C14/fit/panic", format!("fit of degree {} on {} Chebyshev nodes panicked: {}", d, n, m)),
        }
    } else {
        p.coef = c.coef.clone();
    }
    let co = p.coef.clone();
    ensure!(co.len() == d + 1 && co.iter().all(|v| v.is_finite()), "C14/fit/coef-shape", "coef = {:?} after a degree-{} fit", co, d);
    let pred = match catch(|| p.predict(&c.x)) {
        Ok(v) => v,
        Err(m) => return fail("C14/predict/panic", format!("predict(coef = {:?}) on {} points panicked: {}", co, c.x.len(), m)),
    };
    ensure!(pred.len() == c.x.len(), "C14/predict/length", "predict returned {} values for {} points", pred.len(), c.x.len());
    for (i, &xi) in c.x.iter().enumerate() {
        let want = horner_dd(&co, xi);
        // Horner: γ_{2d} Σ|c_j||x|^j; power-sum forms are within the same order; slack ×8
        let tol = 8.0 * (2.0 * d as f64 + 2.0) * EPS * abs_poly(&co, xi);
        let e = (DD::new(pred[i]) - want).abs().f();
        ctx.worst("predict/order |predict - sum c_j x^j| / tol", if tol > 0.0 { e / tol } else if e == 0.0 { 0.0 } else { f64::INFINITY });
        ensure!(
            e <= tol,
            "C14/predict/order",
            "coef = {:?}: predict({:e}) = {:e} but c0 + c1 x + .. + cd x^d = {:e} (difference {:e} > {:e})",
            co, xi, pred[i], want.f(), e, tol
        );
    }
    Ok(())
}

// ------------------------------------------------------------------------------------------------
// mismatched lengths
// ------------------------------------------------------------------------------------------------

#[derive(Clone, Debug, Serialize, Deserialize)]
pub struct MismatchCase {
    pub d: usize,
    pub nx: usize,
    pub ny: usize,
}

pub fn check_mismatch(ctx: &mut Ctx, c: &MismatchCase) -> R {
    if c.d > 6 || c.nx == c.ny || c.nx.min(c.ny) < c.d + 1 || c.nx.max(c.ny) > 2000 {
        return Ok(());
    }
    let sub = "mismatch-panic";
    ctx.case(sub, if c.nx > c.ny { "len(x)>len(y)" } else { "len(x)<len(y)" }, true, Hx::new().json(c).finish());
    ctx.sample(sub, || json!(c));
    let x: Vec<f64> = (0..c.nx).map(|i| -2.0 + 4.0 * (i as f64 + 0.5) / c.nx as f64).collect();
    let y: Vec<f64> = (0..c.ny).map(|i| 1.0 + (i % 5) as f64).collect();
    let d = c.d;
    match catch(move || {
        let mut p = PolynomialRegressor::new(d);
        p.fit(&x, &y);
        p.coef.clone()
    }) {
        Err(_) => Ok(()),
        Ok(co) => fail(
            "C14/mismatch-panic",
            format!("fit of degree {} with {} abscissae and {} responses returned coef = {:?} instead of panicking", c.d, c.nx, c.ny, co),
        ),
    }
}

// ------------------------------------------------------------------------------------------------
// strategies
// ------------------------------------------------------------------------------------------------

fn gen_coef() -> impl Strategy<Value = f64> {
    prop_oneof![
        2 => (-5i32..=5).prop_map(|k| k as f64),
        2 => -10.0f64..10.0,
        1 => (-999i32..=999, -3i32..=0).prop_map(|(m, e)| m as f64 * 10f64.powi(e)),
    ]
}

fn fit_case(noiseless_exact_degree: bool) -> impl Strategy<Value = FitCase> {
    (0usize..=6, 0u8..5, 0u8..8).prop_flat_map(move |(d, xclass, nsel)| {
        let lo = d + 1;
        let n = match nsel {
            0 => (lo..=lo).boxed(),
            1 | 2 => (lo..=lo + 3).boxed(),
            3 | 4 | 5 => (lo..=50usize).boxed(),
            6 => (51usize..=400).boxed(),
            _ => (401usize..=2000).boxed(),
        };
        let extra = if noiseless_exact_degree { (0usize..=0).boxed() } else { prop_oneof![3 => Just(0usize), 1 => 1usize..=3].boxed() };
        (n, extra, 0u8..5, any::<u64>()).prop_flat_map(move |(n, extra, noise, salt)| {
            // integer abscissae have only 5 distinct values
            let d = if xclass == 3 { d.min(4).min(n - 1) } else { d };
            let n = n.max(d + 1);
            let noise = if noiseless_exact_degree { 0 } else { noise };
            let cs = if xclass == 3 { (-5i32..=5).prop_map(|k| k as f64).boxed() } else { gen_coef().boxed() };
            prop::collection::vec(cs, d + 1 + extra).prop_map(move |gen| FitCase { d, n, xclass, gen, noise, salt })
        })
    })
}

fn pred_case() -> impl Strategy<Value = PredCase> {
    (0usize..=6, any::<bool>()).prop_flat_map(|(d, via_fit)| {
        let xs = prop_oneof![
            (-8i32..=8).prop_map(|k| k as f64 / 4.0),
            -2.0f64..2.0,
        ];
        (prop::collection::vec(gen_coef(), d + 1), prop::collection::vec(xs, 0..12)).prop_map(move |(coef, x)| PredCase { coef, x, via_fit })
    })
}

fn mismatch_case() -> impl Strategy<Value = MismatchCase> {
    (0usize..=6, 1usize..=60, 1usize..=60, any::<bool>()).prop_map(|(d, a, k, swap)| {
        let small = d + a;
        let big = small + k;
        if swap {
            MismatchCase { d, nx: big, ny: small }
        } else {
            MismatchCase { d, nx: small, ny: big }
        }
    })
}

// ------------------------------------------------------------------------------------------------
// run / replay
// ------------------------------------------------------------------------------------------------

pub fn run(ctx: &mut Ctx) {
    ctx.rule = "data sets are rebuilt from (degree 0..=6, n in d+1..=2000 log-spaced with n = d+1 and d+1..d+3 over-represented, abscissa class in {uniform random, clustered, Chebyshev, integers -2..=2 with repeats, equispaced} on [-2,2], \
generating polynomial of degree d..d+3 with integer or real coefficients, noise in {0, 1e-3, 1, 1e3, integer}, salt); the degree is lowered while kappa(V'V) > 1e9 (class label '(lowered)'); \
non-trivial: effective degree >= 2 or noise > 0 (predict/order: degree >= 2 with a non-palindromic coefficient vector); distinct by the generator parameters"
        .into();
    ctx.assumptions = vec![
        "kappa(V'V) from cyclic Jacobi eigenvalues of the Gram matrix formed in double-double (self-tested); cases above 1e9 are checked at the largest degree that stays below".into(),
        "first-order bound B = (C_m kappa + 4n) eps (lmax |c| + | |V|'|y| |), C_m = 32 m^2.5 (m = d+1): 4 m^2.5 kappa eps |g| is the a-priori residual of a Cholesky/LU based explicit inverse applied to g = V'y (slack x8), 4n the rounding of forming V'V and V'y in f64".into(),
        "perturbation slack B^2/lmin and reproduction tolerance B/lmin are exact consequences of the first-order bound (they grow like kappa^2: the normal-equation method, which the statement does not exclude, loses that much)".into(),
        "mismatch-panic follows DESIGN.md; the statement itself only speaks about valid data sets".into(),
    ];
    if !self_test() {
        crate::engine::report("INCONCLUSIVE property=C14 Jacobi self-test failed");
        crate::engine::INCONCLUSIVE.store(1, std::sync::atomic::Ordering::SeqCst);
        return;
    }
    // enumerated: exact-integer cases, every degree 0..=4 on the integer abscissae, and the two-point line
    for d in 0..=4usize {
        for n in [d + 1, d + 2, 5, 12, 40] {
            if n < d + 1 {
                continue;
            }
            for noise in [0u8, 4] {
                let gen: Vec<f64> = (0..=d).map(|j| [1.0, -2.0, 3.0, -1.0, 2.0][j]).collect();
                let c = FitCase { d, n, xclass: 3, gen, noise, salt: 1 + d as u64 };
                ctx.check_one("normal-equations", &c, check_normal);
                ctx.check_one("perturbation", &c, check_perturb);
                if noise == 0 {
                    ctx.check_one("reproduce", &c, check_reproduce);
                }
            }
        }
    }
    for d in 0..=6usize {
        // coefficient order: one-hot and staircase coefficient vectors at a few points
        for k in 0..=d {
            let mut co = vec![0.0; d + 1];
            co[k] = 1.0;
            for via_fit in [false, true] {
                ctx.check_one("predict/order", &PredCase { coef: co.clone(), x: vec![-2.0, -1.0, -0.5, 0.0, 0.75, 1.0, 2.0], via_fit }, check_predict);
            }
        }
        let stair: Vec<f64> = (0..=d).map(|j| (j + 1) as f64).collect();
        for via_fit in [false, true] {
            ctx.check_one("predict/order", &PredCase { coef: stair.clone(), x: vec![-2.0, -1.0, 0.0, 0.5, 2.0], via_fit }, check_predict);
        }
        for (nx, ny) in [(d + 1, d + 2), (d + 2, d + 1), (d + 5, d + 9), (40, 39)] {
            ctx.check_one("mismatch-panic", &MismatchCase { d, nx, ny }, check_mismatch);
        }
    }
    ctx.exhaustive.push("exact-integer data: degrees 0..=4 x n in {d+1, d+2, 5, 12, 40} x {noiseless, integer noise} on integer abscissae".into());
    ctx.exhaustive.push("predict/order: every one-hot coefficient vector of degree 0..=6, through the public field and through a fit".into());

    ctx.run_prop_par("normal-equations", ctx.scale(30_000, 150_000), 16, || fit_case(false), check_normal);
    ctx.run_prop_par("perturbation", ctx.scale(15_000, 60_000), 16, || fit_case(false), check_perturb);
    ctx.run_prop_par("reproduce", ctx.scale(20_000, 80_000), 16, || fit_case(true), check_reproduce);
    ctx.run_prop_par("predict/order", ctx.scale(30_000, 150_000), 8, pred_case, check_predict);
    ctx.run_prop_par("mismatch-panic", ctx.scale(1_000, 10_000), 4, mismatch_case, check_mismatch);
}

pub fn replay(ctx: &mut Ctx, sub: &str, v: Value) -> Option<R> {
    match sub {
        "normal-equations" => Some(check_normal(ctx, &decode::<FitCase>(v)?)),
        "perturbation" => Some(check_perturb(ctx, &decode::<FitCase>(v)?)),
        "reproduce" => Some(check_reproduce(ctx, &decode::<FitCase>(v)?)),
        "predict/order" => Some(check_predict(ctx, &decode::<PredCase>(v)?)),
        "mismatch-panic" => Some(check_mismatch(ctx, &decode::<MismatchCase>(v)?)),
        _ => None,
    }
}
