//! C10 — Optimizers follow their published update rules; Levenberg–Marquardt descends.
//!
//! Objectives are *data* (`Obj`, `Expr`): one description, interpreted once over `reverse::Var` (what the
//! library differentiates in reverse mode on its tape) and once over the harness's forward-mode dual
//! numbers (`oracle::dual`) for the reference. The library's objective type is a generic
//! `F: for<'a> Fn(&[Var<'a>], &[&[f64]]) -> Var<'a>`, so the closure handed to `optimize` captures the
//! description; all numeric coefficients additionally travel through the optimizer's `data` argument, so
//! that the data path of the library is exercised too.
//!
//! Sub-checks (see REPORT.md): adam/trajectory, sgd/plain/trajectory, sgd/momentum/trajectory,
//! sgd/nesterov/trajectory, early-stop, determinism, lm/descent, lm/linear-reaches-ls, lm/covariance.

use crate::engine::{catch, decode, fail, Ctx, Hx, R};
use crate::oracle::dual::{Dual, Mag, Scalar, ND};
use compute::optimize::{Adam, Optimizer, LM, SGD};
use proptest::prelude::*;
use reverse::Var;
use serde::{Deserialize, Serialize};
use serde_json::{json, Value};

// ------------------------------------------------------------------------------------------------
// Expression descriptions
// ------------------------------------------------------------------------------------------------

impl<'a> Scalar for Var<'a> {
    fn add(self, o: Self) -> Self {
        self + o
    }
    fn sub(self, o: Self) -> Self {
        self - o
    }
    fn mul(self, o: Self) -> Self {
        self * o
    }
    fn div(self, o: Self) -> Self {
        self / o
    }
    fn addc(self, c: f64) -> Self {
        self + c
    }
    fn mulc(self, c: f64) -> Self {
        self * c
    }
    fn neg(self) -> Self {
        -self
    }
    fn recip(self) -> Self {
        Var::recip(&self)
    }
    fn exp(self) -> Self {
        Var::exp(&self)
    }
    fn sin(self) -> Self {
        Var::sin(&self)
    }
    fn cos(self) -> Self {
        Var::cos(&self)
    }
    fn ln(self) -> Self {
        Var::ln(&self)
    }
    fn powi(self, n: i32) -> Self {
        Var::powi(&self, n)
    }
    fn value(self) -> f64 {
        self.val
    }
}

/// A model f(p; x): parameters `P(i)`, the regressor `X`, constants and elementary nodes.
#[derive(Clone, Debug, Serialize, Deserialize, PartialEq)]
pub enum Expr {
    P(usize),
    X,
    C(f64),
    Add(Box<Expr>, Box<Expr>),
    Sub(Box<Expr>, Box<Expr>),
    Mul(Box<Expr>, Box<Expr>),
    Div(Box<Expr>, Box<Expr>),
    Neg(Box<Expr>),
    Exp(Box<Expr>),
    Sin(Box<Expr>),
    Cos(Box<Expr>),
    Ln(Box<Expr>),
    Powi(Box<Expr>, i32),
}

#[allow(dead_code)]
mod ex {
    use super::Expr;
    use super::Expr::*;
    pub fn p(i: usize) -> Expr {
        P(i)
    }
    pub fn x() -> Expr {
        X
    }
    pub fn c(v: f64) -> Expr {
        C(v)
    }
    pub fn add(a: Expr, b: Expr) -> Expr {
        Add(Box::new(a), Box::new(b))
    }
    pub fn sub(a: Expr, b: Expr) -> Expr {
        Sub(Box::new(a), Box::new(b))
    }
    pub fn mul(a: Expr, b: Expr) -> Expr {
        Mul(Box::new(a), Box::new(b))
    }
    pub fn div(a: Expr, b: Expr) -> Expr {
        Div(Box::new(a), Box::new(b))
    }
    pub fn neg(a: Expr) -> Expr {
        Neg(Box::new(a))
    }
    pub fn exp(a: Expr) -> Expr {
        Exp(Box::new(a))
    }
    pub fn sin(a: Expr) -> Expr {
        Sin(Box::new(a))
    }
    pub fn cos(a: Expr) -> Expr {
        Cos(Box::new(a))
    }
    pub fn ln(a: Expr) -> Expr {
        Ln(Box::new(a))
    }
    pub fn powi(a: Expr, n: i32) -> Expr {
        Powi(Box::new(a), n)
    }
    pub fn sum(mut v: Vec<Expr>) -> Expr {
        let mut acc = v.remove(0);
        for e in v {
            acc = add(acc, e);
        }
        acc
    }
}

/// Constant sub-expressions are folded in plain f64 (identically in every interpretation).
#[derive(Clone, Copy)]
enum Val<S> {
    K(f64),
    S(S),
}

impl Expr {
    /// largest parameter index + 1, number of nodes, and whether every Powi exponent is in 1..=6
    fn shape(&self) -> (usize, usize, bool) {
        match self {
            Expr::P(i) => (i + 1, 1, true),
            Expr::X | Expr::C(_) => (0, 1, true),
            Expr::Add(a, b) | Expr::Sub(a, b) | Expr::Mul(a, b) | Expr::Div(a, b) => {
                let (pa, na, oa) = a.shape();
                let (pb, nb, ob) = b.shape();
                (pa.max(pb), na + nb + 1, oa && ob)
            }
            Expr::Neg(a) | Expr::Exp(a) | Expr::Sin(a) | Expr::Cos(a) | Expr::Ln(a) => {
                let (p, n, o) = a.shape();
                (p, n + 1, o)
            }
            Expr::Powi(a, k) => {
                let (p, n, o) = a.shape();
                (p, n + 1, o && (1..=6).contains(k))
            }
        }
    }

    fn ev<S: Scalar>(&self, p: &[S], x: f64) -> Val<S> {
        use Val::*;
        match self {
            Expr::P(i) => S(p[*i]),
            Expr::X => K(x),
            Expr::C(c) => K(*c),
            Expr::Add(a, b) => match (a.ev(p, x), b.ev(p, x)) {
                (K(u), K(v)) => K(u + v),
                (K(u), S(v)) => S(v.addc(u)),
                (S(u), K(v)) => S(u.addc(v)),
                (S(u), S(v)) => S(u.add(v)),
            },
            Expr::Sub(a, b) => match (a.ev(p, x), b.ev(p, x)) {
                (K(u), K(v)) => K(u - v),
                (K(u), S(v)) => S(v.neg().addc(u)),
                (S(u), K(v)) => S(u.addc(-v)),
                (S(u), S(v)) => S(u.sub(v)),
            },
            Expr::Mul(a, b) => match (a.ev(p, x), b.ev(p, x)) {
                (K(u), K(v)) => K(u * v),
                (K(u), S(v)) => S(v.mulc(u)),
                (S(u), K(v)) => S(u.mulc(v)),
                (S(u), S(v)) => S(u.mul(v)),
            },
            Expr::Div(a, b) => match (a.ev(p, x), b.ev(p, x)) {
                (K(u), K(v)) => K(u / v),
                // not `c / var`: reverse 0.2.2 records the weight −1/x instead of −c/x² for f64 / Var
                (K(u), S(v)) => S(v.recip().mulc(u)),
                (S(u), K(v)) => S(u.mulc(1.0 / v)),
                (S(u), S(v)) => S(u.div(v)),
            },
            Expr::Neg(a) => match a.ev(p, x) {
                K(u) => K(-u),
                S(u) => S(u.neg()),
            },
            Expr::Exp(a) => match a.ev(p, x) {
                K(u) => K(u.exp()),
                S(u) => S(u.exp()),
            },
            Expr::Sin(a) => match a.ev(p, x) {
                K(u) => K(u.sin()),
                S(u) => S(u.sin()),
            },
            Expr::Cos(a) => match a.ev(p, x) {
                K(u) => K(u.cos()),
                S(u) => S(u.cos()),
            },
            Expr::Ln(a) => match a.ev(p, x) {
                K(u) => K(u.ln()),
                S(u) => S(u.ln()),
            },
            Expr::Powi(a, n) => match a.ev(p, x) {
                K(u) => K(u.powi(*n)),
                S(u) => S(u.powi(*n)),
            },
        }
    }

    /// f(p; x) as a scalar of type S (a model without parameters is anchored on p[0]·0).
    fn eval<S: Scalar>(&self, p: &[S], x: f64) -> S {
        match self.ev(p, x) {
            Val::S(s) => s,
            Val::K(k) => p[0].mulc(0.0).addc(k),
        }
    }
}

/// An objective for Adam / SGD.
#[derive(Clone, Debug, Serialize, Deserialize)]
pub enum Obj {
    /// ½ xᵀQx − bᵀx, `q` row-major n×n symmetric, n = b.len()
    Quad { q: Vec<f64>, b: Vec<f64> },
    /// Σ_{i<n−1} (a − x_i)² + b (x_{i+1} − x_i²)²
    Rosen { a: f64, b: f64 },
    /// Σ_i (model(p; xs_i) − ys_i)²
    Lsq { model: Expr, xs: Vec<f64>, ys: Vec<f64> },
}

impl Obj {
    fn name(&self) -> &'static str {
        match self {
            Obj::Quad { .. } => "quad",
            Obj::Rosen { .. } => "rosenbrock",
            Obj::Lsq { .. } => "lsq",
        }
    }
    /// the numeric coefficients, passed through the optimizer's `data` argument
    fn data(&self) -> Vec<Vec<f64>> {
        match self {
            Obj::Quad { q, b } => vec![q.clone(), b.clone()],
            Obj::Rosen { a, b } => vec![vec![*a, *b]],
            Obj::Lsq { xs, ys, .. } => vec![xs.clone(), ys.clone()],
        }
    }
    fn valid(&self, n: usize) -> bool {
        let fin = |v: &[f64]| v.iter().all(|x| x.is_finite());
        match self {
            Obj::Quad { q, b } => n >= 1 && n <= ND && b.len() == n && q.len() == n * n && fin(q) && fin(b),
            Obj::Rosen { a, b } => n >= 2 && n <= ND && a.is_finite() && b.is_finite(),
            Obj::Lsq { model, xs, ys } => {
                let (np, nodes, ok) = model.shape();
                n >= 1 && n <= ND && np <= n && np >= 1 && nodes <= 200 && ok && xs.len() == ys.len() && !xs.is_empty() && fin(xs) && fin(ys)
            }
        }
    }
    /// The objective value; only the *shape* (dimension, model tree) is taken from `self`, every number
    /// from `d` — the slices the optimizer hands back to the objective.
    fn eval<S: Scalar>(&self, p: &[S], d: &[&[f64]]) -> S {
        match self {
            Obj::Quad { .. } => {
                let n = p.len();
                let (q, b) = (d[0], d[1]);
                let mut acc: Option<S> = None;
                for i in 0..n {
                    let mut inner = p[0].mulc(q[i * n]);
                    for j in 1..n {
                        inner = inner.add(p[j].mulc(q[i * n + j]));
                    }
                    let term = p[i].mul(inner.mulc(0.5).addc(-b[i]));
                    acc = Some(match acc {
                        None => term,
                        Some(a) => a.add(term),
                    });
                }
                acc.unwrap()
            }
            Obj::Rosen { .. } => {
                let n = p.len();
                let (a, b) = (d[0][0], d[0][1]);
                let mut acc: Option<S> = None;
                for i in 0..n - 1 {
                    let t1 = p[i].neg().addc(a).powi(2);
                    let t2 = p[i + 1].sub(p[i].powi(2)).powi(2).mulc(b);
                    let term = t1.add(t2);
                    acc = Some(match acc {
                        None => term,
                        Some(s) => s.add(term),
                    });
                }
                acc.unwrap()
            }
            Obj::Lsq { model, .. } => {
                let (xs, ys) = (d[0], d[1]);
                let mut acc: Option<S> = None;
                for (x, y) in xs.iter().zip(ys) {
                    let term = model.eval(p, *x).addc(-*y).powi(2);
                    acc = Some(match acc {
                        None => term,
                        Some(s) => s.add(term),
                    });
                }
                acc.unwrap()
            }
        }
    }
    fn grad(&self, x: &[f64], d: &[&[f64]]) -> Vec<f64> {
        let r = self.eval::<Dual>(&Dual::vars(x), d);
        r.d[..x.len()].to_vec()
    }
}

// ------------------------------------------------------------------------------------------------
// Optimizer descriptions and the published recurrences
// ------------------------------------------------------------------------------------------------

#[derive(Clone, Debug, Serialize, Deserialize)]
pub enum Opt {
    Adam { step: f64, beta1: f64, beta2: f64, eps: f64 },
    /// plain: momentum = 0, nesterov = false
    Sgd { step: f64, momentum: f64, nesterov: bool },
}

impl Opt {
    fn kind(&self) -> &'static str {
        match self {
            Opt::Adam { .. } => "adam",
            Opt::Sgd { momentum, nesterov, .. } => {
                if *nesterov {
                    "sgd/nesterov"
                } else if *momentum == 0.0 {
                    "sgd/plain"
                } else {
                    "sgd/momentum"
                }
            }
        }
    }
    fn family(&self) -> &'static str {
        match self {
            Opt::Adam { .. } => "adam",
            Opt::Sgd { .. } => "sgd",
        }
    }
    fn valid(&self) -> bool {
        match *self {
            Opt::Adam { step, beta1, beta2, eps } => step > 0.0 && step <= 0.5 && beta1 > 0.0 && beta1 < 1.0 && beta2 > 0.0 && beta2 < 1.0 && eps > 0.0 && eps <= 1.0,
            Opt::Sgd { step, momentum, .. } => step > 0.0 && step <= 0.5 && (0.0..=0.99).contains(&momentum),
        }
    }
}

enum LibOpt {
    Adam(Adam),
    Sgd(SGD),
}

impl LibOpt {
    fn new(o: &Opt) -> LibOpt {
        match *o {
            Opt::Adam { step, beta1, beta2, eps } => LibOpt::Adam(Adam::new(step, beta1, beta2, eps)),
            Opt::Sgd { step, momentum, nesterov } => LibOpt::Sgd(SGD::new(step, momentum, nesterov)),
        }
    }
    fn run(&self, obj: &Obj, x0: &[f64], data: &[&[f64]], k: usize) -> Result<Vec<f64>, String> {
        catch(|| match self {
            LibOpt::Adam(a) => a.optimize(|p, d| obj.eval(p, d), x0, data, k).v.clone(),
            LibOpt::Sgd(s) => s.optimize(|p, d| obj.eval(p, d), x0, data, k).v.clone(),
        })
    }
}

/// relative size of the per-step perturbation of the shadow trajectory (see `check_traj`)
const SHADOW: f64 = 1e-14;
const NSHADOW: u64 = 6;
/// budgets are compared while every shadow stays within GATE·tolerance of the reference
const GATE: f64 = 0.03;

/// X_0 … X_K by the published recurrences, gradients by forward-mode duals.
/// * Adam — Kingma & Ba 2015, Algorithm 1: m ← β₁m + (1−β₁)g, v ← β₂v + (1−β₂)g², m̂ = m/(1−β₁ᵗ),
///   v̂ = v/(1−β₂ᵗ), x ← x − α·m̂/(√v̂ + ε).
/// * plain SGD: x ← x − ηg. * classical momentum (Polyak): u ← μu + ηg, x ← x − u.
/// * Nesterov (Sutskever et al. 2013): g taken at the look-ahead point x − μu, then as momentum.
/// With `shadow`, every iterate is additionally perturbed by ±SHADOW·‖x‖∞ per coordinate (deterministic
/// signs) to measure how strongly the trajectory amplifies rounding-size differences.
fn reference(opt: &Opt, obj: &Obj, x0: &[f64], d: &[&[f64]], kmax: usize, shadow: Option<u64>) -> Vec<Vec<f64>> {
    let n = x0.len();
    let mut x = x0.to_vec();
    let mut out = Vec::with_capacity(kmax + 1);
    out.push(x.clone());
    let mut m = vec![0.0; n];
    let mut v = vec![0.0; n];
    let mut u = vec![0.0; n];
    for t in 1..=kmax {
        match *opt {
            Opt::Adam { step, beta1, beta2, eps } => {
                let g = obj.grad(&x, d);
                let c1 = 1.0 - beta1.powi(t as i32);
                let c2 = 1.0 - beta2.powi(t as i32);
                for i in 0..n {
                    m[i] = beta1 * m[i] + (1.0 - beta1) * g[i];
                    v[i] = beta2 * v[i] + (1.0 - beta2) * g[i] * g[i];
                    let mhat = m[i] / c1;
                    let vhat = v[i] / c2;
                    x[i] -= step * mhat / (vhat.sqrt() + eps);
                }
            }
            Opt::Sgd { step, momentum, nesterov } => {
                if momentum == 0.0 && !nesterov {
                    let g = obj.grad(&x, d);
                    for i in 0..n {
                        x[i] -= step * g[i];
                    }
                } else {
                    let g = if nesterov {
                        let look: Vec<f64> = (0..n).map(|i| x[i] - momentum * u[i]).collect();
                        obj.grad(&look, d)
                    } else {
                        obj.grad(&x, d)
                    };
                    for i in 0..n {
                        u[i] = momentum * u[i] + step * g[i];
                        x[i] -= u[i];
                    }
                }
            }
        }
        if let Some(salt) = shadow {
            let s = x.iter().fold(0.0f64, |a, b| a.max(b.abs()));
            for i in 0..n {
                // salt 1 / 2: the same sign at every step (systematic drift, which random signs
                // under-estimate by √k on long neutral trajectories); others: pseudo-random signs
                let h = Hx::new().u(salt).u(t as u64).u(i as u64).finish();
                let sign = match salt {
                    1 => 1.0,
                    2 => -1.0,
                    _ => {
                        if h & 1 == 1 {
                            1.0
                        } else {
                            -1.0
                        }
                    }
                };
                x[i] += sign * SHADOW * s;
            }
        }
        out.push(x.clone());
    }
    out
}

fn norm2(x: &[f64]) -> f64 {
    x.iter().map(|v| v * v).sum::<f64>().sqrt()
}
fn dist2(x: &[f64], y: &[f64]) -> f64 {
    x.iter().zip(y).map(|(a, b)| (a - b) * (a - b)).sum::<f64>().sqrt()
}
fn bits_eq(x: &[f64], y: &[f64]) -> bool {
    x.len() == y.len() && x.iter().zip(y).all(|(a, b)| a.to_bits() == b.to_bits())
}

/// "The parameters have stopped changing" between two consecutive reference iterates: every coordinate
/// changed by at most 16·ε_mach·|x| (relative; DESIGN.md wrote ε_mach·max(1,|x|), whose absolute floor of 1 would
/// accept an optimizer that stops on tiny-scale problems while the parameters still move by tens of percent —
/// seeded change C10-r2-1). The factor 16 absorbs that the
/// reference and the library differ in the last bits, so the step at which an update falls below one ulp
/// may differ by a step or two between them (updates shrink geometrically near a fixed point).
const STOP_FACTOR: f64 = 16.0;
fn stopped(prev: &[f64], cur: &[f64]) -> f64 {
    let mut worst = 0.0f64;
    for (a, b) in prev.iter().zip(cur) {
        // relative to the parameter itself (no absolute floor of 1): parameters of size 1e-20 that move by
        // 10 % per step have not "stopped changing"; 1e-300 only covers the subnormal range
        let bound = STOP_FACTOR * f64::EPSILON * a.abs().max(b.abs()) + 1e-300;
        worst = worst.max((a - b).abs() / bound);
    }
    worst
}

#[derive(Clone, Debug, Serialize, Deserialize)]
pub struct TrajCase {
    pub class: String,
    pub opt: Opt,
    pub obj: Obj,
    pub x0: Vec<f64>,
    pub kmax: usize,
}

/// relative tolerance of the comparison library ↔ reference: ‖L_k − X_k‖₂ ≤ TOL·(1 + ‖X_k‖₂) (DESIGN.md)
const TOL: f64 = 1e-10;

/// The trajectory oracle, shared by the four trajectory sub-checks and by early-stop.
fn check_traj(ctx: &mut Ctx, sub: &str, c: &TrajCase) -> R {
    let n = c.x0.len();
    if !(c.opt.valid() && c.obj.valid(n) && c.x0.iter().all(|x| x.is_finite()) && c.kmax >= 1 && c.kmax <= 2000) {
        return Ok(());
    }
    let kind = c.opt.kind();
    let data = c.obj.data();
    let d: Vec<&[f64]> = data.iter().map(|v| v.as_slice()).collect();

    // reference and shadow trajectories; the comparison is restricted to the prefix on which
    // (a) the reference stays finite and below 1e100 and (b) all shadow trajectories (data and iterates
    // perturbed by 1e-14 relative, ≈ 90 unit round-offs) stay within GATE·TOL of it, i.e. on which
    // rounding-size differences between reverse- and forward-mode evaluation cannot grow to the tolerance.
    let xs = reference(&c.opt, &c.obj, &c.x0, &d, c.kmax, None);
    // shadows: every number of the objective's data perturbed by ±1e-14 relative (fixed signs) and every
    // iterate by ±1e-14·‖x‖∞ — a backward-error model of evaluating the objective and its gradient in
    // working precision in a different order (≈ 90 unit round-offs per datum). Six sign patterns (two systematic, four pseudo-random), so that an unlucky projection on the unstable direction does not hide the amplification.
    let mut shadows: Vec<Vec<Vec<f64>>> = vec![];
    for salt in 1..=NSHADOW {
        let data_sh: Vec<Vec<f64>> = data
            .iter()
            .enumerate()
            .map(|(a, v)| {
                v.iter()
                    .enumerate()
                    .map(|(i, x)| {
                        let hh = Hx::new().u(0xda7a).u(salt).u(a as u64).u(i as u64).finish();
                        x * (1.0 + if hh & 1 == 1 { SHADOW } else { -SHADOW })
                    })
                    .collect()
            })
            .collect();
        let d_sh: Vec<&[f64]> = data_sh.iter().map(|v| v.as_slice()).collect();
        shadows.push(reference(&c.opt, &c.obj, &c.x0, &d_sh, c.kmax, Some(salt)));
    }
    let shadow_dev = |k: usize| -> f64 {
        let mut w = 0.0f64;
        for sh in &shadows {
            let dd = dist2(&xs[k], &sh[k]);
            w = if dd.is_nan() { f64::INFINITY } else { w.max(dd) };
        }
        w
    };
    let mut keff = 0usize;
    let mut why = "full";
    for k in 1..=c.kmax {
        let fin = xs[k].iter().all(|v| v.is_finite() && v.abs() < 1e100);
        if !fin {
            why = "truncated/diverged";
            break;
        }
        if !(shadow_dev(k) <= GATE * TOL * (1.0 + norm2(&xs[k]))) {
            why = "truncated/sensitive";
            break;
        }
        keff = k;
    }
    let moved = dist2(&xs[keff], &xs[0]);
    let nontrivial = keff >= 2 && moved > 1e-6;
    let h = Hx::new().s(sub).json(c).finish();
    ctx.case(sub, &format!("{}/{}", kind, c.class), nontrivial, h);
    ctx.label(sub, &format!("{}/prefix={}", kind, why));
    ctx.label(sub, &format!("{}/dim={}", c.obj.name(), n));
    ctx.sample(sub, || json!(c));

    let lib = LibOpt::new(&c.opt);
    let mut ls: Vec<Vec<f64>> = Vec::with_capacity(keff + 1);
    // budget 0 must return the start point
    match lib.run(&c.obj, &c.x0, &d, 0) {
        Ok(l0) => {
            ensure!(bits_eq(&l0, &c.x0), format!("C10/{}/trajectory", kind), "{:?} with a budget of 0 steps returned {:?} instead of the start {:?}", c.opt, l0, c.x0);
            ls.push(l0);
        }
        Err(msg) => return fail(format!("C10/{}/panic", kind), format!("{:?} on {} from {:?} with budget 0 panicked: {}", c.opt, c.obj.name(), c.x0, msg)),
    }
    let mut accepted_stop: Option<usize> = None;
    let mut stationary_seen = false;
    for k in 1..=keff {
        let l = match lib.run(&c.obj, &c.x0, &d, k) {
            Ok(l) => l,
            Err(msg) => return fail(format!("C10/{}/panic", kind), format!("{:?} on {} from {:?} with budget {} panicked: {}", c.opt, c.obj.name(), c.x0, k, msg)),
        };
        ensure!(l.len() == n, format!("C10/{}/trajectory", kind), "result has {} entries for {} parameters", l.len(), n);
        let tol = TOL * (1.0 + norm2(&xs[k]));
        let dev = dist2(&l, &xs[k]);
        if dev <= tol {
            ctx.worst("trajectory deviation / (1e-10 (1+|x|))", dev / tol);
            let shd = shadow_dev(k);
            if dev > 1e-3 * tol && shd > 0.0 {
                ctx.worst("rounding model: library deviation / shadow deviation", dev / shd);
            }
            // The absolute part of the tolerance (1e-10·1) makes the comparison above vacuous for problems whose
            // parameters are tiny; an optimizer that stops there although the parameters still move by a
            // visible *relative* amount is caught directly: the library returned the same bits for budgets k−1
            // and k while the reference moved by more than 1e-6 relative in some coordinate.
            if bits_eq(&l, &ls[k - 1]) {
                let moving = xs[k - 1].iter().zip(&xs[k]).any(|(a, b)| (a - b).abs() > 1e-6 * a.abs().max(b.abs()) && a.abs().max(b.abs()) > 1e-290);
                if moving && accepted_stop.is_none() {
                    return fail(
                        format!("C10/early-stop/{}", c.opt.family()),
                        format!(
                            "{:?} on {} from {:?}: budget {} returned {:?}, bit-identical to the result for budget {} — the optimizer stopped although the parameters were still changing by more than 1e-6 relative: reference iterates x_{} = {:?}, x_{} = {:?}",
                            c.opt, c.obj.name(), c.x0, k, l, k - 1, k - 1, xs[k - 1], k, xs[k]
                        ),
                    );
                }
            }
            if !stationary_seen && bits_eq(&l, &ls[k - 1]) {
                // the library did not move between budgets k-1 and k (null step or early stop) and is still
                // within tolerance of the reference: the legitimate kind of stopping
                stationary_seen = true;
                ctx.label(sub, &format!("{}/library-stationary-and-within-tolerance", kind));
            }
            ls.push(l);
            continue;
        }
        // Not the k-th iterate. Is it an earlier iterate (early stop)?
        // The value may have been returned for several earlier budgets already (a step that left the parameters
        // unchanged): the stop is legitimate if at ANY of them the reference step into that iterate had stopped changing
        // the parameters — e.g. heavy-ball momentum whose velocity cancels the gradient step exactly for one step. That the
        // recurrence would move again later does not matter: the statement allows stopping "once the parameters have
        // stopped changing", and that is what the library observed. (Found as a false alarm by a thorough run on the
        // unchanged tree: SGD(0.5, momentum 0.5) on ½x² − ¼x from 0 has x_3 = x_4 = 0.3125 and x_5 = 0.28125.)
        let cands: Vec<usize> = (0..k).filter(|&s| bits_eq(&ls[s], &l)).collect();
        let legit = |s: usize| {
            let s1 = s.max(1);
            stopped(&xs[s1 - 1], &xs[s1]) <= 1.0 && dist2(&l, &xs[s1]) <= TOL * (1.0 + norm2(&xs[s1]))
        };
        let s = cands.iter().copied().find(|&s| legit(s)).or_else(|| cands.first().copied());
        match s {
            Some(s) => {
                let s1 = s.max(1);
                let tol_s = TOL * (1.0 + norm2(&xs[s1]));
                let dev_s = dist2(&l, &xs[s1]);
                let st = stopped(&xs[s1 - 1], &xs[s1]);
                if st <= 1.0 && dev_s <= tol_s {
                    // legitimate: the reference parameters had stopped changing at the step where the
                    // library stopped, and the returned value is that iterate
                    ctx.worst("early stop: reference change at the stopping step / (16 eps max(1,|x|))", st);
                    if accepted_stop.is_none() {
                        accepted_stop = Some(s1);
                        ctx.label(sub, &format!("{}/legit-early-stop", kind));
                    }
                    ls.push(l);
                    continue;
                }
                return fail(
                    format!("C10/early-stop/{}", c.opt.family()),
                    format!(
                        "{:?} on {} from {:?}: budget {} returned {:?}, bit-identical to the result for budget {} — the optimizer stopped after {} step(s) although the parameters were still changing: reference iterates x_{} = {:?}, x_{} = {:?}, …, x_{} = {:?}",
                        c.opt, c.obj.name(), c.x0, k, l, s, s1, s1 - 1, xs[s1 - 1], s1, xs[s1], k, xs[k]
                    ),
                );
            }
            None => {
                return fail(
                    format!("C10/{}/trajectory", kind),
                    format!(
                        "{:?} on {} from {:?}: budget {} returned {:?}, the published recurrence gives {:?} (distance {:e}, tolerance {:e})",
                        c.opt, c.obj.name(), c.x0, k, l, xs[k], dev, tol
                    ),
                );
            }
        }
    }
    Ok(())
}

fn check_adam(ctx: &mut Ctx, c: &TrajCase) -> R {
    check_traj(ctx, "adam/trajectory", c)
}
fn check_sgd_plain(ctx: &mut Ctx, c: &TrajCase) -> R {
    check_traj(ctx, "sgd/plain/trajectory", c)
}
fn check_sgd_momentum(ctx: &mut Ctx, c: &TrajCase) -> R {
    check_traj(ctx, "sgd/momentum/trajectory", c)
}
fn check_sgd_nesterov(ctx: &mut Ctx, c: &TrajCase) -> R {
    check_traj(ctx, "sgd/nesterov/trajectory", c)
}
fn check_early(ctx: &mut Ctx, c: &TrajCase) -> R {
    check_traj(ctx, "early-stop", c)
}

/// Determinism: the same call twice on one optimizer object, on a clone, and on a fresh object after an
/// unrelated run on the first one — all bit-identical.
fn check_determinism(ctx: &mut Ctx, c: &TrajCase) -> R {
    let n = c.x0.len();
    if !(c.opt.valid() && c.obj.valid(n) && c.x0.iter().all(|x| x.is_finite()) && c.kmax >= 1 && c.kmax <= 2000) {
        return Ok(());
    }
    let kind = c.opt.kind();
    let data = c.obj.data();
    let d: Vec<&[f64]> = data.iter().map(|v| v.as_slice()).collect();
    let h = Hx::new().s("determinism").json(c).finish();
    let sig = format!("C10/determinism/{}", c.opt.family());
    let lib = LibOpt::new(&c.opt);
    let run = |l: &LibOpt, k: usize| l.run(&c.obj, &c.x0, &d, k);
    let a = run(&lib, c.kmax);
    let a = match a {
        Ok(a) => a,
        Err(msg) => {
            ctx.case("determinism", &format!("{}/{}", kind, c.class), false, h);
            return fail(format!("C10/{}/panic", kind), format!("{:?} on {} from {:?} with budget {} panicked: {}", c.opt, c.obj.name(), c.x0, c.kmax, msg));
        }
    };
    let nontrivial = c.kmax >= 2 && a.iter().all(|v| v.is_finite()) && dist2(&a, &c.x0) > 1e-6;
    ctx.case("determinism", &format!("{}/{}", kind, c.class), nontrivial, h);
    ctx.sample("determinism", || json!(c));
    // an unrelated run in between (different budget, shifted start) on the same object
    let shifted: Vec<f64> = c.x0.iter().map(|v| v + 0.25).collect();
    let _ = lib.run(&c.obj, &shifted, &d, (c.kmax / 2).max(1));
    let b = run(&lib, c.kmax).map_err(|m| crate::engine::Fail { sig: format!("C10/{}/panic", kind), what: m })?;
    ensure!(bits_eq(&a, &b), sig, "{:?} on {} from {:?}, budget {}: second call on the same optimizer returned {:?}, first call {:?}", c.opt, c.obj.name(), c.x0, c.kmax, b, a);
    let fresh = LibOpt::new(&c.opt);
    let e = run(&fresh, c.kmax).map_err(|m| crate::engine::Fail { sig: format!("C10/{}/panic", kind), what: m })?;
    ensure!(bits_eq(&a, &e), sig, "{:?} on {} from {:?}, budget {}: a fresh optimizer returned {:?}, a used one {:?}", c.opt, c.obj.name(), c.x0, c.kmax, e, a);
    let cl = match &lib {
        LibOpt::Adam(x) => LibOpt::Adam(x.clone()),
        LibOpt::Sgd(x) => LibOpt::Sgd(x.clone()),
    };
    let f = run(&cl, c.kmax).map_err(|m| crate::engine::Fail { sig: format!("C10/{}/panic", kind), what: m })?;
    ensure!(bits_eq(&a, &f), sig, "{:?} on {} from {:?}, budget {}: a cloned optimizer returned {:?}, the original {:?}", c.opt, c.obj.name(), c.x0, c.kmax, f, a);
    // the documented default setting ("the defaults recommended by Kingma and Ba 2014": 0.001, 0.9, 0.999, 1e-8) is a
    // hyper-parameter setting like any other: Adam::default() / with_stepsize(s) are Adam::new(s, 0.9, 0.999, 1e-8)
    if let Opt::Adam { step, .. } = c.opt {
        let explicit = LibOpt::Adam(compute::optimize::Adam::new(step, 0.9, 0.999, 1e-8));
        let with = LibOpt::Adam(compute::optimize::Adam::with_stepsize(step));
        let mut dflt = compute::optimize::Adam::default();
        dflt.set_stepsize(step);
        let dflt = LibOpt::Adam(dflt);
        let want = run(&explicit, c.kmax).map_err(|m| crate::engine::Fail { sig: "C10/adam/panic".into(), what: m })?;
        for (name, l) in [("Adam::with_stepsize(s)", &with), ("Adam::default() + set_stepsize(s)", &dflt)] {
            let got = run(l, c.kmax).map_err(|m| crate::engine::Fail { sig: "C10/adam/panic".into(), what: m })?;
            ensure!(
                bits_eq(&want, &got),
                "C10/adam/defaults",
                "{} with s = {:e} on {} from {:?}, budget {}: returned {:?}, Adam::new(s, 0.9, 0.999, 1e-8) returns {:?}",
                name, step, c.obj.name(), c.x0, c.kmax, got, want
            );
        }
        ctx.label("determinism", "adam-default-setting-compared");
    }
    Ok(())
}

// ------------------------------------------------------------------------------------------------
// Levenberg–Marquardt
// ------------------------------------------------------------------------------------------------

#[derive(Clone, Debug, Serialize, Deserialize)]
pub struct LmCase {
    pub class: String,
    /// f(p; x), np parameters
    pub model: Expr,
    pub np: usize,
    pub xs: Vec<f64>,
    pub ys: Vec<f64>,
    pub start: Vec<f64>,
    pub eps1: f64,
    pub eps2: f64,
    pub tau: f64,
    pub maxsteps: usize,
}

impl LmCase {
    fn valid(&self) -> bool {
        let fin = |v: &[f64]| v.iter().all(|x| x.is_finite());
        let (npm, nodes, ok) = self.model.shape();
        self.np >= 1
            && self.np <= 5
            && npm <= self.np
            && ok
            && nodes <= 400
            && self.start.len() == self.np
            && self.xs.len() == self.ys.len()
            && self.xs.len() >= self.np + 1
            && self.xs.len() <= 200
            && fin(&self.xs)
            && fin(&self.ys)
            && fin(&self.start)
            && self.eps1 > 0.0
            && self.eps2 > 0.0
            && self.tau > 0.0
            && self.tau.is_finite()
            && self.maxsteps <= 1000
    }
    fn n(&self) -> usize {
        self.xs.len()
    }
    /// residual sum of squares at p and a bound of the rounding error of that number when the residuals
    /// are evaluated in working precision in any operation order (running error analysis, `Mag`), times 4
    /// first-order worst-case bound of |computed − exact| of the residual sum of squares at p (no safety factor)
    fn rss_resolution(&self, p: &[f64]) -> f64 {
        let u = f64::EPSILON / 2.0;
        let pm: Vec<Mag> = p.iter().map(|&v| Mag::exact(v)).collect();
        let mut rss = 0.0;
        let mut err = 0.0;
        for (x, y) in self.xs.iter().zip(&self.ys) {
            let f = self.model.eval::<Mag>(&pm, *x);
            let r = y - f.v;
            let dr = u * (f.e + r.abs());
            rss += r * r;
            err += 2.0 * r.abs() * dr + dr * dr;
        }
        err + u * (self.n() as f64 + 1.0) * rss
    }
    fn rss(&self, p: &[f64]) -> (f64, f64) {
        let u = f64::EPSILON / 2.0;
        let pm: Vec<Mag> = p.iter().map(|&v| Mag::exact(v)).collect();
        let mut rss = 0.0;
        let mut err = 0.0;
        for (x, y) in self.xs.iter().zip(&self.ys) {
            let f = self.model.eval::<Mag>(&pm, *x);
            let r = y - f.v;
            let dr = 4.0 * u * (f.e + r.abs());
            rss += r * r;
            err += 2.0 * r.abs() * dr + dr * dr;
        }
        err += 4.0 * u * (self.n() as f64 + 2.0) * rss;
        (rss, err)
    }
    /// Jacobian of the model (n × np, row-major) at p, by dual numbers
    fn jac(&self, p: &[f64]) -> Vec<f64> {
        let pd = Dual::vars(p);
        let mut j = Vec::with_capacity(self.n() * self.np);
        for x in &self.xs {
            let f = self.model.eval::<Dual>(&pd, *x);
            j.extend_from_slice(&f.d[..self.np]);
        }
        j
    }
    fn run(&self) -> Result<(Vec<f64>, Vec<f64>, usize, usize), String> {
        catch(|| {
            let lm = LM::new(self.eps1, self.eps2, self.tau);
            let (p, cov) = lm.optimize(|p, d| self.model.eval(p, d[0][0]), &self.start, &[&self.xs, &self.ys], self.maxsteps);
            (p.v.clone(), cov.data.v.clone(), cov.nrows, cov.ncols)
        })
    }
}

/// Householder QR of the n×p matrix `a` (row-major, n ≥ p). Returns (R p×p row-major upper triangular, Qᵀb[..p]).
fn householder(a: &[f64], n: usize, p: usize, b: &[f64]) -> (Vec<f64>, Vec<f64>) {
    let mut a = a.to_vec();
    let mut b = b.to_vec();
    for k in 0..p {
        let mut s = 0.0;
        for i in k..n {
            s += a[i * p + k] * a[i * p + k];
        }
        let norm = s.sqrt();
        if norm == 0.0 {
            continue;
        }
        let alpha = if a[k * p + k] > 0.0 { -norm } else { norm };
        let mut v: Vec<f64> = (k..n).map(|i| a[i * p + k]).collect();
        v[0] -= alpha;
        let vn: f64 = v.iter().map(|t| t * t).sum();
        if vn == 0.0 {
            continue;
        }
        for j in k..p {
            let mut dot = 0.0;
            for i in k..n {
                dot += v[i - k] * a[i * p + j];
            }
            let f = 2.0 * dot / vn;
            for i in k..n {
                a[i * p + j] -= f * v[i - k];
            }
        }
        let mut dot = 0.0;
        for i in k..n {
            dot += v[i - k] * b[i];
        }
        let f = 2.0 * dot / vn;
        for i in k..n {
            b[i] -= f * v[i - k];
        }
    }
    let mut r = vec![0.0; p * p];
    for i in 0..p {
        for j in i..p {
            r[i * p + j] = a[i * p + j];
        }
    }
    (r, b[..p].to_vec())
}

fn back_subst(r: &[f64], p: usize, rhs: &[f64]) -> Vec<f64> {
    let mut x = vec![0.0; p];
    for i in (0..p).rev() {
        let mut s = rhs[i];
        for j in i + 1..p {
            s -= r[i * p + j] * x[j];
        }
        x[i] = s / r[i * p + i];
    }
    x
}

/// (RᵀR)⁻¹ = R⁻¹R⁻ᵀ, row-major
fn inv_from_r(r: &[f64], p: usize) -> Vec<f64> {
    // columns of R⁻¹
    let mut rinv = vec![0.0; p * p];
    for c in 0..p {
        let mut e = vec![0.0; p];
        e[c] = 1.0;
        let col = back_subst(r, p, &e);
        for i in 0..p {
            rinv[i * p + c] = col[i];
        }
    }
    let mut out = vec![0.0; p * p];
    for i in 0..p {
        for j in 0..p {
            let mut s = 0.0;
            for k in 0..p {
                s += rinv[i * p + k] * rinv[j * p + k];
            }
            out[i * p + j] = s;
        }
    }
    out
}

/// eigenvalues of a symmetric positive semi-definite p×p matrix by cyclic Jacobi rotations; the stopping
/// criterion is relative to the two diagonal entries involved (|a_ij| ≤ 1e-17·√(a_ii a_jj)), so that small
/// eigenvalues of graded matrices are resolved. None when a diagonal entry is not positive.
fn sym_eigenvalues(a: &[f64], p: usize) -> Option<Vec<f64>> {
    let mut a = a.to_vec();
    for _sweep in 0..80 {
        let mut done = true;
        for i in 0..p {
            if !(a[i * p + i] > 0.0) {
                return None;
            }
        }
        for i in 0..p {
            for j in i + 1..p {
                let apq = a[i * p + j];
                if apq.abs() <= 1e-17 * (a[i * p + i] * a[j * p + j]).sqrt() {
                    continue;
                }
                done = false;
                let theta = (a[j * p + j] - a[i * p + i]) / (2.0 * apq);
                let t = if theta == 0.0 { 1.0 } else { theta.signum() / (theta.abs() + (theta * theta + 1.0).sqrt()) };
                let c = 1.0 / (t * t + 1.0).sqrt();
                let s = t * c;
                for k in 0..p {
                    let (aki, akj) = (a[k * p + i], a[k * p + j]);
                    a[k * p + i] = c * aki - s * akj;
                    a[k * p + j] = s * aki + c * akj;
                }
                for k in 0..p {
                    let (aik, ajk) = (a[i * p + k], a[j * p + k]);
                    a[i * p + k] = c * aik - s * ajk;
                    a[j * p + k] = s * aik + c * ajk;
                }
                if !(a[i * p + i] > 0.0 && a[j * p + j] > 0.0) {
                    return None;
                }
            }
        }
        if done {
            return Some((0..p).map(|i| a[i * p + i]).collect());
        }
    }
    None
}

/// (λ_max, λ_min) of JᵀJ by the oracle's estimate; None when numerically singular (cond > 1e13) or not finite
fn eig_jtj(j: &[f64], n: usize, p: usize) -> Option<(f64, f64)> {
    let mut g = vec![0.0; p * p];
    for a in 0..p {
        for b in 0..p {
            let mut s = 0.0;
            for i in 0..n {
                s += j[i * p + a] * j[i * p + b];
            }
            g[a * p + b] = s;
        }
    }
    if !g.iter().all(|v| v.is_finite()) {
        return None;
    }
    let ev = sym_eigenvalues(&g, p)?;
    let mx = ev.iter().cloned().fold(f64::MIN, f64::max);
    let mn = ev.iter().cloned().fold(f64::MAX, f64::min);
    if !(mn > 0.0) || !(mx > 0.0) || !mx.is_finite() || mn < 1e-13 * mx || mn < 1e-200 {
        None
    } else {
        Some((mx, mn))
    }
}
fn cond_jtj(j: &[f64], n: usize, p: usize) -> f64 {
    match eig_jtj(j, n, p) {
        Some((mx, mn)) => mx / mn,
        None => f64::INFINITY,
    }
}

fn lm_prelude(ctx: &mut Ctx, sub: &str, c: &LmCase) -> Option<(f64, f64)> {
    if !c.valid() {
        return None;
    }
    let (rss0, err0) = c.rss(&c.start);
    if !(rss0.is_finite() && err0.is_finite()) || !c.jac(&c.start).iter().all(|v| v.is_finite()) {
        let h = Hx::new().s(sub).json(c).finish();
        ctx.case(sub, &format!("{}/skipped-nonfinite-start", c.class), false, h);
        return None;
    }
    Some((rss0, err0))
}

/// RSS(returned) ≤ RSS(start)·(1+1e-12) + rounding slack of the two RSS evaluations.
fn check_lm_descent(ctx: &mut Ctx, c: &LmCase) -> R {
    let sub = "lm/descent";
    let (rss0, err0) = match lm_prelude(ctx, sub, c) {
        Some(v) => v,
        None => return Ok(()),
    };
    let h = Hx::new().s(sub).json(c).finish();
    let (p, _cov, _, _) = match c.run() {
        Ok(v) => v,
        Err(msg) => {
            ctx.case(sub, &c.class, false, h);
            return fail("C10/lm/panic", format!("LM({:e},{:e},{:e}) budget {} on {} points, {} parameters from {:?} panicked: {}", c.eps1, c.eps2, c.tau, c.maxsteps, c.n(), c.np, c.start, msg));
        }
    };
    let moved = !bits_eq(&p, &c.start);
    ctx.case(sub, &c.class, moved, h);
    ctx.label(sub, if moved { "accepted-step" } else { "returned-start" });
    ctx.sample(sub, || json!(c));
    ensure!(p.len() == c.np, "C10/lm/descent", "LM returned {} parameters for {}", p.len(), c.np);
    let (rss1, err1) = c.rss(&p);
    let bound = rss0 * (1.0 + 1e-12) + err0 + if err1.is_finite() { err1 } else { 0.0 };
    ensure!(
        rss1 <= bound,
        "C10/lm/descent",
        "LM({:e},{:e},{:e}) budget {} ({}, {} points): residual sum of squares {:e} at the returned parameters {:?} exceeds {:e} at the start {:?}",
        c.eps1, c.eps2, c.tau, c.maxsteps, c.class, c.n(), rss1, p, rss0, c.start
    );
    if bound > 0.0 && moved {
        ctx.worst("lm/descent (accepted steps only): RSS(returned) / (RSS(start)(1+1e-12) + rounding)", rss1 / bound);
    }
    Ok(())
}

/// LM settings and budget of the linear sub-check (part of the oracle, DESIGN.md §4 C10)
const LIN_EPS: f64 = 1e-12;
const LIN_TAU: f64 = 1e-2;
const LIN_BUDGET: usize = 100;

/// On a model linear in the parameters LM(1e-12,1e-12,1e-2) with 100 steps reaches the least-squares solution:
/// ‖p − p_LS‖ ≤ 1e-6 (1 + ‖p_LS‖).
fn check_lm_linear(ctx: &mut Ctx, c: &LmCase) -> R {
    let sub = "lm/linear-reaches-ls";
    if lm_prelude(ctx, sub, c).is_none() {
        return Ok(());
    }
    let h = Hx::new().s(sub).json(c).finish();
    let (n, p) = (c.n(), c.np);
    // linear in the parameters: the Jacobian is the same at the start, at 0 and at a third point, and the
    // model is reproduced by f(0) + J p
    let j = c.jac(&vec![0.0; p]);
    let j1 = c.jac(&c.start);
    let third: Vec<f64> = c.start.iter().enumerate().map(|(i, v)| 0.5 - v * 0.75 + i as f64).collect();
    let j2 = c.jac(&third);
    let jmax = j.iter().fold(0.0f64, |a, b| a.max(b.abs()));
    let same = |a: &[f64], b: &[f64]| a.iter().zip(b).all(|(x, y)| (x - y).abs() <= 1e-12 * jmax);
    if !(jmax.is_finite() && jmax > 0.0 && same(&j, &j1) && same(&j, &j2)) {
        ctx.case(sub, &format!("{}/skipped-not-linear", c.class), false, h);
        return Ok(());
    }
    let (lmax, lmin) = eig_jtj(&j, n, p).unwrap_or((f64::INFINITY, 0.0));
    let cond = lmax / lmin;
    if !(cond <= 1e9) {
        ctx.case(sub, &format!("{}/skipped-cond>1e9", c.class), false, h);
        return Ok(());
    }
    // LM's documented stopping rule ‖Jᵀr‖∞ ≤ eps1 is absolute: it may stop at any p with
    // ‖p − p_LS‖ = ‖(JᵀJ)⁻¹Jᵀr‖ ≤ √p·eps1/λ_min. Problems whose scale is so small that this exceeds the
    // tolerance are outside what "reaches the solution with eps1 = 1e-12" can promise.
    let stop_allow = 2.0 * (p as f64).sqrt() * LIN_EPS / lmin;
    if !(stop_allow <= 1e-7) {
        ctx.case(sub, &format!("{}/skipped-tiny-scale", c.class), false, h);
        return Ok(());
    }
    // exact least-squares solution: min ‖(y − f(0;x)) − J p‖ by Householder QR
    let zero = vec![0.0; p];
    let rhs: Vec<f64> = c.xs.iter().zip(&c.ys).map(|(x, y)| y - c.model.eval::<f64>(&zero, *x)).collect();
    let (r, qtb) = householder(&j, n, p, &rhs);
    let pls = back_subst(&r, p, &qtb);
    if !pls.iter().all(|v| v.is_finite()) {
        ctx.case(sub, &format!("{}/skipped-singular", c.class), false, h);
        return Ok(());
    }
    // Resolution of the accept test: LM accepts a step only when the *computed* RSS decreases. Within
    // distance e of the solution the exact decrease of a full step is at most ~λ_min e² along the weakest
    // direction, which is invisible once it is below twice the rounding error E of an RSS evaluation:
    // no descent-tested scheme can be required to come closer than sqrt(2E/λ_min).
    let floor = (2.0 * c.rss_resolution(&pls) / lmin).sqrt();
    if !(floor <= 1e-3 * (1.0 + norm2(&pls))) {
        ctx.case(sub, &format!("{}/skipped-rss-resolution", c.class), false, h);
        return Ok(());
    }
    let mut cc = c.clone();
    cc.eps1 = LIN_EPS;
    cc.eps2 = LIN_EPS;
    cc.tau = LIN_TAU;
    cc.maxsteps = LIN_BUDGET;
    let (popt, _cov, _, _) = match cc.run() {
        Ok(v) => v,
        Err(msg) => {
            ctx.case(sub, &c.class, false, h);
            return fail("C10/lm/panic", format!("LM(1e-12,1e-12,1e-2) budget 100 on a linear model ({} points, {} parameters) from {:?} panicked: {}", n, p, c.start, msg));
        }
    };
    let moved = !bits_eq(&popt, &c.start);
    ctx.case(sub, &c.class, moved, h);
    ctx.label(sub, &format!("p={}", p));
    ctx.label(sub, &format!("cond(JtJ)~1e{}", cond.log10().floor() as i32));
    ctx.label(sub, if n <= p + 4 { "few-points" } else { "many-points" });
    ctx.sample(sub, || json!(c));
    let dist = dist2(&popt, &pls);
    let tol = 1e-6 * (1.0 + norm2(&pls)) + stop_allow + floor;
    ctx.label(sub, if floor > 1e-6 * (1.0 + norm2(&pls)) { "tolerance-dominated-by-rss-resolution" } else { "tolerance=1e-6" });
    ensure!(
        dist <= tol,
        "C10/lm/linear-reaches-ls",
        "{} parameters / {} points ({}, cond(JtJ) = {:.1e}), start {:?}: after 100 steps LM(1e-12,1e-12,1e-2) returned {:?}, the least-squares solution is {:?} (distance {:e}, allowed {:e})",
        p, n, c.class, cond, c.start, popt, pls, dist, tol
    );
    ctx.worst("lm/linear: |p - p_LS| / (1e-6 (1+|p_LS|) + stop rule + rss resolution)", dist / tol);
    // The same problem with the default gradient tolerance eps1 = 1e-6 (step tolerance and budget unchanged): either
    // the run ends on ‖Jᵀr‖∞ ≤ eps1, where ‖p − p_LS‖ = ‖(JᵀJ)⁻¹Jᵀr‖ ≤ √p·eps1/λ_min rigorously, or it never meets that
    // test and is iterate for iterate the run above. A gradient test that is looser than the documented absolute one
    // (for instance relative to the size of JᵀJ) leaves an error that this bound does not cover.
    let allow6 = 2.0 * (p as f64).sqrt() * 1e-6 / lmin;
    if allow6 <= 1e-2 * (1.0 + norm2(&pls)) {
        cc.eps1 = 1e-6;
        let popt6 = match cc.run() {
            Ok(v) => v.0,
            Err(msg) => return fail("C10/lm/panic", format!("LM(1e-6,1e-12,1e-2) budget 100 on a linear model ({} points, {} parameters) from {:?} panicked: {}", n, p, c.start, msg)),
        };
        ctx.label(sub, "also-run-with-eps1=1e-6");
        let dist6 = dist2(&popt6, &pls);
        let tol6 = 1e-6 * (1.0 + norm2(&pls)) + allow6 + floor;
        ensure!(
            dist6 <= tol6,
            "C10/lm/linear-reaches-ls",
            "{} parameters / {} points ({}, cond(JtJ) = {:.1e}, lambda_min = {:.3e}), start {:?}: LM(1e-6,1e-12,1e-2) with budget 100 returned {:?}, the least-squares solution is {:?} (distance {:e}; the gradient test ‖Jᵀr‖∞ <= 1e-6 allows at most {:e})",
            p, n, c.class, cond, lmin, c.start, popt6, pls, dist6, tol6
        );
        ctx.worst("lm/linear (eps1 = 1e-6): |p - p_LS| / (1e-6 (1+|p_LS|) + sqrt(p) eps1 / lambda_min + rss resolution)", dist6 / tol6);
    }
    Ok(())
}

/// The reported covariance equals s²(JᵀJ)⁻¹ with J and s² = RSS/(n−p) recomputed at the returned point.
fn check_lm_cov(ctx: &mut Ctx, c: &LmCase) -> R {
    let sub = "lm/covariance";
    if lm_prelude(ctx, sub, c).is_none() {
        return Ok(());
    }
    let h = Hx::new().s(sub).json(c).finish();
    let (n, p) = (c.n(), c.np);
    let (popt, cov, nr, nc) = match c.run() {
        Ok(v) => v,
        Err(msg) => {
            ctx.case(sub, &c.class, false, h);
            return fail("C10/lm/panic", format!("LM({:e},{:e},{:e}) budget {} on {} points, {} parameters from {:?} panicked: {}", c.eps1, c.eps2, c.tau, c.maxsteps, n, p, c.start, msg));
        }
    };
    let moved = !bits_eq(&popt, &c.start);
    ensure!(nr == p && nc == p && cov.len() == p * p, "C10/lm/covariance", "covariance has shape {}x{} for {} parameters", nr, nc, p);
    if !popt.iter().all(|v| v.is_finite()) {
        ctx.case(sub, &format!("{}/skipped-nonfinite-result", c.class), false, h);
        return Ok(());
    }
    let j = c.jac(&popt);
    let cond = cond_jtj(&j, n, p);
    if !(cond <= 1e10) {
        ctx.case(sub, &format!("{}/skipped-cond>1e10", c.class), false, h);
        return Ok(());
    }
    let (rss, err) = c.rss(&popt);
    if !(rss > 0.0 && err <= 1e-7 * rss) {
        ctx.case(sub, &format!("{}/skipped-rss-is-rounding", c.class), false, h);
        return Ok(());
    }
    ctx.case(sub, &c.class, moved, h);
    ctx.label(sub, &format!("cond(JtJ)~1e{}", cond.log10().floor() as i32));
    ctx.sample(sub, || json!(c));
    let s2 = rss / (n - p) as f64;
    let (r, _) = householder(&j, n, p, &vec![0.0; n]);
    let inv = inv_from_r(&r, p);
    let want: Vec<f64> = inv.iter().map(|v| v * s2).collect();
    let scale = want.iter().fold(0.0f64, |a, b| a.max(b.abs()));
    // 1e-6 (DESIGN.md) + the a-priori error of inverting a matrix of this condition number in working
    // precision (64·p·κ·u, both sides) + the rounding uncertainty of s²
    let tol = 1e-6 + 64.0 * p as f64 * cond * (f64::EPSILON / 2.0) + err / rss;
    let mut worst = 0.0f64;
    let mut at = (0, 0);
    for a in 0..p {
        for b in 0..p {
            let dv = (cov[a * p + b] - want[a * p + b]).abs();
            let dv = if dv.is_nan() { f64::INFINITY } else { dv };
            if dv > worst {
                worst = dv;
                at = (a, b);
            }
        }
    }
    ensure!(
        worst <= tol * scale,
        "C10/lm/covariance",
        "{} ({} points, {} parameters, cond(JtJ) = {:.1e}) returned {:?}: covariance entry ({},{}) = {:e}, s2 (JtJ)^-1 recomputed at the returned point gives {:e} (s2 = {:e}); allowed deviation {:e} of the largest entry {:e}",
        c.class, n, p, cond, popt, at.0, at.1, cov[at.0 * p + at.1], want[at.0 * p + at.1], s2, tol, scale
    );
    ctx.worst("lm/covariance: max |C - s2 (JtJ)^-1| / (tol max|C|)", worst / (tol * scale));
    Ok(())
}

// ---- generators -------------------------------------------------------------------------------

fn legendre(deg: usize) -> Expr {
    // monomial coefficients of P_0 … P_4
    let co: [&[f64]; 5] = [&[1.0], &[0.0, 1.0], &[-0.5, 0.0, 1.5], &[0.0, -1.5, 0.0, 2.5], &[0.375, 0.0, -3.75, 0.0, 4.375]];
    poly(co[deg.min(4)])
}
fn poly(co: &[f64]) -> Expr {
    use ex::*;
    let mut terms = vec![];
    for (k, &a) in co.iter().enumerate() {
        if a == 0.0 {
            continue;
        }
        terms.push(match k {
            0 => c(a),
            1 => mul(c(a), x()),
            _ => mul(c(a), powi(x(), k as i32)),
        });
    }
    if terms.is_empty() {
        c(0.0)
    } else {
        sum(terms)
    }
}

const LIN_FAMILIES: [&str; 5] = ["monomial", "legendre", "trig", "exponential", "mixed"];

fn basis_fn(family: usize, j: usize, pool: &mut Pool) -> Expr {
    use ex::*;
    match family {
        0 => match j {
            0 => c(1.0),
            1 => x(),
            _ => powi(x(), j as i32),
        },
        1 => legendre(j),
        2 => match j {
            0 => c(1.0),
            1 => sin(x()),
            2 => cos(x()),
            3 => sin(mul(c(2.0), x())),
            _ => cos(mul(c(2.0), x())),
        },
        3 => exp(mul(c(-(j as f64) * 0.75), x())),
        _ => match (pool.next().unsigned_abs() as usize + j) % 8 {
            0 => c(1.0),
            1 => x(),
            2 => powi(x(), 2),
            3 => sin(mul(c(1.5), x())),
            4 => cos(mul(c(0.5 + j as f64), x())),
            5 => exp(mul(c(0.5), x())),
            6 => div(c(1.0), add(c(1.0), powi(x(), 2))),
            _ => ln(add(c(3.0), x())),
        },
    }
}

#[derive(Clone, Debug)]
struct LmRaw {
    class: u8,
    np: usize,
    n_sel: u8,
    n: usize,
    pool: Vec<i32>,
    noise: u8,
    far: u8,
    setting: u8,
    steps: usize,
}

fn lm_raw_strategy(nclasses: u8) -> impl Strategy<Value = LmRaw> {
    (0u8..nclasses, 1usize..=5, 0u8..4, 0usize..=195, proptest::collection::vec(-16i32..=16, 64), 0u8..4, 0u8..4, 0u8..3, 1usize..=60)
        .prop_map(|(class, np, n_sel, n, pool, noise, far, setting, steps)| LmRaw { class, np, n_sel, n, pool, noise, far, setting, steps })
}

/// abscissae: n jittered equispaced points in [lo, hi]
fn abscissae(pool: &mut Pool, n: usize, lo: f64, hi: f64) -> Vec<f64> {
    (0..n).map(|i| lo + (hi - lo) * (i as f64 + pool.f(40.0)) / (n.max(2) - 1) as f64).collect()
}

fn n_points(r: &LmRaw, np: usize) -> usize {
    // 5..=200 points, n ≥ p+1; half of the cases have only a few points per parameter
    let few = np + 1 + (r.n % 4);
    let n = if r.n_sel < 2 { few } else { np + 1 + r.n };
    n.clamp((np + 1).max(5), 200)
}

fn build_linear(r: &LmRaw) -> LmCase {
    use ex::*;
    let mut pool = Pool::new(&r.pool);
    let family = (r.class as usize) % LIN_FAMILIES.len();
    let np = r.np.clamp(1, 5);
    let n = n_points(r, np);
    let (lo, hi) = if family == 3 { (0.0, 2.0) } else { (-1.0, 1.0) };
    let xs = abscissae(&mut pool, n, lo, hi);
    let mut terms = vec![];
    for j in 0..np {
        let phi = basis_fn(family, j, &mut pool);
        let colscale = [1.0, 1.0, 0.5, 10.0, 1.0, 100.0, 0.01, 1000.0][(pool.next().unsigned_abs() % 8) as usize];
        let phi = if colscale == 1.0 { phi } else { mul(c(colscale), phi) };
        terms.push(mul(p(j), phi));
    }
    // optional parameter-free offset
    if pool.next() % 3 == 0 {
        terms.push(mul(c(0.5), x()));
    }
    let model = sum(terms);
    let ptrue: Vec<f64> = (0..np).map(|_| pool.f(4.0)).collect();
    let sigma = [0.0, 1e-3, 0.1, 1.0][(r.noise % 4) as usize];
    let ys: Vec<f64> = xs.iter().map(|&x| model.eval::<f64>(&ptrue, x) + sigma * pool.f(8.0)).collect();
    let far = [1.0, 10.0, 100.0, 1000.0][(r.far % 4) as usize];
    let start: Vec<f64> = ptrue.iter().map(|t| t + far * pool.f(16.0)).collect();
    LmCase { class: format!("linear/{}", LIN_FAMILIES[family]), model, np, xs, ys, start, eps1: LIN_EPS, eps2: LIN_EPS, tau: LIN_TAU, maxsteps: LIN_BUDGET }
}

const NL_CLASSES: [&str; 6] = ["exponential", "logistic", "gauss-peak", "sine", "linear", "exponential/vanishing-jacobian"];

fn build_general(r: &LmRaw) -> LmCase {
    use ex::*;
    let class = (r.class as usize) % NL_CLASSES.len();
    if class == 4 {
        let mut c = build_linear(&LmRaw { class: r.np as u8 + r.far, ..r.clone() });
        apply_setting(&mut c, r);
        c.class = format!("linear/{}", c.class.trim_start_matches("linear/"));
        return c;
    }
    let mut pool = Pool::new(&r.pool);
    let (model, np, ptrue): (Expr, usize, Vec<f64>) = match class {
        // a·exp(b·x)
        0 | 5 => (mul(p(0), exp(mul(p(1), x()))), 2, vec![1.0 + pool.f(16.0).abs() * 2.0, pool.nz(16.0)]),
        // a / (1 + exp(−b (x − c)))
        1 => (div(p(0), add(c(1.0), exp(neg(mul(p(1), sub(x(), p(2))))))), 3, vec![1.0 + pool.f(8.0).abs(), 1.0 + pool.f(8.0).abs() * 2.0, pool.f(32.0)]),
        // a·exp(−(b (x − c))²) + d
        2 => (add(mul(p(0), exp(neg(powi(mul(p(1), sub(x(), p(2))), 2)))), p(3)), 4, vec![1.0 + pool.f(8.0).abs(), 1.0 + pool.f(16.0).abs(), pool.f(32.0), pool.f(8.0)]),
        // a·sin(b·x + c)
        _ => (mul(p(0), sin(add(mul(p(1), x()), p(2)))), 3, vec![1.0 + pool.f(8.0).abs(), 1.0 + pool.f(8.0).abs(), pool.f(8.0)]),
    };
    let n = n_points(r, np);
    let xs = abscissae(&mut pool, n, -2.0, 2.0);
    let sigma = [1e-3, 1e-2, 0.1, 0.5][(r.noise % 4) as usize];
    let ys: Vec<f64> = xs.iter().map(|&x| model.eval::<f64>(&ptrue, x) + sigma * pool.f(8.0)).collect();
    let far = [0.25, 1.0, 2.0, 4.0][(r.far % 4) as usize];
    let mut start: Vec<f64> = ptrue.iter().map(|t| t + far * pool.f(16.0)).collect();
    if class == 5 {
        start[0] = 0.0; // ∂f/∂b = a·x·exp(bx) vanishes identically: JᵀJ is singular at the start
    }
    let mut c = LmCase { class: NL_CLASSES[class].to_string(), model, np, xs, ys, start, eps1: 1e-6, eps2: 1e-6, tau: 1e-2, maxsteps: r.steps };
    apply_setting(&mut c, r);
    c
}

fn apply_setting(c: &mut LmCase, r: &LmRaw) {
    let (e1, e2, tau) = [(1e-6, 1e-6, 1e-2), (1e-12, 1e-12, 1e-2), (1e-9, 1e-9, 1.0)][(r.setting % 3) as usize];
    c.eps1 = e1;
    c.eps2 = e2;
    c.tau = tau;
    c.maxsteps = r.steps;
}

/// DESIGN.md §5 F35: 5 parameters / 9 points in the Legendre basis, start far away; abscissae on
/// [-1,1] (nearly orthogonal columns) and on [0,1], [0.25,1] (correlated columns).
fn enumerated_linear() -> Vec<LmCase> {
    use ex::*;
    let mut out = vec![];
    for (lo, hi) in [(-1.0, 1.0), (0.0, 1.0), (-0.25, 1.0)] {
        let xs: Vec<f64> = (0..9).map(|i| lo + (hi - lo) * i as f64 / 8.0).collect();
        let model = sum((0..5).map(|j| mul(p(j), legendre(j))).collect());
        let ptrue = [1.0, -2.0, 0.5, 3.0, -1.5];
        let noise = [0.05, -0.1, 0.02, 0.08, -0.04, 0.0, 0.07, -0.09, 0.03];
        let ys: Vec<f64> = xs.iter().zip(noise).map(|(&x, e)| model.eval::<f64>(&ptrue, x) + e).collect();
        out.push(LmCase {
            class: "linear/legendre".into(),
            model,
            np: 5,
            xs,
            ys,
            start: vec![100.0, -200.0, 300.0, 50.0, -400.0],
            eps1: LIN_EPS,
            eps2: LIN_EPS,
            tau: LIN_TAU,
            maxsteps: LIN_BUDGET,
        });
    }
    out
}

fn run_lm(ctx: &mut Ctx) {
    for c in enumerated_linear() {
        ctx.check_one("lm/linear-reaches-ls", &c, check_lm_linear);
    }
    ctx.exhaustive.push("the 5-parameter / 9-point Legendre-basis problem of DESIGN.md F35".into());
    let t = 16;
    ctx.run_prop_par("lm/linear-reaches-ls", ctx.scale(1600, 30_000), t, || lm_raw_strategy(LIN_FAMILIES.len() as u8).prop_map(|r| build_linear(&r)), check_lm_linear);
    ctx.run_prop_par("lm/descent", ctx.scale(1600, 30_000), t, || lm_raw_strategy(NL_CLASSES.len() as u8).prop_map(|r| build_general(&r)), check_lm_descent);
    ctx.run_prop_par("lm/covariance", ctx.scale(1600, 30_000), t, || lm_raw_strategy(NL_CLASSES.len() as u8).prop_map(|r| build_general(&r)), check_lm_cov);
}

// ------------------------------------------------------------------------------------------------
// Generators for the Adam / SGD sub-checks
// ------------------------------------------------------------------------------------------------

/// A pool of small integers from which the builders take entries in order (shrinks toward zeros).
struct Pool<'a> {
    v: &'a [i32],
    i: usize,
}
impl<'a> Pool<'a> {
    fn new(v: &'a [i32]) -> Self {
        Pool { v, i: 0 }
    }
    fn next(&mut self) -> i32 {
        let x = if self.v.is_empty() { 0 } else { self.v[self.i % self.v.len()] };
        self.i += 1;
        x
    }
    /// entry / den
    fn f(&mut self, den: f64) -> f64 {
        self.next() as f64 / den
    }
    /// non-zero entry / den
    fn nz(&mut self, den: f64) -> f64 {
        let x = self.next();
        (if x == 0 { 1 } else { x }) as f64 / den
    }
}

/// step sizes 1e-4 … 0.5, log-uniform grid of 38 values
fn step_of(i: u8) -> f64 {
    let s = 1e-4 * 10f64.powf(i.min(37) as f64 / 10.0);
    s.min(0.5)
}
/// β ∈ (0,1): a few customary values first, then k/1000
fn beta_of(i: u16) -> f64 {
    match i {
        0 => 0.9,
        1 => 0.5,
        2 => 0.99,
        3 => 0.999,
        4 => 0.1,
        k => (k.min(999).max(1)) as f64 / 1000.0,
    }
}
/// momentum ∈ [0, 0.99]
fn momentum_of(i: u8, allow_zero: bool) -> f64 {
    match i {
        0 => {
            if allow_zero {
                0.0
            } else {
                0.9
            }
        }
        1 => 0.9,
        2 => 0.5,
        3 => 0.99,
        k => (k.min(99).max(1)) as f64 / 100.0,
    }
}

/// symmetric positive definite n×n matrix with eigenvalues in [lo, hi] (by Gershgorin on the PSD part)
fn spd(pool: &mut Pool, n: usize, lo: f64, hi: f64) -> Vec<f64> {
    let a: Vec<f64> = (0..n * n).map(|_| pool.f(8.0)).collect();
    let mut g = vec![0.0; n * n];
    for i in 0..n {
        for j in 0..n {
            let mut s = 0.0;
            for k in 0..n {
                s += a[k * n + i] * a[k * n + j];
            }
            g[i * n + j] = s;
        }
    }
    let mut bound = 0.0f64;
    for i in 0..n {
        bound = bound.max((0..n).map(|j| g[i * n + j].abs()).sum::<f64>());
    }
    let mut q = vec![0.0; n * n];
    for i in 0..n {
        for j in 0..n {
            let psd = if bound > 0.0 { g[i * n + j] / bound } else { 0.0 };
            q[i * n + j] = (hi - lo) * psd + if i == j { lo } else { 0.0 };
        }
    }
    // exact symmetry
    for i in 0..n {
        for j in 0..i {
            let m = 0.5 * (q[i * n + j] + q[j * n + i]);
            q[i * n + j] = m;
            q[j * n + i] = m;
        }
    }
    q
}

const TRAJ_CLASSES: [&str; 10] = [
    "quad/convex",
    "quad/indefinite",
    "quad/badly-scaled",
    "quad/eps-gradient",
    "rosenbrock",
    "lsq/exp",
    "lsq/sin",
    "lsq/rational-div-powi",
    "lsq/cubic-powi",
    "lsq/ln-div",
];

fn lsq_model(which: usize) -> (Expr, usize) {
    use ex::*;
    match which {
        // p0·exp(p1·x)
        0 => (mul(p(0), exp(mul(p(1), x()))), 2),
        // p0·sin(p1·x + p2)
        1 => (mul(p(0), sin(add(mul(p(1), x()), p(2)))), 3),
        // p0 / (1 + (p1·x)²) + p2
        2 => (add(div(p(0), add(c(1.0), powi(mul(p(1), x()), 2))), p(2)), 3),
        // 0.25·(p0 + p1·x)³ + p2·x
        3 => (add(mul(c(0.25), powi(add(p(0), mul(p(1), x())), 3)), mul(p(2), x())), 3),
        // p1·ln(1 + p0² + x²) + 2/(2 + p1²)   (constant ÷ variable, ln)
        _ => (add(mul(p(1), ln(add(add(c(1.0), powi(p(0), 2)), powi(x(), 2)))), div(c(2.0), add(c(2.0), powi(p(1), 2)))), 2),
    }
}

#[derive(Clone, Debug)]
struct Raw {
    class: u8,
    n: usize,
    pool: Vec<i32>,
    step: u8,
    b1: u16,
    b2: u16,
    eps: bool,
    mom: u8,
    ratio: u8,
    kmax: usize,
}

fn raw_strategy(nclasses: u8, kmax: usize) -> impl Strategy<Value = Raw> {
    (
        0u8..nclasses,
        1usize..=8,
        proptest::collection::vec(-16i32..=16, 96),
        0u8..=37,
        0u16..=999,
        0u16..=999,
        any::<bool>(),
        0u8..=99,
        0u8..=24,
        1usize..=kmax,
    )
        .prop_map(|(class, n, pool, step, b1, b2, eps, mom, ratio, kmax)| Raw { class, n, pool, step, b1, b2, eps, mom, ratio, kmax })
}

/// which: 0 Adam, 1 plain SGD, 2 momentum, 3 Nesterov
fn build_opt(which: u8, r: &Raw, step: f64) -> Opt {
    match which {
        0 => Opt::Adam { step, beta1: beta_of(r.b1), beta2: beta_of(r.b2), eps: if r.eps { 1e-3 } else { 1e-8 } },
        1 => Opt::Sgd { step, momentum: 0.0, nesterov: false },
        2 => Opt::Sgd { step, momentum: momentum_of(r.mom, false), nesterov: false },
        _ => Opt::Sgd { step, momentum: momentum_of(r.mom, true), nesterov: true },
    }
}

fn build_traj(which: u8, r: &Raw) -> TrajCase {
    let mut pool = Pool::new(&r.pool);
    let class = (r.class as usize) % TRAJ_CLASSES.len();
    let adam = which == 0;
    let mut step = step_of(r.step);
    let n;
    let obj;
    match class {
        0 | 1 | 2 | 3 => {
            n = r.n.clamp(1, 8);
            // curvature scale: SGD — step·λ_max = ratio/10 ∈ [0, 2.4] (stable below 2, 2(1+μ) with momentum);
            // Adam is invariant to the scale of the objective, so the scale is a power of two
            let hi = if adam { 2f64.powi(r.ratio as i32 - 12) } else { (r.ratio.max(1) as f64 / 10.0) / step };
            let mut q = match class {
                1 => {
                    // indefinite: symmetric part of a random matrix, row sums ≤ hi/4 so that growth stays bounded
                    let a: Vec<f64> = (0..n * n).map(|_| pool.f(16.0)).collect();
                    let mut q = vec![0.0; n * n];
                    for i in 0..n {
                        for j in 0..n {
                            q[i * n + j] = 0.5 * (a[i * n + j] + a[j * n + i]) * hi / (4.0 * n as f64);
                        }
                    }
                    q
                }
                _ => spd(&mut pool, n, hi / 16.0, hi),
            };
            let mut b: Vec<f64> = (0..n).map(|_| pool.f(8.0) * hi).collect();
            if class == 2 {
                // badly scaled: D Q D with D = diag(10^e), e ∈ −2..=2
                let dsc: Vec<f64> = (0..n).map(|_| 10f64.powi((pool.next() % 3) as i32)).collect();
                for i in 0..n {
                    for j in 0..n {
                        q[i * n + j] *= dsc[i] * dsc[j];
                    }
                    b[i] *= dsc[i];
                }
            }
            if class == 3 {
                // gradients of the size of Adam's ε (1e-8, 1e-3) and down to ε_mach
                let e = 8 + (pool.next().unsigned_abs() as i32 % 17) * 3; // 2^-8 … 2^-56
                let s = 2f64.powi(-e);
                for v in q.iter_mut() {
                    *v *= s;
                }
                for v in b.iter_mut() {
                    *v *= s;
                }
            }
            obj = Obj::Quad { q, b };
        }
        4 => {
            n = 2 + r.n % 3;
            if !adam {
                step = step_of(r.step % 14); // ≤ 2e-3: larger steps leave the basin within a few iterations
            }
            let a = if r.ratio % 2 == 0 { 1.0 } else { pool.f(8.0) };
            let b = [100.0, 10.0, 1.0, 25.0][(r.ratio as usize / 2) % 4];
            obj = Obj::Rosen { a, b };
        }
        _ => {
            let (model, np) = lsq_model(class - 5);
            n = np;
            if !adam {
                step = step_of(r.step % 21); // ≤ 1e-2
            }
            let m = 3 + (r.n % 8) + (r.ratio as usize % 3); // 3..=12 points
            let ptrue: Vec<f64> = (0..np).map(|_| pool.nz(8.0)).collect();
            let xs: Vec<f64> = (0..m).map(|_| pool.f(8.0)).collect();
            let ys: Vec<f64> = xs.iter().map(|&x| model.eval::<f64>(&ptrue, x) + pool.f(64.0)).collect();
            obj = Obj::Lsq { model, xs, ys };
        }
    }
    let x0: Vec<f64> = (0..n).map(|_| pool.f(8.0)).collect(); // exact zeros included
    TrajCase { class: TRAJ_CLASSES[class].to_string(), opt: build_opt(which, r, step), obj, x0, kmax: r.kmax }
}

const EARLY_CLASSES: [&str; 7] = ["osc/sgd-flip", "osc/adam-flip", "osc/sgd-offset", "converging", "eps-gradient", "zero-gradient-coordinates", "momentum/lands-on-minimiser"];

fn build_early(r: &Raw) -> TrajCase {
    let mut pool = Pool::new(&r.pool);
    let class = (r.class as usize) % EARLY_CLASSES.len();
    let n = r.n.clamp(1, 4);
    let j = 1 + (r.step as i32 % 10); // step = 2^-j ∈ [2^-10, 0.5]
    let eta = 2f64.powi(-j);
    let which = r.mom % 4; // optimizer for the classes that admit any
    let (opt, obj, x0);
    match class {
        0 | 2 => {
            // step·λ = 2 exactly on the active coordinates: x ↦ −x (+ step·b)
            let lam = 2.0 / eta;
            let mut q = vec![0.0; n * n];
            let mut any = false;
            for i in 0..n {
                let active = pool.next() % 4 != 0;
                if active {
                    q[i * n + i] = lam;
                    any = true;
                }
            }
            if !any {
                q[0] = lam;
            }
            let b: Vec<f64> = (0..n).map(|_| if class == 2 { pool.f(8.0) * lam } else { 0.0 }).collect();
            obj = Obj::Quad { q, b };
            opt = Opt::Sgd { step: eta, momentum: 0.0, nesterov: r.eps };
            x0 = (0..n).map(|_| pool.f(8.0)).collect::<Vec<f64>>();
        }
        6 => {
            // step·λ = 1 on every coordinate and dyadic data: the first step lands on the minimiser exactly, the
            // gradient there is exactly zero in every component — but the velocity is not, so with momentum the
            // parameters keep moving (heavy ball: x2 = a + μ·(a − x0)); "gradient is zero" is not "stopped changing"
            let mut q = vec![0.0; n * n];
            for i in 0..n {
                q[i * n + i] = 1.0 / eta;
            }
            let a: Vec<f64> = (0..n).map(|_| pool.f(8.0)).collect();
            let b: Vec<f64> = a.iter().map(|v| v / eta).collect();
            obj = Obj::Quad { q, b };
            let mu = [0.5, 0.25, 0.75, 0.9][(r.mom as usize / 4) % 4];
            opt = Opt::Sgd { step: eta, momentum: mu, nesterov: r.eps };
            x0 = a.iter().map(|v| v + pool.nz(8.0)).collect::<Vec<f64>>();
        }
        1 => {
            // β1 = β2 = ½, gradient 2^(39−j) ≫ ε/ε_mach: the first Adam step is exactly −step·sign(g), so the
            // start ±step/2 is mapped to ∓step/2
            let mut q = vec![0.0; n * n];
            for i in 0..n {
                q[i * n + i] = 2f64.powi(40);
            }
            obj = Obj::Quad { q, b: vec![0.0; n] };
            opt = Opt::Adam { step: eta, beta1: 0.5, beta2: 0.5, eps: 1e-8 };
            x0 = (0..n).map(|_| if pool.next() % 2 == 0 { eta / 2.0 } else { -eta / 2.0 }).collect::<Vec<f64>>();
        }
        _ => {
            // contraction: step·λ ∈ [¼, 1] on every eigen-direction; fixed point Q⁻¹b ≠ 0
            let mut q = spd(&mut pool, n, 0.25 / eta, 1.0 / eta);
            let mut b: Vec<f64> = (0..n).map(|_| pool.nz(8.0) / eta).collect();
            if class == 4 {
                let e = (pool.next().unsigned_abs() as i32 % 23) * 3; // 2^0 … 2^-66
                let s = 2f64.powi(-e);
                for v in q.iter_mut() {
                    *v *= s;
                }
                for v in b.iter_mut() {
                    *v *= s;
                }
            }
            let mut start: Vec<f64> = (0..n).map(|_| pool.f(8.0)).collect();
            if class == 5 {
                // some coordinates decoupled with zero gradient: they never move, the others do
                for i in 0..n {
                    if i % 2 == 1 || n == 1 {
                        for k in 0..n {
                            q[i * n + k] = 0.0;
                            q[k * n + i] = 0.0;
                        }
                        b[i] = 0.0;
                    }
                }
                if n == 1 {
                    start[0] = pool.nz(8.0);
                }
            }
            obj = Obj::Quad { q, b };
            let mut rr = r.clone();
            rr.mom = r.mom / 4 % 51; // momentum ≤ 0.5 so that the iteration settles within the budget
            opt = build_opt(which, &rr, eta);
            x0 = start;
        }
    }
    let kmax = if class == 3 { 200usize.min(100 + r.kmax) } else { r.kmax.max(2) };
    TrajCase { class: EARLY_CLASSES[class].to_string(), opt, obj, x0, kmax }
}

fn traj_strategy(which: u8, kmax: usize) -> impl Strategy<Value = TrajCase> {
    raw_strategy(TRAJ_CLASSES.len() as u8, kmax).prop_map(move |r| build_traj(which, &r))
}
fn early_strategy(kmax: usize) -> impl Strategy<Value = TrajCase> {
    raw_strategy(EARLY_CLASSES.len() as u8, kmax).prop_map(|r| build_early(&r))
}
fn determinism_strategy(kmax: usize) -> impl Strategy<Value = TrajCase> {
    (0u8..4, raw_strategy(TRAJ_CLASSES.len() as u8, kmax)).prop_map(|(w, r)| build_traj(w, &r))
}

/// The two textbook cases of DESIGN.md §5 F21, always run.
fn enumerated_early() -> Vec<TrajCase> {
    vec![
        TrajCase {
            class: "osc/sgd-flip".into(),
            opt: Opt::Sgd { step: 0.5, momentum: 0.0, nesterov: false },
            obj: Obj::Quad { q: vec![4.0], b: vec![0.0] }, // 2x²
            x0: vec![1.0],
            kmax: 8,
        },
        // tiny absolute scale: every step changes the parameter by 50 % (SGD) / about 25 % (Adam) although the
        // absolute change is far below machine epsilon
        TrajCase {
            class: "tiny-scale/sgd".into(),
            opt: Opt::Sgd { step: 0.25, momentum: 0.0, nesterov: false },
            obj: Obj::Quad { q: vec![2.0], b: vec![0.0] }, // x²: x <- x/2
            x0: vec![2f64.powi(-70)],
            kmax: 8,
        },
        TrajCase {
            class: "tiny-scale/sgd-momentum".into(),
            opt: Opt::Sgd { step: 0.25, momentum: 0.5, nesterov: true },
            obj: Obj::Quad { q: vec![2.0, 0.0, 0.0, 1.0], b: vec![0.0, 0.0] },
            x0: vec![2f64.powi(-80), -3.0 * 2f64.powi(-75)],
            kmax: 8,
        },
        TrajCase {
            class: "tiny-scale/adam".into(),
            opt: Opt::Adam { step: 2f64.powi(-70), beta1: 0.5, beta2: 0.5, eps: 1e-8 },
            obj: Obj::Quad { q: vec![2f64.powi(70)], b: vec![0.0] },
            x0: vec![2f64.powi(-68)],
            kmax: 8,
        },
        TrajCase {
            class: "osc/adam-flip".into(),
            opt: Opt::Adam { step: 0.5, beta1: 0.5, beta2: 0.5, eps: 1e-8 },
            obj: Obj::Quad { q: vec![2f64.powi(40)], b: vec![0.0] },
            x0: vec![0.25],
            kmax: 8,
        },
    ]
}

pub fn run(ctx: &mut Ctx) {
    // a trajectory case costs O(k^2) objective evaluations: keep the quick tier at twice the base counts
    ctx.qmult = ctx.qmult.min(2);
    ctx.rule = "Adam/SGD: one case = (optimizer + hyper-parameters, objective description, start, k_max); the library is run for every budget \
k = 0..=k_max and compared with the k-th iterate of the published recurrence (gradients by forward-mode dual numbers); objectives: quadratics \
(convex, indefinite, badly scaled, gradients of size 1e-3..1e-17, oscillating with step*lambda = 2), Rosenbrock chains, least-squares losses with \
exp/sin/ln/powi/division nodes; a case is non-trivial when at least 2 budgets are compared and the iterate moved by more than 1e-6 from the start. \
LM: one case = (model expression, data, start, LM settings, budget); non-trivial when at least one step was accepted (returned point differs from the start). \
Distinct by the hash of the whole serialised case."
        .into();
    ctx.assumptions = vec![
        "the reference recurrences are Kingma & Ba Algorithm 1 (m-hat/(sqrt(v-hat)+eps)), x - eta g, classical momentum u <- mu u + eta g, x <- x - u, and Nesterov with the gradient at x - mu u".into(),
        "budgets are compared only on the prefix of the trajectory on which the reference stays finite (< 1e100) and six shadow trajectories (objective data and iterates perturbed by 1e-14 relative, two with systematic and four with pseudo-random signs) stay within 3% of the tolerance (chaotic or diverging continuations are outside what a 1e-10 comparison can decide)".into(),
        "an early stop is accepted when the reference iterates changed by at most 16 eps |x| per coordinate (relative) at the stopping step".into(),
        "objectives avoid `f64 / Var` and powi(0) of the reverse crate (wrong / NaN derivative weights in reverse 0.2.2, a dependency, not the library under test)".into(),
        "LM linear-reaches-ls: LM::new(1e-12, 1e-12, 1e-2) and LM::new(1e-6, 1e-12, 1e-2), budget 100 steps, cond(J^T J) <= 1e9 by the oracle's Jacobi eigenvalues, basis columns scaled by 0.01..1000; covariance skipped when cond(J^T J) > 1e10 or the residual sum of squares is dominated by rounding".into(),
    ];
    let kmax = ctx.scale(200, 200) as usize;
    for c in enumerated_early() {
        ctx.check_one("early-stop", &c, check_early);
    }
    ctx.exhaustive.push("the two sign-flip cases of DESIGN.md F21 (SGD(0.5) on 2x^2 from 1; Adam(0.5, .5, .5) on 2^39 x^2 from 0.25)".into());
    let t = 16;
    ctx.run_prop_par("early-stop", ctx.scale(320, 4000), t, || early_strategy(kmax), check_early);
    ctx.run_prop_par("adam/trajectory", ctx.scale(256, 2000), t, || traj_strategy(0, kmax), check_adam);
    ctx.run_prop_par("sgd/plain/trajectory", ctx.scale(160, 1500), t, || traj_strategy(1, kmax), check_sgd_plain);
    ctx.run_prop_par("sgd/momentum/trajectory", ctx.scale(160, 1500), t, || traj_strategy(2, kmax), check_sgd_momentum);
    ctx.run_prop_par("sgd/nesterov/trajectory", ctx.scale(256, 2000), t, || traj_strategy(3, kmax), check_sgd_nesterov);
    ctx.run_prop_par("determinism", ctx.scale(384, 4000), t, || determinism_strategy(kmax), check_determinism);
    if ctx.quick() {
        // a few budgets beyond 200 in the quick tier as well (400..=800, half of them with beta1 >= 0.95, where the
        // bias correction 1 - beta1^t is still far from 1 after hundreds of steps)
        ctx.run_prop_par("adam/trajectory", 16, t, || traj_strategy(0, 800).prop_map(|c| slow_decay(long_case(c), 400, 800)), check_adam);
        ctx.run_prop_par("sgd/momentum/trajectory", 8, t, || traj_strategy(2, 800).prop_map(|c| slow_decay(long_case(c), 400, 800)), check_sgd_momentum);
    }
    if !ctx.quick() {
        ctx.run_prop_par("adam/trajectory", 64, t, || traj_strategy(0, 2000).prop_map(|c| slow_decay(long_case(c), 1000, 2000)), check_adam);
        // long budgets on a subset: every k in 1..=2000
        ctx.run_prop_par("adam/trajectory", 64, t, || traj_strategy(0, 2000).prop_map(long_case), check_adam);
        ctx.run_prop_par("sgd/nesterov/trajectory", 64, t, || traj_strategy(3, 2000).prop_map(long_case), check_sgd_nesterov);
        ctx.run_prop_par("sgd/momentum/trajectory", 32, t, || traj_strategy(2, 2000).prop_map(long_case), check_sgd_momentum);
        ctx.run_prop_par("sgd/plain/trajectory", 32, t, || traj_strategy(1, 2000).prop_map(long_case), check_sgd_plain);
    }
    run_lm(ctx);
}

/// budget mapped into [lo, hi]; every other case gets a first-moment decay close to 1
fn slow_decay(mut c: TrajCase, lo: usize, hi: usize) -> TrajCase {
    let k = c.kmax;
    c.kmax = lo + k % (hi - lo + 1);
    if k % 2 == 0 {
        if let Opt::Adam { beta1, .. } = &mut c.opt {
            *beta1 = [0.95, 0.99, 0.999, 0.97][(k / 2) % 4];
        }
    }
    c
}

/// thorough tier: budgets up to 2000 on cheap objectives (at most 3 dimensions / 6 data points)
fn long_case(mut c: TrajCase) -> TrajCase {
    c.kmax = c.kmax.max(1000);
    if let Obj::Lsq { xs, ys, .. } = &mut c.obj {
        xs.truncate(6);
        ys.truncate(6);
    }
    if let Obj::Quad { q, b } = &mut c.obj {
        let n = b.len();
        if n > 3 {
            let mut q2 = vec![0.0; 9];
            for i in 0..3 {
                for j in 0..3 {
                    q2[i * 3 + j] = q[i * n + j];
                }
            }
            *q = q2;
            b.truncate(3);
            c.x0.truncate(3);
        }
    }
    c
}

pub fn replay(ctx: &mut Ctx, sub: &str, v: Value) -> Option<R> {
    match sub {
        "adam/trajectory" => Some(check_adam(ctx, &decode::<TrajCase>(v)?)),
        "sgd/plain/trajectory" => Some(check_sgd_plain(ctx, &decode::<TrajCase>(v)?)),
        "sgd/momentum/trajectory" => Some(check_sgd_momentum(ctx, &decode::<TrajCase>(v)?)),
        "sgd/nesterov/trajectory" => Some(check_sgd_nesterov(ctx, &decode::<TrajCase>(v)?)),
        "early-stop" => Some(check_early(ctx, &decode::<TrajCase>(v)?)),
        "determinism" => Some(check_determinism(ctx, &decode::<TrajCase>(v)?)),
        "lm/descent" => Some(check_lm_descent(ctx, &decode::<LmCase>(v)?)),
        "lm/linear-reaches-ls" => Some(check_lm_linear(ctx, &decode::<LmCase>(v)?)),
        "lm/covariance" => Some(check_lm_cov(ctx, &decode::<LmCase>(v)?)),
        _ => None,
    }
}
