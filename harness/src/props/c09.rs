//! C09 — Special functions are accurate over their whole finite range.
//!
//! Sub-checks (each a pure point oracle, see `ptsweep`; signature = "C09/" + sub-check name):
//!   gamma/positive    x in [0.5, 171.6):  |Γ̂/Γ − 1| <= 1e-13                       (Γ = glibc tgamma)
//!   gamma/reflection  x in (−170, 0.5):   |Γ̂/Γ − 1| <= 1e-13 + 1e-15·|x|/dist(x, pole)
//!   gamma/recurrence  Γ̂(x+1) = x·Γ̂(x) within tol(x) + tol(x+1) + 2ε (x + 1 exact in f64)
//!   gamma/factorial   Γ̂(n+1) = n! within 1e-13, n = 0..=170 (n! in double-double)
//!   beta/value        |B̂/B − 1| <= 1e-12, B = Γ(a)Γ(b)/Γ(a+b) from tgamma, (a,b) in (1e-3, 80)²
//!   beta/symmetry     |B̂(a,b) − B̂(b,a)| <= 1e-12·max
//!   digamma/value     |ψ̂ − ψ| <= 1e-10·max(1,|ψ|), x in (1e-3, 1e6) (own dd recurrence + asymptotic series)
//!   digamma/recurrence ψ̂(x+1) − ψ̂(x) − 1/x within 1e-10·max(1,|ψ̂(x)|,|ψ̂(x+1)|)
//!   digamma/harmonic  ψ̂(n) = H_{n−1} − γ within 1e-10·max(1,|ψ|), n = 1..=10^4
//!   erf/value         |erf̂ − erf| <= 1.5e-7 (glibc erf)
//!   erf/odd           erf̂(−x) == −erf̂(x) for x != 0
//!   erf/bounded       |erf̂(x)| <= 1
//!
//! Tolerances are the accuracies written in the property statement; the pole term is the design's
//! reading of "scaled by proximity to a pole" (conditioning of sin(πx): ≈ ε·|x|/dist, factor ≈ 5–9
//! of slack). Arguments closer than 1e-6·|x| to a negative-integer pole are skipped and counted.

use super::ptsweep::{self as ps, Arg, PointSub, Pt};
use crate::engine::{decode, mix_seed, Ctx, R};
use crate::oracle::dd::DD;
use crate::oracle::special as sp;
use compute::functions::{beta, digamma, erf, gamma};
use serde_json::Value;

const EPS: f64 = f64::EPSILON;
const GAMMA_LO: f64 = -170.0;
const GAMMA_HI: f64 = 171.6;

/// Relative tolerance for Γ at x; None inside a pole neighbourhood (or at a pole).
fn gamma_tol(x: f64) -> Option<f64> {
    if x >= 0.5 {
        return Some(1e-13);
    }
    if x == 0.0 {
        return None;
    }
    let n = x.round();
    if n == 0.0 {
        // pole at 0: Γ(x) ≈ 1/x, relative conditioning 1
        return Some(1e-13 + 1e-15);
    }
    let d = (x - n).abs();
    if d < 1e-6 * x.abs() {
        return None;
    }
    Some(1e-13 + 1e-15 * x.abs() / d)
}

fn rel_err(got: f64, want: f64) -> f64 {
    if got.is_finite() {
        (got / want - 1.0).abs()
    } else {
        f64::INFINITY
    }
}

fn gamma_value(x: f64, class: &'static str) -> Option<Pt> {
    let tol = match gamma_tol(x) {
        Some(t) => t,
        None => return Pt::skipped("pole-neighbourhood (skipped)"),
    };
    let want = sp::tgamma_ref(x);
    if !want.is_normal() {
        return Pt::skipped("true value not a finite normal f64 (skipped)");
    }
    let got = gamma(x);
    let e = rel_err(got, want);
    Pt::judge(class, e / tol, || {
        format!("gamma({:e}) = {:e}, true value {:e}: relative error {:.3e} > {:.3e}", x, got, want, e, tol)
    })
}

fn f_gamma_positive(x: f64, _: f64) -> Option<Pt> {
    if !(x >= 0.5 && x < GAMMA_HI) {
        return None;
    }
    let class = if x < 20.0 {
        "x in [0.5,20)"
    } else if x < 143.0 {
        "x in [20,143)"
    } else {
        "x in [143,171.6)"
    };
    gamma_value(x, class)
}

fn f_gamma_reflection(x: f64, _: f64) -> Option<Pt> {
    if !(x > GAMMA_LO && x < 0.5) {
        return None;
    }
    let class = if x > 0.0 {
        "x in (0,0.5)"
    } else if x > -1.0 {
        "x in (-1,0)"
    } else if x > -142.0 {
        "x in (-142,-1]"
    } else {
        "x in (-170,-142]"
    };
    gamma_value(x, class)
}

fn f_gamma_recurrence(x: f64, _: f64) -> Option<Pt> {
    if !(x > GAMMA_LO && x < GAMMA_HI - 1.0) {
        return None;
    }
    let x1 = DD::from_sum(x, 1.0);
    if x1.lo != 0.0 {
        // Γ(fl(x+1)) differs from Γ(x+1) by up to ψ(x+1)·ε|x+1|/2 ≈ 1e-13: not the identity any more
        return Pt::skipped("x+1 not exact in f64 (skipped)");
    }
    let (t0, t1) = match (gamma_tol(x), gamma_tol(x1.hi)) {
        (Some(a), Some(b)) => (a, b),
        _ => return Pt::skipped("pole-neighbourhood (skipped)"),
    };
    let tol = t0 + t1 + 2.0 * EPS;
    let lhs = gamma(x1.hi);
    let rhs = x * gamma(x);
    let scale = lhs.abs().max(rhs.abs());
    let e = if lhs == rhs && lhs.is_finite() {
        0.0
    } else if lhs.is_finite() && rhs.is_finite() {
        (lhs - rhs).abs() / scale
    } else {
        f64::INFINITY
    };
    let class = if x < 0.0 { "x<0" } else { "x>0" };
    Pt::judge(class, e / tol, || {
        format!("gamma({:e}+1) = {:e} but {:e}*gamma({:e}) = {:e}: relative difference {:.3e} > {:.3e}", x, lhs, x, x, rhs, e, tol)
    })
}

fn f_gamma_factorial(x: f64, _: f64) -> Option<Pt> {
    if !(x >= 0.0 && x <= 170.0 && x.fract() == 0.0) {
        return None;
    }
    let n = x as u32;
    let want = sp::factorial_dd(n);
    let got = gamma(x + 1.0);
    let e = if got.is_finite() { ((DD::new(got) - want) / want).f().abs() } else { f64::INFINITY };
    let class = if n <= 22 { "n<=22" } else if n < 143 { "22<n<143" } else { "n>=143" };
    Pt::judge(class, e / 1e-13, || format!("gamma({}+1) = {:e}, {}! = {:e}: relative error {:.3e} > 1e-13", n, got, n, want.f(), e))
}

fn beta_domain(a: f64, b: f64) -> bool {
    a > 1e-3 && a < 80.0 && b > 1e-3 && b < 80.0
}

fn beta_class(a: f64, b: f64) -> &'static str {
    let s = a + b;
    if s < 20.0 {
        "a+b<20"
    } else if s < 143.0 {
        "a+b in [20,143)"
    } else {
        "a+b in [143,160)"
    }
}

fn f_beta_value(a: f64, b: f64) -> Option<Pt> {
    if !beta_domain(a, b) {
        return None;
    }
    // Γ(a+b) with the exact sum a+b = s + δ: Γ(s+δ) = Γ(s)·(1 + ψ(s)·δ + O(δ²)), |δ| <= ε·s/2
    let s = DD::from_sum(a, b);
    let corr = 1.0 + sp::digamma_f64(s.hi) * s.lo;
    let want = sp::tgamma_ref(a) * sp::tgamma_ref(b) / (sp::tgamma_ref(s.hi) * corr);
    if !want.is_normal() {
        return Pt::skipped("true value not a finite normal f64 (skipped)");
    }
    let got = beta(a, b);
    let e = rel_err(got, want);
    Pt::judge(beta_class(a, b), e / 1e-12, || {
        format!("beta({:e}, {:e}) = {:e}, Γ(a)Γ(b)/Γ(a+b) = {:e}: relative error {:.3e} > 1e-12", a, b, got, want, e)
    })
}

fn f_beta_symmetry(a: f64, b: f64) -> Option<Pt> {
    if !beta_domain(a, b) {
        return None;
    }
    let l = beta(a, b);
    let r = beta(b, a);
    let e = if l == r {
        0.0
    } else if l.is_finite() && r.is_finite() {
        (l - r).abs() / l.abs().max(r.abs())
    } else {
        f64::INFINITY
    };
    Pt::judge(beta_class(a, b), e / 1e-12, || format!("beta({:e}, {:e}) = {:e} but beta({:e}, {:e}) = {:e}: relative difference {:.3e} > 1e-12", a, b, l, b, a, r, e))
}

fn digamma_class(x: f64) -> &'static str {
    if x < 1.0 {
        "x<1"
    } else if x < 6.0 {
        "x in [1,6)"
    } else if x < 40.0 {
        "x in [6,40)"
    } else {
        "x>=40"
    }
}

fn f_digamma_value(x: f64, _: f64) -> Option<Pt> {
    if !(x > 1e-3 && x < 1e6) {
        return None;
    }
    let want = sp::digamma_ref(x);
    let got = digamma(x);
    let tol = 1e-10 * want.f().abs().max(1.0);
    let e = if got.is_finite() { (DD::new(got) - want).f().abs() } else { f64::INFINITY };
    Pt::judge(digamma_class(x), e / tol, || format!("digamma({:e}) = {:.17e}, true value {:.17e}: error {:.3e} > {:.3e}", x, got, want.f(), e, tol))
}

fn f_digamma_recurrence(x: f64, _: f64) -> Option<Pt> {
    if !(x > 1e-3 && x < 1e6) {
        return None;
    }
    let a = digamma(x);
    let b = digamma(x + 1.0);
    let tol = 1e-10 * a.abs().max(b.abs()).max(1.0);
    let e = if a.is_finite() && b.is_finite() { ((DD::new(b) - DD::new(a)) - DD::ONE / DD::new(x)).f().abs() } else { f64::INFINITY };
    Pt::judge(digamma_class(x), e / tol, || format!("digamma({:e}+1) = {:.17e}, digamma({:e}) = {:.17e}: ψ(x+1) − ψ(x) − 1/x = {:.3e}, bound {:.3e}", x, b, x, a, e, tol))
}

fn f_digamma_harmonic(x: f64, _: f64) -> Option<Pt> {
    if !(x >= 1.0 && x <= 1e4 && x.fract() == 0.0) {
        return None;
    }
    let n = x as u64;
    let mut h = DD::ZERO;
    for k in 1..n {
        h = h + DD::ONE / DD::new(k as f64);
    }
    let want = h - sp::EULER_GAMMA;
    let got = digamma(x);
    let tol = 1e-10 * want.f().abs().max(1.0);
    let e = if got.is_finite() { (DD::new(got) - want).f().abs() } else { f64::INFINITY };
    let class = if n < 6 { "n<6" } else { "n>=6" };
    Pt::judge(class, e / tol, || format!("digamma({}) = {:.17e}, H_{} − γ = {:.17e}: error {:.3e} > {:.3e}", n, got, n - 1, want.f(), e, tol))
}

fn erf_class(x: f64) -> &'static str {
    let a = x.abs();
    if a < 1e-3 {
        "|x|<1e-3"
    } else if a <= 6.0 {
        "|x| in [1e-3,6]"
    } else {
        "|x|>6"
    }
}

fn f_erf_value(x: f64, _: f64) -> Option<Pt> {
    if !x.is_finite() {
        return None;
    }
    let want = sp::erf_ref(x);
    let got = erf(x);
    let e = if got.is_finite() { (got - want).abs() } else { f64::INFINITY };
    Pt::judge(erf_class(x), e / 1.5e-7, || format!("erf({:e}) = {:.10e}, true value {:.10e}: error {:.3e} > 1.5e-7", x, got, want, e))
}

fn f_erf_odd(x: f64, _: f64) -> Option<Pt> {
    // at x = 0 the statement reduces to erf(0) = 0, which the value clause covers at 1.5e-7
    if !x.is_finite() || x == 0.0 {
        return None;
    }
    let p = erf(x);
    let m = erf(-x);
    if m == -p {
        Pt::ok(erf_class(x), f64::NAN)
    } else {
        Pt::bad(erf_class(x), f64::NAN, format!("erf({:e}) = {:e} but erf({:e}) = {:e}", x, p, -x, m))
    }
}

fn f_erf_bounded(x: f64, _: f64) -> Option<Pt> {
    if !x.is_finite() {
        return None;
    }
    let v = erf(x);
    if v.abs() <= 1.0 {
        Pt::ok(erf_class(x), v.abs())
    } else {
        Pt::bad(erf_class(x), v.abs(), format!("erf({:e}) = {:e} exceeds 1 in magnitude", x, v))
    }
}

macro_rules! psub {
    ($name:ident, $sub:expr, $tol:expr, $f:ident) => {
        pub static $name: PointSub = PointSub { sub: $sub, sig: concat!("C09/", $sub), tol: $tol, f: $f };
    };
}
psub!(GAMMA_POSITIVE, "gamma/positive", "gamma rel err / 1e-13", f_gamma_positive);
psub!(GAMMA_REFLECTION, "gamma/reflection", "gamma(x<0.5) rel err / (1e-13 + 1e-15|x|/dist)", f_gamma_reflection);
psub!(GAMMA_RECURRENCE, "gamma/recurrence", "gamma(x+1) vs x*gamma(x) / (tol(x)+tol(x+1))", f_gamma_recurrence);
psub!(GAMMA_FACTORIAL, "gamma/factorial", "gamma(n+1) vs n! / 1e-13", f_gamma_factorial);
psub!(BETA_VALUE, "beta/value", "beta rel err / 1e-12", f_beta_value);
psub!(BETA_SYMMETRY, "beta/symmetry", "beta(a,b) vs beta(b,a) / 1e-12", f_beta_symmetry);
psub!(DIGAMMA_VALUE, "digamma/value", "digamma err / 1e-10 max(1,|psi|)", f_digamma_value);
psub!(DIGAMMA_RECURRENCE, "digamma/recurrence", "digamma(x+1)-digamma(x)-1/x / 1e-10 max(1,|psi|)", f_digamma_recurrence);
psub!(DIGAMMA_HARMONIC, "digamma/harmonic", "digamma(n) vs H(n-1)-gamma / 1e-10 max(1,|psi|)", f_digamma_harmonic);
psub!(ERF_VALUE, "erf/value", "erf abs err / 1.5e-7", f_erf_value);
psub!(ERF_ODD, "erf/odd", "-", f_erf_odd);
psub!(ERF_BOUNDED, "erf/bounded", "|erf| / 1", f_erf_bounded);

static ALL: [&PointSub; 12] = [
    &GAMMA_POSITIVE,
    &GAMMA_REFLECTION,
    &GAMMA_RECURRENCE,
    &GAMMA_FACTORIAL,
    &BETA_VALUE,
    &BETA_SYMMETRY,
    &DIGAMMA_VALUE,
    &DIGAMMA_RECURRENCE,
    &DIGAMMA_HARMONIC,
    &ERF_VALUE,
    &ERF_ODD,
    &ERF_BOUNDED,
];

// ---- argument families -------------------------------------------------------------------------

fn sign(u: f64) -> f64 {
    if u < 0.5 {
        -1.0
    } else {
        1.0
    }
}

/// Stratified gamma arguments over (−170, 171.6).
fn gamma_arg(base: u64, i: u64) -> f64 {
    let (u, v, w) = (ps::unit(base, i, 0), ps::unit(base, i, 1), ps::unit(base, i, 2));
    match i % 10 {
        0 | 1 => ps::lerp(u, GAMMA_LO, GAMMA_HI),
        2 => sign(v) * 2f64.powf(-64.0 * u),
        3 | 4 => {
            // ±1e-3 (log-uniform down to 1e-9) around every integer and half-integer
            let m = (u * 683.0).floor() - 339.0; // −339..=343 half-units
            m / 2.0 + sign(v) * ps::logu(w, 1e-9, 1e-3)
        }
        5 => {
            if v < 0.5 {
                ps::lerp(u, 142.0, 145.0)
            } else {
                ps::lerp(u, -144.0, -141.0)
            }
        }
        6 => {
            if v < 0.5 {
                ps::lerp(u, 170.0, GAMMA_HI)
            } else {
                ps::lerp(u, GAMMA_LO, -168.0)
            }
        }
        7 => (ps::lerp(u, GAMMA_LO, GAMMA_HI) as f32) as f64,
        8 => sign(v) * ps::logu(u, 1e-300, 1.0),
        _ => {
            // quarter-integers and other short binary fractions (x + 1 exact, identities sharp)
            let m = (u * 341.0 * 64.0).floor() - 170.0 * 64.0;
            m / 64.0 + if v < 0.5 { 0.0 } else { 1.0 / 128.0 }
        }
    }
}

fn beta_arg(base: u64, i: u64) -> (f64, f64) {
    let (u, v, w) = (ps::unit(base, i, 0), ps::unit(base, i, 1), ps::unit(base, i, 2));
    let (a, b) = match i % 6 {
        0 | 1 => (ps::logu(u, 1e-3, 80.0), ps::logu(v, 1e-3, 80.0)),
        2 => (ps::lerp(u, 60.0, 80.0), ps::lerp(v, 60.0, 80.0)),
        3 => {
            // a + b crossing 143 (and 160 at the corner)
            let a = ps::lerp(u, 63.5, 80.0);
            (a, (143.3 - a + ps::lerp(v, -1.0, 1.0)).min(79.999))
        }
        4 => (ps::logu(u, 1e-3, 1.0), ps::lerp(v, 1.0, 80.0)),
        _ => ((ps::lerp(u, 1e-3, 80.0) as f32) as f64, (ps::lerp(v, 1e-3, 80.0) as f32) as f64),
    };
    if w < 0.5 {
        (a, b)
    } else {
        (b, a)
    }
}

fn digamma_arg(base: u64, i: u64) -> f64 {
    let (u, v) = (ps::unit(base, i, 0), ps::unit(base, i, 1));
    match i % 4 {
        0 | 1 => ps::logu(u, 1e-3, 1e6),
        2 => ps::lerp(u, 1e-3, 12.0),
        _ => (1.0 + (u * 60.0).floor()) + (v - 0.5) * 1e-3,
    }
}

fn erf_arg(base: u64, i: u64) -> f64 {
    let (u, v) = (ps::unit(base, i, 0), ps::unit(base, i, 1));
    match i % 8 {
        0 | 1 => (ps::lerp(u, -6.0, 6.0) as f32) as f64,
        2 | 3 => ps::lerp(u, -6.0, 6.0),
        4 => sign(v) * ps::logu(u, 1e-300, 1.0),
        5 | 6 => ps::lerp(u, -40.0, 40.0),
        _ => sign(v) * ps::logu(u, 6.0, 1e300),
    }
}

pub fn run(ctx: &mut Ctx) {
    ctx.rule = "gamma: stratified arguments in (−170, 171.6) (uniform, log-uniform toward 0, ±1e-3 around every integer and half-integer, \
around ±143 and the range ends, f32-rounded, short binary fractions); thorough additionally every f32 with 2^-64 <= |x| in the range. \
beta: (a,b) in (1e-3,80)² log-uniform, both large, a+b crossing 143. digamma: log-uniform (1e-3,1e6), uniform (0,12), near integers, all integers <= 1e4. \
erf: f32 grid / f64 in ±6, tiny, ±40, huge; thorough every f32 in [−6,6]. A point is non-trivial when it is in the stated domain, \
not within 1e-6·|x| of a pole and the true value is a finite normal f64; distinct = distinct argument bit pattern \
(sweeps are accounted in notes `sweep:<sub>`; only enumerated cases enter distinct_nontrivial)"
        .into();
    ctx.assumptions = vec![
        "glibc tgamma (<= ~10 ulp) and erf (< 1 ulp) are the true values at the stated accuracies 1e-13 / 1.5e-7".into(),
        "pole-proximity scaling of the gamma tolerance for x < 0.5: 1e-13 + 1e-15·|x|/dist(x, nearest pole); arguments with dist < 1e-6·|x| skipped".into(),
        "gamma recurrence only where x + 1 is exact in f64 (otherwise the rounding of the argument alone moves Γ by up to 1e-13)".into(),
        "erf oddness is demanded exactly for x != 0; erf(0) = 0 is covered by the value clause only (1.5e-7)".into(),
    ];
    let base = mix_seed(ctx.seed, "C09", 0);

    // enumerated anchors (also what populates distinct_nontrivial)
    for n in 0..=170u32 {
        ps::one(ctx, &GAMMA_FACTORIAL, n as f64, 0.0);
    }
    ctx.exhaustive.push("gamma(n+1) = n! for every n in 0..=170".into());
    for &x in &[0.5, 1.0, 1.5, 2.0, 10.0, 100.0, 142.0, 143.0, 143.5, 150.0, 160.0, 170.0, 171.0, 171.5] {
        ps::one(ctx, &GAMMA_POSITIVE, x, 0.0);
        ps::one(ctx, &GAMMA_RECURRENCE, x, 0.0);
    }
    for &x in &[0.25, 1e-10, -1e-10, -0.5, -1.5, -10.5, -100.5, -141.5, -142.5, -143.5, -150.25, -169.5] {
        ps::one(ctx, &GAMMA_REFLECTION, x, 0.0);
        ps::one(ctx, &GAMMA_RECURRENCE, x, 0.0);
    }
    for &(a, b) in &[(1.0, 1.0), (0.5, 0.5), (2.0, 3.0), (0.01, 0.02), (70.0, 70.0), (71.5, 72.0), (79.5, 79.5), (79.0, 0.01)] {
        ps::one(ctx, &BETA_VALUE, a, b);
        ps::one(ctx, &BETA_SYMMETRY, a, b);
    }
    for &x in &[0.0015, 0.5, 1.0, 1.4616321449683623, 2.0, 5.999, 6.0, 6.001, 39.5, 1e3, 999999.0] {
        ps::one(ctx, &DIGAMMA_VALUE, x, 0.0);
        ps::one(ctx, &DIGAMMA_RECURRENCE, x, 0.0);
    }
    for &x in &[0.0, -0.0, 1e-300, 1e-9, 0.5, 1.0, 3.0, 6.0, 27.0, 40.0, 1e10, 1e300, f64::MAX] {
        for s in [1.0, -1.0] {
            ps::one(ctx, &ERF_VALUE, s * x, 0.0);
            ps::one(ctx, &ERF_ODD, s * x, 0.0);
            ps::one(ctx, &ERF_BOUNDED, s * x, 0.0);
        }
    }

    // digamma at every integer <= 1e4 against harmonic numbers
    ps::sweep(ctx, &[&DIGAMMA_HARMONIC], 10_000, &|i| ((i + 1) as f64, 0.0));
    ctx.exhaustive.push("digamma(n) = H(n-1) − γ for every integer n in 1..=10000".into());

    // beta on the complete quarter-integer grid (whole-number and half-integer arguments are where closed forms
    // through factorials / binomial coefficients would be substituted)
    ps::sweep(ctx, &[&BETA_VALUE, &BETA_SYMMETRY], 319 * 319, &|i| (((i / 319) + 1) as f64 / 4.0, ((i % 319) + 1) as f64 / 4.0));
    ctx.exhaustive.push("beta value and symmetry at every (a, b) with 4a, 4b integers in 1..=319 (all whole-number and half-integer pairs below 80)".into());

    // stratified sweeps (quick and thorough)
    let n = ctx.scale(4_000_000, 40_000_000);
    ps::sweep(ctx, &[&GAMMA_POSITIVE, &GAMMA_REFLECTION, &GAMMA_RECURRENCE], n, &|i| (gamma_arg(base, i), 0.0));
    let n = ctx.scale(1_000_000, 20_000_000);
    let bb = mix_seed(base, "beta", 0);
    ps::sweep(ctx, &[&BETA_VALUE, &BETA_SYMMETRY], n, &|i| beta_arg(bb, i));
    let n = ctx.scale(1_000_000, 20_000_000);
    let db = mix_seed(base, "digamma", 0);
    ps::sweep(ctx, &[&DIGAMMA_VALUE, &DIGAMMA_RECURRENCE], n, &|i| (digamma_arg(db, i), 0.0));
    let n = ctx.scale(2_000_000, 20_000_000);
    let eb = mix_seed(base, "erf", 0);
    ps::sweep(ctx, &[&ERF_VALUE, &ERF_ODD, &ERF_BOUNDED], n, &|i| (erf_arg(eb, i), 0.0));

    if !ctx.quick() {
        // every f32-representable argument
        let lo = 2f32.powi(-64);
        let npos = ps::f32_count(lo, GAMMA_HI as f32);
        ps::sweep(ctx, &[&GAMMA_POSITIVE, &GAMMA_REFLECTION, &GAMMA_RECURRENCE], npos, &|i| (ps::f32_at(lo, i) as f64, 0.0));
        let nneg = ps::f32_count(lo, 170.0);
        ps::sweep(ctx, &[&GAMMA_REFLECTION, &GAMMA_RECURRENCE], nneg, &|i| (-(ps::f32_at(lo, i) as f64), 0.0));
        ctx.exhaustive.push("gamma at every f32-representable x with 2^-64 <= |x|, −170 < x < 171.6 (value and recurrence)".into());
        let ne = ps::f32_count(0.0, 6.0);
        ps::sweep(ctx, &[&ERF_VALUE, &ERF_ODD, &ERF_BOUNDED], ne, &|i| (ps::f32_at(0.0, i) as f64, 0.0));
        ps::sweep(ctx, &[&ERF_VALUE, &ERF_BOUNDED], ne, &|i| (-(ps::f32_at(0.0, i) as f64), 0.0));
        ctx.exhaustive.push("erf at every f32-representable x in [−6, 6] (value, bound; oddness on the non-negative half covers both)".into());
    }
}

pub fn replay(ctx: &mut Ctx, sub: &str, v: Value) -> Option<R> {
    let p = ALL.iter().find(|p| p.sub == sub)?;
    Some(ps::check_point(ctx, p, &decode::<Arg>(v)?))
}
