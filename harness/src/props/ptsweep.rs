//! Helper shared by C09 and C17: *point sub-checks* (a pure oracle function of one or two f64
//! arguments) that can be driven (a) one case at a time through the engine (`check_point`: enumerated
//! cases, regression replays, `--replay`) and (b) as a dense sweep over an indexed argument family on
//! 16 threads (`sweep`). The sweep reports, per sub-check, the first failing argument in index order
//! (deterministic), simplifies it a little and hands it to `ctx.check_one`, so the replay file holds
//! the single failing argument and goes through the same oracle function.
//!
//! Accounting of sweeps: `ctx.case` keeps a hash set of every distinct case, which is not feasible for
//! 10^9 arguments, so a sweep adds its totals to `ctx.evaluations`, `ctx.subchecks`, `ctx.classes`
//! directly and records {points, nontrivial, failing} in the note `sweep:<sub>`; distinct non-trivial
//! sweep points are counted conservatively through the engine's bitmap sketch (a lower bound).

use crate::engine::{self, catch, fail, Ctx, Hx, R};
use serde::{Deserialize, Serialize};
use serde_json::json;

/// Outcome of one point: class label, non-triviality, observed/bound ratio (NaN = no tolerance
/// involved) and the failure description if the oracle rejects the library's answer.
pub struct Pt {
    pub class: &'static str,
    pub nontrivial: bool,
    pub ratio: f64,
    pub fail: Option<String>,
}

impl Pt {
    pub fn ok(class: &'static str, ratio: f64) -> Option<Pt> {
        Some(Pt { class, nontrivial: true, ratio, fail: None })
    }
    /// in the sub-check's input space but excluded by a stated domain restriction (counted)
    pub fn skipped(class: &'static str) -> Option<Pt> {
        Some(Pt { class, nontrivial: false, ratio: f64::NAN, fail: None })
    }
    pub fn bad(class: &'static str, ratio: f64, what: String) -> Option<Pt> {
        Some(Pt { class, nontrivial: true, ratio, fail: Some(what) })
    }
    /// pass/fail from a ratio: fails when the ratio is > 1 or NaN
    pub fn judge(class: &'static str, ratio: f64, what: impl FnOnce() -> String) -> Option<Pt> {
        if ratio <= 1.0 {
            Pt::ok(class, ratio)
        } else {
            Pt::bad(class, ratio, what())
        }
    }
}

pub struct PointSub {
    /// sub-check name, e.g. "gamma/positive"
    pub sub: &'static str,
    /// signature of a failure, e.g. "C09/gamma/positive"
    pub sig: &'static str,
    /// name of the tolerance for `ctx.worst`
    pub tol: &'static str,
    /// the oracle; `None` = argument outside this sub-check's quantifier (not counted)
    pub f: fn(f64, f64) -> Option<Pt>,
}

#[derive(Clone, Debug, Serialize, Deserialize)]
pub struct Arg {
    #[serde(with = "crate::engine::fx::f")]
    pub x: f64,
    #[serde(with = "crate::engine::fx::f", default)]
    pub y: f64,
}

#[inline]
pub fn eval(ps: &PointSub, x: f64, y: f64) -> Option<Pt> {
    match catch(|| (ps.f)(x, y)) {
        Ok(p) => p,
        Err(msg) => Pt::bad("panic", f64::NAN, format!("unexpected panic at ({:e}, {:e}): {}", x, y, msg)),
    }
}

/// The engine-facing oracle function of a point sub-check.
pub fn check_point(ctx: &mut Ctx, ps: &PointSub, a: &Arg) -> R {
    match eval(ps, a.x, a.y) {
        None => Ok(()),
        Some(p) => {
            ctx.case(ps.sub, p.class, p.nontrivial, Hx::new().f(a.x).f(a.y).finish());
            ctx.sample(ps.sub, || json!(a));
            if !p.ratio.is_nan() {
                ctx.worst(ps.tol, p.ratio);
            }
            match p.fail {
                Some(w) => fail(ps.sig, w),
                None => Ok(()),
            }
        }
    }
}

pub fn one(ctx: &mut Ctx, ps: &PointSub, x: f64, y: f64) {
    ctx.check_one(ps.sub, &Arg { x, y }, |c, a| check_point(c, ps, a));
}

#[derive(Clone, Default)]
struct SubOut {
    n: u64,
    nontrivial: u64,
    nfail: u64,
    classes: Vec<(&'static str, u64)>,
    worst: f64,
    first_fail: Option<(u64, f64, f64)>,
}

impl SubOut {
    #[inline]
    fn add(&mut self, i: u64, x: f64, y: f64, p: Pt) {
        self.n += 1;
        if p.nontrivial {
            self.nontrivial += 1;
        }
        match self.classes.iter_mut().find(|c| std::ptr::eq(c.0, p.class) || c.0 == p.class) {
            Some(c) => c.1 += 1,
            None => self.classes.push((p.class, 1)),
        }
        if p.ratio > self.worst {
            self.worst = p.ratio;
        }
        if p.fail.is_some() {
            self.nfail += 1;
            if self.first_fail.is_none() {
                self.first_fail = Some((i, x, y));
            }
        }
    }
}

fn round_to(x: f64, digits: i32) -> f64 {
    let s = 10f64.powi(digits);
    (x * s).round() / s
}

/// Simpler arguments that still fail with the same signature are preferred for the replay file
/// (a sweep has no proptest shrinking): integers, few decimals, the f32 neighbour.
fn simplify(ps: &PointSub, x: f64, y: f64) -> (f64, f64) {
    let fails = |a: f64, b: f64| -> bool { matches!(eval(ps, a, b), Some(Pt { fail: Some(_), .. })) };
    let cands = |v: f64| -> Vec<f64> {
        let mut c = vec![v.round(), v.trunc(), round_to(v, 1), round_to(v, 2), round_to(v, 3), (v as f32) as f64];
        c.retain(|u| u.is_finite());
        c
    };
    let (mut bx, mut by) = (x, y);
    for cx in cands(x) {
        if cx != bx && fails(cx, by) {
            bx = cx;
            break;
        }
    }
    for cy in cands(y) {
        if cy != by && fails(bx, cy) {
            by = cy;
            break;
        }
    }
    (bx, by)
}

/// Evaluate every sub-check in `subs` on the arguments `gen(0..n)` on 16 threads.
pub fn sweep(ctx: &mut Ctx, subs: &[&PointSub], n: u64, gen: &(dyn Fn(u64) -> (f64, f64) + Sync)) {
    if n == 0 {
        return;
    }
    let chunk: u64 = (n / 1024).clamp(1 << 12, 1 << 21);
    let nchunks = (n + chunk - 1) / chunk;
    let ids: Vec<u64> = (0..nchunks).collect();
    let sketch = ctx.sketch();
    let outs: Vec<Vec<SubOut>> = engine::par_map(&ids, 16, |_, &c| {
        let mut o: Vec<SubOut> = vec![SubOut::default(); subs.len()];
        let lo = c * chunk;
        let hi = (lo + chunk).min(n);
        for i in lo..hi {
            let (x, y) = gen(i);
            for (k, ps) in subs.iter().enumerate() {
                if let Some(p) = eval(ps, x, y) {
                    if p.nontrivial {
                        sketch.insert(engine::case_fingerprint(ps.sub, Hx::new().f(x).f(y).finish()));
                    }
                    o[k].add(i, x, y, p);
                }
            }
        }
        o
    });
    for (k, ps) in subs.iter().enumerate() {
        let mut tot = SubOut::default();
        for o in outs.iter() {
            let s = &o[k];
            tot.n += s.n;
            tot.nontrivial += s.nontrivial;
            tot.nfail += s.nfail;
            if s.worst > tot.worst {
                tot.worst = s.worst;
            }
            for (c, m) in s.classes.iter() {
                match tot.classes.iter_mut().find(|t| t.0 == *c) {
                    Some(t) => t.1 += m,
                    None => tot.classes.push((c, *m)),
                }
            }
            if tot.first_fail.is_none() {
                tot.first_fail = s.first_fail;
            }
        }
        ctx.evaluations += tot.n;
        *ctx.subchecks.entry(ps.sub.to_string()).or_insert(0) += tot.n;
        for (c, m) in tot.classes.iter() {
            *ctx.classes.entry(format!("{}:{}", ps.sub, c)).or_insert(0) += m;
        }
        if tot.worst > 0.0 {
            ctx.worst(ps.tol, tot.worst);
        }
        let key = format!("sweep:{}", ps.sub);
        let prev = ctx.notes.get(&key).cloned().unwrap_or(json!({"points": 0, "nontrivial": 0, "failing": 0}));
        ctx.note(
            &key,
            json!({
                "points": prev["points"].as_u64().unwrap_or(0) + tot.n,
                "nontrivial": prev["nontrivial"].as_u64().unwrap_or(0) + tot.nontrivial,
                "failing": prev["failing"].as_u64().unwrap_or(0) + tot.nfail,
            }),
        );
        if let Some((_, x, y)) = tot.first_fail {
            let (sx, sy) = simplify(ps, x, y);
            one(ctx, ps, sx, sy);
        }
    }
}

// ---- deterministic index -> argument helpers --------------------------------------------------

#[inline]
pub fn splitmix(mut z: u64) -> u64 {
    z = z.wrapping_add(0x9e3779b97f4a7c15);
    z = (z ^ (z >> 30)).wrapping_mul(0xbf58476d1ce4e5b9);
    z = (z ^ (z >> 27)).wrapping_mul(0x94d049bb133111eb);
    z ^ (z >> 31)
}

/// k-th uniform number in [0,1) of stream (base, i)
#[inline]
pub fn unit(base: u64, i: u64, k: u64) -> f64 {
    let h = splitmix(base ^ splitmix(i.wrapping_mul(4).wrapping_add(k)));
    (h >> 11) as f64 / (1u64 << 53) as f64
}

#[inline]
pub fn lerp(u: f64, lo: f64, hi: f64) -> f64 {
    lo + u * (hi - lo)
}

/// log-uniform in [lo, hi], lo > 0
#[inline]
pub fn logu(u: f64, lo: f64, hi: f64) -> f64 {
    (lo.ln() + u * (hi.ln() - lo.ln())).exp().clamp(lo, hi)
}

/// Number of f32 values in [lo, hi] for 0 <= lo <= hi (by bit pattern), and the i-th of them.
pub fn f32_count(lo: f32, hi: f32) -> u64 {
    (hi.to_bits() - lo.to_bits()) as u64 + 1
}
#[inline]
pub fn f32_at(lo: f32, i: u64) -> f32 {
    f32::from_bits(lo.to_bits() + i as u32)
}
