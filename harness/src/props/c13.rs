//! C13 — Autocorrelation, AR fitting and forecasting are consistent.
//!
//! Generated: series of length 10..=5000 simulated *by the harness* from proptest-provided innovations:
//! AR(1..=6) with coefficients from random partial autocorrelations in (−0.95, 0.95) (Durbin–Levinson,
//! stationary by construction, 64 burn-in steps), with a small mean, with an offset up to 1e6, with a
//! linear trend, constant-plus-white-noise (offset up to 1e6) and small-integer series; lags −50..=50
//! (so |lag| ≥ n occurs for short series), model orders 1..=8, horizons 1..=1000, shifts 0.01..1e6.
//!
//! Oracles (ε = 2^-52, x̄ and the centred series in double-double, δ = (n+8)·ε·mean|x| the bound on the
//! error of a computed mean, see C08):
//!  * acovf(x,k) = (1/n) Σ_{i≥|k|} (x_i−x̄)(x_{i−|k|}−x̄) within
//!    [2(n+8)·ε·Σ|terms| + 2δ·(Σ_{i<|k|}|dx_i| + Σ_{i≥n−|k|}|dx_i|) + 2nδ²]/n.  First term: 3 roundings per
//!    term + (n−1) additions + the scaling by 1/n, in units u = ε/2 (4× slack); the δ terms are the
//!    exact effect of centring with a mean that is off by δ: Σ(a_i−δ)(b_i−δ) = Σa_ib_i − δ(Σa_i+Σb_i) + mδ²,
//!    and the partial sums of deviations equal minus the head / tail sums.
//!  * acf = acovf(k)/acovf(0) within (tol_N + |acf|·tol_D)/(D − tol_D) + 4ε; evenness within twice the
//!    rounding allowance (bit-identical is not demanded: an implementation may sum negative lags in a
//!    different order); acf(0) = 1 within 4ε; |acf(k)| ≤ 1 + 4nε; |acovf(k)| ≤ acovf(0)(1 + 4nε).
//!  * difference(cumsum(x)) = x[1..]: exact when every partial sum is an integer below 2^53, within
//!    2·ε·max|cumsum| otherwise (the two roundings of fl(c_i + x_{i+1}) − c_i).
//!  * AR::fit: intercept within δ of x̄; φ = coeffs reversed has ‖Toeplitz(r₀..r_{p−1})φ − (r₁..r_p)‖∞ ≤
//!    1e-9·κ̂ with r from the oracle and κ̂ = ‖T‖∞‖T⁻¹‖∞ from the oracle's own Gauss–Jordan inverse
//!    (p²·ε·κ·‖T‖‖φ‖ ≈ 8e-12·κ for p = 8, ‖φ‖ ≤ 70: ≈ 100× slack).  Cases with κ̂ > 1e10 are outside
//!    the domain where "solves the equations" is decidable in f64 and are counted as skipped.
//!  * forecasts: with the *library's own* fitted φ and the oracle's x̄, f_j = x̄ + d_j where d is the AR
//!    recursion on the mean-centred last p values (dd), within 1e-9·(1+|x̄|+max|c|)·G_j,
//!    G_j = Σ_{m<j}|ψ_m| (ψ = impulse response of the fitted model: a local error made at step m
//!    reaches step j multiplied by ψ_{j−m}); predict_one(x) = f_1.
//!  * shift s: coefficients unchanged within rel·(1+‖φ‖∞), rel = 256·ε·(1+(|s|+|x̄|)/sd)·κ̂ (DESIGN),
//!    intercept moved by s within δ(x)+δ(x+s)+ε|x̄+s|, every forecast moved by s within
//!    G_j·[4p·rel·(1+‖φ‖∞)·D + 4(δ(x)+δ(x+s))(1+‖φ‖₁) + 64ε(p+2)(1+‖φ‖₁)(D+|x̄|+|s|)],
//!    D = max deviation of history and forecasts from the mean (forecast sensitivity to Δφ is
//!    G_j·‖Δφ‖₁·D; the mean error enters the centred history and is added back).
//!  * stationary fits: when every root of z^p − φ₁z^{p−1} − … − φ_p has modulus < 0.98 (decided by a
//!    Schur–Cohn step-down test on the radius-scaled polynomial, no iteration), |f_1000 − x̄| ≤
//!    1e-6·sd + 2·|oracle deviation at 1000| + 2δ (the middle term keeps the check sound for highly
//!    repeated roots near 0.98, where ρ^1000 times a polynomial factor need not be below 1e-6).

use crate::engine::{catch, decode, fail, Ctx, Hx, R};
use crate::oracle::dd::DD;
use compute::timeseries as ts;
use proptest::collection::vec;
use proptest::prelude::*;
use serde::{Deserialize, Serialize};
use serde_json::{json, Value};

const EPS: f64 = f64::EPSILON;
const BURN: usize = 64;
const KINDS: [&str; 5] = ["ar", "ar+offset", "trend", "const+noise", "int"];

#[derive(Clone, Debug, Serialize, Deserialize)]
pub struct TCase {
    pub kind: u8,
    pub x: Vec<f64>,
    /// lag (acovf / acf sub-checks)
    pub k: i32,
    /// model order (AR sub-checks)
    pub p: usize,
    /// horizon
    pub h: usize,
    /// shift (AR/shift)
    pub s: f64,
}

// ------------------------------------------------------------------------------------------------
// oracle

struct Ser {
    n: usize,
    mean: DD,
    dmean: f64,
    dx: Vec<DD>,
}

fn ser(x: &[f64]) -> Ser {
    let n = x.len();
    let mut s = DD::ZERO;
    let mut sa = 0.0;
    for &v in x {
        s = s + DD::new(v);
        sa += v.abs();
    }
    let mean = s / DD::new(n as f64);
    let absmean = sa / n as f64;
    Ser { n, mean, dmean: (n as f64 + 8.0) * EPS * absmean, dx: x.iter().map(|v| DD::new(*v) - mean).collect() }
}

/// (autocovariance at lag k, rounding allowance)
fn acov(s: &Ser, k: i32) -> (DD, f64) {
    let n = s.n;
    let ka = k.unsigned_abs() as usize;
    let mut sum = DD::ZERO;
    let mut sabs = 0.0;
    for i in ka..n {
        let t = s.dx[i] * s.dx[i - ka];
        sum = sum + t;
        sabs += t.f().abs();
    }
    let head: f64 = s.dx.iter().take(ka.min(n)).map(|d| d.f().abs()).sum();
    let tail: f64 = s.dx.iter().skip(n.saturating_sub(ka)).map(|d| d.f().abs()).sum();
    let nf = n as f64;
    let tol = (2.0 * (nf + 8.0) * EPS * sabs + 2.0 * s.dmean * (head + tail) + 2.0 * nf * s.dmean * s.dmean) / nf;
    (sum / DD::new(nf), tol)
}

/// (autocorrelation at lag k, rounding allowance); None when the series is (numerically) constant
fn acor(s: &Ser, k: i32) -> Option<(f64, f64)> {
    let (num, tn) = acov(s, k);
    let (den, td) = acov(s, 0);
    let d = den.f();
    if !(d > 0.0) || !(d - td > 0.5 * d) {
        return None;
    }
    let r = (num / den).f();
    Some((r, (tn + r.abs() * td) / (d - td) + 4.0 * EPS))
}

/// Gauss–Jordan inverse with partial pivoting (row-major n×n); None if singular.
fn invert(a: &[f64], n: usize) -> Option<Vec<f64>> {
    let mut m = a.to_vec();
    let mut inv = vec![0.0; n * n];
    for i in 0..n {
        inv[i * n + i] = 1.0;
    }
    for col in 0..n {
        let mut piv = col;
        for r in col + 1..n {
            if m[r * n + col].abs() > m[piv * n + col].abs() {
                piv = r;
            }
        }
        let pv = m[piv * n + col];
        if !(pv.abs() > 0.0) || !pv.is_finite() {
            return None;
        }
        if piv != col {
            for j in 0..n {
                m.swap(col * n + j, piv * n + j);
                inv.swap(col * n + j, piv * n + j);
            }
        }
        for j in 0..n {
            m[col * n + j] /= pv;
            inv[col * n + j] /= pv;
        }
        for r in 0..n {
            if r != col {
                let f = m[r * n + col];
                if f != 0.0 {
                    for j in 0..n {
                        m[r * n + j] -= f * m[col * n + j];
                        inv[r * n + j] -= f * inv[col * n + j];
                    }
                }
            }
        }
    }
    if inv.iter().all(|v| v.is_finite()) {
        Some(inv)
    } else {
        None
    }
}

fn inf_norm(a: &[f64], n: usize) -> f64 {
    (0..n).map(|i| (0..n).map(|j| a[i * n + j].abs()).sum::<f64>()).fold(0.0, f64::max)
}

struct Yw {
    /// r_0 ..= r_p from the oracle
    r: Vec<f64>,
    /// ∞-norm condition number of Toeplitz(r_0..r_{p−1})
    kappa: f64,
    sd: f64,
}

fn yw_oracle(s: &Ser, p: usize) -> Option<Yw> {
    let mut r = Vec::with_capacity(p + 1);
    for k in 0..=p {
        r.push(acor(s, k as i32)?.0);
    }
    let mut t = vec![0.0; p * p];
    for i in 0..p {
        for j in 0..p {
            t[i * p + j] = r[if i > j { i - j } else { j - i }];
        }
    }
    let inv = invert(&t, p)?;
    let kappa = inf_norm(&t, p) * inf_norm(&inv, p);
    if !kappa.is_finite() {
        return None;
    }
    Some(Yw { r, kappa, sd: acov(s, 0).0.f().max(0.0).sqrt() })
}

/// Durbin–Levinson: AR coefficients φ_1..φ_p from partial autocorrelations.
fn levinson(pacf: &[f64]) -> Vec<f64> {
    let mut a: Vec<f64> = vec![];
    for (m, &k) in pacf.iter().enumerate() {
        let mut b: Vec<f64> = (0..m).map(|i| a[i] - k * a[m - 1 - i]).collect();
        b.push(k);
        a = b;
    }
    a
}

/// Step-down (Schur–Cohn) test: all roots of z^p − Σ a_i z^{p−i} strictly inside the unit circle.
fn schur_stable(a: &[f64]) -> bool {
    let mut a = a.to_vec();
    while let Some(&k) = a.last() {
        if !(k.abs() < 1.0) {
            return false;
        }
        let m = a.len();
        let d = 1.0 - k * k;
        a = (0..m - 1).map(|i| (a[i] + k * a[m - 2 - i]) / d).collect();
    }
    true
}

/// all roots of z^p − Σ φ_i z^{p−i} have modulus < r
fn roots_within(phi: &[f64], r: f64) -> bool {
    let scaled: Vec<f64> = phi.iter().enumerate().map(|(i, f)| f / r.powi(i as i32 + 1)).collect();
    scaled.iter().all(|v| v.is_finite()) && schur_stable(&scaled)
}

/// largest root modulus by bisection on the radius (only used for the class histogram)
fn max_root_modulus(phi: &[f64]) -> f64 {
    let mut hi = 1.0 + phi.iter().fold(0.0f64, |a, v| a.max(v.abs()));
    if !hi.is_finite() {
        return f64::INFINITY;
    }
    let mut lo = 0.0;
    for _ in 0..50 {
        let mid = 0.5 * (lo + hi);
        if mid > 0.0 && roots_within(phi, mid) {
            hi = mid;
        } else {
            lo = mid;
        }
    }
    hi
}

/// G_j = Σ_{m<j} |ψ_m| for j = 1..=h
fn growth(phi: &[f64], h: usize) -> Vec<f64> {
    let p = phi.len();
    let mut psi = Vec::with_capacity(h);
    let mut g = Vec::with_capacity(h);
    let mut acc = 0.0;
    for m in 0..h {
        let v = if m == 0 { 1.0 } else { (1..=p.min(m)).map(|i| phi[i - 1] * psi[m - i]).sum::<f64>() };
        psi.push(v);
        acc += v.abs();
        g.push(acc);
    }
    g
}

/// AR recursion in dd on the centred history c (oldest first, length p): deviations d_1..d_h
fn recursion(phi: &[f64], c: &[DD], h: usize) -> Vec<DD> {
    let p = phi.len();
    let mut buf: Vec<DD> = c.to_vec();
    for _ in 0..h {
        let l = buf.len();
        let mut v = DD::ZERO;
        for i in 1..=p {
            v = v + buf[l - i] * DD::new(phi[i - 1]);
        }
        buf.push(v);
    }
    buf[p..].to_vec()
}

pub fn self_test() -> bool {
    // z² − 1.5 z + 0.56 = (z − 0.7)(z − 0.8)
    let m = max_root_modulus(&[1.5, -0.56]);
    if (m - 0.8).abs() > 1e-9 {
        return false;
    }
    // (z − 0.5)³: φ = (1.5, −0.75, 0.125)
    if (max_root_modulus(&[1.5, -0.75, 0.125]) - 0.5).abs() > 1e-4 {
        return false;
    }
    if roots_within(&[1.0, 0.0], 0.999) || !roots_within(&[0.5], 0.51) || roots_within(&[0.5], 0.49) {
        return false;
    }
    // Levinson followed by step-down is the identity on stationary models
    let phi = levinson(&[0.9, -0.5, 0.3]);
    if !schur_stable(&phi) || (phi[2] - 0.3).abs() > 1e-15 {
        return false;
    }
    let inv = match invert(&[4.0, 7.0, 2.0, 6.0], 2) {
        Some(v) => v,
        None => return false,
    };
    let want = [0.6, -0.7, -0.2, 0.4];
    if inv.iter().zip(want).any(|(a, b)| (a - b).abs() > 1e-14) {
        return false;
    }
    // ψ of AR(1) 0.5: 1, .5, .25
    let g = growth(&[0.5], 3);
    if (g[2] - 1.75).abs() > 1e-15 {
        return false;
    }
    let d = recursion(&[0.5], &[DD::new(8.0)], 3);
    d[2].f() == 1.0
}

// ------------------------------------------------------------------------------------------------
// helpers shared by the sub-checks

fn valid(c: &TCase) -> bool {
    let n = c.x.len();
    (10..=5000).contains(&n) && c.x.iter().all(|v| v.is_finite() && v.abs() <= 1e9) && (-50..=50).contains(&c.k) && (1..=8).contains(&c.p) && (1..=1000).contains(&c.h) && c.s.is_finite() && c.s.abs() <= 1e6
}

fn tcase_hash(c: &TCase) -> u64 {
    Hx::new().u(c.kind as u64).fs(&c.x).i(c.k as i64).u(c.p as u64).u(c.h as u64).f(c.s).finish()
}

fn kind_name(k: u8) -> &'static str {
    KINDS.get(k as usize).copied().unwrap_or("other")
}

fn show(x: &[f64]) -> String {
    if x.len() <= 12 {
        format!("{:?}", x)
    } else {
        format!("[{:?}, {:?}, {:?}, … {} values]", x[0], x[1], x[2], x.len())
    }
}

fn ratio(diff: f64, tol: f64) -> f64 {
    if diff <= tol {
        if tol > 0.0 {
            diff / tol
        } else {
            0.0
        }
    } else if diff.is_nan() {
        f64::INFINITY
    } else {
        diff / tol
    }
}

fn len_bucket(n: usize) -> &'static str {
    match n {
        0..=100 => "n<=100",
        101..=1000 => "n<=1000",
        _ => "n>1000",
    }
}

/// mean handling visible: |x̄| > 0.1·sd
fn mean_visible(s: &Ser) -> bool {
    let sd = acov(s, 0).0.f().max(0.0).sqrt();
    s.mean.f().abs() > 0.1 * sd
}

fn begin(ctx: &mut Ctx, sub: &str, c: &TCase, class: &str, nontrivial: bool) {
    ctx.case(sub, class, nontrivial, tcase_hash(c));
    ctx.label(sub, len_bucket(c.x.len()));
    ctx.sample(sub, || json!(c));
}

fn lag_class(k: i32, n: usize) -> &'static str {
    if k.unsigned_abs() as usize >= n {
        "|lag|>=n"
    } else if k == 0 {
        "lag=0"
    } else if k > 0 {
        "lag>0"
    } else {
        "lag<0"
    }
}

// ------------------------------------------------------------------------------------------------
// acovf, acf

fn check_acovf(ctx: &mut Ctx, c: &TCase) -> R {
    if !valid(c) {
        return Ok(());
    }
    let s = ser(&c.x);
    begin(ctx, "acovf", c, &format!("{}/{}", kind_name(c.kind), lag_class(c.k, s.n)), c.k != 0 || mean_visible(&s));
    let (want, tol) = acov(&s, c.k);
    let got = match catch(|| ts::acovf(&c.x, c.k)) {
        Ok(v) => v,
        Err(m) => return fail("C13/acovf/panic", format!("acovf(x={}, {}) panicked: {}", show(&c.x), c.k, m)),
    };
    let diff = (got - want.f()).abs();
    ctx.worst("acovf |got-def|/tol", ratio(diff, tol));
    ensure!(diff <= tol, "C13/acovf", "acovf(x={}, k={}) = {:e}, the biased estimator gives {:e} (difference {:e}, allowance {:e})", show(&c.x), c.k, got, want.f(), diff, tol);
    Ok(())
}

fn check_acf(ctx: &mut Ctx, c: &TCase) -> R {
    if !valid(c) {
        return Ok(());
    }
    let s = ser(&c.x);
    begin(ctx, "acf", c, &format!("{}/{}", kind_name(c.kind), lag_class(c.k, s.n)), c.k != 0 || mean_visible(&s));
    let (want, tol) = match acor(&s, c.k) {
        Some(v) => v,
        None => {
            ctx.label("acf", "skipped/constant-series");
            return Ok(());
        }
    };
    let got = match catch(|| ts::acf(&c.x, c.k)) {
        Ok(v) => v,
        Err(m) => return fail("C13/acf/panic", format!("acf(x={}, {}) panicked: {}", show(&c.x), c.k, m)),
    };
    let diff = (got - want).abs();
    ctx.worst("acf |got-def|/tol", ratio(diff, tol));
    ensure!(diff <= tol, "C13/acf", "acf(x={}, k={}) = {:e}, acovf(k)/acovf(0) of the biased estimator is {:e} (difference {:e}, allowance {:e})", show(&c.x), c.k, got, want, diff, tol);
    Ok(())
}

fn check_even(ctx: &mut Ctx, c: &TCase) -> R {
    if !valid(c) {
        return Ok(());
    }
    let k = if c.k == 0 { 1 } else { c.k.abs() };
    let s = ser(&c.x);
    begin(ctx, "acf/even", c, &format!("{}/{}", kind_name(c.kind), lag_class(k, s.n)), true);
    let r = catch(|| (ts::acovf(&c.x, k), ts::acovf(&c.x, -k), ts::acf(&c.x, k), ts::acf(&c.x, -k)));
    let (cp, cm, rp, rm) = match r {
        Ok(v) => v,
        Err(m) => return fail("C13/acf/even/panic", format!("acovf/acf(x={}, ±{}) panicked: {}", show(&c.x), k, m)),
    };
    let (_, tol) = acov(&s, k);
    let d = (cp - cm).abs();
    ctx.worst("acovf evenness/tol", ratio(d, 2.0 * tol));
    ensure!(d <= 2.0 * tol, "C13/acovf/even", "acovf(x, {}) = {:e} but acovf(x, -{}) = {:e}; x={}", k, cp, k, cm, show(&c.x));
    if let Some((_, tr)) = acor(&s, k) {
        let d = (rp - rm).abs();
        ctx.worst("acf evenness/tol", ratio(d, 2.0 * tr));
        ensure!(d <= 2.0 * tr, "C13/acf/even", "acf(x, {}) = {:e} but acf(x, -{}) = {:e}; x={}", k, rp, k, rm, show(&c.x));
    }
    Ok(())
}

fn check_bounds(ctx: &mut Ctx, c: &TCase) -> R {
    if !valid(c) {
        return Ok(());
    }
    let s = ser(&c.x);
    begin(ctx, "acf/bounds", c, &format!("{}/{}", kind_name(c.kind), lag_class(c.k, s.n)), true);
    if acor(&s, 0).is_none() {
        ctx.label("acf/bounds", "skipped/constant-series");
        return Ok(());
    }
    let r = catch(|| (ts::acf(&c.x, 0), ts::acf(&c.x, c.k), ts::acovf(&c.x, 0), ts::acovf(&c.x, c.k)));
    let (r0, rk, c0, ck) = match r {
        Ok(v) => v,
        Err(m) => return fail("C13/acf/bounds/panic", format!("acovf/acf(x={}, {}) panicked: {}", show(&c.x), c.k, m)),
    };
    let nf = s.n as f64;
    ctx.worst("|acf(0)-1|/(4 eps)", ratio((r0 - 1.0).abs(), 4.0 * EPS));
    ensure!((r0 - 1.0).abs() <= 4.0 * EPS, "C13/acf/lag0", "acf(x, 0) = {:e}, expected 1; x={}", r0, show(&c.x));
    ctx.worst("(|acf(k)|-1)/(4 n eps)", ratio(rk.abs() - 1.0, 4.0 * nf * EPS).max(0.0));
    ensure!(rk.abs() <= 1.0 + 4.0 * nf * EPS, "C13/acf/bound", "|acf(x, {})| = {:e} exceeds 1; x={}", c.k, rk.abs(), show(&c.x));
    ensure!(ck.abs() <= c0 * (1.0 + 4.0 * nf * EPS), "C13/acovf/bound", "|acovf(x, {})| = {:e} exceeds acovf(x, 0) = {:e}; x={}", c.k, ck.abs(), c0, show(&c.x));
    Ok(())
}

// ------------------------------------------------------------------------------------------------
// differencing

fn check_diff(ctx: &mut Ctx, c: &TCase) -> R {
    if !valid(c) {
        return Ok(());
    }
    let n = c.x.len();
    let mut cum = Vec::with_capacity(n);
    let mut acc = 0.0f64;
    let mut exact = true;
    let mut cmax = 0.0f64;
    for &v in &c.x {
        let t = DD::from_sum(acc, v);
        exact &= t.lo == 0.0;
        acc = t.hi;
        cmax = cmax.max(acc.abs());
        cum.push(acc);
    }
    begin(ctx, "difference-cumsum", c, &format!("{}/{}", kind_name(c.kind), if exact { "cumsum exact" } else { "cumsum rounded" }), true);
    let input = cum.clone();
    let d = match catch(move || ts::difference(input)) {
        Ok(v) => v,
        Err(m) => return fail("C13/difference-cumsum/panic", format!("difference(cumsum(x)) panicked for x={}: {}", show(&c.x), m)),
    };
    ensure!(d.len() == n - 1, "C13/difference-cumsum/length", "difference of a length-{} vector has length {}, expected {}", n, d.len(), n - 1);
    let tol = if exact { 0.0 } else { 2.0 * EPS * cmax };
    for i in 0..n - 1 {
        let diff = (d[i] - c.x[i + 1]).abs();
        ctx.worst("difference(cumsum) |d-x|/tol", ratio(diff, tol));
        ensure!(diff <= tol, "C13/difference-cumsum", "difference(cumsum(x))[{}] = {:e} but x[{}] = {:e} (allowance {:e}); x={}", i, d[i], i + 1, c.x[i + 1], tol, show(&c.x));
    }
    Ok(())
}

// ------------------------------------------------------------------------------------------------
// AR

struct Fit {
    /// φ_1..φ_p (the library stores them reversed)
    phi: Vec<f64>,
    intercept: f64,
}

fn lib_fit(x: &[f64], p: usize) -> Result<(Vec<f64>, f64), String> {
    catch(|| {
        let mut ar = ts::AR::new(p);
        ar.fit(x);
        (ar.coeffs.clone(), ar.intercept)
    })
}

fn lib_predict(x: &[f64], p: usize, h: usize) -> Result<(Vec<f64>, f64, Vec<f64>, f64), String> {
    catch(|| {
        let mut ar = ts::AR::new(p);
        // one model in three has been fitted before, to another valid series (reversed, shifted and rescaled):
        // the fit must depend on the series it is given, not on what the object held
        let pre = (x.len() + p + h) % 3 == 0;
        if pre {
            let other: Vec<f64> = x.iter().rev().map(|v| 1000.0 + 3.0 * v).collect();
            ar.fit(&other);
        }
        ar.fit(x);
        let f = ar.predict(x, h);
        let one = ar.predict_one(x);
        (ar.coeffs.clone(), ar.intercept, f, one)
    })
}

fn to_fit(sigbase: &str, coeffs: Vec<f64>, intercept: f64, p: usize) -> Result<Fit, crate::engine::Fail> {
    ensure!(coeffs.len() == p, format!("{}/shape", sigbase), "AR({}) has {} coefficients after fit", p, coeffs.len());
    ensure!(coeffs.iter().all(|v| v.is_finite()) && intercept.is_finite(), format!("{}/non-finite", sigbase), "AR({}) fit produced non-finite state: coeffs {:?}, intercept {:e}", p, coeffs, intercept);
    let mut phi = coeffs;
    phi.reverse();
    Ok(Fit { phi, intercept })
}

fn kappa_decade(k: f64) -> String {
    format!("cond=1e{}", k.max(1.0).log10().floor() as i32)
}

/// Oracle side of a fit; None (with a "skipped" label) when the Yule–Walker system is constant /
/// singular / too ill-conditioned to be decided in f64.
fn yw_or_skip(ctx: &mut Ctx, sub: &str, s: &Ser, p: usize) -> Option<Yw> {
    match yw_oracle(s, p) {
        None => {
            ctx.label(sub, "skipped/singular");
            None
        }
        Some(y) if y.kappa > 1e10 => {
            ctx.label(sub, "skipped/cond>1e10");
            None
        }
        Some(y) => {
            ctx.label(sub, &kappa_decade(y.kappa));
            Some(y)
        }
    }
}

fn check_yw(ctx: &mut Ctx, c: &TCase) -> R {
    if !valid(c) {
        return Ok(());
    }
    let s = ser(&c.x);
    let sub = "AR/yule-walker";
    begin(ctx, sub, c, &format!("{}/p={}", kind_name(c.kind), c.p), mean_visible(&s));
    let y = match yw_or_skip(ctx, sub, &s, c.p) {
        Some(y) => y,
        None => return Ok(()),
    };
    let (coeffs, ic) = match lib_fit(&c.x, c.p) {
        Ok(v) => v,
        Err(m) => return fail("C13/AR/yule-walker/panic", format!("AR({}).fit panicked on x={}: {}", c.p, show(&c.x), m)),
    };
    let fit = to_fit("C13/AR/yule-walker", coeffs, ic, c.p)?;
    let p = c.p;
    let tol = 1e-9 * y.kappa;
    let mut worst = 0.0f64;
    let mut wi = 0;
    for i in 0..p {
        let mut acc = DD::new(-y.r[i + 1]);
        for j in 0..p {
            acc = acc + DD::from_prod(y.r[if i > j { i - j } else { j - i }], fit.phi[j]);
        }
        if !(acc.f().abs() <= worst) {
            worst = acc.f().abs();
            wi = i;
        }
    }
    ctx.worst("Yule-Walker residual/(1e-9 cond)", ratio(worst, tol));
    ensure!(
        worst <= tol,
        "C13/AR/yule-walker",
        "AR({}) fitted to x={}: coefficients φ={:?} leave residual {:e} in Yule–Walker equation {} (r={:?}, cond {:.3e}, allowance {:e})",
        p, show(&c.x), fit.phi, worst, wi + 1, y.r, y.kappa, tol
    );
    Ok(())
}

fn check_intercept(ctx: &mut Ctx, c: &TCase) -> R {
    if !valid(c) {
        return Ok(());
    }
    let s = ser(&c.x);
    let sub = "AR/intercept";
    begin(ctx, sub, c, &format!("{}/p={}", kind_name(c.kind), c.p), mean_visible(&s));
    if yw_or_skip(ctx, sub, &s, c.p).is_none() {
        return Ok(());
    }
    let (_, ic) = match lib_fit(&c.x, c.p) {
        Ok(v) => v,
        Err(m) => return fail("C13/AR/intercept/panic", format!("AR({}).fit panicked on x={}: {}", c.p, show(&c.x), m)),
    };
    let diff = (ic - s.mean.f()).abs();
    ctx.worst("intercept |got-mean|/tol", ratio(diff, s.dmean));
    ensure!(diff <= s.dmean, "C13/AR/intercept", "AR({}) fitted to x={}: intercept {:e}, series mean {:e} (difference {:e}, allowance {:e})", c.p, show(&c.x), ic, s.mean.f(), diff, s.dmean);
    Ok(())
}

/// reference forecasts from the library's own coefficients: (f_1..f_h, tolerance per step, max|c|)
fn ref_forecasts(s: &Ser, fit: &Fit, h: usize) -> (Vec<DD>, Vec<f64>, f64) {
    let p = fit.phi.len();
    let c: Vec<DD> = s.dx[s.n - p..].to_vec();
    let cmax = c.iter().fold(0.0f64, |a, v| a.max(v.f().abs()));
    let d = recursion(&fit.phi, &c, h);
    let g = growth(&fit.phi, h);
    let base = 1e-9 * (1.0 + s.mean.f().abs() + cmax);
    (d.iter().map(|v| *v + s.mean).collect(), g.iter().map(|gj| base * gj).collect(), cmax)
}

fn check_predict(ctx: &mut Ctx, c: &TCase, one: bool) -> R {
    if !valid(c) {
        return Ok(());
    }
    let s = ser(&c.x);
    let sub = if one { "AR/predict_one" } else { "AR/predict/recursion" };
    let sig = if one { "C13/AR/predict_one" } else { "C13/AR/predict/recursion" };
    let hclass = if one {
        "h=1"
    } else {
        match c.h {
            1..=10 => "h<=10",
            11..=100 => "h<=100",
            _ => "h<=1000",
        }
    };
    begin(ctx, sub, c, &format!("{}/{}", kind_name(c.kind), hclass), mean_visible(&s));
    ctx.label(sub, &format!("p={}", c.p));
    if yw_or_skip(ctx, sub, &s, c.p).is_none() {
        return Ok(());
    }
    let h = if one { 1 } else { c.h };
    let (coeffs, ic, f, p1) = match lib_predict(&c.x, c.p, h) {
        Ok(v) => v,
        Err(m) => return fail(format!("{}/panic", sig), format!("AR({}) fit/predict({}) panicked on x={}: {}", c.p, h, show(&c.x), m)),
    };
    let fit = to_fit(sig, coeffs, ic, c.p)?;
    let (want, tol, _) = ref_forecasts(&s, &fit, h);
    if one {
        let diff = (p1 - want[0].f()).abs();
        ctx.worst("predict_one |got-ref|/tol", ratio(diff, tol[0]));
        ensure!(
            diff <= tol[0],
            sig,
            "AR({}) fitted to x={} (mean {:e}, φ={:?}): predict_one = {:e}, mean + recursion on the centred history = {:e} (difference {:e}, allowance {:e})",
            c.p, show(&c.x), s.mean.f(), fit.phi, p1, want[0].f(), diff, tol[0]
        );
        return Ok(());
    }
    ensure!(f.len() == h, format!("{}/length", sig), "predict(x, {}) returned {} forecasts", h, f.len());
    for j in 0..h {
        if !want[j].is_finite() || !tol[j].is_finite() {
            break;
        }
        let diff = (f[j] - want[j].f()).abs();
        ctx.worst("predict |got-ref|/tol", ratio(diff, tol[j]));
        ensure!(
            diff <= tol[j],
            sig,
            "AR({}) fitted to x={} (mean {:e}, φ={:?}): forecast {} of {} = {:e}, mean + recursion on the centred history = {:e} (difference {:e}, allowance {:e})",
            c.p, show(&c.x), s.mean.f(), fit.phi, j + 1, h, f[j], want[j].f(), diff, tol[j]
        );
    }
    // The same model forecasting from a history other than its training series (a recent window whose own mean
    // differs from the series mean): "the mean" of the statement is the fitted series mean (the intercept), so the
    // forecasts are intercept + recursion on (history − intercept) — the window's own mean plays no role.
    let w = (c.x.len() / 3).max(c.p);
    if w < c.x.len() {
        let sd = (s.dx.iter().map(|v| v.f() * v.f()).sum::<f64>() / s.n as f64).sqrt();
        let hist: Vec<f64> = c.x[c.x.len() - w..].iter().enumerate().map(|(i, v)| v + 0.5 * (1.0 + (i % 3) as f64) * sd).collect();
        let hh = h.min(50);
        let got = catch(|| {
            let mut ar = ts::AR::new(c.p);
            ar.fit(&c.x);
            (ar.predict(&hist, hh), ar.predict_one(&hist))
        });
        let (fw, p1w) = match got {
            Ok(v) => v,
            Err(m) => return fail(format!("{}/panic", sig), format!("AR({}) fitted to x={}: predict from a window of {} values panicked: {}", c.p, show(&c.x), w, m)),
        };
        let cw: Vec<DD> = hist[w - c.p..].iter().map(|v| DD::new(*v) - DD::new(fit.intercept)).collect();
        let cmax = cw.iter().fold(0.0f64, |a, v| a.max(v.f().abs()));
        let d = recursion(&fit.phi, &cw, hh);
        let g = growth(&fit.phi, hh);
        let base = 1e-9 * (1.0 + fit.intercept.abs() + cmax);
        ensure!(fw.len() == hh, format!("{}/length", sig), "predict(window, {}) returned {} forecasts", hh, fw.len());
        for j in 0..hh {
            let want = (d[j] + DD::new(fit.intercept)).f();
            let tol = base * g[j];
            if !want.is_finite() || !tol.is_finite() {
                break;
            }
            let diff = (fw[j] - want).abs();
            ctx.worst("predict from another history |got-ref|/tol", ratio(diff, tol));
            ensure!(
                diff <= tol,
                format!("{}/other-history", sig),
                "AR({}) fitted to x={} (intercept {:e}, φ={:?}) forecasting from the window {}: forecast {} = {:e}, intercept + recursion on (window − intercept) = {:e} (difference {:e}, allowance {:e})",
                c.p, show(&c.x), fit.intercept, fit.phi, show(&hist), j + 1, fw[j], want, diff, tol
            );
            if j == 0 {
                let d1 = (p1w - want).abs();
                ensure!(d1 <= tol, format!("{}/other-history", sig), "predict_one(window) = {:e}, expected {:e} (difference {:e}, allowance {:e})", p1w, want, d1, tol);
            }
        }
    }
    Ok(())
}

fn check_predict_rec(ctx: &mut Ctx, c: &TCase) -> R {
    check_predict(ctx, c, false)
}
fn check_predict_one(ctx: &mut Ctx, c: &TCase) -> R {
    check_predict(ctx, c, true)
}

fn check_shift(ctx: &mut Ctx, c: &TCase) -> R {
    if !valid(c) {
        return Ok(());
    }
    let s = ser(&c.x);
    let sub = "AR/shift";
    let sclass = match c.s.abs() {
        v if v < 1.0 => "|s|<1",
        v if v < 1e3 => "|s|<1e3",
        _ => "|s|<=1e6",
    };
    begin(ctx, sub, c, &format!("{}/{}", kind_name(c.kind), sclass), c.s != 0.0);
    ctx.label(sub, &format!("p={}", c.p));
    let y = match yw_or_skip(ctx, sub, &s, c.p) {
        Some(y) => y,
        None => return Ok(()),
    };
    let xs: Vec<f64> = c.x.iter().map(|v| v + c.s).collect();
    let s2 = ser(&xs);
    let (p, h) = (c.p, c.h);
    let (co0, ic0, f0, _) = match lib_predict(&c.x, p, h) {
        Ok(v) => v,
        Err(m) => return fail("C13/AR/shift/panic", format!("AR({}) fit/predict({}) panicked on x={}: {}", p, h, show(&c.x), m)),
    };
    let (co1, ic1, f1, _) = match lib_predict(&xs, p, h) {
        Ok(v) => v,
        Err(m) => return fail("C13/AR/shift/panic", format!("AR({}) fit/predict({}) panicked on x+{:e}, x={}: {}", p, h, c.s, show(&c.x), m)),
    };
    let a = to_fit("C13/AR/shift", co0, ic0, p)?;
    let b = to_fit("C13/AR/shift", co1, ic1, p)?;
    ensure!(f0.len() == h && f1.len() == h, "C13/AR/shift/length", "predict(x, {}) returned {} / {} forecasts", h, f0.len(), f1.len());
    let rel = 256.0 * EPS * (1.0 + (c.s.abs() + s.mean.f().abs()) / y.sd) * y.kappa;
    let phi_inf = a.phi.iter().fold(0.0f64, |m, v| m.max(v.abs()));
    let phi_1: f64 = a.phi.iter().map(|v| v.abs()).sum();
    let tol_c = rel * (1.0 + phi_inf);
    for i in 0..p {
        let d = (a.phi[i] - b.phi[i]).abs();
        ctx.worst("shift: coefficient change/tol", ratio(d, tol_c));
        ensure!(d <= tol_c, "C13/AR/shift/coeffs", "AR({}) coefficient φ_{} changes from {:e} to {:e} when {:e} is added to x={} (allowance {:e}, cond {:.2e})", p, i + 1, a.phi[i], b.phi[i], c.s, show(&c.x), tol_c, y.kappa);
    }
    let tol_i = s.dmean + s2.dmean + EPS * (s.mean.f() + c.s).abs();
    let di = (b.intercept - a.intercept - c.s).abs();
    ctx.worst("shift: intercept change/tol", ratio(di, tol_i));
    ensure!(di <= tol_i, "C13/AR/shift/intercept", "AR({}) intercept moves from {:e} to {:e} when {:e} is added to x={} (allowance {:e})", p, a.intercept, b.intercept, c.s, show(&c.x), tol_i);
    let mut dev = s.dx[s.n - p..].iter().fold(0.0f64, |m, v| m.max(v.f().abs()));
    for v in &f0 {
        dev = dev.max((v - s.mean.f()).abs());
    }
    if !dev.is_finite() {
        ctx.label(sub, "skipped/forecast overflow");
        return Ok(());
    }
    let g = growth(&a.phi, h);
    let per = 4.0 * p as f64 * rel * (1.0 + phi_inf) * dev + 4.0 * (s.dmean + s2.dmean) * (1.0 + phi_1) + 64.0 * EPS * (p as f64 + 2.0) * (1.0 + phi_1) * (dev + s.mean.f().abs() + c.s.abs());
    for j in 0..h {
        let tol = g[j] * per;
        if !tol.is_finite() {
            break;
        }
        let d = (f1[j] - f0[j] - c.s).abs();
        ctx.worst("shift: forecast change/tol", ratio(d, tol));
        ensure!(
            d <= tol,
            "C13/AR/shift/forecast",
            "AR({}) on x={}: adding {:e} to the series moves forecast {} of {} from {:e} to {:e}, i.e. by {:e} (allowance {:e}, φ={:?})",
            p, show(&c.x), c.s, j + 1, h, f0[j], f1[j], f1[j] - f0[j], tol, a.phi
        );
    }
    Ok(())
}

fn check_converge(ctx: &mut Ctx, c: &TCase) -> R {
    if !valid(c) {
        return Ok(());
    }
    let s = ser(&c.x);
    let sub = "AR/converges-to-mean";
    begin(ctx, sub, c, &format!("{}/p={}", kind_name(c.kind), c.p), mean_visible(&s));
    let y = match yw_or_skip(ctx, sub, &s, c.p) {
        Some(y) => y,
        None => return Ok(()),
    };
    let h = 1000;
    let (coeffs, ic, f, _) = match lib_predict(&c.x, c.p, h) {
        Ok(v) => v,
        Err(m) => return fail("C13/AR/converges-to-mean/panic", format!("AR({}) fit/predict({}) panicked on x={}: {}", c.p, h, show(&c.x), m)),
    };
    let fit = to_fit("C13/AR/converges-to-mean", coeffs, ic, c.p)?;
    if !roots_within(&fit.phi, 0.98) {
        ctx.label(sub, "skipped/root modulus >= 0.98");
        return Ok(());
    }
    let rho = max_root_modulus(&fit.phi);
    ctx.label(sub, &format!("root modulus < {:.1}", (rho * 10.0).floor() / 10.0 + 0.1));
    ensure!(f.len() == h, "C13/AR/converges-to-mean/length", "predict(x, {}) returned {} forecasts", h, f.len());
    let cdev: Vec<DD> = s.dx[s.n - c.p..].to_vec();
    let d = recursion(&fit.phi, &cdev, h);
    let odev = d[h - 1].f().abs();
    if !odev.is_finite() {
        ctx.label(sub, "skipped/oracle overflow");
        return Ok(());
    }
    let tol = 1e-6 * y.sd + 2.0 * odev + 2.0 * s.dmean;
    let diff = (f[h - 1] - s.mean.f()).abs();
    ctx.worst("|f_1000 - mean|/tol", ratio(diff, tol));
    ensure!(
        diff <= tol,
        "C13/AR/converges-to-mean",
        "AR({}) fitted to x={}: all roots inside 0.98 (largest modulus {:.4}) but forecast 1000 = {:e} is {:e} away from the series mean {:e} (sd {:e}, allowance {:e})",
        c.p, show(&c.x), rho, f[h - 1], diff, s.mean.f(), y.sd, tol
    );
    Ok(())
}

// ------------------------------------------------------------------------------------------------
// generator

fn unit(u: u32) -> f64 {
    u as f64 / 4294967296.0
}

fn sgn(p: u32, bit: u32) -> f64 {
    if (p >> bit) & 1 == 1 {
        -1.0
    } else {
        1.0
    }
}

#[allow(clippy::too_many_arguments)]
fn simulate(kind: u8, pt: usize, pacf: &[f64; 6], par: &[u32; 4], k: i32, p: usize, h: usize, e: &[f64]) -> TCase {
    let phi = levinson(&pacf[..pt.clamp(1, 6)]);
    let sq3 = 3f64.sqrt();
    let mut z: Vec<f64> = Vec::with_capacity(e.len());
    for t in 0..e.len() {
        let mut v = sq3 * e[t];
        for (i, f) in phi.iter().enumerate() {
            if t > i {
                v += f * z[t - 1 - i];
            }
        }
        z.push(v);
    }
    let start = if e.len() > BURN + 9 { BURN } else { 0 };
    let z = &z[start..];
    let e = &e[start..];
    let (u0, u1, u2) = (unit(par[0]), unit(par[1]), unit(par[2]));
    let mut s = sgn(par[3], 0) * 10f64.powf(8.0 * u2 - 2.0);
    let x: Vec<f64> = match kind {
        0 => {
            let m = (2.0 * u0 - 1.0) * 3.0;
            z.iter().map(|v| v + m).collect()
        }
        1 => {
            let m = sgn(par[3], 1) * 10f64.powf(6.0 * u0);
            z.iter().map(|v| v + m).collect()
        }
        2 => {
            let a = (2.0 * u0 - 1.0) * 10.0;
            let b = sgn(par[3], 1) * 10f64.powf(3.0 * u1 - 3.0);
            z.iter().enumerate().map(|(t, v)| a + b * t as f64 + v).collect()
        }
        3 => {
            let m = sgn(par[3], 1) * 10f64.powf(6.0 * u0);
            let sd = 10f64.powf(2.0 * u1 - 1.0);
            e.iter().map(|v| m + sd * sq3 * v).collect()
        }
        _ => {
            let m = (sgn(par[3], 1) * 10f64.powf(4.0 * u0)).round();
            let sc = 10f64.powf(1.0 + u1);
            s = s.round();
            if s == 0.0 {
                s = 1.0;
            }
            z.iter().map(|v| m + (v * sc).round()).collect()
        }
    };
    TCase { kind, x, k, p, h, s }
}

fn tcase_strat(maxn: usize) -> impl Strategy<Value = TCase> {
    let nsz = prop_oneof![5 => 10usize..=100, 3 => 101usize..=1000, 1 => 1001usize..=maxn];
    let hs = prop_oneof![3 => 1usize..=10, 2 => 11usize..=100, 1 => 101usize..=1000];
    (0u8..5, nsz, 1usize..=6, proptest::array::uniform6(-0.95f64..0.95), proptest::array::uniform4(any::<u32>()), -50i32..=50, 1usize..=8, hs)
        .prop_flat_map(|(kind, n, pt, pacf, par, k, p, h)| (Just((kind, pt, pacf, par, k, p, h)), vec(-1.0f64..1.0, n + BURN)))
        .prop_map(|((kind, pt, pacf, par, k, p, h), e)| simulate(kind, pt, &pacf, &par, k, p, h, &e))
}

// ------------------------------------------------------------------------------------------------

type Chk = fn(&mut Ctx, &TCase) -> R;

const SUBS: [(&str, Chk); 11] = [
    ("acovf", check_acovf),
    ("acf", check_acf),
    ("acf/even", check_even),
    ("acf/bounds", check_bounds),
    ("difference-cumsum", check_diff),
    ("AR/yule-walker", check_yw),
    ("AR/intercept", check_intercept),
    ("AR/predict/recursion", check_predict_rec),
    ("AR/predict_one", check_predict_one),
    ("AR/shift", check_shift),
    ("AR/converges-to-mean", check_converge),
];

pub fn run(ctx: &mut Ctx) {
    ctx.rule = "series of length 10..=5000 simulated by the harness from proptest innovations: stationary AR(1..6) from random partial autocorrelations in (-0.95,0.95) \
with small mean, with offset up to 1e6, with linear trend, constant plus white noise (offset up to 1e6), small-integer series; lag in -50..=50, order 1..=8, horizon 1..=1000, \
shift 0.01..1e6 of either sign; one proptest run per sub-check. Non-trivial: |mean| > 0.1 sd (mean handling visible) or lag != 0; distinct by hash of (series, lag, order, horizon, shift)"
        .into();
    ctx.assumptions = vec![
        "the series is not constant (acovf(0) > 0); constant series are counted as skipped".into(),
        "Yule–Walker systems with condition number above 1e10 (near-deterministic trends) are outside the decidable domain and counted as skipped".into(),
        "forecast references use the library's own fitted coefficients; the fit itself is judged by the Yule–Walker residual and the intercept".into(),
        "forecast convergence is demanded only when every root of the fitted characteristic polynomial has modulus below 0.98".into(),
    ];
    // canonical small examples (deterministic, minimal)
    let ramp = TCase { kind: 4, x: (0..12).map(|i| 100.0 + ((i * 7) % 5) as f64).collect(), k: 2, p: 2, h: 5, s: 1000.0 };
    for (sub, f) in SUBS {
        ctx.check_one(sub, &ramp, f);
    }
    ctx.note("canonical-case", json!("one 12-point integer series (mean 101.8, order 2, horizon 5, shift 1000) is run through every sub-check before the random part"));
    let maxn = 5000usize;
    let threads = 16;
    for (sub, f) in SUBS {
        let n = match sub {
            "acovf" | "acf" | "acf/even" | "acf/bounds" | "difference-cumsum" => ctx.scale(15_000, 150_000),
            "AR/shift" | "AR/predict/recursion" => ctx.scale(20_000, 200_000),
            _ => ctx.scale(12_000, 150_000),
        };
        ctx.run_prop_par(sub, n, threads, move || tcase_strat(maxn), f);
    }
}

pub fn replay(ctx: &mut Ctx, sub: &str, v: Value) -> Option<R> {
    for (name, f) in SUBS {
        if name == sub {
            return Some(f(ctx, &decode::<TCase>(v)?));
        }
    }
    None
}
