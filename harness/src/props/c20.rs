//! C20 — Covariance kernels are valid positive-definite kernels, scalar and matrix form.
//!
//! Kernels: RBF(σ², ℓ) = σ²·exp(−d²/2ℓ²) and RationalQuadratic(σ², α, ℓ) = σ²·(1+d²/2αℓ²)^(−α).
//! Sub-checks (one proptest driver each, so that a defect in one clause does not hide the others):
//!   <K>/scalar/symmetry, /variance-at-zero, /bounded, /monotone, /closed-form   (ScalarCase)
//!   <K>/matrix  — rectangular form on two point sets: shape, entry = scalar form   (SetCase)
//!   <K>/gram    — forward(x, x): shape, symmetric, positive semi-definite          (SetCase, gram = true)
//!   <K>/ctor    — constructors reject non-positive parameters                      (CtorCase, enumerated)
//! Tolerances (ε = 2^-52):
//!   closed form: relative 16ε(1+t) for RBF with t = d²/2ℓ² (the exponent is rounded ~5 times, each
//!     rounding moves exp(−t) by t·ε/2), relative 16ε(1+α) for RQ (the base 1+q is rounded ~7 times, the
//!     power amplifies by α); below 1e-300 only "0 <= k <= 2e-300" is demanded (underflow is no alarm).
//!   matrix entry vs scalar form: the matrix form expands d² as x²+y²−2xy, absolute error <= 2.5ε(x²+y²),
//!     so the exponent moves by at most 2.5ε(x²+y²)/2ℓ²; bound τ_ij = expm1(δ_ij) + (8+16α)ε with
//!     δ_ij = 64ε(x_i²+y_j²)/2ℓ² (α = 0 for RBF); point sets with max δ > 1e-3 are only checked for
//!     shape and finiteness.
//!   PSD: K = K_true + E with |E_ij| <= τ_max σ², hence λ_min(K) >= −n τ_max σ²; plus 64nεσ² for the
//!     Jacobi iteration's own rounding.

use crate::engine::{catch, decode, fail, fx, Ctx, Hx, R};
use crate::oracle::dd::DD;
use compute::linalg::{Matrix, Vector};
use compute::predict::{Kernel, RBFKernel, RQKernel};
use proptest::prelude::*;
use serde::{Deserialize, Serialize};
use serde_json::{json, Value};

const EPS: f64 = f64::EPSILON;
const TINY: f64 = 1e-300;
pub const KN: [&str; 2] = ["RBF", "RQ"];

// ------------------------------------------------------------------------------------------------
// library access

enum Kern {
    Rbf(RBFKernel),
    Rq(RQKernel),
}

fn make(kernel: u8, var: f64, alpha: f64, ls: f64) -> Result<Kern, String> {
    catch(|| if kernel == 0 { Kern::Rbf(RBFKernel::new(var, ls)) } else { Kern::Rq(RQKernel::new(var, alpha, ls)) })
}

impl Kern {
    fn scalar(&self, x: f64, y: f64, by_ref: bool) -> f64 {
        match (self, by_ref) {
            (Kern::Rbf(k), false) => <RBFKernel as Kernel<f64, f64>>::forward(k, x, y),
            (Kern::Rbf(k), true) => <RBFKernel as Kernel<&f64, f64>>::forward(k, &x, &y),
            (Kern::Rq(k), false) => <RQKernel as Kernel<f64, f64>>::forward(k, x, y),
            (Kern::Rq(k), true) => <RQKernel as Kernel<&f64, f64>>::forward(k, &x, &y),
        }
    }
    /// form: 0 Vector, 1 &Vector, 2 Matrix, 3 &Matrix (a Matrix of any shape is flattened row-major)
    fn matrix(&self, xs: &[f64], ys: &[f64], form: u8, xcols: usize, ycols: usize) -> Matrix {
        macro_rules! go {
            ($k:expr, $kt:ty) => {
                match form {
                    0 => <$kt as Kernel<Vector, Matrix>>::forward($k, Vector::new(xs.to_vec()), Vector::new(ys.to_vec())),
                    1 => {
                        let (a, b) = (Vector::new(xs.to_vec()), Vector::new(ys.to_vec()));
                        <$kt as Kernel<&Vector, Matrix>>::forward($k, &a, &b)
                    }
                    2 => <$kt as Kernel<Matrix, Matrix>>::forward(
                        $k,
                        Matrix::new(xs.to_vec(), (xs.len() / xcols) as i32, xcols as i32),
                        Matrix::new(ys.to_vec(), (ys.len() / ycols) as i32, ycols as i32),
                    ),
                    _ => {
                        let a = Matrix::new(xs.to_vec(), (xs.len() / xcols) as i32, xcols as i32);
                        let b = Matrix::new(ys.to_vec(), (ys.len() / ycols) as i32, ycols as i32);
                        <$kt as Kernel<&Matrix, Matrix>>::forward($k, &a, &b)
                    }
                }
            };
        }
        match self {
            Kern::Rbf(k) => go!(k, RBFKernel),
            Kern::Rq(k) => go!(k, RQKernel),
        }
    }
}

const FORMS: [&str; 4] = ["Vector", "&Vector", "Matrix", "&Matrix"];

// ------------------------------------------------------------------------------------------------
// oracle pieces

/// closed form in double-double; returns (value, t = d²/2ℓ²)
fn closed_form(kernel: u8, var: f64, alpha: f64, ls: f64, x: f64, y: f64) -> (f64, f64) {
    let d = DD::from_sum(x, -y);
    let t = d * d / (DD::from_prod(ls, ls) * 2.0);
    let v = if kernel == 0 {
        (-t).exp() * var
    } else {
        // (1 + t/α)^(−α) = exp(−α ln(1 + t/α))
        let b = DD::ONE + t / alpha;
        (-(b.ln() * alpha)).exp() * var
    };
    (v.f(), t.f())
}

fn closed_tol(kernel: u8, alpha: f64, t: f64) -> f64 {
    if kernel == 0 {
        16.0 * EPS * (1.0 + t)
    } else {
        16.0 * EPS * (1.0 + alpha)
    }
}

fn params_ok(kernel: u8, var: f64, alpha: f64, ls: f64) -> bool {
    let ok = |v: f64| v > 1e-2 && v < 1e2;
    kernel <= 1 && ok(var) && ok(ls) && (kernel == 0 || ok(alpha))
}

/// Eigenvalues of a symmetric matrix (row-major n×n, only the symmetric part is used) by cyclic Jacobi.
pub fn jacobi_eigenvalues(a_in: &[f64], n: usize) -> Vec<f64> {
    let mut a = vec![0.0f64; n * n];
    for i in 0..n {
        for j in 0..n {
            a[i * n + j] = 0.5 * (a_in[i * n + j] + a_in[j * n + i]);
        }
    }
    let fro2: f64 = a.iter().map(|v| v * v).sum();
    for _sweep in 0..60 {
        let mut off = 0.0;
        for p in 0..n {
            for q in p + 1..n {
                off += a[p * n + q] * a[p * n + q];
            }
        }
        if off <= 1e-40 * fro2 || off == 0.0 {
            break;
        }
        for p in 0..n {
            for q in p + 1..n {
                let apq = a[p * n + q];
                if apq == 0.0 {
                    continue;
                }
                let (app, aqq) = (a[p * n + p], a[q * n + q]);
                if apq.abs() < 1e-40 * (app.abs() + aqq.abs()) {
                    a[p * n + q] = 0.0;
                    a[q * n + p] = 0.0;
                    continue;
                }
                let theta = (aqq - app) / (2.0 * apq);
                let t = theta.signum() / (theta.abs() + (theta * theta + 1.0).sqrt());
                let t = if theta == 0.0 { 1.0 } else { t };
                let c = 1.0 / (t * t + 1.0).sqrt();
                let s = t * c;
                a[p * n + p] = app - t * apq;
                a[q * n + q] = aqq + t * apq;
                a[p * n + q] = 0.0;
                a[q * n + p] = 0.0;
                for k in 0..n {
                    if k != p && k != q {
                        let (akp, akq) = (a[k * n + p], a[k * n + q]);
                        let np = c * akp - s * akq;
                        let nq = s * akp + c * akq;
                        a[k * n + p] = np;
                        a[p * n + k] = np;
                        a[k * n + q] = nq;
                        a[q * n + k] = nq;
                    }
                }
            }
        }
    }
    let mut ev: Vec<f64> = (0..n).map(|i| a[i * n + i]).collect();
    ev.sort_by(|x, y| x.partial_cmp(y).unwrap_or(std::cmp::Ordering::Equal));
    ev
}

/// Self-test of the eigenvalue oracle (second-difference matrix, an indefinite 2×2, a rank-one matrix).
pub fn self_test() -> bool {
    let n = 12;
    let mut a = vec![0.0; n * n];
    for i in 0..n {
        a[i * n + i] = 2.0;
        if i + 1 < n {
            a[i * n + i + 1] = -1.0;
            a[(i + 1) * n + i] = -1.0;
        }
    }
    let ev = jacobi_eigenvalues(&a, n);
    for (k, e) in ev.iter().enumerate() {
        let want = 2.0 - 2.0 * ((k + 1) as f64 * std::f64::consts::PI / (n as f64 + 1.0)).cos();
        if (e - want).abs() > 1e-13 {
            return false;
        }
    }
    let ev = jacobi_eigenvalues(&[1.0, 2.0, 2.0, 1.0], 2);
    if (ev[0] + 1.0).abs() > 1e-14 || (ev[1] - 3.0).abs() > 1e-14 {
        return false;
    }
    let n = 40;
    let v: Vec<f64> = (0..n).map(|i| 1.0 + (i as f64 * 0.37).sin()).collect();
    let mut a = vec![0.0; n * n];
    for i in 0..n {
        for j in 0..n {
            a[i * n + j] = v[i] * v[j];
        }
    }
    let ev = jacobi_eigenvalues(&a, n);
    let tr: f64 = v.iter().map(|x| x * x).sum();
    if (ev[n - 1] - tr).abs() > 1e-12 * tr || ev[0].abs() > 1e-13 * tr || ev[n - 2].abs() > 1e-13 * tr {
        return false;
    }
    true
}

// ------------------------------------------------------------------------------------------------
// scalar form

#[derive(Clone, Debug, Serialize, Deserialize)]
pub struct ScalarCase {
    /// 0 = RBF, 1 = rational quadratic
    pub kernel: u8,
    pub var: f64,
    pub alpha: f64,
    pub ls: f64,
    pub x: f64,
    pub y: f64,
    pub z: f64,
    pub by_ref: bool,
    /// 0 symmetry, 1 variance-at-zero, 2 bounded, 3 monotone, 4 closed-form
    pub clause: u8,
}

pub const CLAUSES: [&str; 5] = ["symmetry", "variance-at-zero", "bounded", "monotone", "closed-form"];

fn dist_class(d_over_l: f64) -> &'static str {
    if d_over_l == 0.0 {
        "d=0"
    } else if d_over_l < 0.1 {
        "d<0.1l"
    } else if d_over_l <= 10.0 {
        "0.1l<=d<=10l"
    } else if d_over_l <= 37.0 {
        "10l<d<=37l"
    } else {
        "d>37l"
    }
}

pub fn check_scalar(ctx: &mut Ctx, c: &ScalarCase) -> R {
    let ok = |v: f64| v.is_finite() && v.abs() <= 1e3;
    if !params_ok(c.kernel, c.var, c.alpha, c.ls) || !ok(c.x) || !ok(c.y) || !ok(c.z) || c.clause > 4 {
        return Ok(()); // outside the quantifier (decoded replay files only)
    }
    let kn = KN[c.kernel as usize];
    let sub = format!("{}/scalar/{}", kn, CLAUSES[c.clause as usize]);
    let sig = format!("C20/{}/scalar/{}", kn, CLAUSES[c.clause as usize]);
    let dl = (c.x - c.y).abs() / c.ls;
    let nontrivial = dl > 0.1 && dl < 10.0;
    ctx.case(&sub, &format!("{}/{}", dist_class(dl), if c.by_ref { "&f64" } else { "f64" }), nontrivial, Hx::new().json(c).finish());
    ctx.sample(&sub, || json!(c));
    let k = match make(c.kernel, c.var, c.alpha, c.ls) {
        Ok(k) => k,
        Err(m) => return fail(format!("C20/{}/ctor/valid-rejected", kn), format!("{}::new(var={:e}, alpha={:e}, l={:e}) panicked: {}", kn, c.var, c.alpha, c.ls, m)),
    };
    let desc = if c.kernel == 0 { format!("RBF(var={:e}, l={:e})", c.var, c.ls) } else { format!("RQ(var={:e}, alpha={:e}, l={:e})", c.var, c.alpha, c.ls) };
    let (x, y, z, r) = (c.x, c.y, c.z, c.by_ref);
    let ev = |a: f64, b: f64| -> Result<f64, crate::engine::Fail> {
        match catch(|| k.scalar(a, b, r)) {
            Ok(v) => Ok(v),
            Err(m) => fail(format!("C20/{}/scalar/panic", kn), format!("{}.forward({:e}, {:e}) panicked: {}", desc, a, b, m)),
        }
    };
    match c.clause {
        0 => {
            let (a, b) = (ev(x, y)?, ev(y, x)?);
            ensure!(a == b, sig, "{}: k({:e}, {:e}) = {:e} but k({:e}, {:e}) = {:e}", desc, x, y, a, y, x, b);
        }
        1 => {
            let a = ev(x, x)?;
            let tol = 2.0 * EPS * c.var;
            ctx.worst("scalar: |k(x,x)-var| / (2 eps var)", (a - c.var).abs() / tol);
            ensure!((a - c.var).abs() <= tol, sig, "{}: k({:e}, {:e}) = {:e}, expected the output variance {:e}", desc, x, x, a, c.var);
        }
        2 => {
            let a = ev(x, y)?;
            let (want, _) = closed_form(c.kernel, c.var, c.alpha, c.ls, x, y);
            let hi = c.var * (1.0 + 4.0 * EPS);
            ensure!(
                a >= 0.0 && a <= hi,
                sig,
                "{}: k({:e}, {:e}) = {:e} is outside [0, var = {:e}] (distance {:e}, closed form {:e})",
                desc, x, y, a, c.var, (x - y).abs(), want
            );
            ensure!(!(want > TINY) || a > 0.0, sig, "{}: k({:e}, {:e}) = {:e} is not positive although the closed form is {:e}", desc, x, y, a, want);
        }
        3 => {
            // order the two partners by exact distance from x
            let (dy, dz) = (DD::from_sum(x, -y).abs(), DD::from_sum(x, -z).abs());
            let (near, far) = if dz.lt(dy) { (z, y) } else { (y, z) };
            let (kn_, kf) = (ev(x, near)?, ev(x, far)?);
            let bound = kf * (1.0 - 4.0 * EPS) - TINY;
            ensure!(
                kn_ >= bound,
                sig,
                "{}: |{:e} - {:e}| <= |{:e} - {:e}| but k(x, nearer) = {:e} < k(x, farther) = {:e}: the kernel increases with distance",
                desc, x, near, x, far, kn_, kf
            );
        }
        _ => {
            let a = ev(x, y)?;
            let (want, t) = closed_form(c.kernel, c.var, c.alpha, c.ls, x, y);
            if want < TINY {
                ensure!(a >= 0.0 && a <= 2.0 * TINY, sig, "{}: k({:e}, {:e}) = {:e}, closed form {:e} (underflow range)", desc, x, y, a, want);
            } else {
                let tol = closed_tol(c.kernel, c.alpha, t);
                let rel = ((a - want) / want).abs();
                ctx.worst(&format!("scalar {}: rel. error vs closed form / tol", kn), rel / tol);
                ensure!(
                    rel <= tol,
                    sig,
                    "{}: k({:e}, {:e}) = {:e}, closed form {:e} (relative error {:e} > {:e}; d^2/2l^2 = {:e})",
                    desc, x, y, a, want, rel, tol, t
                );
            }
        }
    }
    Ok(())
}

fn log_param() -> impl Strategy<Value = f64> {
    // log-uniform in (1e-2, 1e2); shrinks toward 1
    (-1.999f64..1.999).prop_map(|e| 10f64.powf(e))
}

fn scalar_strat(kernel: u8, clause: u8) -> impl Strategy<Value = ScalarCase> {
    const DIST: [f64; 12] = [0.0, 1.0, 0.1, 3.0, 10.0, 1e-8, 30.0, 36.0, 38.5, 45.0, 1e-3, 300.0];
    (log_param(), log_param(), log_param(), -1000.0f64..1000.0, (0usize..14, 0.0f64..1.0), (0usize..14, 0.0f64..1.0), any::<bool>()).prop_map(
        move |(var, alpha, ls, x, (iy, uy), (iz, uz), by_ref)| {
            // partner at a distance measured in length scales (or anywhere in ±1e3 for the last two indices)
            let partner = |i: usize, u: f64| -> f64 {
                if i >= 12 {
                    return -1000.0 + 2000.0 * u;
                }
                let d = DIST[i] * (1.0 + u) * ls;
                let p = if i % 2 == 0 { x + d } else { x - d };
                if p.abs() <= 1000.0 {
                    p
                } else if (x - d).abs() <= 1000.0 {
                    x - d
                } else if (x + d).abs() <= 1000.0 {
                    x + d
                } else {
                    -x
                }
            };
            ScalarCase { kernel, var, alpha: if kernel == 0 { 1.0 } else { alpha }, ls, x, y: partner(iy, uy), z: partner(iz, uz), by_ref, clause }
        },
    )
}

// ------------------------------------------------------------------------------------------------
// matrix form and Gram matrices

#[derive(Clone, Debug, Serialize, Deserialize)]
pub struct SetCase {
    pub kernel: u8,
    pub var: f64,
    pub alpha: f64,
    pub ls: f64,
    pub xs: Vec<f64>,
    /// ignored when `gram`
    pub ys: Vec<f64>,
    /// 0 Vector, 1 &Vector, 2 Matrix, 3 &Matrix
    pub form: u8,
    /// column count of the Matrix holding xs / ys (must divide the length; Matrix forms only)
    pub xcols: usize,
    pub ycols: usize,
    pub gram: bool,
}

fn set_nontrivial(xs: &[f64], ys: &[f64], ls: f64) -> bool {
    let mut d: Vec<u64> = xs.iter().chain(ys.iter()).map(|v| v.to_bits()).collect();
    d.sort();
    d.dedup();
    if d.len() < 3 {
        return false;
    }
    xs.iter().any(|a| ys.iter().any(|b| (a - b).abs() > 0.1 * ls && (a - b).abs() < 10.0 * ls))
}

/// Histogram labels derived from the point sets.
fn set_labels(ctx: &mut Ctx, sub: &str, xs: &[f64], ys: &[f64], ls: f64) {
    let mut all: Vec<f64> = xs.iter().chain(ys.iter()).cloned().collect();
    all.sort_by(|a, b| a.partial_cmp(b).unwrap());
    let mut dup = false;
    let mut mingap = f64::INFINITY;
    for w in all.windows(2) {
        if w[0] == w[1] {
            dup = true;
        } else {
            mingap = mingap.min(w[1] - w[0]);
        }
    }
    let span = all[all.len() - 1] - all[0];
    let amax = all.iter().fold(0.0f64, |s, v| s.max(v.abs()));
    if dup && !std::ptr::eq(xs.as_ptr(), ys.as_ptr()) || (std::ptr::eq(xs.as_ptr(), ys.as_ptr()) && {
        let mut d: Vec<u64> = xs.iter().map(|v| v.to_bits()).collect();
        d.sort();
        d.windows(2).any(|w| w[0] == w[1])
    }) {
        ctx.label(sub, "points/exact-duplicates");
    }
    if mingap < 1e-2 * ls {
        ctx.label(sub, "points/clustered(gap<0.01l)");
    }
    if amax > 100.0 * ls && span < 0.5 * amax {
        ctx.label(sub, "points/large-offset(|x|>100l)");
    }
    if span > 38.6 * ls {
        ctx.label(sub, "points/span>38.6l(RBF-underflow)");
    } else if span > 10.0 * ls {
        ctx.label(sub, "points/span>10l");
    } else {
        ctx.label(sub, "points/span<=10l");
    }
}

pub fn check_set(ctx: &mut Ctx, c: &SetCase) -> R {
    let ys: &[f64] = if c.gram { &c.xs } else { &c.ys };
    let xs: &[f64] = &c.xs;
    let (nx, ny) = (xs.len(), ys.len());
    let ok = |v: &f64| v.is_finite() && v.abs() <= 1e3;
    if !params_ok(c.kernel, c.var, c.alpha, c.ls) || nx == 0 || ny == 0 || nx > 60 || ny > 60 || !xs.iter().all(ok) || !ys.iter().all(ok) || c.form > 3 {
        return Ok(());
    }
    let (xcols, ycols) = if c.gram { (c.xcols, c.xcols) } else { (c.xcols, c.ycols) };
    if c.form >= 2 && (xcols == 0 || ycols == 0 || nx % xcols != 0 || ny % ycols != 0) {
        return Ok(());
    }
    let kn = KN[c.kernel as usize];
    let sub = format!("{}/{}", kn, if c.gram { "gram" } else { "matrix" });
    let shape_class = match (nx, ny) {
        (1, 1) => "1x1",
        (1, _) => "1xm",
        (_, 1) => "nx1",
        _ if nx == ny => "nxn",
        _ => "nxm",
    };
    ctx.case(&sub, &format!("{}/{}", FORMS[c.form as usize], shape_class), set_nontrivial(xs, ys, c.ls), Hx::new().json(c).finish());
    ctx.sample(&sub, || json!(c));
    set_labels(ctx, &sub, xs, ys, c.ls);
    let desc = if c.kernel == 0 { format!("RBF(var={:e}, l={:e})", c.var, c.ls) } else { format!("RQ(var={:e}, alpha={:e}, l={:e})", c.var, c.alpha, c.ls) };
    let k = match make(c.kernel, c.var, c.alpha, c.ls) {
        Ok(k) => k,
        Err(m) => return fail(format!("C20/{}/ctor/valid-rejected", kn), format!("{}::new panicked on valid parameters: {}", desc, m)),
    };
    let m = match catch(|| k.matrix(xs, ys, c.form, xcols, ycols)) {
        Ok(m) => m,
        Err(msg) => {
            return fail(
                format!("C20/{}/matrix/panic", kn),
                format!("{}.forward on {} and {} points passed as {} panicked: {}", desc, nx, ny, FORMS[c.form as usize], msg),
            )
        }
    };
    ensure!(
        m.nrows == nx && m.ncols == ny && m.data.len() == nx * ny,
        format!("C20/{}/matrix/shape", kn),
        "{}.forward on {} first-argument and {} second-argument points ({}): result is {}x{} with {} elements, expected {}x{}",
        desc, nx, ny, FORMS[c.form as usize], m.nrows, m.ncols, m.data.len(), nx, ny
    );
    let g: Vec<f64> = m.data.data().to_vec();
    let two_l2 = 2.0 * c.ls * c.ls;
    let a = if c.kernel == 0 { 0.0 } else { c.alpha };
    let delta = |xi: f64, yj: f64| 64.0 * EPS * (xi * xi + yj * yj) / two_l2;
    let tau = |xi: f64, yj: f64| delta(xi, yj).exp_m1() + (8.0 + 16.0 * a) * EPS;
    let xmax = xs.iter().fold(0.0f64, |s, v| s.max(v.abs()));
    let ymax = ys.iter().fold(0.0f64, |s, v| s.max(v.abs()));
    let dmax = delta(xmax, ymax);
    ctx.worst("matrix: max delta_ij / 1e-3 (ill-conditioned above 1)", dmax / 1e-3);
    if dmax > 1e-3 {
        ctx.label(&sub, "ill-conditioned(delta>1e-3): shape and finiteness only");
        for (i, v) in g.iter().enumerate() {
            ensure!(v.is_finite(), format!("C20/{}/matrix/entry", kn), "{}: entry ({},{}) = {:e} is not finite", desc, i / ny, i % ny, v);
        }
        return Ok(());
    }
    if !c.gram {
        // entry by entry against the library's scalar form
        for i in 0..nx {
            for j in 0..ny {
                let s = match catch(|| k.scalar(xs[i], ys[j], false)) {
                    Ok(v) => v,
                    Err(msg) => return fail(format!("C20/{}/scalar/panic", kn), format!("{}.forward({:e}, {:e}) panicked: {}", desc, xs[i], ys[j], msg)),
                };
                let got = g[i * ny + j];
                if got == s {
                    continue; // equal as values (this includes a scalar form that is itself out of range, which the scalar clauses report)
                }
                let tol = tau(xs[i], ys[j]) * s.abs().max(got.abs()) + TINY;
                let diff = (got - s).abs();
                ctx.worst("matrix: |entry - scalar form| / tol", diff / tol);
                ensure!(
                    diff <= tol,
                    format!("C20/{}/matrix/entry", kn),
                    "{}: matrix form ({}, {} x {} points) entry ({},{}) = {:e}{}, scalar form k({:e}, {:e}) = {:e} (|diff| {:e} > tol {:e})",
                    desc, FORMS[c.form as usize], nx, ny, i, j, got, if crate::engine::alloc::is_poison(got) { " (uninitialised slot)" } else { "" },
                    xs[i], ys[j], s, diff, tol
                );
            }
        }
        return Ok(());
    }
    // Gram matrix
    let n = nx;
    for i in 0..n {
        for j in 0..n {
            ensure!(
                g[i * n + j].is_finite(),
                format!("C20/{}/gram/psd", kn),
                "{}: Gram matrix of {} points ({}): entry ({},{}) for the points {:e}, {:e} is {:e}; a matrix with a non-finite entry is not positive semi-definite",
                desc, n, FORMS[c.form as usize], i, j, xs[i], xs[j], g[i * n + j]
            );
        }
    }
    for i in 0..n {
        for j in i + 1..n {
            let (p, q) = (g[i * n + j], g[j * n + i]);
            // k(x_i, x_j) and k(x_j, x_i) are the same expression in |x_i - x_j| (or in commuting sums and products), so
            // the two entries may differ by a few units in the last place at most — not by the rounding error of the
            // expansion, which grows with (x/l)^2: an asymmetry of that size already makes `is_symmetric` /
            // `cholesky` reject the matrix
            // (1 + |ln(K/var)|: one rounding of the exponent's argument moves exp by that many units in the last place)
            let kmax = p.abs().max(q.abs());
            let lg = if kmax > 0.0 && c.var > 0.0 { (kmax / c.var).ln().abs() } else { 0.0 };
            let tol = 4.0 * EPS * (1.0 + lg) * kmax + TINY;
            ctx.worst("gram: |K_ij - K_ji| / (4 eps (1 + |ln(K/var)|) max|K|)", (p - q).abs() / tol);
            ensure!(
                (p - q).abs() <= tol,
                format!("C20/{}/gram/symmetric", kn),
                "{}: Gram matrix of {} points ({}): K[{}][{}] = {:e} but K[{}][{}] = {:e}",
                desc, n, FORMS[c.form as usize], i, j, p, j, i, q
            );
        }
    }
    let tmax = tau(xmax, xmax);
    let bound = n as f64 * tmax * c.var + 64.0 * n as f64 * EPS * c.var;
    let ev = jacobi_eigenvalues(&g, n);
    let lmin = ev[0];
    if lmin < 0.0 {
        ctx.worst("gram: -lambda_min / bound", -lmin / bound);
    }
    ensure!(
        lmin >= -bound,
        format!("C20/{}/gram/psd", kn),
        "{}: Gram matrix of {} points {:?}{} ({}) has smallest eigenvalue {:e} < -{:e} (largest {:e}); K[0][0] = {:e}, largest entry {:e}",
        desc, n, &xs[..n.min(6)], if n > 6 { " …" } else { "" }, FORMS[c.form as usize], lmin, bound, ev[n - 1], g[0],
        g.iter().fold(0.0f64, |s, v| s.max(*v))
    );
    // cross-check by quadratic forms evaluated in double-double: 16 dense ±1 vectors, 16 differences e_i − e_j
    let seed = Hx::new().json(c).finish();
    for r in 0..32u64 {
        let mut v = vec![0.0f64; n];
        if r < 16 || n < 2 {
            for (i, e) in v.iter_mut().enumerate() {
                *e = if Hx::new().u(seed).u(r).u(i as u64).finish() & 1 == 0 { 1.0 } else { -1.0 };
            }
        } else {
            let i = (Hx::new().u(seed).u(r).u(1000).finish() % n as u64) as usize;
            let mut j = (Hx::new().u(seed).u(r).u(1001).finish() % (n as u64 - 1)) as usize;
            if j >= i {
                j += 1;
            }
            v[i] = 1.0;
            v[j] = -1.0;
        }
        let mut q = DD::ZERO;
        let mut vv = 0.0;
        for i in 0..n {
            if v[i] == 0.0 {
                continue;
            }
            vv += 1.0;
            for j in 0..n {
                if v[j] != 0.0 {
                    q = q + DD::new(0.5 * (g[i * n + j] + g[j * n + i]) * v[i] * v[j]);
                }
            }
        }
        let q = q.f();
        ensure!(
            q >= -bound * vv,
            format!("C20/{}/gram/psd", kn),
            "{}: Gram matrix of {} points ({}): quadratic form v'Kv = {:e} < -{:e} for a +-1 vector with {} non-zeros (Jacobi smallest eigenvalue {:e})",
            desc, n, FORMS[c.form as usize], q, bound * vv, vv, lmin
        );
    }
    Ok(())
}

fn points(cls: u8, n: usize, ls: f64, salt: u64) -> Vec<f64> {
    let u = |tag: u64, i: u64| (Hx::new().u(salt).u(tag).u(i).finish() >> 11) as f64 / (1u64 << 53) as f64;
    let clamp = |v: f64| v.max(-1000.0).min(1000.0);
    let width = [1.0, 10.0, 100.0][(salt % 3) as usize] * ls;
    (0..n)
        .map(|i| {
            let i64_ = i as u64;
            clamp(match cls {
                0 => i as f64,                                    // integers (readable shrunk cases)
                1 => (2.0 * u(1, i64_) - 1.0) * width,            // spread over a few length scales
                2 => {
                    // clusters with tiny jitter
                    let centre = (2.0 * u(2, i64_ % 4) - 1.0) * 5.0 * ls;
                    let jit = [1e-3, 1e-8][(salt >> 8) as usize % 2] * ls;
                    centre + (2.0 * u(3, i64_) - 1.0) * jit
                }
                3 => (2.0 * u(4, i64_ % 5) - 1.0) * 3.0 * ls,      // exact duplicates
                4 => {
                    // large offset
                    let base = [1000.0, -1000.0, 500.0, -37.0][(salt >> 4) as usize % 4];
                    base + (2.0 * u(5, i64_) - 1.0) * 3.0 * ls
                }
                5 => -0.5 * n as f64 * 0.25 * ls + 0.25 * ls * i as f64, // regular grid, spacing l/4
                6 => (2.0 * u(6, i64_) - 1.0) * 1000.0,           // whole domain
                _ => (2.0 * u(7, i64_) - 1.0) * 40.0 * ls,        // reaches the underflow range of RBF
            })
        })
        .collect()
}

fn divisor(n: usize, pick: usize) -> usize {
    let d: Vec<usize> = (1..=n).filter(|k| n % k == 0).collect();
    d[pick % d.len()]
}

fn set_strat(kernel: u8, gram: bool, maxn: usize) -> impl Strategy<Value = SetCase> {
    (
        (log_param(), log_param(), log_param()),
        (0u8..3, 1usize..=maxn, 0u8..8),
        (0u8..3, 1usize..=maxn, 0u8..8),
        0u8..4,
        (0usize..8, 0usize..8),
        any::<u64>(),
    )
        .prop_map(move |((var, alpha, ls), (xsz, xk, xcls), (ysz, yk, ycls), form, (xc, yc), salt)| {
            // a third of the sets have 1..=3 points (broadcast corner cases); the count shrinks toward 1
            let nx = if xsz == 1 { 1 + (xk - 1) % 3 } else { xk };
            let ny = if ysz == 1 { 1 + (yk - 1) % 3 } else { yk };
            let xs = points(xcls, nx, ls, salt);
            let ys = if gram { vec![] } else { points(ycls, ny, ls, salt ^ 0x9e3779b97f4a7c15) };
            let xcols = divisor(nx, xc);
            let ycols = if gram { xcols } else { divisor(ny, yc) };
            SetCase { kernel, var, alpha: if kernel == 0 { 1.0 } else { alpha }, ls, xs, ys, form, xcols, ycols, gram }
        })
}

// ------------------------------------------------------------------------------------------------
// constructors

#[derive(Clone, Debug, Serialize, Deserialize)]
pub struct CtorCase {
    pub kernel: u8,
    #[serde(with = "fx::f")]
    pub var: f64,
    #[serde(with = "fx::f")]
    pub alpha: f64,
    #[serde(with = "fx::f")]
    pub ls: f64,
}

pub fn check_ctor(ctx: &mut Ctx, c: &CtorCase) -> R {
    if c.kernel > 1 || c.var.is_nan() || c.alpha.is_nan() || c.ls.is_nan() {
        return Ok(()); // NaN parameters: the statement says nothing
    }
    let kn = KN[c.kernel as usize];
    let sub = format!("{}/ctor", kn);
    let valid_v = |v: f64| v > 1e-2 && v < 1e2;
    let all_valid = valid_v(c.var) && valid_v(c.ls) && (c.kernel == 0 || valid_v(c.alpha));
    let invalid = c.var <= 0.0 || c.ls <= 0.0 || (c.kernel == 1 && c.alpha <= 0.0);
    if !all_valid && !invalid {
        return Ok(()); // positive but outside (1e-2, 1e2): not quantified
    }
    ctx.case(&sub, if invalid { "invalid" } else { "valid" }, invalid, Hx::new().json(c).finish());
    ctx.sample(&sub, || json!(c));
    let r = make(c.kernel, c.var, c.alpha, c.ls);
    let desc = if c.kernel == 0 { format!("RBFKernel::new(var={:e}, l={:e})", c.var, c.ls) } else { format!("RQKernel::new(var={:e}, alpha={:e}, l={:e})", c.var, c.alpha, c.ls) };
    match (invalid, r) {
        (true, Ok(_)) => fail(format!("C20/{}/ctor/invalid-accepted", kn), format!("{} accepted a non-positive parameter", desc)),
        (false, Err(m)) => fail(format!("C20/{}/ctor/valid-rejected", kn), format!("{} panicked on valid parameters: {}", desc, m)),
        _ => Ok(()),
    }
}

// ------------------------------------------------------------------------------------------------

macro_rules! scalar_fn {
    ($name:ident) => {
        fn $name(ctx: &mut Ctx, c: &ScalarCase) -> R {
            check_scalar(ctx, c)
        }
    };
}
scalar_fn!(ck_scalar);

pub fn run(ctx: &mut Ctx) {
    ctx.rule = "RBF and rational-quadratic kernels with variance, length scale and mixture parameter log-uniform in (1e-2, 1e2). Scalar form: x uniform in \
+-1e3, partners at 0, 1e-8, 1e-3, 0.1, 1, 3, 10, 30, 36, 38.5, 45, 300 length scales (x (1..2)) or anywhere in +-1e3, by value and by reference, one driver per \
clause. Matrix form and Gram matrices: point sets of 1..=60 points in +-1e3 (integers, spread over 1/10/100 length scales, clusters with 1e-3 / 1e-8 l jitter, \
exact duplicates, offsets up to +-1e3, regular grid, whole domain, reaching the RBF underflow range), passed as Vector, &Vector, Matrix (every divisor as \
column count), &Matrix; two independent sets for the rectangular form; constructors on a grid of valid and non-positive parameters. Non-trivial: scalar pair \
at distance in (0.1 l, 10 l); point sets with >= 3 distinct points and a pair at distance in (0.1 l, 10 l); constructor cases with a non-positive parameter; \
distinct by hash of the case"
        .into();
    ctx.assumptions = vec![
        "coordinates of point sets are within +-1e3 like the scalar pairs".into(),
        "the matrix form is compared entry by entry with the library's own scalar form (as the statement says); the scalar form is compared with the closed form in double-double".into(),
        "kernel values below 1e-300 (far-apart points) may underflow to 0".into(),
        "NaN parameters are not generated for the constructors (the statement does not cover them)".into(),
        "positive semi-definite up to the entry-wise rounding bound: lambda_min >= -n tau_max var - 64 n eps var".into(),
    ];
    // constructors: full grid
    let vals = [f64::NEG_INFINITY, -1e3, -1.0, -1e-300, -0.0, 0.0, 0.0101, 1.0, 99.0];
    for &var in &vals {
        for &ls in &vals {
            ctx.check_one("RBF/ctor", &CtorCase { kernel: 0, var, alpha: 1.0, ls }, check_ctor);
            for &alpha in &vals {
                ctx.check_one("RQ/ctor", &CtorCase { kernel: 1, var, alpha, ls }, check_ctor);
            }
        }
    }
    ctx.exhaustive.push("constructors on the grid {-inf, -1e3, -1, -1e-300, -0, 0, 0.0101, 1, 99}^2 (RBF) and ^3 (RQ)".into());
    // a few fixed cases first (deterministic minimal witnesses, written from the main thread)
    for kernel in 0u8..2 {
        let kn = KN[kernel as usize];
        for &(var, alpha, ls) in &[(2.0, 1.0, 1.0), (0.5, 0.25, 3.0), (50.0, 20.0, 0.05)] {
            for &(x, y, z) in &[(0.0, 5.0, 1.0), (0.0, 0.0, 0.0), (-3.0, 2.5, 100.0), (1000.0, -1000.0, 999.0), (7.25, 7.25 + 1e-9, 7.0)] {
                for by_ref in [false, true] {
                    for clause in 0u8..5 {
                        let c = ScalarCase { kernel, var, alpha: if kernel == 0 { 1.0 } else { alpha }, ls, x, y, z, by_ref, clause };
                        ctx.check_one(&format!("{}/scalar/{}", kn, CLAUSES[clause as usize]), &c, check_scalar);
                    }
                }
            }
            for form in 0u8..4 {
                let alpha = if kernel == 0 { 1.0 } else { alpha };
                let m = SetCase { kernel, var, alpha, ls, xs: vec![0.0, 1.0, 2.0, 5.0], ys: vec![0.5, 5.0], form, xcols: 2, ycols: 1, gram: false };
                ctx.check_one(&format!("{}/matrix", kn), &m, check_set);
                let m = SetCase { kernel, var, alpha, ls, xs: vec![-1.0], ys: vec![0.5, 5.0, 0.5], form, xcols: 1, ycols: 3, gram: false };
                ctx.check_one(&format!("{}/matrix", kn), &m, check_set);
                let g = SetCase { kernel, var, alpha, ls, xs: vec![0.0, 1.0, 2.0, 5.0], ys: vec![], form, xcols: 2, ycols: 2, gram: true };
                ctx.check_one(&format!("{}/gram", kn), &g, check_set);
                let g = SetCase { kernel, var, alpha, ls, xs: vec![0.0, 5.0], ys: vec![], form, xcols: 1, ycols: 1, gram: true };
                ctx.check_one(&format!("{}/gram", kn), &g, check_set);
            }
        }
    }
    let n_sc = ctx.scale(100_000, 2_000_000);
    for kernel in 0u8..2 {
        for clause in 0u8..5 {
            let sub = format!("{}/scalar/{}", KN[kernel as usize], CLAUSES[clause as usize]);
            ctx.run_prop_par(&sub, n_sc, 4, || scalar_strat(kernel, clause), ck_scalar);
        }
    }
    let n_set = ctx.scale(16_000, 200_000);
    for kernel in 0u8..2 {
        let kn = KN[kernel as usize];
        ctx.run_prop_par(&format!("{}/matrix", kn), n_set, 16, || set_strat(kernel, false, 60), check_set);
        ctx.run_prop_par(&format!("{}/gram", kn), n_set, 16, || set_strat(kernel, true, 60), check_set);
    }
}

pub fn replay(ctx: &mut Ctx, sub: &str, v: Value) -> Option<R> {
    if sub.ends_with("/ctor") {
        return Some(check_ctor(ctx, &decode::<CtorCase>(v)?));
    }
    if sub.contains("/scalar/") {
        return Some(check_scalar(ctx, &decode::<ScalarCase>(v)?));
    }
    if sub.ends_with("/matrix") || sub.ends_with("/gram") {
        return Some(check_set(ctx, &decode::<SetCase>(v)?));
    }
    None
}
