//! C15 — op enum, `Vec<Vec<f64>>` reference model and lock-step interpreter for programs of structural
//! operations. No dependency on `Ctx`: the only harness items used are `engine::catch` (catch_unwind
//! returning the panic message) and `engine::Fail { sig, what }`, so a libFuzzer target can decode bytes
//! into `Vec<Op>` and call `run_program` directly.
//!
//! Register file: `NREG` = 4 matrices, initially 2x3, 4x2, 1x5, 3x3 with entries 1, 2, 3, … (all distinct
//! across registers). Operands are stored as raw selectors and resolved against the *current model
//! shapes* at interpretation time (see `resolve_idx`, `ShapeSel::resolve`), so a program stays
//! meaningful when proptest deletes or simplifies ops.
//!
//! Rules of the interpreter (DESIGN.md §4 C15):
//! * after every step every register satisfies nrows·ncols == data.len(), has the model's shape and
//!   bit-identical elements;
//! * an op the model deems impossible must panic, a possible one must not;
//! * after a panic caught inside a `&mut self` method the object must still satisfy the invariant and
//!   hold unchanged flat data; the model then adopts the object's shape;
//! * a result with a dimension > `MAXDIM` (outside the property's 1..=8 quantifier) is checked and then
//!   dropped instead of being stored; an in-place op whose result would be that large runs on a clone.

use crate::engine::{catch, Fail};
use compute::linalg::{col_to_row_major, row_to_col_major, transpose, Matrix, Vector};
use serde::{Deserialize, Serialize};

pub const NREG: usize = 4;
pub const MAXDIM: usize = 8;
/// index selectors >= OOR resolve to out-of-range indices
pub const OOR: u8 = 224;
pub const N_DEGENERATE: u8 = 14;

pub type M = Vec<Vec<f64>>;

/// Raw shape selector, resolved against the current element count.
#[derive(Clone, Copy, Debug, Serialize, Deserialize, PartialEq, Eq)]
pub struct ShapeSel {
    /// %8: 0,1 explicit dividing (d, L/d); 2 (-1, d); 3 (d, -1); 4 explicit arbitrary (1+a%9, 1+b%9);
    /// 5 (-1, 1+a%12); 6 (1+a%12, -1); 7 degenerate table (zero / negative / overflowing sizes)
    pub kind: u8,
    pub a: u8,
    pub b: u8,
}

impl ShapeSel {
    pub fn resolve(&self, len: usize) -> (i32, i32) {
        let l = len.max(1);
        let divs: Vec<usize> = (1..=l).filter(|d| l % d == 0).collect();
        let d = divs[self.a as usize % divs.len()] as i32;
        let p = 1 + (self.b % 8) as i32;
        match self.kind % 8 {
            0 | 1 => (d, l as i32 / d),
            2 => (-1, d),
            3 => (d, -1),
            4 => (1 + (self.a % 9) as i32, 1 + (self.b % 9) as i32),
            5 => (-1, 1 + (self.a % 12) as i32),
            6 => (1 + (self.a % 12) as i32, -1),
            _ => match self.a % N_DEGENERATE {
                0 => (0, p),
                1 => (p, 0),
                2 => (0, 0),
                3 => (-1, -1),
                4 => (-2, p),
                5 => (p, -2),
                6 => (0, -1),
                7 => (-1, 0),
                8 => (-1, -2),
                9 => (-p, -p),
                10 => (46341, 46341),
                11 => (i32::MIN, p),
                12 => (p, i32::MIN),
                _ => (-1, i32::MAX),
            },
        }
    }
}

/// Second operand of a concatenation.
#[derive(Clone, Copy, Debug, Serialize, Deserialize, PartialEq, Eq)]
pub enum Other {
    /// a clone of register %4 (matching only by luck, or when it is the same register)
    Reg(u8),
    /// a fresh matrix whose shared dimension matches and whose free dimension is 1 + n%8
    Fresh(u8),
}

#[derive(Clone, Debug, Serialize, Deserialize, PartialEq, Eq)]
pub enum Op {
    /// dst = Matrix::new(fresh data, r, c), r = 1+rows%8, c = 1+cols%8
    Fresh { dst: u8, rows: u8, cols: u8 },
    /// dst = Matrix::new(fresh data of (1+rows%8)(1+cols%8) elements, shape resolved against that length)
    New { dst: u8, rows: u8, cols: u8, shape: ShapeSel },
    T { src: u8, dst: u8 },
    TMut { reg: u8 },
    Reshape { src: u8, dst: u8, shape: ShapeSel },
    ReshapeMut { reg: u8, shape: ShapeSel },
    /// dst = Vector(flat data of src).reshape(..)
    VecReshape { src: u8, dst: u8, shape: ShapeSel },
    /// dst = Vector(flat data of src).to_matrix()
    VecToMatrix { src: u8, dst: u8 },
    ToVec { src: u8 },
    Hcat { a: u8, dst: u8, other: Other },
    Vcat { a: u8, dst: u8, other: Other },
    HRepeat { src: u8, dst: u8, k: u8 },
    VRepeat { src: u8, dst: u8, k: u8 },
    GetRow { src: u8, row: u8 },
    GetCol { src: u8, col: u8 },
    ApplyRow { reg: u8, row: u8, map: u8 },
    ApplyCol { reg: u8, col: u8, map: u8 },
    /// &m[i]
    IdxRow { src: u8, row: u8 },
    /// m[[i, j]]
    Idx2 { src: u8, row: u8, col: u8 },
    FlatIdx { src: u8, idx: u8 },
    FlatReplace { reg: u8, idx: u8 },
    /// m[[i, j]] = fresh value
    Set2 { reg: u8, row: u8, col: u8 },
    /// m[i][j] = fresh value (IndexMut<usize>, then slice indexing)
    SetRow { reg: u8, row: u8, col: u8 },
    Diag { src: u8 },
    Clone { src: u8, dst: u8 },
    /// dst = (row_to_col_major(data, nrows) read as an ncols x nrows row-major matrix) = transpose
    RowToCol { src: u8, dst: u8 },
    /// dst = (col_to_row_major(data, ncols) read as ncols x nrows) = transpose
    ColToRow { src: u8, dst: u8 },
    /// dst = (utils::transpose(data, nrows) read as ncols x nrows)
    TransposeSlice { src: u8, dst: u8 },
}

pub const KINDS: [&str; 28] = [
    "fresh",
    "new",
    "t",
    "t_mut",
    "reshape",
    "reshape_mut",
    "vec_reshape",
    "vec_to_matrix",
    "to_vec",
    "hcat",
    "vcat",
    "hrepeat",
    "vrepeat",
    "get_row",
    "get_col",
    "apply_row",
    "apply_col",
    "index_row",
    "index2",
    "flat_idx",
    "flat_idx_replace",
    "index2_assign",
    "index_row_assign",
    "diag",
    "clone",
    "row_to_col_major",
    "col_to_row_major",
    "transpose_slice",
];

impl Op {
    pub fn kind(&self) -> usize {
        match self {
            Op::Fresh { .. } => 0,
            Op::New { .. } => 1,
            Op::T { .. } => 2,
            Op::TMut { .. } => 3,
            Op::Reshape { .. } => 4,
            Op::ReshapeMut { .. } => 5,
            Op::VecReshape { .. } => 6,
            Op::VecToMatrix { .. } => 7,
            Op::ToVec { .. } => 8,
            Op::Hcat { .. } => 9,
            Op::Vcat { .. } => 10,
            Op::HRepeat { .. } => 11,
            Op::VRepeat { .. } => 12,
            Op::GetRow { .. } => 13,
            Op::GetCol { .. } => 14,
            Op::ApplyRow { .. } => 15,
            Op::ApplyCol { .. } => 16,
            Op::IdxRow { .. } => 17,
            Op::Idx2 { .. } => 18,
            Op::FlatIdx { .. } => 19,
            Op::FlatReplace { .. } => 20,
            Op::Set2 { .. } => 21,
            Op::SetRow { .. } => 22,
            Op::Diag { .. } => 23,
            Op::Clone { .. } => 24,
            Op::RowToCol { .. } => 25,
            Op::ColToRow { .. } => 26,
            Op::TransposeSlice { .. } => 27,
        }
    }
    pub fn name(&self) -> &'static str {
        KINDS[self.kind()]
    }
}

/// What happened at one step.
#[derive(Clone, Copy, Debug, PartialEq, Eq, Serialize)]
pub enum Outcome {
    /// successful read-only op
    Read,
    /// successful op that changed the register file; `nonsquare`: operand or result is non-square
    Changed { nonsquare: bool },
    /// successful op whose result was checked but is larger than MAXDIM and therefore not stored
    Dropped,
    /// rejected by a panic, as the model demands
    Rejected,
}

impl Outcome {
    pub fn label(&self) -> &'static str {
        match self {
            Outcome::Read => "ok-read",
            Outcome::Changed { .. } => "ok-changed",
            Outcome::Dropped => "ok-dropped",
            Outcome::Rejected => "rejected",
        }
    }
}

#[derive(Clone, Debug, Default, Serialize)]
pub struct Stats {
    pub steps: usize,
    pub ok: usize,
    pub rejected: usize,
    pub dropped: usize,
    /// successful state-changing ops on a non-square matrix
    pub changing_nonsquare: usize,
    /// some rejected op was followed by a later successful op
    pub reject_then_ok: bool,
    pub trace: Vec<(&'static str, Outcome)>,
}

impl Stats {
    fn record(&mut self, name: &'static str, o: Outcome) {
        self.steps += 1;
        match o {
            Outcome::Rejected => self.rejected += 1,
            _ => {
                self.ok += 1;
                if self.rejected > 0 {
                    self.reject_then_ok = true;
                }
            }
        }
        if let Outcome::Changed { nonsquare: true } = o {
            self.changing_nonsquare += 1;
        }
        if o == Outcome::Dropped {
            self.dropped += 1;
        }
        self.trace.push((name, o));
    }
    /// The property's non-triviality rule.
    pub fn nontrivial(&self) -> bool {
        self.changing_nonsquare >= 3 || self.reject_then_ok
    }
}

// ---------------------------------------------------------------------------------------------------
// model helpers (plain row-major Vec<Vec<f64>>; always >= 1 row and >= 1 column)

pub fn m_shape(m: &M) -> (usize, usize) {
    (m.len(), m[0].len())
}
pub fn m_flat(m: &M) -> Vec<f64> {
    m.iter().flat_map(|r| r.iter().copied()).collect()
}
pub fn m_from_flat(v: &[f64], r: usize, c: usize) -> M {
    (0..r).map(|i| v[i * c..(i + 1) * c].to_vec()).collect()
}
pub fn m_transpose(m: &M) -> M {
    let (r, c) = m_shape(m);
    (0..c).map(|j| (0..r).map(|i| m[i][j]).collect()).collect()
}

/// The definition of reshape with an optional inferred dimension: `None` = impossible shape.
pub fn model_reshape(flat: &[f64], r: i32, c: i32) -> Option<M> {
    let l = flat.len() as i64;
    let (r, c) = (r as i64, c as i64);
    let (nr, nc) = if r > 0 && c > 0 {
        if r * c == l {
            (r, c)
        } else {
            return None;
        }
    } else if r == -1 && c > 0 {
        if l % c == 0 && l / c > 0 {
            (l / c, c)
        } else {
            return None;
        }
    } else if c == -1 && r > 0 {
        if l % r == 0 && l / r > 0 {
            (r, l / r)
        } else {
            return None;
        }
    } else {
        return None;
    };
    Some(m_from_flat(flat, nr as usize, nc as usize))
}

/// Index selector: < OOR ⇒ in range (sel % n); otherwise n, n+1, 2n+3 or usize::MAX.
pub fn resolve_idx(sel: u8, n: usize) -> usize {
    if sel < OOR {
        sel as usize % n
    } else {
        match (sel - OOR) % 4 {
            0 => n,
            1 => n + 1,
            2 => 2 * n + 3,
            _ => usize::MAX,
        }
    }
}

/// Injective maps used by apply_along_row / apply_along_col (same closure on both sides).
pub fn apply_map(k: u8, x: f64) -> f64 {
    match k % 4 {
        0 => -x,
        1 => x + 0.5,
        2 => 2.0 * x + 0.25,
        _ => x - 1000.125,
    }
}

fn show(v: &[f64]) -> String {
    let n = v.len().min(24);
    let mut s = format!("{:?}", &v[..n]);
    if v.len() > n {
        s.push_str(&format!("… ({} elements)", v.len()));
    }
    s
}

// ---------------------------------------------------------------------------------------------------

struct Cx<'a> {
    step: usize,
    op: &'a Op,
    detail: String,
}

impl<'a> Cx<'a> {
    fn fail<T>(&self, kind: &str, msg: String) -> Result<T, Fail> {
        Err(Fail {
            sig: format!("C15/program/{}/{}", self.op.name(), kind),
            what: format!("step {} {:?} [{}]: {}", self.step, self.op, if self.detail.is_empty() { "state after the step" } else { &self.detail }, msg),
        })
    }
}

struct RegName(usize);
impl std::fmt::Display for RegName {
    fn fmt(&self, f: &mut std::fmt::Formatter<'_>) -> std::fmt::Result {
        write!(f, "register {}", self.0)
    }
}

fn cmp_matrix(cx: &Cx, whatm: &dyn std::fmt::Display, got: &Matrix, want: &M) -> Result<(), Fail> {
    let (r, c) = m_shape(want);
    if got.nrows * got.ncols != got.data.len() {
        return cx.fail(
            "invariant",
            format!("{}: nrows {} x ncols {} != data.len() {} (model {}x{})", whatm, got.nrows, got.ncols, got.data.len(), r, c),
        );
    }
    if got.nrows != r || got.ncols != c || got.shape() != [r, c] || got.size() != r * c {
        return cx.fail(
            "shape",
            format!("{}: shape {}x{} (shape() {:?}, size() {}), model {}x{}", whatm, got.nrows, got.ncols, got.shape(), got.size(), r, c),
        );
    }
    for i in 0..r {
        for j in 0..c {
            let g = got.data[i * c + j];
            if g.to_bits() != want[i][j].to_bits() {
                return cx.fail(
                    "value",
                    format!(
                        "{}: element ({},{}) of the {}x{} result is {:e}, model {:e}; data {} model {}",
                        whatm,
                        i,
                        j,
                        r,
                        c,
                        g,
                        want[i][j],
                        show(&got.data),
                        show(&m_flat(want))
                    ),
                );
            }
        }
    }
    Ok(())
}

struct State {
    lib: Vec<Matrix>,
    model: Vec<M>,
    next: f64,
    /// every entry is counter · 2^scale_exp (structural operations move data, so any magnitude must survive
    /// unchanged; tiny entries make every square matrix "symmetric" under an absolute tolerance)
    scale: f64,
}

fn raw_matrix(flat: Vec<f64>, r: usize, c: usize) -> Matrix {
    // built through the public fields: no library code involved in setting up an operand
    Matrix { data: Vector::new(flat), nrows: r, ncols: c }
}

impl State {
    fn new(scale_exp: i32) -> State {
        let mut st = State { lib: vec![], model: vec![], next: 1.0, scale: 2f64.powi(scale_exp.clamp(-900, 900)) };
        for (r, c) in [(2usize, 3usize), (4, 2), (1, 5), (3, 3)] {
            let d = st.fresh(r * c);
            st.model.push(m_from_flat(&d, r, c));
            st.lib.push(raw_matrix(d, r, c));
        }
        st
    }

    fn fresh(&mut self, n: usize) -> Vec<f64> {
        (0..n)
            .map(|_| {
                let v = self.next * self.scale;
                self.next += 1.0;
                v
            })
            .collect()
    }

    /// by-value op producing a matrix
    fn produce(&mut self, cx: &Cx, res: Result<Matrix, String>, want: Option<M>, dst: usize, operand_nonsquare: bool) -> Result<Outcome, Fail> {
        match (res, want) {
            (Err(_), None) => Ok(Outcome::Rejected),
            (Err(msg), Some(w)) => {
                let (r, c) = m_shape(&w);
                cx.fail("spurious-panic", format!("panicked ({}) although the model yields a {}x{} matrix", msg, r, c))
            }
            (Ok(m), None) => {
                if m.nrows * m.ncols != m.data.len() {
                    cx.fail(
                        "invariant",
                        format!("impossible request was not rejected and produced nrows {} x ncols {} with {} elements", m.nrows, m.ncols, m.data.len()),
                    )
                } else {
                    cx.fail("missing-panic", format!("impossible request was not rejected; it returned a {}x{} matrix", m.nrows, m.ncols))
                }
            }
            (Ok(m), Some(w)) => {
                cmp_matrix(cx, &"result", &m, &w)?;
                let (r, c) = m_shape(&w);
                if r <= MAXDIM && c <= MAXDIM {
                    self.lib[dst] = m;
                    self.model[dst] = w;
                    Ok(Outcome::Changed { nonsquare: operand_nonsquare || r != c })
                } else {
                    Ok(Outcome::Dropped)
                }
            }
        }
    }

    /// `&mut self` op on register `reg`
    fn inplace(&mut self, cx: &Cx, reg: usize, f: impl FnOnce(&mut Matrix), want: Option<M>) -> Result<Outcome, Fail> {
        let (r0, c0) = m_shape(&self.model[reg]);
        if let Some(w) = &want {
            let (r, c) = m_shape(w);
            if r > MAXDIM || c > MAXDIM {
                let mut tmp = self.lib[reg].clone();
                let res = catch(|| f(&mut tmp));
                return match res {
                    Err(msg) => cx.fail("spurious-panic", format!("panicked ({}) although the model yields a {}x{} matrix", msg, r, c)),
                    Ok(()) => {
                        cmp_matrix(cx, &"object after the call", &tmp, w)?;
                        Ok(Outcome::Dropped)
                    }
                };
            }
        }
        let before: Vec<u64> = self.lib[reg].data.iter().map(|x| x.to_bits()).collect();
        let m = &mut self.lib[reg];
        let res = catch(|| f(m));
        let m = &self.lib[reg];
        match (res, want) {
            (Ok(()), Some(w)) => {
                cmp_matrix(cx, &"object after the call", m, &w)?;
                let (r, c) = m_shape(&w);
                self.model[reg] = w;
                Ok(Outcome::Changed { nonsquare: r0 != c0 || r != c })
            }
            (Ok(()), None) => {
                if m.nrows * m.ncols != m.data.len() {
                    cx.fail(
                        "invariant",
                        format!("impossible request was not rejected and left nrows {} x ncols {} with {} elements", m.nrows, m.ncols, m.data.len()),
                    )
                } else {
                    cx.fail("missing-panic", format!("impossible request was not rejected; the object is now {}x{}", m.nrows, m.ncols))
                }
            }
            (Err(msg), Some(w)) => {
                let (r, c) = m_shape(&w);
                cx.fail("spurious-panic", format!("panicked ({}) although the model yields a {}x{} matrix", msg, r, c))
            }
            (Err(_), None) => {
                if m.nrows * m.ncols != m.data.len() || m.nrows == 0 || m.ncols == 0 {
                    return cx.fail(
                        "invariant",
                        format!("after the rejected call the object has nrows {} x ncols {} with {} elements", m.nrows, m.ncols, m.data.len()),
                    );
                }
                let after: Vec<u64> = m.data.iter().map(|x| x.to_bits()).collect();
                if after != before {
                    return cx.fail("value", format!("the rejected call changed the data: {}", show(&m.data)));
                }
                // the model adopts whatever (valid) shape the object kept
                let flat = m_flat(&self.model[reg]);
                self.model[reg] = m_from_flat(&flat, m.nrows, m.ncols);
                Ok(Outcome::Rejected)
            }
        }
    }

    /// read-only op returning a list of values
    fn read(&self, cx: &Cx, res: Result<Vec<f64>, String>, want: Option<Vec<f64>>) -> Result<Outcome, Fail> {
        match (res, want) {
            (Err(_), None) => Ok(Outcome::Rejected),
            (Err(msg), Some(w)) => cx.fail("spurious-panic", format!("panicked ({}) although the model yields {}", msg, show(&w))),
            (Ok(v), None) => cx.fail("missing-panic", format!("out-of-range request was not rejected; it returned {}", show(&v))),
            (Ok(v), Some(w)) => {
                if v.len() != w.len() {
                    return cx.fail("shape", format!("returned {} values {}, model {} values {}", v.len(), show(&v), w.len(), show(&w)));
                }
                for i in 0..v.len() {
                    if v[i].to_bits() != w[i].to_bits() {
                        return cx.fail("value", format!("returned {}, model {} (first difference at position {})", show(&v), show(&w), i));
                    }
                }
                Ok(Outcome::Read)
            }
        }
    }

    fn other(&mut self, o: Other, shared: usize, shared_is_rows: bool) -> (Matrix, M) {
        match o {
            Other::Reg(b) => {
                let b = b as usize % NREG;
                (self.lib[b].clone(), self.model[b].clone())
            }
            Other::Fresh(n) => {
                let free = 1 + n as usize % 8;
                let (r, c) = if shared_is_rows { (shared, free) } else { (free, shared) };
                let d = self.fresh(r * c);
                (raw_matrix(d.clone(), r, c), m_from_flat(&d, r, c))
            }
        }
    }

    fn step(&mut self, step: usize, op: &Op) -> Result<Outcome, Fail> {
        let rg = |x: u8| x as usize % NREG;
        let mut cx = Cx { step, op, detail: String::new() };
        match *op {
            Op::Fresh { dst, rows, cols } => {
                let (r, c) = (1 + rows as usize % 8, 1 + cols as usize % 8);
                let d = self.fresh(r * c);
                cx.detail = format!("Matrix::new({} fresh values, {}, {})", r * c, r, c);
                let want = Some(m_from_flat(&d, r, c));
                let res = catch(|| Matrix::new(d, r as i32, c as i32));
                self.produce(&cx, res, want, rg(dst), r != c)
            }
            Op::New { dst, rows, cols, shape } => {
                let l = (1 + rows as usize % 8) * (1 + cols as usize % 8);
                let d = self.fresh(l);
                let (ra, ca) = shape.resolve(l);
                cx.detail = format!("Matrix::new({} fresh values, {}, {})", l, ra, ca);
                let want = model_reshape(&d, ra, ca);
                let res = catch(|| Matrix::new(d, ra, ca));
                self.produce(&cx, res, want, rg(dst), false)
            }
            Op::T { src, dst } => {
                let s = rg(src);
                let (r, c) = m_shape(&self.model[s]);
                cx.detail = format!("t() of {}x{}", r, c);
                let want = Some(m_transpose(&self.model[s]));
                let res = catch(|| self.lib[s].t());
                self.produce(&cx, res, want, rg(dst), r != c)
            }
            Op::TMut { reg } => {
                let s = rg(reg);
                let (r, c) = m_shape(&self.model[s]);
                cx.detail = format!("t_mut() of {}x{}", r, c);
                let want = Some(m_transpose(&self.model[s]));
                self.inplace(&cx, s, |m| {
                    m.t_mut();
                }, want)
            }
            Op::Reshape { src, dst, shape } => {
                let s = rg(src);
                let (r, c) = m_shape(&self.model[s]);
                let flat = m_flat(&self.model[s]);
                let (ra, ca) = shape.resolve(flat.len());
                cx.detail = format!("reshape({}, {}) of {}x{}", ra, ca, r, c);
                let want = model_reshape(&flat, ra, ca);
                let res = catch(|| self.lib[s].reshape(ra, ca));
                self.produce(&cx, res, want, rg(dst), r != c)
            }
            Op::ReshapeMut { reg, shape } => {
                let s = rg(reg);
                let (r, c) = m_shape(&self.model[s]);
                let flat = m_flat(&self.model[s]);
                let (ra, ca) = shape.resolve(flat.len());
                cx.detail = format!("reshape_mut({}, {}) of {}x{}", ra, ca, r, c);
                let want = model_reshape(&flat, ra, ca);
                self.inplace(&cx, s, |m| {
                    m.reshape_mut(ra, ca);
                }, want)
            }
            Op::VecReshape { src, dst, shape } => {
                let s = rg(src);
                let (r, c) = m_shape(&self.model[s]);
                let flat = m_flat(&self.model[s]);
                let (ra, ca) = shape.resolve(flat.len());
                cx.detail = format!("Vector({} values).reshape({}, {})", flat.len(), ra, ca);
                let want = model_reshape(&flat, ra, ca);
                let v = Vector::new(flat);
                let res = catch(|| v.reshape(ra, ca));
                self.produce(&cx, res, want, rg(dst), r != c)
            }
            Op::VecToMatrix { src, dst } => {
                let s = rg(src);
                let (r, c) = m_shape(&self.model[s]);
                let flat = m_flat(&self.model[s]);
                cx.detail = format!("Vector({} values).to_matrix()", flat.len());
                let want = Some(m_from_flat(&flat, 1, flat.len()));
                let v = Vector::new(flat);
                let res = catch(|| v.to_matrix());
                self.produce(&cx, res, want, rg(dst), r != c)
            }
            Op::ToVec { src } => {
                let s = rg(src);
                let (r, c) = m_shape(&self.model[s]);
                cx.detail = format!("to_vec() of {}x{}", r, c);
                let want = Some(m_flat(&self.model[s]));
                let res = catch(|| self.lib[s].clone().to_vec().v);
                self.read(&cx, res, want)
            }
            Op::Hcat { a, dst, other } => {
                let s = rg(a);
                let (r, c) = m_shape(&self.model[s]);
                let (ol, om) = self.other(other, r, true);
                let (or, oc) = m_shape(&om);
                cx.detail = format!("{}x{} hcat {}x{}", r, c, or, oc);
                let want = if or == r {
                    Some((0..r).map(|i| self.model[s][i].iter().chain(om[i].iter()).copied().collect()).collect())
                } else {
                    None
                };
                let res = catch(|| self.lib[s].hcat(ol));
                self.produce(&cx, res, want, rg(dst), r != c)
            }
            Op::Vcat { a, dst, other } => {
                let s = rg(a);
                let (r, c) = m_shape(&self.model[s]);
                let (ol, om) = self.other(other, c, false);
                let (or, oc) = m_shape(&om);
                cx.detail = format!("{}x{} vcat {}x{}", r, c, or, oc);
                let want = if oc == c {
                    let mut w = self.model[s].clone();
                    w.extend(om.iter().cloned());
                    Some(w)
                } else {
                    None
                };
                let res = catch(|| self.lib[s].vcat(ol));
                self.produce(&cx, res, want, rg(dst), r != c)
            }
            Op::HRepeat { src, dst, k } => {
                let s = rg(src);
                let (r, c) = m_shape(&self.model[s]);
                let kmax = (MAXDIM / c).max(1);
                let k = 1 + k as usize % (kmax + 1);
                cx.detail = format!("hrepeat({}) of {}x{}", k, r, c);
                let want: M = self.model[s].iter().map(|row| (0..k).flat_map(|_| row.iter().copied()).collect()).collect();
                let res = catch(|| self.lib[s].hrepeat(k));
                self.produce(&cx, res, Some(want), rg(dst), r != c)
            }
            Op::VRepeat { src, dst, k } => {
                let s = rg(src);
                let (r, c) = m_shape(&self.model[s]);
                let kmax = (MAXDIM / r).max(1);
                let k = 1 + k as usize % (kmax + 1);
                cx.detail = format!("vrepeat({}) of {}x{}", k, r, c);
                let want: M = (0..k).flat_map(|_| self.model[s].iter().cloned()).collect();
                let res = catch(|| self.lib[s].vrepeat(k));
                self.produce(&cx, res, Some(want), rg(dst), r != c)
            }
            Op::GetRow { src, row } => {
                let s = rg(src);
                let (r, c) = m_shape(&self.model[s]);
                let i = resolve_idx(row, r);
                cx.detail = format!("get_row_as_vector({}) of {}x{}", i, r, c);
                let want = if i < r { Some(self.model[s][i].clone()) } else { None };
                let res = catch(|| self.lib[s].get_row_as_vector(i).v);
                self.read(&cx, res, want)
            }
            Op::GetCol { src, col } => {
                let s = rg(src);
                let (r, c) = m_shape(&self.model[s]);
                let j = resolve_idx(col, c);
                cx.detail = format!("get_col_as_vector({}) of {}x{}", j, r, c);
                let want = if j < c { Some((0..r).map(|i| self.model[s][i][j]).collect()) } else { None };
                let res = catch(|| self.lib[s].get_col_as_vector(j).v);
                self.read(&cx, res, want)
            }
            Op::ApplyRow { reg, row, map } => {
                let s = rg(reg);
                let (r, c) = m_shape(&self.model[s]);
                let i = resolve_idx(row, r);
                cx.detail = format!("apply_along_row({}, map {}) of {}x{}", i, map % 4, r, c);
                let want = if i < r {
                    let mut w = self.model[s].clone();
                    for x in w[i].iter_mut() {
                        *x = apply_map(map, *x);
                    }
                    Some(w)
                } else {
                    None
                };
                self.inplace(&cx, s, |m| m.apply_along_row(i, |x| apply_map(map, x)), want)
            }
            Op::ApplyCol { reg, col, map } => {
                let s = rg(reg);
                let (r, c) = m_shape(&self.model[s]);
                let j = resolve_idx(col, c);
                cx.detail = format!("apply_along_col({}, map {}) of {}x{}", j, map % 4, r, c);
                let want = if j < c {
                    let mut w = self.model[s].clone();
                    for row in w.iter_mut() {
                        row[j] = apply_map(map, row[j]);
                    }
                    Some(w)
                } else {
                    None
                };
                self.inplace(&cx, s, |m| m.apply_along_col(j, |x| apply_map(map, x)), want)
            }
            Op::IdxRow { src, row } => {
                let s = rg(src);
                let (r, c) = m_shape(&self.model[s]);
                let i = resolve_idx(row, r);
                cx.detail = format!("m[{}] of {}x{}", i, r, c);
                let want = if i < r { Some(self.model[s][i].clone()) } else { None };
                let res = catch(|| self.lib[s][i].to_vec());
                self.read(&cx, res, want)
            }
            Op::Idx2 { src, row, col } => {
                let s = rg(src);
                let (r, c) = m_shape(&self.model[s]);
                let (i, j) = (resolve_idx(row, r), resolve_idx(col, c));
                cx.detail = format!("m[[{}, {}]] of {}x{}", i, j, r, c);
                let want = if i < r && j < c { Some(vec![self.model[s][i][j]]) } else { None };
                let res = catch(|| vec![self.lib[s][[i, j]]]);
                self.read(&cx, res, want)
            }
            Op::FlatIdx { src, idx } => {
                let s = rg(src);
                let (r, c) = m_shape(&self.model[s]);
                let k = resolve_idx(idx, r * c);
                cx.detail = format!("flat_idx({}) of {}x{}", k, r, c);
                let want = if k < r * c { Some(vec![self.model[s][k / c][k % c]]) } else { None };
                let res = catch(|| vec![self.lib[s].flat_idx(k)]);
                self.read(&cx, res, want)
            }
            Op::FlatReplace { reg, idx } => {
                let s = rg(reg);
                let (r, c) = m_shape(&self.model[s]);
                let k = resolve_idx(idx, r * c);
                let v = self.fresh(1)[0];
                cx.detail = format!("flat_idx_replace({}, {}) of {}x{}", k, v, r, c);
                let want = if k < r * c {
                    let mut w = self.model[s].clone();
                    w[k / c][k % c] = v;
                    Some(w)
                } else {
                    None
                };
                self.inplace(&cx, s, |m| {
                    m.flat_idx_replace(k, v);
                }, want)
            }
            Op::Set2 { reg, row, col } => {
                let s = rg(reg);
                let (r, c) = m_shape(&self.model[s]);
                let (i, j) = (resolve_idx(row, r), resolve_idx(col, c));
                let v = self.fresh(1)[0];
                cx.detail = format!("m[[{}, {}]] = {} on {}x{}", i, j, v, r, c);
                let want = if i < r && j < c {
                    let mut w = self.model[s].clone();
                    w[i][j] = v;
                    Some(w)
                } else {
                    None
                };
                self.inplace(&cx, s, |m| m[[i, j]] = v, want)
            }
            Op::SetRow { reg, row, col } => {
                let s = rg(reg);
                let (r, c) = m_shape(&self.model[s]);
                let (i, j) = (resolve_idx(row, r), resolve_idx(col, c));
                let v = self.fresh(1)[0];
                cx.detail = format!("m[{}][{}] = {} on {}x{}", i, j, v, r, c);
                let want = if i < r && j < c {
                    let mut w = self.model[s].clone();
                    w[i][j] = v;
                    Some(w)
                } else {
                    None
                };
                self.inplace(&cx, s, |m| m[i][j] = v, want)
            }
            Op::Diag { src } => {
                let s = rg(src);
                let (r, c) = m_shape(&self.model[s]);
                cx.detail = format!("diag() of {}x{}", r, c);
                let want = Some((0..r.min(c)).map(|i| self.model[s][i][i]).collect());
                let res = catch(|| self.lib[s].diag().v);
                self.read(&cx, res, want)
            }
            Op::Clone { src, dst } => {
                let s = rg(src);
                let (r, c) = m_shape(&self.model[s]);
                cx.detail = format!("clone() of {}x{}", r, c);
                let want = Some(self.model[s].clone());
                let res = catch(|| self.lib[s].clone());
                self.produce(&cx, res, want, rg(dst), r != c)
            }
            Op::RowToCol { src, dst } => {
                let s = rg(src);
                let (r, c) = m_shape(&self.model[s]);
                cx.detail = format!("row_to_col_major(data, {}) of {}x{}", r, r, c);
                let want = Some(m_transpose(&self.model[s]));
                let res = catch(|| Matrix { data: row_to_col_major(&self.lib[s].data, r), nrows: c, ncols: r });
                self.produce(&cx, res, want, rg(dst), r != c)
            }
            Op::ColToRow { src, dst } => {
                let s = rg(src);
                let (r, c) = m_shape(&self.model[s]);
                // the register's row-major r x c data is the column-major form of the c x r transpose
                cx.detail = format!("col_to_row_major(data, {}) of {}x{}", c, r, c);
                let want = Some(m_transpose(&self.model[s]));
                let res = catch(|| Matrix { data: Vector::new(col_to_row_major(&self.lib[s].data, c)), nrows: c, ncols: r });
                self.produce(&cx, res, want, rg(dst), r != c)
            }
            Op::TransposeSlice { src, dst } => {
                let s = rg(src);
                let (r, c) = m_shape(&self.model[s]);
                cx.detail = format!("transpose(data, {}) of {}x{}", r, r, c);
                let want = Some(m_transpose(&self.model[s]));
                let res = catch(|| Matrix { data: Vector::new(transpose(&self.lib[s].data, r)), nrows: c, ncols: r });
                self.produce(&cx, res, want, rg(dst), r != c)
            }
        }
    }

    /// the oracle after every step: every register equals its model
    fn check_all(&self, step: usize, op: &Op) -> Result<(), Fail> {
        let cx = Cx { step, op, detail: String::new() };
        for k in 0..NREG {
            cmp_matrix(&cx, &RegName(k), &self.lib[k], &self.model[k])?;
        }
        Ok(())
    }
}

/// Interpret `ops` in lock-step on the library and on the model. `Err` = first disagreement
/// (signature `C15/program/<op>/<value|shape|invariant|missing-panic|spurious-panic>`).
pub fn run_program(ops: &[Op]) -> Result<Stats, Fail> {
    run_program_scaled(ops, 0)
}

/// The same interpreter with every matrix entry multiplied by 2^scale_exp.
pub fn run_program_scaled(ops: &[Op], scale_exp: i32) -> Result<Stats, Fail> {
    let mut st = State::new(scale_exp);
    let mut stats = Stats::default();
    for (i, op) in ops.iter().enumerate() {
        let out = st.step(i, op)?;
        st.check_all(i, op)?;
        stats.record(op.name(), out);
    }
    Ok(stats)
}

/// The op name inside a program signature (`C15/program/<op>/<kind>`).
pub fn sig_op(sig: &str) -> &str {
    sig.split('/').nth(2).unwrap_or("")
}

/// Decode raw bytes into a program (entry point for the libFuzzer target): one byte selects the op kind
/// (% 28), then that kind's operand bytes follow in field order; missing trailing bytes read as 0.
/// Index bytes keep the interpreter's convention (>= OOR = out of range). At most `max_ops` ops.
pub fn decode_program(bytes: &[u8], max_ops: usize) -> Vec<Op> {
    let mut it = bytes.iter().copied();
    let mut ops = Vec::new();
    while ops.len() < max_ops {
        let k = match it.next() {
            Some(k) => k as usize % KINDS.len(),
            None => break,
        };
        let mut b = || it.next().unwrap_or(0);
        let shape = |b: &mut dyn FnMut() -> u8| ShapeSel { kind: b(), a: b(), b: b() };
        let other = |b: &mut dyn FnMut() -> u8| {
            let x = b();
            if x & 0x80 != 0 {
                Other::Reg(x & 0x7f)
            } else {
                Other::Fresh(x)
            }
        };
        let op = match k {
            0 => Op::Fresh { dst: b(), rows: b(), cols: b() },
            1 => Op::New { dst: b(), rows: b(), cols: b(), shape: shape(&mut b) },
            2 => Op::T { src: b(), dst: b() },
            3 => Op::TMut { reg: b() },
            4 => Op::Reshape { src: b(), dst: b(), shape: shape(&mut b) },
            5 => Op::ReshapeMut { reg: b(), shape: shape(&mut b) },
            6 => Op::VecReshape { src: b(), dst: b(), shape: shape(&mut b) },
            7 => Op::VecToMatrix { src: b(), dst: b() },
            8 => Op::ToVec { src: b() },
            9 => Op::Hcat { a: b(), dst: b(), other: other(&mut b) },
            10 => Op::Vcat { a: b(), dst: b(), other: other(&mut b) },
            11 => Op::HRepeat { src: b(), dst: b(), k: b() },
            12 => Op::VRepeat { src: b(), dst: b(), k: b() },
            13 => Op::GetRow { src: b(), row: b() },
            14 => Op::GetCol { src: b(), col: b() },
            15 => Op::ApplyRow { reg: b(), row: b(), map: b() },
            16 => Op::ApplyCol { reg: b(), col: b(), map: b() },
            17 => Op::IdxRow { src: b(), row: b() },
            18 => Op::Idx2 { src: b(), row: b(), col: b() },
            19 => Op::FlatIdx { src: b(), idx: b() },
            20 => Op::FlatReplace { reg: b(), idx: b() },
            21 => Op::Set2 { reg: b(), row: b(), col: b() },
            22 => Op::SetRow { reg: b(), row: b(), col: b() },
            23 => Op::Diag { src: b() },
            24 => Op::Clone { src: b(), dst: b() },
            25 => Op::RowToCol { src: b(), dst: b() },
            26 => Op::ColToRow { src: b(), dst: b() },
            _ => Op::TransposeSlice { src: b(), dst: b() },
        };
        ops.push(op);
    }
    ops
}
