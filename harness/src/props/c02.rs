//! C02 — Densities and mass functions are proper and match the stated mean and variance.
//!
//! Sub-checks are named `<Distribution>/<clause>`; every clause has its own driver run so that one
//! defect cannot hide another:
//!   pdf | pmf   in-support points: no panic, finite, ≥ 0, equal to the textbook formula (log-space oracle)
//!   outside     points outside the support: exactly 0, no panic
//!   lnpdf       ln_pdf(x) = ln(pdf(x)) (continuous laws only), −inf outside the support
//!   mass        total mass of the library's own pdf/pmf (tanh-sinh quadrature / summation) = 1
//!   mean, var   mean()/var() against the textbook closed form, then against the first moment / second
//!               central moment of the library's own pdf/pmf (whenever the moment is finite)
//!   cdf         Normal::cdf against ½·erfc(−z/√2)
//!   MVN/pdf, MVN/lnpdf, MVN/moments, MVN/mass
//!
//! Oracle: textbook closed forms evaluated in log space with glibc `lgamma_r` (never the library's own
//! gamma/beta), exact ln k! tables in double-double for the discrete laws, own dd Cholesky for the MVN.

use crate::engine::{catch, decode, fail, Ctx, Fail, Hx, R};
use crate::oracle::dd::DD;
use crate::oracle::quad;
use compute::distributions::Distribution1D as _;
use compute::distributions::{
    Bernoulli, Beta, Binomial, ChiSquared, Continuous, Discrete, DiscreteUniform, Exponential, Gamma, Gumbel, Mean, Normal, Pareto,
    Poisson, Uniform, Variance, MVN, T,
};
use compute::linalg::Matrix;
use proptest::prelude::*;
use serde::{Deserialize, Serialize};
use serde_json::{json, Value};
use std::sync::OnceLock;

extern "C" {
    fn lgamma_r(x: f64, sign: *mut i32) -> f64;
    fn erfc(x: f64) -> f64;
}

/// ln|Γ(x)| from glibc (re-entrant variant: no global `signgam`).
fn lgam(x: f64) -> f64 {
    let mut s: i32 = 0;
    unsafe { lgamma_r(x, &mut s as *mut i32) }
}

const LN_2PI: f64 = 1.8378770664093453;
const EULER: f64 = 0.577_215_664_901_532_9;

// ------------------------------------------------------------------------------------------------
// distributions
// ------------------------------------------------------------------------------------------------

#[derive(Clone, Copy, Debug, PartialEq, Eq)]
pub enum D {
    Normal,
    Gamma,
    Beta,
    ChiSquared,
    T,
    Pareto,
    Gumbel,
    Exponential,
    Uniform,
    Poisson,
    Binomial,
    Bernoulli,
    DiscreteUniform,
}

pub const ALL: [D; 13] = [
    D::Normal,
    D::Gamma,
    D::Beta,
    D::ChiSquared,
    D::T,
    D::Pareto,
    D::Gumbel,
    D::Exponential,
    D::Uniform,
    D::Poisson,
    D::Binomial,
    D::Bernoulli,
    D::DiscreteUniform,
];

impl D {
    pub fn name(self) -> &'static str {
        match self {
            D::Normal => "Normal",
            D::Gamma => "Gamma",
            D::Beta => "Beta",
            D::ChiSquared => "ChiSquared",
            D::T => "T",
            D::Pareto => "Pareto",
            D::Gumbel => "Gumbel",
            D::Exponential => "Exponential",
            D::Uniform => "Uniform",
            D::Poisson => "Poisson",
            D::Binomial => "Binomial",
            D::Bernoulli => "Bernoulli",
            D::DiscreteUniform => "DiscreteUniform",
        }
    }
    pub fn from_name(s: &str) -> Option<D> {
        ALL.iter().copied().find(|d| d.name() == s)
    }
    pub fn discrete(self) -> bool {
        matches!(self, D::Poisson | D::Binomial | D::Bernoulli | D::DiscreteUniform)
    }
    pub fn nparams(self) -> usize {
        match self {
            D::ChiSquared | D::T | D::Exponential | D::Poisson | D::Bernoulli => 1,
            _ => 2,
        }
    }
    /// support is the whole real line (no "outside" clause)
    pub fn whole_line(self) -> bool {
        matches!(self, D::Normal | D::Gumbel | D::T)
    }
}

fn is_int(x: f64) -> bool {
    x.is_finite() && x == x.trunc()
}

/// Parameters inside the property's quantifier (valid for the constructor and non-degenerate, i.e. a
/// density exists). Decoded replay files outside this set are ignored.
pub fn valid(d: D, p: &[f64]) -> bool {
    if p.len() != d.nparams() || p.iter().any(|v| !v.is_finite()) {
        return false;
    }
    match d {
        D::Normal => p[1] > 0.0,
        D::Gamma | D::Beta | D::Pareto => p[0] > 0.0 && p[1] > 0.0,
        D::ChiSquared => is_int(p[0]) && p[0] >= 1.0 && p[0] <= 1e6,
        D::T | D::Exponential | D::Poisson => p[0] > 0.0,
        D::Gumbel => p[1] > 0.0,
        D::Uniform => p[0] < p[1] && (p[1] - p[0]).is_finite(),
        D::Binomial => is_int(p[0]) && p[0] >= 0.0 && p[0] <= 1e6 && (0.0..=1.0).contains(&p[1]),
        D::Bernoulli => (0.0..=1.0).contains(&p[0]),
        D::DiscreteUniform => is_int(p[0]) && is_int(p[1]) && p[0] <= p[1] && p[0].abs() <= 1e12 && p[1].abs() <= 1e12,
    }
}

/// The library object under test.
pub enum Lib {
    Normal(Normal),
    Gamma(Gamma),
    Beta(Beta),
    ChiSquared(ChiSquared),
    T(T),
    Pareto(Pareto),
    Gumbel(Gumbel),
    Exponential(Exponential),
    Uniform(Uniform),
    Poisson(Poisson),
    Binomial(Binomial),
    Bernoulli(Bernoulli),
    DiscreteUniform(DiscreteUniform),
}

impl Lib {
    /// "Every valid parameter setting" includes settings reached through `update` and the setters, so two
    /// thirds of the objects are not constructed directly: they start from another valid parameter vector
    /// and are moved to `p` by a bulk `update` (route 1) or by the individual setters (route 2; laws with
    /// two-sided bounds use `update`, because a single bound may legitimately be rejected against the old
    /// other bound). The route is a pure function of the parameters. A density that caches anything derived
    /// from its parameters must refresh it on every route.
    pub fn new(d: D, p: &[f64]) -> Result<Lib, Fail> {
        let mut l = Lib::reach(d, p)?;
        // In a third of the cases one invalid value is then offered to a setter (the panic is caught): a rejected
        // value is not applied, so the object is still the one described by `p`. (Whether the value is rejected at
        // all is C18's clause: if it is accepted here, the valid value is simply set again.)
        if (Hx::new().fs(p).u(77).finish() >> 8) % 3 == 0 {
            l.offer_invalid(p);
        }
        Ok(l)
    }

    fn offer_invalid(&mut self, p: &[f64]) {
        let pv = p.to_vec();
        let which = Hx::new().fs(p).u(78).finish();
        let neg = if which & 1 == 0 { -1.0 } else { 0.0 };
        let accepted = catch(std::panic::AssertUnwindSafe(|| match self {
            Lib::Normal(o) => {
                o.set_sigma(-1.0);
            }
            Lib::Gamma(o) => {
                if which & 2 == 0 {
                    o.set_alpha(neg);
                } else {
                    o.set_beta(neg);
                }
            }
            Lib::Beta(o) => {
                if which & 2 == 0 {
                    o.set_alpha(neg);
                } else {
                    o.set_beta(neg);
                }
            }
            Lib::ChiSquared(o) => {
                o.set_dof(0);
            }
            Lib::T(o) => {
                o.set_dof(neg);
            }
            Lib::Pareto(o) => {
                if which & 2 == 0 {
                    o.set_alpha(neg);
                } else {
                    o.set_minval(neg);
                }
            }
            Lib::Gumbel(o) => {
                o.set_beta(neg);
            }
            Lib::Exponential(o) => {
                o.set_lambda(neg);
            }
            Lib::Poisson(o) => {
                o.set_lambda(neg);
            }
            Lib::Binomial(o) => {
                o.set_p(if which & 2 == 0 { -0.5 } else { 1.5 });
            }
            Lib::Bernoulli(o) => {
                o.set_p(if which & 2 == 0 { -0.5 } else { 1.5 });
            }
            Lib::Uniform(_) | Lib::DiscreteUniform(_) => {}
        }))
        .is_ok();
        if accepted {
            // not rejected (C18's business): put the valid values back so that this check judges `p`
            let _ = catch(std::panic::AssertUnwindSafe(|| match self {
                Lib::Normal(o) => {
                    o.set_sigma(pv[1]);
                }
                Lib::Gamma(o) => {
                    o.set_alpha(pv[0]).set_beta(pv[1]);
                }
                Lib::Beta(o) => {
                    o.set_alpha(pv[0]).set_beta(pv[1]);
                }
                Lib::ChiSquared(o) => {
                    o.set_dof(pv[0] as usize);
                }
                Lib::T(o) => {
                    o.set_dof(pv[0]);
                }
                Lib::Pareto(o) => {
                    o.set_alpha(pv[0]).set_minval(pv[1]);
                }
                Lib::Gumbel(o) => {
                    o.set_beta(pv[1]);
                }
                Lib::Exponential(o) => {
                    o.set_lambda(pv[0]);
                }
                Lib::Poisson(o) => {
                    o.set_lambda(pv[0]);
                }
                Lib::Binomial(o) => {
                    o.set_p(pv[1]);
                }
                Lib::Bernoulli(o) => {
                    o.set_p(pv[0]);
                }
                Lib::Uniform(_) | Lib::DiscreteUniform(_) => {}
            }));
        }
    }

    fn reach(d: D, p: &[f64]) -> Result<Lib, Fail> {
        let route = (Hx::new().fs(p).finish() % 3) as u8;
        if route == 0 {
            return Lib::direct(d, p);
        }
        let start: Vec<f64> = match d {
            D::Normal => vec![-3.0, 2.5],
            D::Gamma => vec![3.5, 0.75],
            D::Beta => vec![2.5, 0.75],
            D::ChiSquared => vec![7.0],
            D::T => vec![7.5],
            D::Pareto => vec![3.5, 0.25],
            D::Gumbel => vec![2.0, 3.5],
            D::Exponential => vec![0.25],
            D::Uniform => vec![-4.0, 9.0],
            D::Poisson => vec![50.0],
            D::Binomial => vec![23.0, 0.3],
            D::Bernoulli => vec![0.3],
            D::DiscreteUniform => vec![-4.0, 9.0],
        };
        let mut l = Lib::direct(d, &start)?;
        let pv = p.to_vec();
        let bounds = matches!(d, D::Uniform | D::DiscreteUniform);
        let r = catch(std::panic::AssertUnwindSafe(|| {
            if route == 1 || bounds {
                match &mut l {
                    Lib::Normal(o) => o.update(&pv),
                    Lib::Gamma(o) => o.update(&pv),
                    Lib::Beta(o) => o.update(&pv),
                    Lib::ChiSquared(o) => o.update(&pv),
                    Lib::T(o) => o.update(&pv),
                    Lib::Pareto(o) => o.update(&pv),
                    Lib::Gumbel(o) => o.update(&pv),
                    Lib::Exponential(o) => o.update(&pv),
                    Lib::Uniform(o) => o.update(&pv),
                    Lib::Poisson(o) => o.update(&pv),
                    Lib::Binomial(o) => o.update(&pv),
                    Lib::Bernoulli(o) => o.update(&pv),
                    Lib::DiscreteUniform(o) => o.update(&pv),
                }
            } else {
                match &mut l {
                    Lib::Normal(o) => {
                        o.set_mu(pv[0]).set_sigma(pv[1]);
                    }
                    Lib::Gamma(o) => {
                        o.set_beta(pv[1]).set_alpha(pv[0]).set_beta(pv[1]);
                    }
                    Lib::Beta(o) => {
                        o.set_alpha(pv[0]).set_beta(pv[1]);
                    }
                    Lib::ChiSquared(o) => {
                        o.set_dof(pv[0] as usize);
                    }
                    Lib::T(o) => {
                        o.set_dof(pv[0]);
                    }
                    Lib::Pareto(o) => {
                        o.set_minval(pv[1]).set_alpha(pv[0]);
                    }
                    Lib::Gumbel(o) => {
                        o.set_beta(pv[1]).set_mu(pv[0]);
                    }
                    Lib::Exponential(o) => {
                        o.set_lambda(pv[0]);
                    }
                    Lib::Poisson(o) => {
                        o.set_lambda(pv[0]);
                    }
                    Lib::Binomial(o) => {
                        o.set_p(pv[1]).set_n(pv[0] as u64);
                    }
                    Lib::Bernoulli(o) => {
                        o.set_p(pv[0]);
                    }
                    Lib::Uniform(_) | Lib::DiscreteUniform(_) => {}
                }
            }
        }));
        match r {
            Ok(()) => Ok(l),
            Err(m) => fail(
                format!("C02/{}/reparameterise/panic", d.name()),
                format!("{}: moving a valid object from {:?} to the valid parameters {:?} by {} panicked: {}", d.name(), start, p, if route == 1 || bounds { "update" } else { "setters" }, m),
            ),
        }
    }

    fn direct(d: D, p: &[f64]) -> Result<Lib, Fail> {
        let r = catch(|| match d {
            D::Normal => Lib::Normal(Normal::new(p[0], p[1])),
            D::Gamma => Lib::Gamma(Gamma::new(p[0], p[1])),
            D::Beta => Lib::Beta(Beta::new(p[0], p[1])),
            D::ChiSquared => Lib::ChiSquared(ChiSquared::new(p[0] as usize)),
            D::T => Lib::T(T::new(p[0])),
            D::Pareto => Lib::Pareto(Pareto::new(p[0], p[1])),
            D::Gumbel => Lib::Gumbel(Gumbel::new(p[0], p[1])),
            D::Exponential => Lib::Exponential(Exponential::new(p[0])),
            D::Uniform => Lib::Uniform(Uniform::new(p[0], p[1])),
            D::Poisson => Lib::Poisson(Poisson::new(p[0])),
            D::Binomial => Lib::Binomial(Binomial::new(p[0] as u64, p[1])),
            D::Bernoulli => Lib::Bernoulli(Bernoulli::new(p[0])),
            D::DiscreteUniform => Lib::DiscreteUniform(DiscreteUniform::new(p[0] as i64, p[1] as i64)),
        });
        match r {
            Ok(l) => Ok(l),
            Err(m) => fail(format!("C02/{}/new/panic", d.name()), format!("{}::new{:?} panicked on valid parameters: {}", d.name(), p, m)),
        }
    }
    /// pdf for continuous laws, pmf(x as i64) for discrete ones (x is an exact integer then)
    pub fn dens(&self, x: f64) -> f64 {
        match self {
            Lib::Normal(l) => l.pdf(x),
            Lib::Gamma(l) => l.pdf(x),
            Lib::Beta(l) => l.pdf(x),
            Lib::ChiSquared(l) => l.pdf(x),
            Lib::T(l) => l.pdf(x),
            Lib::Pareto(l) => l.pdf(x),
            Lib::Gumbel(l) => l.pdf(x),
            Lib::Exponential(l) => l.pdf(x),
            Lib::Uniform(l) => l.pdf(x),
            Lib::Poisson(l) => l.pmf(x as i64),
            Lib::Binomial(l) => l.pmf(x as i64),
            Lib::Bernoulli(l) => l.pmf(x as i64),
            Lib::DiscreteUniform(l) => l.pmf(x as i64),
        }
    }
    pub fn pmf(&self, k: i64) -> f64 {
        match self {
            Lib::Poisson(l) => l.pmf(k),
            Lib::Binomial(l) => l.pmf(k),
            Lib::Bernoulli(l) => l.pmf(k),
            Lib::DiscreteUniform(l) => l.pmf(k),
            _ => f64::NAN,
        }
    }
    pub fn ln_pdf(&self, x: f64) -> f64 {
        match self {
            Lib::Normal(l) => l.ln_pdf(x),
            Lib::Gamma(l) => l.ln_pdf(x),
            Lib::Beta(l) => l.ln_pdf(x),
            Lib::ChiSquared(l) => l.ln_pdf(x),
            Lib::T(l) => l.ln_pdf(x),
            Lib::Pareto(l) => l.ln_pdf(x),
            Lib::Gumbel(l) => l.ln_pdf(x),
            Lib::Exponential(l) => l.ln_pdf(x),
            Lib::Uniform(l) => l.ln_pdf(x),
            _ => f64::NAN,
        }
    }
    pub fn mean(&self) -> f64 {
        match self {
            Lib::Normal(l) => l.mean(),
            Lib::Gamma(l) => l.mean(),
            Lib::Beta(l) => l.mean(),
            Lib::ChiSquared(l) => l.mean(),
            Lib::T(l) => l.mean(),
            Lib::Pareto(l) => l.mean(),
            Lib::Gumbel(l) => l.mean(),
            Lib::Exponential(l) => l.mean(),
            Lib::Uniform(l) => l.mean(),
            Lib::Poisson(l) => l.mean(),
            Lib::Binomial(l) => l.mean(),
            Lib::Bernoulli(l) => l.mean(),
            Lib::DiscreteUniform(l) => l.mean(),
        }
    }
    pub fn var(&self) -> f64 {
        match self {
            Lib::Normal(l) => l.var(),
            Lib::Gamma(l) => l.var(),
            Lib::Beta(l) => l.var(),
            Lib::ChiSquared(l) => l.var(),
            Lib::T(l) => l.var(),
            Lib::Pareto(l) => l.var(),
            Lib::Gumbel(l) => l.var(),
            Lib::Exponential(l) => l.var(),
            Lib::Uniform(l) => l.var(),
            Lib::Poisson(l) => l.var(),
            Lib::Binomial(l) => l.var(),
            Lib::Bernoulli(l) => l.var(),
            Lib::DiscreteUniform(l) => l.var(),
        }
    }
}

// ------------------------------------------------------------------------------------------------
// textbook oracle
// ------------------------------------------------------------------------------------------------

#[derive(Clone, Copy, Debug, PartialEq, Eq)]
pub enum Zone {
    /// in the support: the formula applies
    Inside,
    /// end point of an *open* support interval (Gamma/ChiSquared at 0, Beta at 0 and 1): both 0 and the
    /// limit of the formula are accepted
    Edge,
    Outside,
}

/// Textbook value at a point: total log-density, the logs of the intermediate quantities of the
/// textbook formula evaluated in its natural order, and the zone.
#[derive(Clone, Copy, Debug)]
pub struct Tb {
    pub ln: f64,
    pub zone: Zone,
    inter: [f64; 10],
    n: usize,
}

impl Tb {
    fn new(zone: Zone, ln: f64, inter: &[f64]) -> Tb {
        let mut a = [0.0; 10];
        a[..inter.len()].copy_from_slice(inter);
        Tb { ln, zone, inter: a, n: inter.len() }
    }
    /// Domain restriction of the pointwise clause (DESIGN §4 C02): the textbook formula itself, evaluated
    /// factor by factor in its natural order, has representable intermediates at this point: none
    /// overflows (log ≤ 700), and none leaves the normal range downwards (log ≥ −700) unless the density
    /// itself is below e^−700 ≈ 1e-304, in which case 0 is within the absolute tolerance anyway.
    pub fn representable(&self) -> bool {
        let mut lo = self.ln;
        let mut hi = self.ln;
        for &v in &self.inter[..self.n] {
            if v.is_nan() {
                return false;
            }
            lo = lo.min(v);
            hi = hi.max(v);
        }
        if self.ln.is_nan() {
            return false;
        }
        hi <= 700.0 && (lo >= -700.0 || self.ln <= -700.0)
    }
}

/// Per-parameter constants of the textbook formulas.
#[derive(Clone, Debug)]
pub struct Tbk {
    pub d: D,
    pub p: [f64; 2],
    g: [f64; 4],
}

fn xlogy(x: f64, lny: f64) -> f64 {
    if x == 0.0 {
        0.0
    } else {
        x * lny
    }
}

impl Tbk {
    pub fn new(d: D, p: &[f64]) -> Tbk {
        let p2 = [p[0], if p.len() > 1 { p[1] } else { 0.0 }];
        let mut g = [0.0; 4];
        match d {
            D::Gamma => {
                g[0] = p2[0] * p2[1].ln(); // ln β^α
                g[1] = lgam(p2[0]);
            }
            D::Beta => {
                g[0] = lgam(p2[0]);
                g[1] = lgam(p2[1]);
                g[2] = lgam(p2[0] + p2[1]);
            }
            D::ChiSquared => {
                let h = p2[0] / 2.0;
                g[0] = h * std::f64::consts::LN_2;
                g[1] = lgam(h);
            }
            D::T => {
                g[0] = lgam((p2[0] + 1.0) / 2.0);
                g[1] = lgam(p2[0] / 2.0);
                g[2] = 0.5 * (p2[0] * std::f64::consts::PI).ln();
            }
            D::Pareto => {
                g[0] = p2[0] * p2[1].ln(); // ln m^α
                g[1] = p2[0].ln();
            }
            _ => {}
        }
        Tbk { d, p: p2, g }
    }

    /// Continuous laws.
    pub fn at(&self, x: f64) -> Tb {
        let p = &self.p;
        let g = &self.g;
        let out = Tb::new(Zone::Outside, f64::NEG_INFINITY, &[]);
        match self.d {
            D::Normal => {
                let z = (x - p[0]) / p[1];
                let a = -(p[1].ln() + 0.5 * LN_2PI);
                let b = -0.5 * z * z;
                Tb::new(Zone::Inside, a + b, &[a, b])
            }
            D::Gamma => {
                if x < 0.0 {
                    return out;
                }
                let (al, be) = (p[0], p[1]);
                if x == 0.0 {
                    let lim = if al < 1.0 {
                        f64::INFINITY
                    } else if al == 1.0 {
                        be.ln()
                    } else {
                        f64::NEG_INFINITY
                    };
                    return Tb::new(Zone::Edge, lim, &[g[0], g[1], g[0] - g[1]]);
                }
                let c = xlogy(al - 1.0, x.ln());
                let e = -be * x;
                Tb::new(Zone::Inside, g[0] - g[1] + c + e, &[g[0], g[1], g[0] - g[1], c, g[0] - g[1] + c, e])
            }
            D::Beta => {
                if !(0.0..=1.0).contains(&x) {
                    return out;
                }
                let (a, b) = (p[0], p[1]);
                let lnb = g[0] + g[1] - g[2];
                let base = [g[0], g[1], g[0] + g[1], g[2], lnb];
                if x == 0.0 || x == 1.0 {
                    let sh = if x == 0.0 { a } else { b };
                    let other = if x == 0.0 { b } else { a };
                    let _ = other;
                    let lim = if sh < 1.0 {
                        f64::INFINITY
                    } else if sh == 1.0 {
                        -lnb
                    } else {
                        f64::NEG_INFINITY
                    };
                    return Tb::new(Zone::Edge, lim, &base);
                }
                let u = xlogy(a - 1.0, x.ln());
                let v = xlogy(b - 1.0, (-x).ln_1p());
                Tb::new(Zone::Inside, u + v - lnb, &[base[0], base[1], base[2], base[3], base[4], u, v, u + v])
            }
            D::ChiSquared => {
                if x < 0.0 {
                    return out;
                }
                let h = p[0] / 2.0;
                let den = g[0] + g[1];
                if x == 0.0 {
                    let lim = if h < 1.0 {
                        f64::INFINITY
                    } else if h == 1.0 {
                        -den
                    } else {
                        f64::NEG_INFINITY
                    };
                    return Tb::new(Zone::Edge, lim, &[g[0], g[1], den]);
                }
                let c = xlogy(h - 1.0, x.ln());
                let e = -x / 2.0;
                Tb::new(Zone::Inside, -den + c + e, &[g[0], g[1], den, c, -den + c, e])
            }
            D::T => {
                let nu = p[0];
                let x2 = 2.0 * x.abs().ln(); // ln x² (the formula squares x)
                let norm = g[0] - g[2] - g[1];
                let pw = -(nu + 1.0) / 2.0 * (x / nu * x).ln_1p();
                let pw = if x.abs() > 1e150 { -(nu + 1.0) / 2.0 * (x2 - nu.ln()) } else { pw };
                Tb::new(Zone::Inside, norm + pw, &[g[0], g[1], g[2], g[1] + g[2], norm, if x == 0.0 { 0.0 } else { x2 }, pw])
            }
            D::Pareto => {
                let (al, m) = (p[0], p[1]);
                if x < m {
                    return out;
                }
                let num = g[1] + g[0];
                let den = (al + 1.0) * x.ln();
                Tb::new(Zone::Inside, num - den, &[g[0], num, den])
            }
            D::Gumbel => {
                let z = (x - p[0]) / p[1];
                let a = -p[1].ln();
                let b = -(z + (-z).exp());
                Tb::new(Zone::Inside, a + b, &[a, if b == f64::NEG_INFINITY { -1e300 } else { b }])
            }
            D::Exponential => {
                if x < 0.0 {
                    return out;
                }
                let a = p[0].ln();
                let b = -p[0] * x;
                Tb::new(Zone::Inside, a + b, &[a, b])
            }
            D::Uniform => {
                if x < p[0] || x > p[1] {
                    return out;
                }
                let a = -(p[1] - p[0]).ln();
                Tb::new(Zone::Inside, a, &[a])
            }
            _ => Tb::new(Zone::Outside, f64::NAN, &[]),
        }
    }

    /// Discrete laws: (ln pmf, in support). Evaluated in double-double with an exact ln k! table, so
    /// the oracle's own rounding is ≲ 1e-15 even where the terms are ~1e4.
    pub fn at_k(&self, k: i64) -> (f64, bool) {
        let p = &self.p;
        match self.d {
            D::Poisson => {
                if k < 0 {
                    return (f64::NEG_INFINITY, false);
                }
                let lam = DD::new(p[0]);
                let v = lam.ln() * DD::new(k as f64) - lam - ln_fact(k as u64);
                (v.f(), true)
            }
            D::Binomial => {
                let n = p[0] as i64;
                let q = p[1];
                if k < 0 || k > n {
                    return (f64::NEG_INFINITY, false);
                }
                if q == 0.0 {
                    return (if k == 0 { 0.0 } else { f64::NEG_INFINITY }, true);
                }
                if q == 1.0 {
                    return (if k == n { 0.0 } else { f64::NEG_INFINITY }, true);
                }
                let lnc = ln_fact(n as u64) - ln_fact(k as u64) - ln_fact((n - k) as u64);
                let lp = DD::new(q).ln();
                let l1p = (DD::ONE - DD::new(q)).ln();
                let v = lnc + lp * DD::new(k as f64) + l1p * DD::new((n - k) as f64);
                (v.f(), true)
            }
            D::Bernoulli => match k {
                0 => ((1.0 - p[0]).ln(), true),
                1 => (p[0].ln(), true),
                _ => (f64::NEG_INFINITY, false),
            },
            D::DiscreteUniform => {
                let (a, b) = (p[0] as i64, p[1] as i64);
                if k < a || k > b {
                    (f64::NEG_INFINITY, false)
                } else {
                    (-((b - a + 1) as f64).ln(), true)
                }
            }
            _ => (f64::NAN, false),
        }
    }

    /// Textbook mean: (value, magnitude of the terms it is built from). NaN = not finite / undefined.
    pub fn mean(&self) -> (f64, f64) {
        let p = &self.p;
        match self.d {
            D::Normal => (p[0], p[0].abs()),
            D::Gamma => (p[0] / p[1], p[0] / p[1]),
            D::Beta => (p[0] / (p[0] + p[1]), 1.0),
            D::ChiSquared => (p[0], p[0]),
            D::T => (if p[0] > 1.0 { 0.0 } else { f64::NAN }, 0.0),
            D::Pareto => {
                if p[0] > 1.0 {
                    let m = p[0] * p[1] / (p[0] - 1.0);
                    (m, m)
                } else {
                    (f64::NAN, 0.0)
                }
            }
            D::Gumbel => (p[0] + p[1] * EULER, p[0].abs() + p[1] * EULER),
            D::Exponential => (1.0 / p[0], 1.0 / p[0]),
            D::Uniform => (0.5 * p[0] + 0.5 * p[1], 0.5 * p[0].abs() + 0.5 * p[1].abs()),
            D::Poisson => (p[0], p[0]),
            D::Binomial => (p[0] * p[1], p[0] * p[1]),
            D::Bernoulli => (p[0], p[0]),
            D::DiscreteUniform => (0.5 * p[0] + 0.5 * p[1], 0.5 * p[0].abs() + 0.5 * p[1].abs()),
        }
    }

    /// Textbook variance (NaN when not finite).
    pub fn var(&self) -> f64 {
        let p = &self.p;
        match self.d {
            D::Normal => p[1] * p[1],
            D::Gamma => p[0] / (p[1] * p[1]),
            D::Beta => {
                let s = p[0] + p[1];
                p[0] / s * (p[1] / s) / (s + 1.0)
            }
            D::ChiSquared => 2.0 * p[0],
            D::T => {
                if p[0] > 2.0 {
                    p[0] / (p[0] - 2.0)
                } else {
                    f64::NAN
                }
            }
            D::Pareto => {
                if p[0] > 2.0 {
                    let r = p[1] / (p[0] - 1.0);
                    r * r * p[0] / (p[0] - 2.0)
                } else {
                    f64::NAN
                }
            }
            D::Gumbel => std::f64::consts::PI * std::f64::consts::PI / 6.0 * p[1] * p[1],
            D::Exponential => 1.0 / (p[0] * p[0]),
            D::Uniform => {
                let w = p[1] - p[0];
                w * w / 12.0
            }
            D::Poisson => p[0],
            D::Binomial => p[0] * p[1] * (1.0 - p[1]),
            D::Bernoulli => p[0] * (1.0 - p[0]),
            D::DiscreteUniform => {
                let n = p[1] - p[0] + 1.0;
                (n * n - 1.0) / 12.0
            }
        }
    }

    /// A centre and a scale that locate the bulk of the law (used for evaluation points and panels).
    pub fn centre_scale(&self) -> (f64, f64) {
        let p = &self.p;
        match self.d {
            D::Normal | D::Gumbel => (p[0], p[1]),
            D::T => (0.0, 1.0),
            D::Pareto => (p[1], p[1] / p[0].min(1e3)),
            D::Uniform => (0.5 * p[0] + 0.5 * p[1], p[1] - p[0]),
            _ => (self.mean().0, self.var().sqrt()),
        }
    }
}

/// ln k! in double-double, exact summation of dd logarithms (table up to 4096, Stirling-free).
fn ln_fact(k: u64) -> DD {
    static T: OnceLock<Vec<DD>> = OnceLock::new();
    let t = T.get_or_init(|| {
        let mut v = Vec::with_capacity(4097);
        let mut s = DD::ZERO;
        v.push(s);
        for i in 1..=4096u64 {
            s = s + DD::new(i as f64).ln();
            v.push(s);
        }
        v
    });
    if (k as usize) < t.len() {
        t[k as usize]
    } else {
        // beyond the table: continue the exact sum (only reached by decoded replay files)
        let mut s = t[t.len() - 1];
        for i in t.len() as u64..=k.min(2_000_000) {
            s = s + DD::new(i as f64).ln();
        }
        s
    }
}

pub fn self_test() -> bool {
    // ln k! table against lgamma, lgamma against known values
    let a = ln_fact(20).f();
    if (a - 2432902008176640000f64.ln()).abs() > 1e-13 {
        return false;
    }
    if (ln_fact(1000).f() - lgam(1001.0)).abs() > 1e-10 {
        return false;
    }
    if (lgam(0.5) - 0.5 * std::f64::consts::PI.ln()).abs() > 1e-15 || (lgam(6.0) - 120f64.ln()).abs() > 1e-14 {
        return false;
    }
    // textbook oracle: Normal(0,1) at 0, Gamma(2,1) at 1, Binomial(10, .5) at 5, Poisson(3) at 0
    let n = Tbk::new(D::Normal, &[0.0, 1.0]).at(0.0).ln.exp();
    let g = Tbk::new(D::Gamma, &[2.0, 1.0]).at(1.0).ln.exp();
    let b = Tbk::new(D::Binomial, &[10.0, 0.5]).at_k(5).0.exp();
    let p0 = Tbk::new(D::Poisson, &[3.0]).at_k(0).0.exp();
    let t = Tbk::new(D::T, &[3.0]).at(1.0).ln.exp();
    (n - 0.3989422804014327).abs() < 1e-15
        && (g - (-1.0f64).exp()).abs() < 1e-15
        && (b - 252.0 / 1024.0).abs() < 1e-15
        && (p0 - (-3.0f64).exp()).abs() < 1e-16
        && (t - 0.20674833578317203).abs() < 1e-14
        && unsafe { (erfc(0.5) - 0.4795001221869535).abs() < 1e-15 }
}

// ------------------------------------------------------------------------------------------------
// univariate case, evaluation points
// ------------------------------------------------------------------------------------------------

#[derive(Clone, Debug, Serialize, Deserialize)]
pub struct UCase {
    pub dist: String,
    /// parameters in constructor order (integers as exact floats)
    pub p: Vec<f64>,
    /// evaluation points of a continuous law
    #[serde(with = "crate::engine::fx::v", default)]
    pub xs: Vec<f64>,
    /// evaluation points of a discrete law
    #[serde(default)]
    pub ks: Vec<i64>,
}

fn next_up(x: f64) -> f64 {
    if x.is_nan() || x == f64::INFINITY {
        return x;
    }
    if x == 0.0 {
        return f64::from_bits(1);
    }
    let b = x.to_bits();
    f64::from_bits(if x > 0.0 { b + 1 } else { b - 1 })
}
fn next_down(x: f64) -> f64 {
    -next_up(-x)
}

/// Evaluation points: across the support (bulk grid around centre ± k·scale and relative to the
/// support's end), on its boundary and one ulp to either side, outside it, far in the tails; plus
/// points steered by the random selectors `us` ∈ [0,1).
pub fn points(d: D, p: &[f64], us: &[f64]) -> (Vec<f64>, Vec<i64>) {
    let tk = Tbk::new(d, p);
    let (c, s) = tk.centre_scale();
    let mut xs: Vec<f64> = vec![];
    let mut ks: Vec<i64> = vec![];
    match d {
        D::Normal | D::Gumbel | D::T => {
            for &z in &[0.0, 0.25, 1.0, 2.0, 4.0, 8.0, 16.0, 30.0, 36.0, 1e3, 1e6] {
                xs.push(c + s * z);
                if z != 0.0 {
                    xs.push(c - s * z);
                }
            }
            if d == D::T {
                xs.extend_from_slice(&[1e12, -1e12, 1e40, -1e100, 1e160, 5e-324, -1e-300]);
            }
            for &u in us {
                let t = 2.0 * u - 1.0;
                xs.push(c + s * 40.0 * t * t * t);
            }
        }
        D::Gamma | D::ChiSquared | D::Exponential => {
            let m = c;
            xs.extend_from_slice(&[0.0, f64::from_bits(1), 1e-300, 1e-100, 1e-10 * m, 1e-3 * m, 0.1 * m, 0.5 * m, m]);
            for &k in &[-3.0, -1.0, 1.0, 3.0, 10.0, 40.0] {
                xs.push(m + k * s);
            }
            xs.extend_from_slice(&[1e3 * m, 1e6 * m, 1e300]);
            xs.extend_from_slice(&[-f64::from_bits(1), -1e-300, -1e-3 * m, -m, -1.0, -1e6, -1e300]);
            for &u in us {
                // log-uniform over 12 decades around the mean, and a few negative points
                if u < 0.85 {
                    xs.push(m * 10f64.powf(-8.0 + 12.0 * u / 0.85));
                } else {
                    xs.push(-m * 10f64.powf(-6.0 + 12.0 * (u - 0.85) / 0.15));
                }
            }
        }
        D::Beta => {
            xs.extend_from_slice(&[0.0, 1.0, f64::from_bits(1), 1e-300, 1e-17, 1e-8, 1e-3, 0.1, 0.25, 0.5, 0.75, 0.9, 1.0 - 1e-3, 1.0 - 1e-8, next_down(1.0)]);
            for &k in &[-3.0, -1.0, 0.0, 1.0, 3.0] {
                xs.push(c + k * s);
            }
            xs.extend_from_slice(&[-f64::from_bits(1), -1e-300, -1e-3, -1.0, -1e6, next_up(1.0), 1.001, 1.5, 2.0, 1e6]);
            for &u in us {
                if u < 0.8 {
                    xs.push(u / 0.8);
                } else {
                    xs.push(-1.0 + 3.0 * (u - 0.8) / 0.2);
                }
            }
        }
        D::Pareto => {
            let m = p[1];
            for &r in &[1.0, 1.0 + 1e-10, 1.001, 1.1, 2.0, 10.0, 1e3, 1e10, 1e50, 1e100] {
                xs.push(m * r);
            }
            xs.push(next_up(m));
            xs.extend_from_slice(&[next_down(m), 0.999 * m, 0.5 * m, 0.0, -m, -1e6, 1e-300]);
            for &u in us {
                if u < 0.8 {
                    xs.push(m * (1.0 + 10f64.powf(-6.0 + 14.0 * u / 0.8)));
                } else {
                    xs.push(m * (1.0 - (u - 0.8) / 0.2 * 3.0));
                }
            }
        }
        D::Uniform => {
            let (a, b) = (p[0], p[1]);
            let w = b - a;
            xs.extend_from_slice(&[a, b, next_up(a), next_down(b), c, a + 0.25 * w, a + 0.75 * w]);
            xs.extend_from_slice(&[next_down(a), next_up(b), a - 1.0, b + 1.0, a - w, b + w, -1e6, 1e6, -1e300, 1e300]);
            for &u in us {
                xs.push(a + w * (3.0 * u - 1.0));
            }
        }
        D::Poisson => {
            let lam = p[0];
            let sd = lam.sqrt();
            for &z in &[-40.0, -5.0, -1.0, 0.0, 1.0, 5.0, 20.0, 40.0] {
                let k = (lam + z * sd + if z > 5.0 { z } else { 0.0 }).round();
                if k >= 0.0 {
                    ks.push(k as i64);
                }
            }
            ks.extend_from_slice(&[0, 1, 2, 3, lam.floor() as i64, lam.ceil() as i64, -1, -2, -1000, i64::MIN]);
            for &u in us {
                if u < 0.85 {
                    let t = 2.0 * u / 0.85 - 1.0;
                    ks.push((lam + 12.0 * (sd + 1.0) * t * t * t).round().max(0.0) as i64);
                } else {
                    ks.push(-1 - ((u - 0.85) / 0.15 * 1e4) as i64);
                }
            }
        }
        D::Binomial => {
            let n = p[0] as i64;
            let np = p[0] * p[1];
            let sd = (np * (1.0 - p[1])).sqrt();
            for &z in &[-8.0, -3.0, -1.0, 0.0, 1.0, 3.0, 8.0] {
                let k = (np + z * sd).round() as i64;
                if k >= 0 && k <= n {
                    ks.push(k);
                }
            }
            for &k in &[0, 1, 2, n / 2, n - 2, n - 1, n] {
                if k >= 0 && k <= n {
                    ks.push(k);
                }
            }
            ks.extend_from_slice(&[-1, -2, -1000, n + 1, n + 2, 2 * n + 5, i64::MAX, i64::MIN]);
            for &u in us {
                if u < 0.8 {
                    ks.push(((u / 0.8) * (n as f64 + 1.0)).floor().min(n as f64) as i64);
                } else if u < 0.9 {
                    ks.push(-1 - ((u - 0.8) / 0.1 * 1e3) as i64);
                } else {
                    ks.push(n + 1 + ((u - 0.9) / 0.1 * 1e3) as i64);
                }
            }
        }
        D::Bernoulli => {
            ks.extend_from_slice(&[0, 1, -1, 2, -2, 3, 1000, -1000, i64::MAX, i64::MIN]);
        }
        D::DiscreteUniform => {
            let (a, b) = (p[0] as i64, p[1] as i64);
            for dlt in -2i64..=2 {
                ks.push(a + dlt);
                ks.push(b + dlt);
            }
            ks.extend_from_slice(&[a + (b - a) / 2, 0, -1_000_000, 1_000_000, i64::MAX, i64::MIN]);
            for &u in us {
                let w = (b - a + 1) as f64;
                ks.push(a + (w * (3.0 * u - 1.0)).floor() as i64);
            }
        }
    }
    xs.retain(|x| x.is_finite());
    (xs, ks)
}

fn hash_case(c: &UCase) -> u64 {
    let mut h = Hx::new().s(&c.dist).fs(&c.p).fs(&c.xs).u(c.ks.len() as u64);
    for k in &c.ks {
        h = h.i(*k);
    }
    h.finish()
}

/// Parameter regime label for the class histogram.
fn regime(d: D, p: &[f64]) -> String {
    let sh = |a: f64| -> &'static str {
        if a < 1.0 {
            "<1"
        } else if a == 1.0 {
            "=1"
        } else if a <= 60.0 {
            ">1"
        } else {
            "large"
        }
    };
    let mag = |a: f64| -> &'static str {
        if a < 0.1 {
            "small"
        } else if a <= 10.0 {
            "mid"
        } else {
            "big"
        }
    };
    match d {
        D::Normal | D::Gumbel => format!("loc{}/scale-{}", if p[0] == 0.0 { "=0" } else if p[0] > 0.0 { ">0" } else { "<0" }, mag(p[1])),
        D::Gamma => format!("shape{}/rate-{}", sh(p[0]), mag(p[1])),
        D::Beta => format!("a{}/b{}", sh(p[0]), sh(p[1])),
        D::ChiSquared => format!("dof{}", if p[0] <= 2.0 { format!("={}", p[0]) } else if p[0] <= 200.0 { "3..200".into() } else { ">200".into() }),
        D::T => format!("dof{}", if p[0] <= 1.0 { "<=1" } else if p[0] <= 2.0 { "(1,2]" } else if p[0] <= 200.0 { "(2,200]" } else { ">200" }),
        D::Pareto => format!("alpha{}/min-{}", if p[0] <= 1.0 { "<=1" } else if p[0] <= 2.0 { "(1,2]" } else if p[0] <= 60.0 { ">2" } else { "large" }, mag(p[1])),
        D::Exponential | D::Poisson => format!("rate-{}", if p[0] < 0.1 { "small" } else if p[0] <= 10.0 { "mid" } else if p[0] <= 140.0 { "big" } else { ">140" }),
        D::Uniform => format!("signs{}{}/width-{}", if p[0] < 0.0 { "-" } else { "+" }, if p[1] < 0.0 { "-" } else { "+" }, mag(p[1] - p[0])),
        D::Binomial => format!(
            "n{}/p{}",
            if p[0] <= 2.0 { format!("={}", p[0]) } else if p[0] <= 67.0 { "3..67".into() } else { ">67".into() },
            if p[1] == 0.0 { "=0" } else if p[1] == 1.0 { "=1" } else if p[1] <= 0.5 { "<=.5" } else { ">.5" }
        ),
        D::Bernoulli => format!("p{}", if p[0] == 0.0 { "=0" } else if p[0] == 1.0 { "=1" } else { "in(0,1)" }),
        D::DiscreteUniform => format!(
            "signs{}{}/{}",
            if p[0] < 0.0 { "-" } else { "+" },
            if p[1] < 0.0 { "-" } else { "+" },
            if p[0] == p[1] { "single" } else if (p[0] + p[1]) % 2.0 != 0.0 { "odd-sum" } else { "even-sum" }
        ),
    }
}

fn parse(c: &UCase) -> Option<D> {
    let d = D::from_name(&c.dist)?;
    if !valid(d, &c.p) {
        return None;
    }
    Some(d)
}

/// relative tolerance of the pointwise clause (DESIGN: 1e-10 relative + 1e-300 absolute)
const PT_REL: f64 = 1e-10;
const PT_ABS: f64 = 1e-300;

/// Evaluate the library density at one point, turning a panic into the shared panic signature.
fn lib_dens(d: D, lib: &Lib, p: &[f64], x: f64, k: Option<i64>) -> Result<f64, Fail> {
    let r = catch(|| match k {
        Some(k) => lib.pmf(k),
        None => lib.dens(x),
    });
    match r {
        Ok(v) => Ok(v),
        Err(m) => {
            let f = if d.discrete() { "pmf" } else { "pdf" };
            fail(
                format!("C02/{}/{}/panic", d.name(), f),
                format!("{}{:?}.{}({}) panicked at a point of the support: {}", d.name(), p, f, k.map(|k| k.to_string()).unwrap_or(format!("{:e}", x)), m),
            )
        }
    }
}

// ------------------------------------------------------------------------------------------------
// clause: pointwise value inside the support
// ------------------------------------------------------------------------------------------------

pub fn check_point(ctx: &mut Ctx, c: &UCase) -> R {
    let d = match parse(c) {
        Some(d) => d,
        None => return Ok(()),
    };
    let f = if d.discrete() { "pmf" } else { "pdf" };
    let sub = format!("{}/{}", d.name(), f);
    let tk = Tbk::new(d, &c.p);
    // non-trivial: at least one in-support point with density > 1e-200
    let thr = (1e-200f64).ln();
    let nontrivial = if d.discrete() {
        c.ks.iter().any(|&k| {
            let (l, ins) = tk.at_k(k);
            ins && l > thr
        })
    } else {
        c.xs.iter().any(|&x| {
            let t = tk.at(x);
            t.zone == Zone::Inside && t.ln > thr
        })
    };
    ctx.case(&sub, &regime(d, &c.p), nontrivial, hash_case(c));
    ctx.sample(&sub, || json!(c));
    let lib = Lib::new(d, &c.p)?;
    let sig = |t: &str| format!("C02/{}/{}/{}", d.name(), f, t);
    let mut skipped = 0u64;
    let mut judged = 0u64;
    if d.discrete() {
        for &k in &c.ks {
            let (ln, ins) = tk.at_k(k);
            if !ins {
                continue;
            }
            let got = lib_dens(d, &lib, &c.p, 0.0, Some(k))?;
            let want = ln.exp();
            ensure!(got.is_finite(), sig("not-finite"), "{}{:?}.pmf({}) = {:e}, expected {:e}", d.name(), c.p, k, got, want);
            ensure!(got >= 0.0, sig("negative"), "{}{:?}.pmf({}) = {:e}, expected {:e}", d.name(), c.p, k, got, want);
            let tol = PT_REL * want + PT_ABS;
            ctx.worst(&format!("{}: |pmf-textbook| / (1e-10 rel + 1e-300)", d.name()), (got - want).abs() / tol);
            ensure!((got - want).abs() <= tol, sig("value"), "{}{:?}.pmf({}) = {:e}, textbook {:e} (relative difference {:.3e})", d.name(), c.p, k, got, want, (got - want).abs() / want);
            judged += 1;
        }
    } else {
        for &x in &c.xs {
            let t = tk.at(x);
            if t.zone == Zone::Outside {
                continue;
            }
            let got = lib_dens(d, &lib, &c.p, x, None)?;
            if !t.representable() {
                skipped += 1;
                continue;
            }
            let want = t.ln.exp();
            ensure!(!got.is_nan(), sig("not-finite"), "{}{:?}.pdf({:e}) = {:e}, expected {:e}", d.name(), c.p, x, got, want);
            ensure!(got >= 0.0, sig("negative"), "{}{:?}.pdf({:e}) = {:e}, expected {:e}", d.name(), c.p, x, got, want);
            if t.zone == Zone::Edge && got == 0.0 {
                // end point of an open support interval: 0 is as good as the limit
                judged += 1;
                continue;
            }
            if want.is_finite() {
                ensure!(got.is_finite(), sig("not-finite"), "{}{:?}.pdf({:e}) = {:e}, expected the finite value {:e}", d.name(), c.p, x, got, want);
            } else {
                ensure!(got == want, sig("value"), "{}{:?}.pdf({:e}) = {:e}, expected {:e} (or 0) at the end point", d.name(), c.p, x, got, want);
                judged += 1;
                continue;
            }
            let tol = PT_REL * want + PT_ABS;
            ctx.worst(&format!("{}: |pdf-textbook| / (1e-10 rel + 1e-300)", d.name()), (got - want).abs() / tol);
            ensure!((got - want).abs() <= tol, sig("value"), "{}{:?}.pdf({:e}) = {:e}, textbook {:e} (relative difference {:.3e})", d.name(), c.p, x, got, want, (got - want).abs() / want);
            judged += 1;
        }
    }
    if skipped > 0 {
        ctx.label(&sub, "points-skipped:textbook-factor-not-representable");
    }
    if judged == 0 {
        ctx.label(&sub, "no-point-judged");
    }
    Ok(())
}

// ------------------------------------------------------------------------------------------------
// clause: outside the support the value is 0 and nothing panics
// ------------------------------------------------------------------------------------------------

pub fn check_outside(ctx: &mut Ctx, c: &UCase) -> R {
    let d = match parse(c) {
        Some(d) => d,
        None => return Ok(()),
    };
    if d.whole_line() {
        return Ok(());
    }
    let f = if d.discrete() { "pmf" } else { "pdf" };
    let sub = format!("{}/outside", d.name());
    let tk = Tbk::new(d, &c.p);
    let n_out = if d.discrete() { c.ks.iter().filter(|&&k| !tk.at_k(k).1).count() } else { c.xs.iter().filter(|&&x| tk.at(x).zone == Zone::Outside).count() };
    ctx.case(&sub, &regime(d, &c.p), n_out > 0, hash_case(c));
    ctx.sample(&sub, || json!(c));
    let lib = Lib::new(d, &c.p)?;
    let sig = |t: &str| format!("C02/{}/outside-support/{}", d.name(), t);
    let one = |x: f64, k: Option<i64>| -> R {
        let shown = k.map(|k| k.to_string()).unwrap_or(format!("{:e}", x));
        let r = catch(|| match k {
            Some(k) => lib.pmf(k),
            None => lib.dens(x),
        });
        match r {
            Err(m) => fail(sig("panic"), format!("{}{:?}.{}({}) panicked outside the support instead of returning 0: {}", d.name(), c.p, f, shown, m)),
            Ok(v) => {
                ensure!(v == 0.0, sig("nonzero"), "{}{:?}.{}({}) = {:e} outside the support, expected 0", d.name(), c.p, f, shown, v);
                Ok(())
            }
        }
    };
    if d.discrete() {
        for &k in &c.ks {
            if !tk.at_k(k).1 {
                one(0.0, Some(k))?;
            }
        }
    } else {
        for &x in &c.xs {
            if tk.at(x).zone == Zone::Outside {
                one(x, None)?;
            }
        }
    }
    Ok(())
}

// ------------------------------------------------------------------------------------------------
// clause: ln_pdf = ln(pdf)
// ------------------------------------------------------------------------------------------------

pub fn check_lnpdf(ctx: &mut Ctx, c: &UCase) -> R {
    let d = match parse(c) {
        Some(d) => d,
        None => return Ok(()),
    };
    if d.discrete() {
        return Ok(());
    }
    let sub = format!("{}/lnpdf", d.name());
    let tk = Tbk::new(d, &c.p);
    let thr = (1e-200f64).ln();
    let nontrivial = c.xs.iter().any(|&x| {
        let t = tk.at(x);
        t.zone == Zone::Inside && t.ln > thr
    });
    ctx.case(&sub, &regime(d, &c.p), nontrivial, hash_case(c));
    ctx.sample(&sub, || json!(c));
    let lib = Lib::new(d, &c.p)?;
    let sig = |t: &str| format!("C02/{}/lnpdf/{}", d.name(), t);
    for &x in &c.xs {
        let t = tk.at(x);
        let l = match catch(|| lib.ln_pdf(x)) {
            Ok(v) => v,
            Err(m) => return fail(sig("panic"), format!("{}{:?}.ln_pdf({:e}) panicked: {}", d.name(), c.p, x, m)),
        };
        if t.zone == Zone::Outside {
            ensure!(l == f64::NEG_INFINITY, sig("outside-support"), "{}{:?}.ln_pdf({:e}) = {:e} outside the support, expected ln 0 = -inf", d.name(), c.p, x, l);
            continue;
        }
        // purely relational clause: wherever the library's own density is a finite positive number — inside
        // the support or on its boundary (e.g. Beta(1, b) at 0, where the density is b) — the log-density must
        // be its logarithm; no textbook value is involved, so no representability gate is needed
        let pv = match catch(|| lib.dens(x)) {
            Ok(v) => v,
            Err(_) => continue, // reported by the pdf clause
        };
        if !(pv.is_finite() && pv > 1e-290) {
            continue;
        }
        let want = pv.ln();
        let tol = 1e-12 * want.abs().max(1.0);
        // "the density" is the textbook density: a log-density evaluated in closed form is right when it equals the
        // logarithm of the textbook value, even at parameters where the library's own pdf (a product of powers with
        // subnormal intermediates) has lost digits — so either reference is accepted
        let near_textbook = t.zone == Zone::Inside && t.ln.is_finite() && (l - t.ln).abs() <= 1e-11 * t.ln.abs().max(1.0);
        if !near_textbook {
            ctx.worst(&format!("{}: |ln_pdf - ln(pdf)| / 1e-12 max(1,|ln|)", d.name()), (l - want).abs() / tol);
        }
        ensure!(
            (l - want).abs() <= tol || near_textbook,
            sig("value"),
            "{}{:?}: ln_pdf({:e}) = {:e} but ln(pdf) = ln({:e}) = {:e} (logarithm of the textbook density: {:e})",
            d.name(), c.p, x, l, pv, want, t.ln
        );
    }
    Ok(())
}

// ------------------------------------------------------------------------------------------------
// clause: Normal cdf
// ------------------------------------------------------------------------------------------------

pub fn check_cdf(ctx: &mut Ctx, c: &UCase) -> R {
    let d = match parse(c) {
        Some(d) => d,
        None => return Ok(()),
    };
    if d != D::Normal {
        return Ok(());
    }
    ctx.case("Normal/cdf", &regime(d, &c.p), !c.xs.is_empty(), hash_case(c));
    ctx.sample("Normal/cdf", || json!(c));
    let lib = match Lib::new(d, &c.p)? {
        Lib::Normal(n) => n,
        _ => return Ok(()),
    };
    for &x in &c.xs {
        let z = (x - c.p[0]) / c.p[1];
        let want = 0.5 * unsafe { erfc(-z / std::f64::consts::SQRT_2) };
        let got = match catch(|| lib.cdf(x)) {
            Ok(v) => v,
            Err(m) => return fail("C02/Normal/cdf/panic", format!("Normal{:?}.cdf({:e}) panicked: {}", c.p, x, m)),
        };
        // A&S 7.1.26 has |error| ≤ 1.5e-7 for erf, i.e. 7.5e-8 for the cdf; bound 1e-7
        ctx.worst("Normal: |cdf - erfc oracle| / 1e-7", (got - want).abs() / 1e-7);
        ensure!((got - want).abs() <= 1e-7, "C02/Normal/cdf/value", "Normal{:?}.cdf({:e}) = {:e}, integral of the density = {:e} (z = {:e})", c.p, x, got, want, z);
    }
    Ok(())
}

// ------------------------------------------------------------------------------------------------
// moments of the library's own density by quadrature / summation
// ------------------------------------------------------------------------------------------------

/// Raw moments about `c` of the library density (`lib`) and, in parallel on the same nodes, of the
/// textbook density (`orc`, used only to decide whether the quadrature itself is adequate).
#[derive(Clone, Debug)]
pub struct Integ {
    pub lib: [f64; 3],
    pub orc: [f64; 3],
    pub c: f64,
    /// textbook mass / second moment sitting on nodes where the textbook formula is not representable
    pub bad: [f64; 2],
    pub evals: usize,
    /// non-finite library values met on representable in-support nodes
    pub nonfinite: usize,
    pub first_nonfinite: Option<f64>,
}

const BETA_CUT: f64 = 9.5367431640625e-7; // 2^-20

/// ∫_0^δ u^(b−1+j) (1−u)^(a−1) du / B(a,b), j = 0,1,2 (series in u; δ = 2^-20, a ≤ 171 ⇒ 5 terms give 1e-18)
fn beta_tail(a: f64, b: f64, delta: f64, lnb: f64) -> [f64; 3] {
    let mut out = [0.0; 3];
    for j in 0..3 {
        let mut coef = 1.0;
        let mut s = 0.0;
        for k in 0..6 {
            let e = b + j as f64 + k as f64;
            s += coef * (e * delta.ln()).exp() / e;
            coef *= -(a - 1.0 - k as f64) / (k as f64 + 1.0);
        }
        out[j] = s * (-lnb).exp();
    }
    out
}

pub fn integrate(d: D, p: &[f64], lib: &Lib) -> Result<Integ, Fail> {
    let tk = Tbk::new(d, p);
    if d.discrete() {
        return integrate_discrete(d, p, lib, &tk);
    }
    let (c0, s0) = tk.centre_scale();
    let (mean_tb, _) = tk.mean();
    let c = if mean_tb.is_finite() { mean_tb } else { c0 };
    // break points
    let mut br: Vec<f64> = vec![];
    let (mut left_inf, mut right_inf) = (false, false);
    let mut tail_fix: Option<[f64; 3]> = None;
    match d {
        D::Normal => {
            for &z in &[-8.0, -3.0, -1.0, 0.0, 1.0, 3.0, 8.0] {
                br.push(c0 + s0 * z);
            }
            left_inf = true;
            right_inf = true;
        }
        D::Gumbel => {
            for &z in &[-4.0, -2.0, 0.0, 2.0, 5.0, 12.0, 30.0] {
                br.push(c0 + s0 * z);
            }
            left_inf = true;
            right_inf = true;
        }
        D::T => {
            for &z in &[-30.0, -8.0, -3.0, -1.0, 0.0, 1.0, 3.0, 8.0, 30.0] {
                br.push(z);
            }
            left_inf = true;
            right_inf = true;
        }
        D::Gamma | D::ChiSquared | D::Exponential => {
            br.push(0.0);
            for &k in &[-8.0, -3.0, -1.0, 0.0, 1.0, 3.0, 8.0, 20.0] {
                let x = c0 + k * s0;
                if x > 0.0 {
                    br.push(x);
                }
            }
            right_inf = true;
        }
        D::Beta => {
            br.push(0.0);
            for &k in &[-8.0, -3.0, -1.0, 0.0, 1.0, 3.0, 8.0] {
                let x = c0 + k * s0;
                if x > 1e-3 && x < 1.0 - 1e-3 {
                    br.push(x);
                }
            }
            if p[1] < 1.0 {
                // (1−x)^(b−1) is singular at 1 and f64 cannot resolve 1−x below 1e-16: the piece
                // [1−2^-20, 1] is taken from the textbook formula (series), the rest from the library
                br.push(1.0 - BETA_CUT);
                let lnb = lgam(p[0]) + lgam(p[1]) - lgam(p[0] + p[1]);
                let t = beta_tail(p[0], p[1], BETA_CUT, lnb);
                let e = 1.0 - c;
                tail_fix = Some([t[0], e * t[0] - t[1], e * e * t[0] - 2.0 * e * t[1] + t[2]]);
            } else {
                br.push(1.0);
            }
        }
        D::Pareto => {
            for &y in &[0.0, 0.5, 1.5, 4.0, 10.0, 25.0] {
                br.push(p[1] * (y / p[0]).exp());
            }
            right_inf = true;
        }
        D::Uniform => {
            br.push(p[0]);
            br.push(p[1]);
        }
        _ => {}
    }
    br.retain(|x| x.is_finite());
    br.dedup_by(|a, b| *a <= *b);
    let sd = {
        let v = tk.var();
        if v.is_finite() && v > 0.0 {
            v.sqrt()
        } else {
            s0
        }
    };
    let mut failure: Option<Fail> = None;
    let mut nonfinite = 0usize;
    let mut first_nonfinite: Option<f64> = None;
    let mut f = |x: f64| -> [f64; 8] {
        let t = tk.at(x);
        if t.zone != Zone::Inside || failure.is_some() {
            return [0.0; 8];
        }
        let w = if t.ln.is_finite() { t.ln.exp() } else { 0.0 };
        let dx = x - c;
        let m = |v: f64| -> [f64; 3] {
            if v == 0.0 {
                [0.0; 3]
            } else {
                [v, v * dx, (v * dx) * dx]
            }
        };
        let o = m(w);
        if !t.representable() {
            return [0.0, 0.0, 0.0, o[0], o[1], o[2], o[0], o[2]];
        }
        let got = match lib_dens(d, lib, p, x, None) {
            Ok(v) => v,
            Err(e) => {
                failure = Some(e);
                return [0.0; 8];
            }
        };
        if !got.is_finite() {
            nonfinite += 1;
            if first_nonfinite.is_none() {
                first_nonfinite = Some(x);
            }
            return [0.0, 0.0, 0.0, o[0], o[1], o[2], 0.0, 0.0];
        }
        let l = m(got);
        [l[0], l[1], l[2], o[0], o[1], o[2], 0.0, 0.0]
    };
    let abs = [1e-15, 1e-15 * sd, 1e-15 * sd * sd, 1e-15, 1e-15 * sd, 1e-15 * sd * sd, 1e-15, 1e-15 * sd * sd];
    let rel = 1e-12;
    let mut tot = [0.0f64; 8];
    let mut evals = 0usize;
    for w in br.windows(2) {
        let (o, _) = quad::finite(w[0], w[1], |n| f(n.x), rel, abs, 3, quad::MAXL);
        for i in 0..8 {
            tot[i] += o.val[i];
        }
        evals += o.evals;
    }
    if left_inf {
        let a = br[0];
        let s = (c0 - a).abs().max(s0);
        let (o, _) = quad::half_line(a, s, -1.0, |x, _| f(x), rel, abs, 3, quad::MAXL);
        for i in 0..8 {
            tot[i] += o.val[i];
        }
        evals += o.evals;
    }
    if right_inf {
        let a = *br.last().unwrap();
        let s = (a - c0).abs().max(s0);
        let (o, _) = quad::half_line(a, s, 1.0, |x, _| f(x), rel, abs, 3, quad::MAXL);
        for i in 0..8 {
            tot[i] += o.val[i];
        }
        evals += o.evals;
    }
    if let Some(e) = failure {
        return Err(e);
    }
    if let Some(t) = tail_fix {
        for i in 0..3 {
            tot[i] += t[i];
            tot[3 + i] += t[i];
        }
    }
    Ok(Integ { lib: [tot[0], tot[1], tot[2]], orc: [tot[3], tot[4], tot[5]], c, bad: [tot[6], tot[7]], evals, nonfinite, first_nonfinite })
}

fn integrate_discrete(d: D, p: &[f64], lib: &Lib, tk: &Tbk) -> Result<Integ, Fail> {
    let (lo, hi): (i64, i64) = match d {
        D::Poisson => (0, (p[0] + 40.0 * p[0].sqrt() + 60.0).ceil() as i64),
        D::Binomial => (0, p[0] as i64),
        D::Bernoulli => (0, 1),
        _ => (p[0] as i64, p[1] as i64),
    };
    let c = tk.mean().0.round();
    let mut l = [DD::ZERO; 3];
    let mut o = [DD::ZERO; 3];
    let mut nonfinite = 0;
    let mut first_nonfinite = None;
    for k in lo..=hi {
        let (ln, _) = tk.at_k(k);
        let w = ln.exp();
        let dx = k as f64 - c;
        let got = lib_dens(d, lib, p, 0.0, Some(k))?;
        o[0] = o[0] + DD::new(w);
        o[1] = o[1] + DD::from_prod(w, dx);
        o[2] = o[2] + DD::from_prod(w * dx, dx);
        if !got.is_finite() {
            nonfinite += 1;
            if first_nonfinite.is_none() {
                first_nonfinite = Some(k as f64);
            }
            continue;
        }
        l[0] = l[0] + DD::new(got);
        l[1] = l[1] + DD::from_prod(got, dx);
        l[2] = l[2] + DD::from_prod(got * dx, dx);
    }
    Ok(Integ {
        lib: [l[0].f(), l[1].f(), l[2].f()],
        orc: [o[0].f(), o[1].f(), o[2].f()],
        c,
        bad: [0.0, 0.0],
        evals: (hi - lo + 1) as usize,
        nonfinite,
        first_nonfinite,
    })
}

/// Is the quadrature itself adequate for this parameter point? Decided on the *textbook* density
/// only (never on library output): its integrated mass must be 1 within 1e-10 and the part of it that
/// sits where the textbook formula is not representable must be negligible.
fn gate_mass(ig: &Integ) -> bool {
    (ig.orc[0] - 1.0).abs() <= 1e-10 && ig.bad[0] <= 1e-12
}

fn moment_case(ctx: &mut Ctx, c: &UCase, clause: &str) -> Option<(D, String, Tbk)> {
    let d = parse(c)?;
    let sub = format!("{}/{}", d.name(), clause);
    ctx.case(&sub, &regime(d, &c.p), true, Hx::new().s(&c.dist).fs(&c.p).finish());
    ctx.sample(&sub, || json!({"dist": c.dist, "p": c.p}));
    Some((d, sub, Tbk::new(d, &c.p)))
}

fn nonfinite_fail(d: D, p: &[f64], clause: &str, ig: &Integ) -> R {
    if ig.nonfinite > 0 {
        let x = ig.first_nonfinite.unwrap_or(f64::NAN);
        return fail(
            format!("C02/{}/{}/not-finite", d.name(), if d.discrete() { "pmf" } else { "pdf" }),
            format!("{}{:?}: the density is not finite at {} in-support node(s) of the {} computation, first at {:e} = {:e}", d.name(), p, ig.nonfinite, clause, x, catch(|| Lib::new(d, p).map(|l| l.dens(x)).unwrap_or(f64::NAN)).unwrap_or(f64::NAN)),
        );
    }
    Ok(())
}

pub fn check_mass(ctx: &mut Ctx, c: &UCase) -> R {
    let (d, sub, _tk) = match moment_case(ctx, c, "mass") {
        Some(v) => v,
        None => return Ok(()),
    };
    let lib = Lib::new(d, &c.p)?;
    let ig = integrate(d, &c.p, &lib)?;
    if !gate_mass(&ig) {
        ctx.label(&sub, if ig.bad[0] > 1e-12 { "skipped:bulk-not-representable" } else { "skipped:quadrature-gate" });
        if ig.bad[0] <= 1e-12 {
            ctx.note(&format!("gate-skip-example:{}", sub), json!({"p": c.p, "oracle_mass": ig.orc[0], "unrepresentable_mass": ig.bad[0], "nodes": ig.evals}));
        }
        return Ok(());
    }
    nonfinite_fail(d, &c.p, "mass", &ig)?;
    ctx.worst(&format!("{}: |mass-1| / 1e-8", d.name()), (ig.lib[0] - 1.0).abs() / 1e-8);
    ctx.worst(&format!("{}: oracle-side |mass-1| / 1e-10 (quadrature adequacy)", d.name()), (ig.orc[0] - 1.0).abs() / 1e-10);
    ensure!(
        (ig.lib[0] - 1.0).abs() <= 1e-8,
        format!("C02/{}/mass", d.name()),
        "{}{:?}: total mass of the library's own {} is {:.12} (the textbook density integrates to {:.12} on the same {} nodes)",
        d.name(), c.p, if d.discrete() { "pmf" } else { "pdf" }, ig.lib[0], ig.orc[0], ig.evals
    );
    Ok(())
}

pub fn check_mean(ctx: &mut Ctx, c: &UCase) -> R {
    let (d, sub, tk) = match moment_case(ctx, c, "mean") {
        Some(v) => v,
        None => return Ok(()),
    };
    let lib = Lib::new(d, &c.p)?;
    let got = match catch(|| lib.mean()) {
        Ok(v) => v,
        Err(m) => return fail(format!("C02/{}/mean/panic", d.name()), format!("{}{:?}.mean() panicked: {}", d.name(), c.p, m)),
    };
    let (want, mag) = tk.mean();
    if !want.is_finite() {
        ctx.label(&sub, "moment-not-finite:not-asserted");
        return Ok(());
    }
    // (v) closed form
    let tol = 1e-12 * mag.max(want.abs()) + 1e-300;
    ctx.worst(&format!("{}: |mean-closed form| / 1e-12", d.name()), (got - want).abs() / tol);
    ensure!((got - want).abs() <= tol, format!("C02/{}/mean", d.name()), "{}{:?}.mean() = {:e}, textbook mean {:e}", d.name(), c.p, got, want);
    // (iv) first moment of the library's own density
    if (d == D::T && c.p[0] < 1.2) || (d == D::Pareto && c.p[0] < 1.2) {
        ctx.label(&sub, "integral-skipped:tail-exponent-within-0.2-of-divergence");
        return Ok(());
    }
    let ig = integrate(d, &c.p, &lib)?;
    let sd = {
        let v = tk.var();
        if v.is_finite() { v.sqrt() } else { tk.centre_scale().1 }
    };
    let scale = want.abs() + sd;
    let orc_mean = ig.c * ig.orc[0] + ig.orc[1];
    if !gate_mass(&ig) || !((orc_mean - want).abs() <= 1e-9 * scale) {
        ctx.label(&sub, if ig.bad[0] > 1e-12 { "integral-skipped:bulk-not-representable" } else { "integral-skipped:quadrature-gate" });
        if ig.bad[0] <= 1e-12 {
            ctx.note(&format!("gate-skip-example:{}", sub), json!({"p": c.p, "oracle_mass": ig.orc[0], "oracle_mean": orc_mean, "textbook_mean": want, "nodes": ig.evals}));
        }
        return Ok(());
    }
    nonfinite_fail(d, &c.p, "mean", &ig)?;
    let lib_mean = ig.c * ig.lib[0] + ig.lib[1];
    let tol = 1e-6 * scale;
    ctx.worst(&format!("{}: |mean - first moment of own density| / 1e-6 (|mean|+sd)", d.name()), (got - lib_mean).abs() / tol);
    ensure!(
        (got - lib_mean).abs() <= tol,
        format!("C02/{}/mean-vs-density", d.name()),
        "{}{:?}.mean() = {:e} but the first moment of the library's own density is {:e} (mass {:.10}); textbook mean {:e}",
        d.name(), c.p, got, lib_mean, ig.lib[0], want
    );
    Ok(())
}

pub fn check_var(ctx: &mut Ctx, c: &UCase) -> R {
    let (d, sub, tk) = match moment_case(ctx, c, "var") {
        Some(v) => v,
        None => return Ok(()),
    };
    let lib = Lib::new(d, &c.p)?;
    let got = match catch(|| lib.var()) {
        Ok(v) => v,
        Err(m) => return fail(format!("C02/{}/var/panic", d.name()), format!("{}{:?}.var() panicked: {}", d.name(), c.p, m)),
    };
    let want = tk.var();
    if !want.is_finite() {
        ctx.label(&sub, "moment-not-finite:not-asserted");
        return Ok(());
    }
    let tol = 1e-12 * want + 1e-300;
    ctx.worst(&format!("{}: |var-closed form| / 1e-12", d.name()), (got - want).abs() / tol);
    ensure!((got - want).abs() <= tol, format!("C02/{}/var", d.name()), "{}{:?}.var() = {:e}, textbook variance {:e}", d.name(), c.p, got, want);
    if (d == D::T && c.p[0] < 2.2) || (d == D::Pareto && c.p[0] < 2.2) {
        ctx.label(&sub, "integral-skipped:tail-exponent-within-0.2-of-divergence");
        return Ok(());
    }
    if want == 0.0 {
        ctx.label(&sub, "degenerate:var=0");
    }
    let ig = integrate(d, &c.p, &lib)?;
    let cm2 = |m: &[f64; 3]| -> f64 {
        // second central moment about the first moment μ = c·M0 + M1: M2 − 2(μ−c)M1 + (μ−c)²M0
        let mu = ig.c * m[0] + m[1];
        let e = mu - ig.c;
        m[2] - 2.0 * e * m[1] + e * e * m[0]
    };
    let orc_var = cm2(&ig.orc);
    if !gate_mass(&ig) || !((orc_var - want).abs() <= 1e-9 * want + 1e-300) || !(ig.bad[1] <= 1e-12 * want) {
        let unrep = ig.bad[0] > 1e-12 || !(ig.bad[1] <= 1e-12 * want);
        ctx.label(&sub, if unrep { "integral-skipped:bulk-not-representable" } else { "integral-skipped:quadrature-gate" });
        if !unrep {
            ctx.note(&format!("gate-skip-example:{}", sub), json!({"p": c.p, "oracle_mass": ig.orc[0], "oracle_var": orc_var, "textbook_var": want, "nodes": ig.evals}));
        }
        return Ok(());
    }
    nonfinite_fail(d, &c.p, "var", &ig)?;
    let lib_var = cm2(&ig.lib);
    let tol = 1e-6 * want + 1e-300;
    ctx.worst(&format!("{}: |var - central moment of own density| / 1e-6 var", d.name()), (got - lib_var).abs() / tol);
    ensure!(
        (got - lib_var).abs() <= tol,
        format!("C02/{}/var-vs-density", d.name()),
        "{}{:?}.var() = {:e} but the second central moment of the library's own density is {:e} (mass {:.10}); textbook variance {:e}",
        d.name(), c.p, got, lib_var, ig.lib[0], want
    );
    Ok(())
}

// ------------------------------------------------------------------------------------------------
// multivariate normal
// ------------------------------------------------------------------------------------------------

#[derive(Clone, Debug, Serialize, Deserialize)]
pub struct MCase {
    pub d: usize,
    pub mean: Vec<f64>,
    /// row-major d×d, exactly symmetric
    pub cov: Vec<f64>,
    #[serde(default)]
    pub xs: Vec<Vec<f64>>,
}

/// Oracle-side quantities of one MVN parameter point (all from the oracle's own dd Cholesky).
struct MvnOracle {
    d: usize,
    l: Vec<DD>, // lower Cholesky factor, row-major
    logdet: DD,
    kappa: f64,   // ‖Σ‖∞ ‖Σ⁻¹‖∞
    inv_norm: f64, // ‖Σ⁻¹‖∞
}

impl MvnOracle {
    fn new(c: &MCase) -> Option<MvnOracle> {
        let d = c.d;
        if !(1..=6).contains(&d) || c.mean.len() != d || c.cov.len() != d * d {
            return None;
        }
        if c.mean.iter().chain(c.cov.iter()).any(|v| !v.is_finite()) || c.xs.iter().any(|x| x.len() != d || x.iter().any(|v| !v.is_finite())) {
            return None;
        }
        for i in 0..d {
            for j in 0..d {
                if c.cov[i * d + j] != c.cov[j * d + i] {
                    return None;
                }
            }
        }
        let mut l = vec![DD::ZERO; d * d];
        for i in 0..d {
            for j in 0..=i {
                let mut s = DD::new(c.cov[i * d + j]);
                for k in 0..j {
                    s = s - l[i * d + k] * l[j * d + k];
                }
                if i == j {
                    if !(s.hi > 0.0) {
                        return None;
                    }
                    l[i * d + i] = s.sqrt();
                } else {
                    l[i * d + j] = s / l[j * d + j];
                }
            }
        }
        let mut logdet = DD::ZERO;
        for i in 0..d {
            logdet = logdet + l[i * d + i].ln() * DD::new(2.0);
        }
        // Σ⁻¹ column by column: L y = e_j, Lᵀ z = y
        let mut inv = vec![0.0f64; d * d];
        for j in 0..d {
            let mut y = vec![DD::ZERO; d];
            for i in 0..d {
                let mut s = if i == j { DD::ONE } else { DD::ZERO };
                for k in 0..i {
                    s = s - l[i * d + k] * y[k];
                }
                y[i] = s / l[i * d + i];
            }
            let mut z = vec![DD::ZERO; d];
            for i in (0..d).rev() {
                let mut s = y[i];
                for k in i + 1..d {
                    s = s - l[k * d + i] * z[k];
                }
                z[i] = s / l[i * d + i];
            }
            for i in 0..d {
                inv[i * d + j] = z[i].f();
            }
        }
        let norm = |m: &[f64]| -> f64 { (0..d).map(|i| (0..d).map(|j| m[i * d + j].abs()).sum::<f64>()).fold(0.0, f64::max) };
        let inv_norm = norm(&inv);
        let kappa = norm(&c.cov) * inv_norm;
        if !(kappa.is_finite() && kappa <= 1e8) {
            return None;
        }
        Some(MvnOracle { d, l, logdet, kappa, inv_norm })
    }
    /// (ln pdf, Mahalanobis q, ‖x−μ‖₂²)
    fn ln_pdf(&self, mean: &[f64], x: &[f64]) -> (f64, f64, f64) {
        let d = self.d;
        let r: Vec<DD> = (0..d).map(|i| DD::new(x[i]) - DD::new(mean[i])).collect();
        let mut y = vec![DD::ZERO; d];
        let mut q = DD::ZERO;
        let mut r2 = 0.0;
        for i in 0..d {
            let mut s = r[i];
            for k in 0..i {
                s = s - self.l[i * d + k] * y[k];
            }
            y[i] = s / self.l[i * d + i];
            q = q + y[i] * y[i];
            r2 += r[i].f() * r[i].f();
        }
        let ln = (q + self.logdet + DD::new(LN_2PI) * DD::new(d as f64)) * DD::new(-0.5);
        (ln.f(), q.f(), r2)
    }
    /// A-priori bound on the relative error of a pdf value computed in f64 through an explicitly
    /// inverted covariance and an LU determinant: ½·δq + ½·δdet/det with
    /// δq ≤ 64·d·ε·κ·‖Σ⁻¹‖·‖r‖² (forward error of the inverse times the quadratic form) and
    /// δdet/det ≤ 64·d²·ε·κ.
    fn cond_slack(&self, r2: f64) -> f64 {
        let eps = f64::EPSILON;
        let d = self.d as f64;
        0.5 * 64.0 * d * eps * self.kappa * self.inv_norm * r2 + 0.5 * 64.0 * d * d * eps * self.kappa
    }
}

fn mvn_lib(c: &MCase) -> Result<MVN, Fail> {
    let (mean, cov, d) = (c.mean.clone(), c.cov.clone(), c.d);
    match catch(move || MVN::new(mean, Matrix::new(cov, d as i32, d as i32))) {
        Ok(m) => Ok(m),
        Err(m) => fail("C02/MVN/new/panic", format!("MVN::new panicked on a symmetric positive definite covariance (d = {}): {}", c.d, m)),
    }
}

fn mvn_class(c: &MCase, o: &MvnOracle) -> String {
    format!("d={}/cond{}", c.d, if o.kappa < 10.0 { "<10" } else if o.kappa < 1e3 { "<1e3" } else { ">=1e3" })
}

fn hash_m(c: &MCase) -> u64 {
    let mut h = Hx::new().u(c.d as u64).fs(&c.mean).fs(&c.cov);
    for x in &c.xs {
        h = h.fs(x);
    }
    h.finish()
}

pub fn check_mvn_pdf(ctx: &mut Ctx, c: &MCase) -> R {
    let o = match MvnOracle::new(c) {
        Some(o) => o,
        None => return Ok(()),
    };
    let thr = (1e-200f64).ln();
    let nontrivial = c.xs.iter().any(|x| o.ln_pdf(&c.mean, x).0 > thr);
    ctx.case("MVN/pdf", &mvn_class(c, &o), nontrivial, hash_m(c));
    ctx.sample("MVN/pdf", || json!(c));
    let lib = mvn_lib(c)?;
    for x in &c.xs {
        let (ln, q, r2) = o.ln_pdf(&c.mean, x);
        let want = ln.exp();
        let got = match catch(|| (&lib).pdf(&x[..])) {
            Ok(v) => v,
            Err(m) => return fail("C02/MVN/pdf/panic", format!("MVN(d={}).pdf({:?}) panicked: {}", c.d, x, m)),
        };
        ensure!(!got.is_nan() && got >= 0.0 && got.is_finite(), "C02/MVN/pdf/negative-or-not-finite", "MVN(d={}, mean {:?}, cov {:?}).pdf({:?}) = {:e}, expected {:e}", c.d, c.mean, c.cov, x, got, want);
        let tol = (PT_REL + o.cond_slack(r2)) * want + PT_ABS;
        ctx.worst("MVN: |pdf-oracle| / (1e-10 + cond slack) rel", (got - want).abs() / tol);
        ensure!(
            (got - want).abs() <= tol,
            "C02/MVN/pdf/value",
            "MVN(d={}, mean {:?}, cov {:?}).pdf({:?}) = {:e}, formula with the oracle's Cholesky gives {:e} (Mahalanobis² {:.6}, cond {:.3e}, relative tolerance {:.3e})",
            c.d, c.mean, c.cov, x, got, want, q, o.kappa, PT_REL + o.cond_slack(r2)
        );
    }
    Ok(())
}

pub fn check_mvn_lnpdf(ctx: &mut Ctx, c: &MCase) -> R {
    let o = match MvnOracle::new(c) {
        Some(o) => o,
        None => return Ok(()),
    };
    ctx.case("MVN/lnpdf", &mvn_class(c, &o), !c.xs.is_empty(), hash_m(c));
    ctx.sample("MVN/lnpdf", || json!(c));
    let lib = mvn_lib(c)?;
    for x in &c.xs {
        let (ln, _q, r2) = o.ln_pdf(&c.mean, x);
        let got = match catch(|| (&lib).ln_pdf(&x[..])) {
            Ok(v) => v,
            Err(m) => return fail("C02/MVN/lnpdf/panic", format!("MVN(d={}).ln_pdf({:?}) panicked: {}", c.d, x, m)),
        };
        let tol = 1e-12 * ln.abs().max(1.0) + o.cond_slack(r2);
        ctx.worst("MVN: |ln_pdf-oracle| / (1e-12 max(1,|ln|) + cond slack)", (got - ln).abs() / tol);
        ensure!(
            (got - ln).abs() <= tol,
            "C02/MVN/lnpdf/value",
            "MVN(d={}, mean {:?}, cov {:?}).ln_pdf({:?}) = {:e}, oracle {:e} (tolerance {:.3e})",
            c.d, c.mean, c.cov, x, got, ln, tol
        );
        if let Ok(pv) = catch(|| (&lib).pdf(&x[..])) {
            if pv.is_finite() && pv > 1e-290 {
                let w = pv.ln();
                let tol = 1e-12 * w.abs().max(1.0);
                ctx.worst("MVN: |ln_pdf - ln(pdf)| / 1e-12 max(1,|ln|)", (got - w).abs() / tol);
                ensure!((got - w).abs() <= tol, "C02/MVN/lnpdf/inconsistent", "MVN(d={}).ln_pdf({:?}) = {:e} but ln(pdf) = {:e}", c.d, x, got, w);
            }
        }
    }
    Ok(())
}

pub fn check_mvn_moments(ctx: &mut Ctx, c: &MCase) -> R {
    let o = match MvnOracle::new(c) {
        Some(o) => o,
        None => return Ok(()),
    };
    ctx.case("MVN/moments", &mvn_class(c, &o), true, hash_m(c));
    let lib = mvn_lib(c)?;
    let m: Vec<f64> = match catch(|| (&lib).mean().to_vec()) {
        Ok(v) => v,
        Err(e) => return fail("C02/MVN/mean/panic", format!("MVN.mean() panicked: {}", e)),
    };
    let scale = c.mean.iter().fold(0.0f64, |a, b| a.max(b.abs()));
    ensure!(
        m.len() == c.d && m.iter().zip(&c.mean).all(|(a, b)| (a - b).abs() <= 1e-12 * scale),
        "C02/MVN/mean",
        "MVN.mean() = {:?}, constructed with mean {:?}",
        m, c.mean
    );
    let v: Vec<f64> = match catch(|| (&lib).var().data.to_vec()) {
        Ok(v) => v,
        Err(e) => return fail("C02/MVN/var/panic", format!("MVN.var() panicked: {}", e)),
    };
    let vs = c.cov.iter().fold(0.0f64, |a, b| a.max(b.abs()));
    ensure!(
        v.len() == c.d * c.d && v.iter().zip(&c.cov).all(|(a, b)| (a - b).abs() <= 1e-12 * vs),
        "C02/MVN/var",
        "MVN.var() = {:?}, constructed with covariance {:?}",
        v, c.cov
    );
    Ok(())
}

pub fn check_mvn_mass(ctx: &mut Ctx, c: &MCase) -> R {
    let o = match MvnOracle::new(c) {
        Some(o) => o,
        None => return Ok(()),
    };
    if c.d > 3 {
        return Ok(());
    }
    ctx.case("MVN/mass", &mvn_class(c, &o), true, Hx::new().u(c.d as u64).fs(&c.mean).fs(&c.cov).finish());
    ctx.sample("MVN/mass", || json!({"d": c.d, "mean": c.mean, "cov": c.cov}));
    let lib = mvn_lib(c)?;
    let d = c.d;
    // product Gauss–Legendre rule in whitened coordinates z ∈ [−9,9]^d, x = μ + L z, dx = det L dz
    let nodes = quad::composite_gl(-9.0, 9.0, 6, 12);
    let n = nodes.len();
    let lf: Vec<f64> = o.l.iter().map(|v| v.f()).collect();
    let detl = (o.logdet * DD::new(0.5)).exp().f();
    let total = n.pow(d as u32);
    let (mut mass, mut orc, mut slack) = (DD::ZERO, DD::ZERO, 0.0f64);
    let mut x = vec![0.0; d];
    let mut z = vec![0.0; d];
    for idx in 0..total {
        let mut t = idx;
        let mut w = detl;
        for i in 0..d {
            let (zi, wi) = nodes[t % n];
            t /= n;
            z[i] = zi;
            w *= wi;
        }
        for i in 0..d {
            let mut s = c.mean[i];
            for k in 0..=i {
                s += lf[i * d + k] * z[k];
            }
            x[i] = s;
        }
        let (ln, _q, r2) = o.ln_pdf(&c.mean, &x);
        let want = ln.exp();
        let got = match catch(|| (&lib).pdf(&x[..])) {
            Ok(v) => v,
            Err(m) => return fail("C02/MVN/pdf/panic", format!("MVN(d={}).pdf({:?}) panicked: {}", c.d, x, m)),
        };
        ensure!(got.is_finite(), "C02/MVN/pdf/negative-or-not-finite", "MVN(d={}, mean {:?}, cov {:?}).pdf({:?}) = {:e}", c.d, c.mean, c.cov, x, got);
        mass = mass + DD::from_prod(w, got);
        orc = orc + DD::from_prod(w, want);
        slack += w * want * o.cond_slack(r2);
    }
    if (orc.f() - 1.0).abs() > 1e-10 {
        ctx.label("MVN/mass", "skipped:quadrature-gate");
        return Ok(());
    }
    let tol = 1e-8 + slack;
    ctx.worst("MVN: |mass-1| / (1e-8 + cond slack)", (mass.f() - 1.0).abs() / tol);
    ensure!(
        (mass.f() - 1.0).abs() <= tol,
        "C02/MVN/mass",
        "MVN(d={}, mean {:?}, cov {:?}): the density integrates to {:.12} over the 9-sigma box ({} product Gauss nodes; oracle density {:.12})",
        c.d, c.mean, c.cov, mass.f(), total, orc.f()
    );
    Ok(())
}

// ------------------------------------------------------------------------------------------------
// generators
// ------------------------------------------------------------------------------------------------

const SHAPES: &[f64] = &[0.2, 0.5, 0.9, 1.0, 1.5, 3.0, 10.0, 30.0, 50.0];
const RATES: &[f64] = &[1e-3, 1e-2, 0.1, 1.0, 10.0, 100.0, 1e3];
const LOCS: &[f64] = &[0.0, -1.0, 1.0, -1e3, 1e3];
const DOFS: &[f64] = &[1.0, 2.0, 3.0, 4.0, 5.0, 10.0, 50.0, 100.0, 200.0];
const TDOFS: &[f64] = &[0.5, 1.0, 1.5, 2.0, 2.5, 3.0, 5.0, 10.0, 30.0, 100.0, 200.0];
const PALPHAS: &[f64] = &[0.2, 0.5, 0.9, 1.0, 1.5, 2.0, 2.5, 3.0, 10.0, 30.0, 50.0];
const BIN_N: &[f64] = &[0.0, 1.0, 2.0, 10.0, 67.0, 68.0, 100.0, 1000.0];
const BIN_P: &[f64] = &[0.0, 1e-3, 0.3, 0.5, 0.9, 1.0];

fn pick(v: &'static [f64]) -> BoxedStrategy<f64> {
    (0..v.len()).prop_map(move |i| v[i]).boxed()
}
fn logu(a: f64, b: f64) -> BoxedStrategy<f64> {
    (0.0..1.0f64).prop_map(move |u| (a.ln() + u * (b.ln() - a.ln())).exp()).boxed()
}
fn shape() -> BoxedStrategy<f64> {
    prop_oneof![3 => pick(SHAPES), 3 => logu(0.1, 60.0), 1 => logu(60.0, 170.0)].boxed()
}
fn rate() -> BoxedStrategy<f64> {
    prop_oneof![2 => pick(RATES), 3 => logu(1e-3, 1e3)].boxed()
}
fn loc() -> BoxedStrategy<f64> {
    prop_oneof![2 => pick(LOCS), 3 => -1e3..1e3f64].boxed()
}

/// Parameter vectors of one distribution: the DESIGN grid values mixed with log-uniform / uniform draws
/// over the quantifier's ranges (shape 0.1..170, rate/scale 1e-3..1e3, location ±1e3, dof up to 340
/// for t and 295 for chi-squared so that Γ arguments above 143 occur, rates 1e-3..1e3, n ≤ 1000).
fn params(d: D) -> BoxedStrategy<Vec<f64>> {
    match d {
        D::Normal | D::Gumbel => (loc(), rate()).prop_map(|(a, b)| vec![a, b]).boxed(),
        D::Gamma => (shape(), rate()).prop_map(|(a, b)| vec![a, b]).boxed(),
        D::Beta => (shape(), shape()).prop_map(|(a, b)| vec![a, if a + b > 169.0 { (169.0 - a).max(0.1) } else { b }]).boxed(),
        D::ChiSquared => prop_oneof![3 => pick(DOFS), 3 => (1u32..=200).prop_map(|k| k as f64), 1 => (201u32..=295).prop_map(|k| k as f64)].prop_map(|k| vec![k]).boxed(),
        D::T => prop_oneof![3 => pick(TDOFS), 3 => logu(0.2, 200.0), 1 => logu(200.0, 337.0)].prop_map(|k| vec![k]).boxed(),
        D::Pareto => (prop_oneof![3 => pick(PALPHAS), 3 => logu(0.1, 60.0), 1 => logu(60.0, 170.0)], rate()).prop_map(|(a, b)| vec![a, b]).boxed(),
        D::Exponential | D::Poisson => rate().prop_map(|a| vec![a]).boxed(),
        D::Uniform => (loc(), logu(1e-3, 2e3)).prop_map(|(a, w)| vec![a, a + w]).boxed(),
        D::Binomial => (
            prop_oneof![3 => pick(BIN_N), 3 => (0u32..=1000).prop_map(|k| k as f64)],
            prop_oneof![3 => pick(BIN_P), 3 => 1e-3..0.999f64],
        )
            .prop_map(|(n, p)| vec![n, p])
            .boxed(),
        D::Bernoulli => prop_oneof![1 => pick(&[0.0, 0.5, 1.0]), 3 => 0.0..1.0f64].prop_map(|p| vec![p]).boxed(),
        D::DiscreteUniform => ((-1000i32..=1000), prop_oneof![2 => (0usize..6).prop_map(|i| [0i32, 1, 2, 3, 10, 11][i]), 3 => 0i32..2000]).prop_map(|(a, w)| vec![a as f64, (a + w) as f64]).boxed(),
    }
}

fn ustrat(d: D, with_points: bool) -> BoxedStrategy<UCase> {
    if with_points {
        (params(d), proptest::collection::vec(0.0..1.0f64, 6..20))
            .prop_map(move |(p, us)| {
                let (xs, ks) = points(d, &p, &us);
                UCase { dist: d.name().into(), p, xs, ks }
            })
            .boxed()
    } else {
        params(d).prop_map(move |p| UCase { dist: d.name().into(), p, xs: vec![], ks: vec![] }).boxed()
    }
}

/// The DESIGN parameter grid of one distribution.
fn grid(d: D) -> Vec<Vec<f64>> {
    let cross = |a: &[f64], b: &[f64]| -> Vec<Vec<f64>> { a.iter().flat_map(|&x| b.iter().map(move |&y| vec![x, y])).collect() };
    let one = |a: &[f64]| -> Vec<Vec<f64>> { a.iter().map(|&x| vec![x]).collect() };
    match d {
        D::Normal | D::Gumbel => cross(LOCS, RATES),
        D::Gamma => cross(SHAPES, RATES),
        D::Beta => cross(SHAPES, SHAPES),
        D::ChiSquared => one(DOFS),
        D::T => one(TDOFS),
        D::Pareto => cross(PALPHAS, RATES),
        D::Exponential | D::Poisson => one(RATES),
        D::Uniform => vec![vec![0.0, 1.0], vec![-1.0, 1.0], vec![-2.0, 6.0], vec![-1e3, -999.0], vec![-1e3, 1e3], vec![999.999, 1e3], vec![-0.001, 0.0], vec![1.0, 1.001]],
        D::Binomial => cross(BIN_N, BIN_P),
        D::Bernoulli => one(&[0.0, 1e-3, 0.3, 0.5, 0.9, 1.0]),
        D::DiscreteUniform => vec![vec![0.0, 1.0], vec![0.0, 0.0], vec![3.0, 3.0], vec![-2.0, 6.0], vec![-3.0, 0.0], vec![-1.0, 0.0], vec![-7.0, -2.0], vec![1.0, 6.0], vec![-1000.0, 1000.0], vec![-1000.0, 999.0], vec![5.0, 1000.0]],
    }
}

fn mstrat(maxd: usize, well_conditioned: bool) -> BoxedStrategy<MCase> {
    (1usize..=maxd, 0usize..4, 0usize..3, 0usize..3)
        .prop_flat_map(move |(d, dsel, ssel, msel)| {
            (
                Just((d, dsel, ssel, msel)),
                proptest::collection::vec(-2.0..2.0f64, d * d),
                proptest::collection::vec(-1.0..1.0f64, d),
                proptest::collection::vec(proptest::collection::vec(-1.0..1.0f64, d), 4..10),
            )
        })
        .prop_map(move |((d, dsel, ssel, msel), g, mu, us)| {
            let delta = if well_conditioned { [1.0, 2.0, 4.0, 8.0][dsel] } else { [0.05, 0.5, 1.0, 10.0][dsel] };
            let s2 = [1.0, 1e-2, 1e2][ssel];
            let ms = [1.0, 10.0, 1e3][msel];
            let mut cov = vec![0.0; d * d];
            for i in 0..d {
                for j in i..d {
                    let mut s = 0.0;
                    for k in 0..d {
                        s += g[k * d + i] * g[k * d + j];
                    }
                    if i == j {
                        s += delta;
                    }
                    cov[i * d + j] = s * s2;
                    cov[j * d + i] = s * s2;
                }
            }
            let mean: Vec<f64> = mu.iter().map(|m| (m * ms * 8.0).round() / 8.0).collect();
            let radii = [0.0, 0.5, 1.0, 2.0, 4.0, 8.0, 16.0, 30.0, 40.0, 3.0];
            let xs = us
                .iter()
                .enumerate()
                .map(|(n, u)| (0..d).map(|i| mean[i] + cov[i * d + i].sqrt() * radii[n % radii.len()] * u[i]).collect())
                .collect();
            MCase { d, mean, cov, xs }
        })
        .boxed()
}

// ------------------------------------------------------------------------------------------------
// drivers
// ------------------------------------------------------------------------------------------------

type UCheck = fn(&mut Ctx, &UCase) -> R;

/// (clause name, check, needs evaluation points, quick cases, thorough cases)
fn clauses(d: D) -> Vec<(&'static str, UCheck, bool, u64, u64)> {
    let mut v: Vec<(&'static str, UCheck, bool, u64, u64)> = vec![(if d.discrete() { "pmf" } else { "pdf" }, check_point as UCheck, true, 4000, 120000)];
    if !d.whole_line() {
        v.push(("outside", check_outside as UCheck, true, 1500, 40000));
    }
    if !d.discrete() {
        v.push(("lnpdf", check_lnpdf as UCheck, true, 1500, 40000));
    }
    if d == D::Normal {
        v.push(("cdf", check_cdf as UCheck, true, 2500, 80000));
    }
    v.push(("mass", check_mass as UCheck, false, 800, 15000));
    v.push(("mean", check_mean as UCheck, false, 800, 15000));
    v.push(("var", check_var as UCheck, false, 800, 15000));
    v
}

fn run_dist(ctx: &mut Ctx, d: D) {
    let quick = ctx.quick();
    for (name, f, pts, nq, nt) in clauses(d) {
        let sub = format!("{}/{}", d.name(), name);
        let _ = quick;
        let n = ctx.scale(nq, nt);
        ctx.run_prop(&sub, n, ustrat(d, pts), f);
    }
    // the DESIGN grid, every clause on every grid point (after the random part so that a defect is
    // first recorded in its shrunk form)
    let us = [0.05, 0.2, 0.35, 0.5, 0.65, 0.8, 0.87, 0.95];
    for p in grid(d) {
        let (xs, ks) = points(d, &p, &us);
        let c = UCase { dist: d.name().into(), p: p.clone(), xs, ks };
        for (name, f, _pts, _, _) in clauses(d) {
            let sub = format!("{}/{}", d.name(), name);
            ctx.check_one(&sub, &c, f);
        }
    }
}

fn run_mvn(ctx: &mut Ctx) {
    let n = ctx.scale(8000, 150_000);
    ctx.run_prop("MVN/pdf", n, mstrat(6, false), check_mvn_pdf);
    ctx.run_prop("MVN/lnpdf", n, mstrat(6, false), check_mvn_lnpdf);
    ctx.run_prop("MVN/moments", n / 2, mstrat(6, false), check_mvn_moments);
    // the unit-test style anchors: identity covariance, d = 1 equals the univariate normal
    for d in 1..=6usize {
        let mut cov = vec![0.0; d * d];
        for i in 0..d {
            cov[i * d + i] = 1.0;
        }
        let c = MCase { d, mean: vec![0.0; d], cov, xs: vec![vec![0.0; d], vec![1.0; d], vec![-3.0; d]] };
        ctx.check_one("MVN/pdf", &c, check_mvn_pdf);
        ctx.check_one("MVN/lnpdf", &c, check_mvn_lnpdf);
        ctx.check_one("MVN/moments", &c, check_mvn_moments);
    }
}

pub fn run(ctx: &mut Ctx) {
    ctx.rule = "per distribution and clause: parameter vectors drawn from the DESIGN grid values mixed with log-uniform draws over the quantifier's ranges \
(shape 0.1..170, rate/scale 1e-3..1e3, location up to +-1e3, dof up to 340 (t) / 295 (chi-squared), Poisson rate 1e-3..1e3, binomial n <= 1000, p in {0,1} and [1e-3,0.999]), \
then every point of the DESIGN grid; evaluation points are built from centre +- k scale grids, fractions/multiples of the mean, the support boundary and +-1 ulp, points outside the support \
and far tails plus random selectors; MVN: d in 1..=6, covariance G^T G + delta I scaled by 1e-2..1e2, points at 0..40 standard deviations. \
A case is (distribution, parameters, point set); non-trivial when at least one in-support point has textbook density > 1e-200 (point clauses), when at least one point is outside the support (outside clause), always for moment clauses; distinct by hash of the case"
        .into();
    ctx.assumptions = vec![
        "domain restriction of the pointwise clause: a point is judged only where the textbook formula, evaluated factor by factor in its natural order, has representable intermediates (no log above 700; none below -700 unless the density itself is below e^-700); other points are only required not to panic".into(),
        "end points of open support intervals (Gamma/ChiSquared at 0, Beta at 0 and 1): 0 and the limit of the formula are both accepted; closed end points (Pareto minimum, Exponential 0, Uniform bounds) must carry the formula value".into(),
        "degenerate parameter points without a density (Normal sigma = 0, Uniform lower = upper) are outside the quantifier".into(),
        "mean/var are asserted only where the moment is finite (the statement is silent otherwise); the moment-of-own-density comparison is skipped within 0.2 of the divergence exponent (t dof, Pareto alpha in (1,1.2) / (2,2.2)), where f64 cannot reach far enough into the tail".into(),
        "a quadrature result is used only if the same rule integrates the textbook density to 1 within 1e-10 (decided on the oracle side only); Beta with b < 1: the piece [1-2^-20, 1] is taken from the textbook series because f64 cannot resolve 1-x there".into(),
        "MVN tolerance adds an a-priori conditioning term 32 d eps kappa (||inv|| |r|^2 + d) for an implementation that inverts the covariance explicitly; kappa <= 1e8".into(),
    ];
    ctx.exhaustive.push("every parameter point of the DESIGN grid of each of the 13 univariate distributions, through every clause".into());

    // one worker per distribution (each clause is a sequential proptest run inside it) + MVN workers
    let mut locals: Vec<(usize, Ctx)> = (0..ALL.len() + 2).map(|i| (i, ctx.fork())).collect();
    let quickf = ctx.quick();
    std::thread::scope(|sc| {
        for (i, c) in locals.iter_mut() {
            let i = *i;
            sc.spawn(move || {
                if i < ALL.len() {
                    run_dist(c, ALL[i]);
                } else if i == ALL.len() {
                    run_mvn(c);
                } else {
                    // MVN total mass, d ≤ 3 (d = 3 costs 3.7e5 density evaluations per case)
                    let n = if quickf { 16 } else { 240 };
                    c.run_prop_par("MVN/mass", n, if quickf { 2 } else { 8 }, || mstrat(3, true), check_mvn_mass);
                }
            });
        }
    });
    for (_, c) in locals {
        ctx.merge(c);
    }
}

pub fn replay(ctx: &mut Ctx, sub: &str, v: Value) -> Option<R> {
    let (dist, clause) = sub.split_once('/')?;
    if dist == "MVN" {
        let c = decode::<MCase>(v)?;
        return match clause {
            "pdf" => Some(check_mvn_pdf(ctx, &c)),
            "lnpdf" => Some(check_mvn_lnpdf(ctx, &c)),
            "moments" => Some(check_mvn_moments(ctx, &c)),
            "mass" => Some(check_mvn_mass(ctx, &c)),
            _ => None,
        };
    }
    D::from_name(dist)?;
    let c = decode::<UCase>(v)?;
    if c.dist != dist {
        return None;
    }
    match clause {
        "pdf" | "pmf" => Some(check_point(ctx, &c)),
        "outside" => Some(check_outside(ctx, &c)),
        "lnpdf" => Some(check_lnpdf(ctx, &c)),
        "cdf" => Some(check_cdf(ctx, &c)),
        "mass" => Some(check_mass(ctx, &c)),
        "mean" => Some(check_mean(ctx, &c)),
        "var" => Some(check_var(ctx, &c)),
        _ => None,
    }
}
