//! C04 — Element-wise arithmetic and maps are exact at every length and operand form.
//!
//! Sub-checks
//!   ops      every operator form (4 operators x 11 operand forms + negation) on Vector and same-shape Matrix
//!   maps     29 unary maps, powi (-3..=5), powf on Vector and Matrix
//!   mismatch length / shape mismatches must panic
//!   reduce   sum, dot, norm, prod, inf_norm, logsumexp, logmeanexp (+ Vector / Matrix methods) against dd references
//! Lengths 0..=40 are enumerated in every run (all factorisations r x c for Matrix, Matrix::empty() for 0),
//! then random lengths up to 1e4 (thorough 1e5).

use crate::engine::alloc::is_poison;
use crate::engine::{catch, decode, fail, mix_seed, Ctx, Hx, R};
use crate::oracle::dd::{dd_dot, dd_sum, DD};
use compute::linalg::{dot, inf_norm, logmeanexp, logsumexp, norm, prod, sum, Matrix, Vector};
use proptest::prelude::*;
use serde::{Deserialize, Serialize};
use serde_json::{json, Value};

const EPS: f64 = f64::EPSILON; // 2^-52

// ------------------------------------------------------------------------------------------------
// data pools (pure functions of (kind, salt, side, index))

/// finite, non-zero, sign and exponent pseudo-random, the low 17 mantissa bits hold the index so
/// that values are distinct per position (for every length <= 131072)
fn finite(h: u64, i: usize, emax: i32) -> f64 {
    let mant = ((h >> 12) & !0x1ffffu64 & ((1u64 << 52) - 1)) | (i as u64 & 0x1ffff);
    let e = ((h & 0x3ff) as i32 % (2 * emax + 1)) - emax;
    let s = (h >> 11) & 1;
    f64::from_bits((s << 63) | (((1023 + e) as u64) << 52) | mant)
}

/// dkind 0: finite 2^±20; 1: specials (±0, ±inf, subnormal, NaN) mixed with finite 2^±300;
/// 2: finite of magnitude <= 2 (domain of asin / atanh is hit), 3: finite 2^±6 (powi/powf friendly),
/// 4: rounding-critical values (half-way cases and their neighbours, the largest value below 0.5, integers around
/// 2^52 / 2^53 where x + 0.5 is not representable, 1 ± ulp): where a hand-written floor/ceil/round/trunc/fract or a
/// reciprocal-multiply division differs from the IEEE operation
pub fn elem(dkind: u8, salt: u64, side: u64, i: usize) -> f64 {
    let h = Hx::new().u(salt).u(side).u(i as u64).u(dkind as u64).finish();
    match dkind {
        0 => finite(h, i, 20),
        1 => match (h >> 40) % 8 {
            0 => 0.0,
            1 => -0.0,
            2 => {
                if (h >> 50) & 1 == 1 {
                    f64::INFINITY
                } else {
                    f64::NEG_INFINITY
                }
            }
            3 => f64::from_bits((((h >> 11) & 1) << 63) | ((h >> 20) & 0xf_fffe_0000) | (i as u64 & 0x1ffff) | 0x20000),
            4 => f64::NAN,
            _ => finite(h, i, 300),
        },
        2 => {
            let x = finite(h, i, 3); // |x| in [1/8, 16)
            x / 8.0 // exact scaling: [1/64, 2)
        }
        4 => {
            let sign = if (h >> 11) & 1 == 1 { -1.0 } else { 1.0 };
            let k = ((h >> 20) % 17) as f64;
            let up = |v: f64| f64::from_bits(v.to_bits() + 1);
            let down = |v: f64| f64::from_bits(v.to_bits() - 1);
            let big = [4503599627370496.0f64, 4503599627370497.0, 4503599627370499.0, 6755399441055745.0, 9007199254740991.0, 9007199254740992.0, 2251799813685248.5, 2251799813685249.5];
            let v = match (h >> 40) % 12 {
                0 => k + 0.5,
                1 => down(k + 0.5),
                2 => up(k + 0.5),
                3 => 0.49999999999999994,
                4 => big[((h >> 28) % 8) as usize],
                5 => up(1.0),
                6 => down(1.0),
                7 => k,
                8 => down(k + 1.0),
                9 => up(k + 1.0),
                10 => (k + 1.0) * 0.1,
                _ => 1.0 / (k + 3.0),
            };
            sign * v
        }
        _ => finite(h, i, 6),
    }
}

pub fn data(n: usize, dkind: u8, salt: u64, side: u64) -> Vec<f64> {
    (0..n).map(|i| elem(dkind, salt, side, i)).collect()
}

fn same(a: f64, b: f64) -> bool {
    a.to_bits() == b.to_bits() || (a.is_nan() && b.is_nan())
}

fn same_slice(a: &[f64], b: &[f64]) -> bool {
    a.len() == b.len() && a.iter().zip(b).all(|(x, y)| same(*x, *y))
}

fn nontrivial(d: &[f64]) -> bool {
    d.iter().any(|x| x.is_finite() && *x != 0.0)
}

fn len_class(n: usize) -> String {
    format!("len%8={},chunks={}", n % 8, if n / 8 > 5 { ">5".to_string() } else { (n / 8).to_string() })
}

pub fn divisors(n: usize) -> Vec<usize> {
    (1..=n).filter(|r| n % r == 0).collect()
}

fn mk_mat(d: &[f64], r: usize, c: usize) -> Matrix {
    if r == 0 && c == 0 {
        Matrix::empty()
    } else {
        Matrix::new(d.to_vec(), r as i32, c as i32)
    }
}

const CONT: [&str; 2] = ["Vector", "Matrix"];
const OPN: [&str; 4] = ["add", "sub", "mul", "div"];
const OPS: [&str; 4] = ["+", "-", "*", "/"];
/// operand forms; `x` = the container (v / m), `s` = f64, `@` = operator
const FORMS: [&str; 11] = ["x@x", "x@&x", "&x@x", "&x@&x", "x@s", "&x@s", "s@x", "s@&x", "x@=x", "x@=&x", "x@=s"];
pub const NFORMS: u16 = 45; // 4 x 11 + negation

fn form_name(cont: u8, form: u16) -> String {
    let x = if cont == 0 { "v" } else { "m" };
    if form >= 44 {
        return format!("neg/-{}", x);
    }
    let (op, k) = ((form / 11) as usize, (form % 11) as usize);
    format!("{}/{}", OPN[op], FORMS[k].replace('x', x).replace('@', OPS[op]))
}

fn scalar_op(op: usize, a: f64, b: f64) -> f64 {
    match op {
        0 => a + b,
        1 => a - b,
        2 => a * b,
        _ => a / b,
    }
}

/// result container, left operand afterwards (if it was passed by reference), right operand afterwards
type Triple<T> = (T, Option<T>, Option<T>);

macro_rules! forms {
    ($op:tt, $opa:tt, $k:expr, $a:expr, $b:expr, $s:expr) => {{
        let a = $a;
        let b = $b;
        let s: f64 = $s;
        match $k {
            0 => (a $op b, None, None),
            1 => {
                let r = a $op &b;
                (r, None, Some(b))
            }
            2 => {
                let r = &a $op b;
                (r, Some(a), None)
            }
            3 => {
                let r = &a $op &b;
                (r, Some(a), Some(b))
            }
            4 => (a $op s, None, None),
            5 => {
                let r = &a $op s;
                (r, Some(a), None)
            }
            6 => (s $op a, None, None),
            7 => {
                let r = s $op &a;
                (r, Some(a), None)
            }
            8 => {
                let mut a = a;
                a $opa b;
                (a, None, None)
            }
            9 => {
                let mut a = a;
                a $opa &b;
                (a, None, Some(b))
            }
            _ => {
                let mut a = a;
                a $opa s;
                (a, None, None)
            }
        }
    }};
}

macro_rules! mk_runner {
    ($name:ident, $ty:ty) => {
        fn $name(form: u16, a: $ty, b: $ty, s: f64) -> Result<Triple<$ty>, String> {
            catch(move || {
                if form >= 44 {
                    return (-a, None, None);
                }
                let k = form % 11;
                match form / 11 {
                    0 => forms!(+, +=, k, a, b, s),
                    1 => forms!(-, -=, k, a, b, s),
                    2 => forms!(*, *=, k, a, b, s),
                    _ => forms!(/, /=, k, a, b, s),
                }
            })
        }
    };
}
mk_runner!(run_vec, Vector);
mk_runner!(run_mat, Matrix);

/// flat view of a result: data, (rows, cols) — a Vector is reported as (1, len)
type Flat = (Vec<f64>, (usize, usize));
fn flat_v(v: &Vector) -> Flat {
    (v.v.clone(), (1, v.v.len()))
}
fn flat_m(m: &Matrix) -> Flat {
    (m.data.v.clone(), (m.nrows, m.ncols))
}

// ------------------------------------------------------------------------------------------------
// ops

#[derive(Clone, Debug, Serialize, Deserialize)]
pub struct OpCase {
    /// 0 = Vector (rows = 1, cols = length), 1 = Matrix (rows = cols = 0: Matrix::empty())
    pub cont: u8,
    pub rows: usize,
    pub cols: usize,
    /// op * 11 + operand form, 44 = negation
    pub form: u16,
    pub dkind: u8,
    pub salt: u64,
}

fn shape_ok(cont: u8, rows: usize, cols: usize) -> bool {
    match cont {
        0 => rows == 1,
        1 => (rows >= 1 && cols >= 1) || (rows == 0 && cols == 0),
        _ => false,
    }
}

pub fn check_ops(ctx: &mut Ctx, c: &OpCase) -> R {
    if !shape_ok(c.cont, c.rows, c.cols) || c.form >= NFORMS || c.dkind > 4 || c.rows.saturating_mul(c.cols) > 1 << 17 {
        return Ok(());
    }
    let n = c.rows * c.cols;
    let a = data(n, c.dkind, c.salt, 0);
    let b = data(n, c.dkind, c.salt, 1);
    let s = elem(c.dkind, c.salt, 2, 0);
    let fname = form_name(c.cont, c.form);
    let cname = CONT[c.cont as usize];
    let h = Hx::new().u(c.cont as u64).u(c.rows as u64).u(c.cols as u64).u(c.form as u64).u(c.dkind as u64).u(c.salt).finish();
    ctx.case("ops", &format!("{}/{}", cname, len_class(n)), n >= 1 && nontrivial(&a), h);
    ctx.label("ops", &format!("form:{}/{}", cname, fname));
    ctx.sample("ops", || json!({"case": c, "form": fname, "scalar": crate::engine::fx::fj(s)}));
    let empty_mat = c.cont == 1 && n == 0;
    let sig = |t: &str| {
        if empty_mat {
            format!("C04/Matrix/empty/{}", t)
        } else {
            format!("C04/{}/{}/{}", cname, fname, t)
        }
    };
    let desc = format!("{} {} on {}x{} (data kind {}, salt {})", cname, fname, c.rows, c.cols, c.dkind, c.salt);

    let res: Result<(Flat, Option<Flat>, Option<Flat>), String> = if c.cont == 0 {
        run_vec(c.form, Vector::new(a.clone()), Vector::new(b.clone()), s)
            .map(|(r, x, y)| (flat_v(&r), x.as_ref().map(flat_v), y.as_ref().map(flat_v)))
    } else {
        run_mat(c.form, mk_mat(&a, c.rows, c.cols), mk_mat(&b, c.rows, c.cols), s)
            .map(|(r, x, y)| (flat_m(&r), x.as_ref().map(flat_m), y.as_ref().map(flat_m)))
    };
    let ((got, gshape), a_after, b_after) = match res {
        Ok(t) => t,
        Err(msg) => return fail(sig("panic"), format!("{}: panicked on valid operands: {}", desc, msg)),
    };
    ensure!(
        gshape == (c.rows, c.cols) && got.len() == n,
        sig("shape"),
        "{}: result has shape {}x{} and {} elements, expected {}x{}",
        desc, gshape.0, gshape.1, got.len(), c.rows, c.cols
    );
    let k = c.form % 11;
    let op = (c.form / 11) as usize;
    for i in 0..n {
        let want = if c.form >= 44 {
            -a[i]
        } else {
            match k {
                0 | 1 | 2 | 3 | 8 | 9 => scalar_op(op, a[i], b[i]),
                4 | 5 | 10 => scalar_op(op, a[i], s),
                _ => scalar_op(op, s, a[i]),
            }
        };
        ensure!(
            !is_poison(got[i]),
            sig("uninit"),
            "{}: element {} of the result was never written (allocator poison pattern)",
            desc, i
        );
        ensure!(
            same(got[i], want),
            sig("value"),
            "{}: element {} = {:e} (bits {:016x}), expected {:e} (bits {:016x}); a[i] = {:e}, b[i] = {:e}, scalar = {:e}",
            desc, i, got[i], got[i].to_bits(), want, want.to_bits(), a[i], b[i], s
        );
    }
    if let Some((d, sh)) = a_after {
        ensure!(same_slice(&d, &a) && sh == (c.rows, c.cols), sig("operand-changed"), "{}: the left operand passed by reference was modified", desc);
    }
    if let Some((d, sh)) = b_after {
        ensure!(same_slice(&d, &b) && sh == (c.rows, c.cols), sig("operand-changed"), "{}: the right operand passed by reference was modified", desc);
    }
    Ok(())
}

// ------------------------------------------------------------------------------------------------
// mismatch

#[derive(Clone, Debug, Serialize, Deserialize)]
pub struct MisCase {
    pub cont: u8,
    /// op * 11 + form; only the two-container forms (0..=3, 8, 9); Matrix: only 8, 9 (other shapes broadcast, C12)
    pub form: u16,
    pub ar: usize,
    pub ac: usize,
    pub br: usize,
    pub bc: usize,
}

pub fn check_mismatch(ctx: &mut Ctx, c: &MisCase) -> R {
    let k = c.form % 11;
    let two = matches!(k, 0 | 1 | 2 | 3 | 8 | 9);
    if c.form >= 44 || !two || !shape_ok(c.cont, c.ar, c.ac) || !shape_ok(c.cont, c.br, c.bc) {
        return Ok(());
    }
    if c.cont == 1 && k < 8 {
        return Ok(());
    }
    if (c.ar, c.ac) == (c.br, c.bc) || c.ar * c.ac > 1 << 17 || c.br * c.bc > 1 << 17 {
        return Ok(()); // not a mismatch
    }
    let a = data(c.ar * c.ac, 0, 7, 0);
    let b = data(c.br * c.bc, 0, 7, 1);
    let fname = form_name(c.cont, c.form);
    let cname = CONT[c.cont as usize];
    let class = if c.ar * c.ac == c.br * c.bc { "same-length-other-shape" } else if c.ar * c.ac < c.br * c.bc { "left-shorter" } else { "left-longer" };
    ctx.case("mismatch", &format!("{}/{}", cname, class), true, Hx::new().json(c).finish());
    ctx.sample("mismatch", || json!(c));
    let r: Result<Flat, String> = if c.cont == 0 {
        run_vec(c.form, Vector::new(a), Vector::new(b), 1.0).map(|(r, _, _)| flat_v(&r))
    } else {
        run_mat(c.form, mk_mat(&a, c.ar, c.ac), mk_mat(&b, c.br, c.bc), 1.0).map(|(r, _, _)| flat_m(&r))
    };
    match r {
        Err(_) => Ok(()),
        Ok((d, sh)) => fail(
            format!("C04/{}/{}/missing-panic", cname, fname),
            format!(
                "{} {} with operands of shape {}x{} and {}x{} returned a value ({}x{}, {} elements) instead of panicking",
                cname, fname, c.ar, c.ac, c.br, c.bc, sh.0, sh.1, d.len()
            ),
        ),
    }
}

// ------------------------------------------------------------------------------------------------
// maps

macro_rules! maps {
    ($($name:ident),+) => {
        pub const MAP_NAMES: &[&str] = &[$(stringify!($name)),+];
        fn map_scalar(i: usize, x: f64) -> f64 {
            let fs: &[fn(f64) -> f64] = &[$(f64::$name),+];
            fs[i](x)
        }
        fn map_vec(i: usize, v: &Vector) -> Vector {
            let fs: &[fn(&Vector) -> Vector] = &[$(Vector::$name),+];
            fs[i](v)
        }
        fn map_mat(i: usize, m: &Matrix) -> Matrix {
            let fs: &[fn(&Matrix) -> Matrix] = &[$(Matrix::$name),+];
            fs[i](m)
        }
    };
}
maps!(
    ln, ln_1p, log10, log2, exp, exp2, exp_m1, sin, cos, tan, sinh, cosh, tanh, asin, acos, atan, asinh, acosh, atanh, sqrt, cbrt, abs,
    floor, ceil, to_radians, to_degrees, recip, round, signum
);
pub const MAP_POWI: u8 = 29;
pub const MAP_POWF: u8 = 30;
pub const POWF_EXPS: [f64; 6] = [0.5, 2.0, 3.0, -1.5, 1.0 / 3.0, 0.0];

#[derive(Clone, Debug, Serialize, Deserialize)]
pub struct MapCase {
    pub cont: u8,
    pub rows: usize,
    pub cols: usize,
    /// 0..=28 index into MAP_NAMES, 29 = powi(ei), 30 = powf(p)
    pub map: u8,
    pub ei: i32,
    #[serde(with = "crate::engine::fx::f")]
    pub p: f64,
    pub dkind: u8,
    pub salt: u64,
}

pub fn check_maps(ctx: &mut Ctx, c: &MapCase) -> R {
    if !shape_ok(c.cont, c.rows, c.cols) || c.map > MAP_POWF || c.dkind > 4 || c.rows.saturating_mul(c.cols) > 1 << 17 {
        return Ok(());
    }
    let n = c.rows * c.cols;
    let a = data(n, c.dkind, c.salt, 0);
    let cname = CONT[c.cont as usize];
    let mname = match c.map {
        MAP_POWI => format!("powi/e={}", if c.ei == 2 || c.ei == 3 { c.ei.to_string() } else { "other".into() }),
        MAP_POWF => "powf".to_string(),
        i => MAP_NAMES[i as usize].to_string(),
    };
    let h = Hx::new().json(c).finish();
    ctx.case("maps", &format!("{}/{}", cname, len_class(n)), n >= 1 && nontrivial(&a), h);
    ctx.label("maps", &format!("map:{}/{}", cname, mname));
    ctx.sample("maps", || json!(c));
    let empty_mat = c.cont == 1 && n == 0;
    let sig = |t: &str| {
        if empty_mat {
            format!("C04/Matrix/empty/{}", t)
        } else if c.cont == 0 {
            format!("C04/map/{}/{}", mname, t)
        } else {
            format!("C04/map/{}/Matrix/{}", mname, t)
        }
    };
    let desc = format!(
        "{}::{} on {}x{} (data kind {}, salt {})",
        cname,
        match c.map {
            MAP_POWI => format!("powi({})", c.ei),
            MAP_POWF => format!("powf({:e})", c.p),
            _ => mname.clone(),
        },
        c.rows, c.cols, c.dkind, c.salt
    );
    let (map, ei, p) = (c.map, c.ei, c.p);
    let res: Result<(Flat, Flat), String> = if c.cont == 0 {
        let v = Vector::new(a.clone());
        catch(move || {
            let r = match map {
                MAP_POWI => v.powi(ei),
                MAP_POWF => v.powf(p),
                i => map_vec(i as usize, &v),
            };
            (flat_v(&r), flat_v(&v))
        })
    } else {
        let m = mk_mat(&a, c.rows, c.cols);
        catch(move || {
            let r = match map {
                MAP_POWI => m.powi(ei),
                MAP_POWF => m.powf(p),
                i => map_mat(i as usize, &m),
            };
            (flat_m(&r), flat_m(&m))
        })
    };
    let ((got, gshape), (after, ashape)) = match res {
        Ok(t) => t,
        Err(msg) => return fail(sig("panic"), format!("{}: panicked: {}", desc, msg)),
    };
    ensure!(
        gshape == (c.rows, c.cols) && got.len() == n,
        sig("shape"),
        "{}: result has shape {}x{} and {} elements, expected {}x{}",
        desc, gshape.0, gshape.1, got.len(), c.rows, c.cols
    );
    // runtime values, so that the compiler cannot specialise powi / powf for a constant exponent differently from the library
    let e_rt = std::hint::black_box(c.ei);
    let p_rt = std::hint::black_box(c.p);
    for i in 0..n {
        let x = a[i];
        ensure!(!is_poison(got[i]), sig("uninit"), "{}: element {} of the result was never written (allocator poison pattern)", desc, i);
        let (want, alt) = match c.map {
            MAP_POWI => (
                x.powi(e_rt),
                match c.ei {
                    2 => Some(x * x),
                    3 => Some(x * x * x),
                    _ => None,
                },
            ),
            MAP_POWF => (x.powf(p_rt), None),
            m => (map_scalar(m as usize, x), None),
        };
        ensure!(
            same(got[i], want) || alt.map(|w| same(got[i], w)).unwrap_or(false),
            sig("value"),
            "{}: element {} = {:e} (bits {:016x}), expected {:e} (bits {:016x}) for x = {:e}",
            desc, i, got[i], got[i].to_bits(), want, want.to_bits(), x
        );
    }
    ensure!(same_slice(&after, &a) && ashape == (c.rows, c.cols), sig("operand-changed"), "{}: the operand was modified", desc);
    Ok(())
}

// ------------------------------------------------------------------------------------------------
// reductions

#[derive(Clone, Debug, Serialize, Deserialize)]
pub struct RedCase {
    pub n: usize,
    /// number of rows for inf_norm and the Matrix methods (must divide n; ignored for n = 0)
    pub rows: usize,
    pub salt: u64,
    /// 0 = no zeros; 1 = every element is a (signed) zero; 2 = about half the elements are zeros
    #[serde(default)]
    pub zeros: u8,
}

/// Overwrite elements with signed zeros according to `mode` (see `RedCase::zeros`).
fn red_zero(mut d: Vec<f64>, mode: u8, salt: u64, side: u64) -> Vec<f64> {
    for (i, v) in d.iter_mut().enumerate() {
        let h = Hx::new().u(salt).u(side).u(i as u64).s("zero").finish();
        if mode == 1 || (mode == 2 && h & 2 == 0) {
            *v = if h & 1 == 1 { -0.0 } else { 0.0 };
        }
    }
    d
}

fn unit(h: u64) -> f64 {
    (h >> 11) as f64 / (1u64 << 53) as f64
}

/// finite, exponent 2^±emax, mixed sign (cancellation in sums is intended: bounds are in Σ|x|)
fn red_mixed(n: usize, salt: u64, side: u64, emax: i32) -> Vec<f64> {
    (0..n).map(|i| finite(Hx::new().u(salt).u(side).u(i as u64).s("red").finish(), i, emax)).collect()
}

/// |x| in 2^(±300/n): no partial product in any order can leave the normal range
fn red_prod(n: usize, salt: u64) -> Vec<f64> {
    (0..n)
        .map(|i| {
            let h = Hx::new().u(salt).u(i as u64).s("prod").finish();
            let h2 = Hx::new().u(h).finish();
            let e = (2.0 * unit(h) - 1.0) * (300.0 / n as f64).min(8.0);
            let s = if h2 & 1 == 1 { -1.0 } else { 1.0 };
            s * e.exp2()
        })
        .collect()
}

/// log-domain data, all |x| <= 1e4: a cluster within ~60 of a base (so several terms contribute)
/// plus entries anywhere in [-1e4, 1e4]
fn red_log(n: usize, salt: u64) -> Vec<f64> {
    const BASES: [f64; 11] = [-1e4, -745.0, -1.0, 0.0, 1.0, 709.0, 5000.0, 1e4, 704.0, 707.5, -706.0];
    let base = BASES[(Hx::new().u(salt).s("base").finish() % 11) as usize];
    // a third of the data sets are tight clusters (width 2): with many terms just below the overflow threshold of
    // exp, every exp(x_i) is representable but their sum is not — the shift by the maximum is needed all the same
    let width = if Hx::new().u(salt).s("tight").finish() % 3 == 0 { 2.0 } else { 120.0 };
    (0..n)
        .map(|i| {
            let h = Hx::new().u(salt).u(i as u64).s("log").finish();
            let h2 = Hx::new().u(h).finish();
            let x = if h % 10 < 7 || width < 10.0 { base + (unit(h2) - 0.5) * width * unit(h2 >> 3).max(0.01) } else { (2.0 * unit(h2) - 1.0) * 1e4 };
            x.clamp(-1e4, 1e4)
        })
        .collect()
}

fn red_call(name: &str, f: impl FnOnce() -> f64) -> Result<f64, crate::engine::Fail> {
    catch(f).or_else(|msg| fail(format!("C04/reduce/{}/panic", name), format!("{} panicked on valid input: {}", name, msg)))
}

/// |got - reference| <= bound, with the reference in double-double
fn red_cmp(ctx: &mut Ctx, name: &str, fam: &str, got: f64, want: DD, bound: f64, n: usize, salt: u64) -> R {
    let err = (want - DD::new(got)).f().abs();
    let ok = got.is_finite() && err <= bound;
    if ok && bound > 0.0 {
        ctx.worst(&format!("reduce/{}/{}", fam, if n < 8 { "n<8" } else { "n>=8" }), err / bound);
    }
    ensure!(
        ok,
        format!("C04/reduce/{}", name),
        "{} on n = {} (salt {}): got {:e}, reference {:e}, |difference| {:e} exceeds the rounding bound {:e}",
        name, n, salt, got, want.f(), err, bound
    );
    Ok(())
}

pub fn check_reduce(ctx: &mut Ctx, c: &RedCase) -> R {
    let n = c.n;
    if n > 1 << 17 || (n > 0 && (c.rows == 0 || n % c.rows != 0)) {
        return Ok(());
    }
    let rows = if n == 0 { 0 } else { c.rows };
    let cols = if n == 0 { 0 } else { n / rows };
    ctx.case("reduce", &len_class(n), n >= 1, Hx::new().json(c).finish());
    ctx.sample("reduce", || json!(c));
    let nf = n as f64;
    let salt = c.salt;
    let x = red_zero(red_mixed(n, salt, 0, 30), c.zeros, salt, 0);
    let y = red_zero(red_mixed(n, salt, 1, 30), c.zeros.min(if salt & 4 == 0 { 2 } else { 0 }), salt, 1);
    let w = red_zero(red_mixed(n, salt, 2, 200), c.zeros, salt, 2);
    let p = red_zero(red_prod(n, salt), c.zeros, salt, 3);
    // log-domain data may contain ln 0 = -inf (but not only that: the all -inf case is 0/0 territory and not asserted)
    let mut lg = red_log(n, salt);
    if c.zeros == 2 && n >= 2 {
        let keep = (Hx::new().u(salt).s("keep").finish() % n as u64) as usize;
        for (i, v) in lg.iter_mut().enumerate() {
            if i != keep && Hx::new().u(salt).u(i as u64).s("neginf").finish() % 3 == 0 {
                *v = f64::NEG_INFINITY;
            }
        }
        if keep != 0 {
            lg[0] = f64::NEG_INFINITY; // in particular in the first position
        }
    }
    let (xv, wv, pv, lv) = (Vector::new(x.clone()), Vector::new(w.clone()), Vector::new(p.clone()), Vector::new(lg.clone()));

    // sum: any summation order has error <= (n-1)u/(1-(n-1)u) Σ|x| <= n ε Σ|x|   (u = ε/2)
    let abs_sum: f64 = dd_sum(&x.iter().map(|v| v.abs()).collect::<Vec<_>>()).f();
    let s_ref = dd_sum(&x);
    let s_bound = nf * EPS * abs_sum;
    red_cmp(ctx, "sum", "sum", red_call("sum", || sum(&x))?, s_ref, s_bound, n, salt)?;
    red_cmp(ctx, "Vector.sum", "sum", red_call("Vector.sum", || xv.sum())?, s_ref, s_bound, n, salt)?;

    // dot: γ_n Σ|x_i y_i| <= n ε Σ|x_i y_i| (products are far from underflow: |x_i y_i| >= 2^-60)
    let d_ref = dd_dot(&x, &y);
    let d_abs = dd_dot(&x.iter().map(|v| v.abs()).collect::<Vec<_>>(), &y.iter().map(|v| v.abs()).collect::<Vec<_>>()).f();
    red_cmp(ctx, "dot", "dot", red_call("dot", || dot(&x, &y))?, d_ref, nf * EPS * d_abs, n, salt)?;

    // norm: dot(x,x) has relative error <= γ_n (all terms positive), the square root halves it and adds u:
    // n ε/4 + ε/2 < (n/2 + 2) ε relative.  Squares stay in 2^±400.
    let n_ref = dd_dot(&w, &w).sqrt();
    let n_bound = (nf / 2.0 + 2.0) * EPS * n_ref.f();
    red_cmp(ctx, "norm", "norm", red_call("norm", || norm(&w))?, n_ref, n_bound, n, salt)?;
    red_cmp(ctx, "Vector.norm", "norm", red_call("Vector.norm", || wv.norm())?, n_ref, n_bound, n, salt)?;

    // prod: (n-1) roundings, relative (n-1)u < (n/2 + 2) ε; empty product = 1
    let mut p_ref = DD::ONE;
    for v in &p {
        p_ref = p_ref * DD::new(*v);
    }
    let p_bound = (nf / 2.0 + 2.0) * EPS * p_ref.f().abs();
    red_cmp(ctx, "prod", "prod", red_call("prod", || prod(&p))?, p_ref, p_bound, n, salt)?;
    red_cmp(ctx, "Vector.prod", "prod", red_call("Vector.prod", || pv.prod())?, p_ref, p_bound, n, salt)?;

    if n >= 1 {
        // infinity norm: every row sum of absolute values has relative error <= (cols-1)u, so does the maximum
        let mut i_ref = DD::ZERO;
        for r in 0..rows {
            let rs = dd_sum(&x[r * cols..(r + 1) * cols].iter().map(|v| v.abs()).collect::<Vec<_>>());
            if i_ref.lt(rs) {
                i_ref = rs;
            }
        }
        let i_bound = cols as f64 * EPS * i_ref.f();
        red_cmp(ctx, "inf_norm", "inf_norm", red_call("inf_norm", || inf_norm(&x, rows))?, i_ref, i_bound, n, salt)?;
        let (xm, wm, pm) = (mk_mat(&x, rows, cols), mk_mat(&w, rows, cols), mk_mat(&p, rows, cols));
        red_cmp(ctx, "Matrix.inf_norm", "inf_norm", red_call("Matrix.inf_norm", || xm.inf_norm())?, i_ref, i_bound, n, salt)?;
        red_cmp(ctx, "Matrix.sum", "sum", red_call("Matrix.sum", || xm.sum())?, s_ref, s_bound, n, salt)?;
        red_cmp(ctx, "Matrix.norm", "norm", red_call("Matrix.norm", || wm.norm())?, n_ref, n_bound, n, salt)?;
        red_cmp(ctx, "Matrix.prod", "prod", red_call("Matrix.prod", || pm.prod())?, p_ref, p_bound, n, salt)?;

        // log-sum-exp with m = max x: s = Σ exp(x_i - m) in [1, n].  Per term: the rounded difference d_i perturbs
        // exp by |d_i| u e^{d_i} <= u/e, exp itself by ~1 ulp, the sum by (n-1)u s, ln by u |ln s| plus the relative
        // error of s, the final addition by u |result|:  < (2.4 n + ln n + |result|) u  <  4 (n+2) ε (1 + |result|).
        let m = lg.iter().cloned().fold(f64::NEG_INFINITY, f64::max);
        let mut s = DD::ZERO;
        for v in &lg {
            if *v == f64::NEG_INFINITY {
                continue; // exp(-inf) = 0
            }
            s = s + (DD::new(*v) - DD::new(m)).exp();
        }
        let lse = s.ln() + DD::new(m);
        let lme = (s / DD::new(nf)).ln() + DD::new(m);
        let b1 = 4.0 * (nf + 2.0) * EPS * (1.0 + lse.f().abs());
        let b2 = 4.0 * (nf + 2.0) * EPS * (1.0 + lme.f().abs());
        red_cmp(ctx, "logsumexp", "logsumexp", red_call("logsumexp", || logsumexp(&lg))?, lse, b1, n, salt)?;
        red_cmp(ctx, "Vector.logsumexp", "logsumexp", red_call("Vector.logsumexp", || lv.logsumexp())?, lse, b1, n, salt)?;
        red_cmp(ctx, "logmeanexp", "logmeanexp", red_call("logmeanexp", || logmeanexp(&lg))?, lme, b2, n, salt)?;
        red_cmp(ctx, "Vector.logmeanexp", "logmeanexp", red_call("Vector.logmeanexp", || lv.logmeanexp())?, lme, b2, n, salt)?;
    }
    Ok(())
}

// ------------------------------------------------------------------------------------------------
// drivers

fn shapes_for(cont: u8, n: usize) -> Vec<(usize, usize)> {
    if cont == 0 {
        vec![(1, n)]
    } else if n == 0 {
        vec![(0, 0)]
    } else {
        divisors(n).into_iter().map(|r| (r, n / r)).collect()
    }
}

fn shape_strategy(maxlen: usize) -> impl Strategy<Value = (u8, usize, usize)> {
    (0u8..2, 0usize..=maxlen, any::<u16>()).prop_map(|(cont, n, dsel)| {
        let sh = shapes_for(cont, n);
        let (r, c) = sh[dsel as usize % sh.len()];
        (cont, r, c)
    })
}

pub fn run(ctx: &mut Ctx) {
    ctx.rule = "lengths 0..=40 are enumerated completely for every operator form (4 operators x 11 operand forms + negation), every map \
(29 unary maps, powi -3..=5, powf with 6 exponents) and every container shape (Vector; Matrix in every factorisation r x c of the length, \
Matrix::empty() for length 0), each with several data sets; then random lengths up to 1e4 (thorough 1e5). Data are a pure function of \
(kind, salt, index): finite values distinct per position, a mix with ±0, ±inf, subnormals and NaN, or rounding-critical values (half-way cases and neighbours, integers around 2^52..2^53, 1 ± ulp). A case is non-trivial when the \
length is >= 1 and at least one element is finite and non-zero; distinct by (container, shape, form / map, data kind, salt). \
Reductions: one case = (n, rows, salt, zero mode) checks all reductions on data sets built for them; zero mode = none / every element a signed zero / about half the elements signed zeros (in that mode the log-domain data also hold -inf = ln 0 entries, the first position among them)."
        .into();
    ctx.assumptions = vec![
        "bit-exact comparison; any NaN matches any NaN (sign and payload of a NaN result are not specified by IEEE-754 for commuted operands)".into(),
        "powi with exponent 2 or 3 may be x.powi(e) or the explicit product".into(),
        "a panic of any kind counts as rejection of a length / shape mismatch; Matrix∘Matrix of different shapes without assignment is broadcast territory (C12) and not generated here".into(),
        "reductions are only checked on finite data whose exact result is far from overflow/underflow; log-domain reductions are not asserted for length 0 (ln 0 / 0/0)".into(),
        "inf_norm and the Matrix reduction methods need at least one row, so they are checked for n >= 1".into(),
    ];
    // data sets: (kind, salt)
    let nsets = ctx.scale(3, 10);
    let mut sets: Vec<(u8, u64)> = vec![];
    for j in 0..nsets {
        for dkind in [0u8, 1, 2, 4] {
            sets.push((dkind, mix_seed(ctx.seed, "c04/set", j * 4 + dkind as u64) | 1));
        }
    }
    for cont in 0u8..2 {
        for n in 0usize..=40 {
            for (rows, cols) in shapes_for(cont, n) {
                for &(dkind, salt) in &sets {
                    for form in 0..NFORMS {
                        ctx.check_one("ops", &OpCase { cont, rows, cols, form, dkind, salt }, check_ops);
                    }
                    for map in 0..MAP_POWI {
                        ctx.check_one("maps", &MapCase { cont, rows, cols, map, ei: 0, p: 0.0, dkind, salt }, check_maps);
                    }
                    // powi / powf additionally on the moderate-magnitude pool so that results are mostly finite
                    for dk in [dkind, 3] {
                        for ei in -3..=5 {
                            ctx.check_one("maps", &MapCase { cont, rows, cols, map: MAP_POWI, ei, p: 0.0, dkind: dk, salt }, check_maps);
                        }
                        for p in POWF_EXPS {
                            ctx.check_one("maps", &MapCase { cont, rows, cols, map: MAP_POWF, ei: 0, p, dkind: dk, salt }, check_maps);
                        }
                    }
                }
            }
        }
    }
    ctx.exhaustive.push("ops: lengths 0..=40 x {Vector, Matrix in every factorisation, Matrix::empty()} x 45 operator forms x data sets".into());
    ctx.exhaustive.push("maps: lengths 0..=40 x same shapes x (29 maps + powi -3..=5 + powf x 6 exponents) x data sets".into());

    // mismatches: Vector lengths n vs n' for every two-container form; Matrix op= with another shape
    for n in 0usize..=40 {
        let mut others = vec![n + 1, n + 8, 2 * n + 1, 0];
        if n > 0 {
            others.push(n - 1);
        }
        if n >= 8 {
            others.push(n - 8);
        }
        for o in others {
            for op in 0u16..4 {
                for k in [0u16, 1, 2, 3, 8, 9] {
                    ctx.check_one("mismatch", &MisCase { cont: 0, form: op * 11 + k, ar: 1, ac: n, br: 1, bc: o }, check_mismatch);
                }
            }
        }
    }
    let mshapes: Vec<(usize, usize)> = vec![(0, 0), (1, 1), (1, 2), (2, 1), (2, 3), (3, 2), (1, 6), (6, 1), (2, 2), (4, 4), (2, 8), (8, 2), (3, 3), (1, 9), (5, 8), (8, 5), (4, 10)];
    for &(ar, ac) in &mshapes {
        for &(br, bc) in &mshapes {
            for op in 0u16..4 {
                for k in [8u16, 9] {
                    ctx.check_one("mismatch", &MisCase { cont: 1, form: op * 11 + k, ar, ac, br, bc }, check_mismatch);
                }
            }
        }
    }

    // reductions
    let rsalts = ctx.scale(12, 60);
    for n in 0usize..=40 {
        for rows in if n == 0 { vec![1] } else { divisors(n) } {
            for j in 0..rsalts {
                let salt = mix_seed(ctx.seed, "c04/red", (n as u64) * 1000 + j);
                for zeros in 0..3u8 {
                    ctx.check_one("reduce", &RedCase { n, rows, salt, zeros }, check_reduce);
                }
            }
        }
    }
    ctx.exhaustive.push("reduce: lengths 0..=40 x every row count dividing the length x data salts".into());

    // random lengths
    let maxlen = ctx.scale(10_000, 100_000) as usize;
    let nrand = ctx.scale(12_000, 60_000);
    ctx.run_prop_par(
        "ops",
        nrand,
        8,
        || (shape_strategy(maxlen), 0..NFORMS, 0usize..4, any::<u64>()).prop_map(|((cont, rows, cols), form, dk, salt)| OpCase { cont, rows, cols, form, dkind: [0u8, 1, 2, 4][dk], salt: salt | 1 }),
        check_ops,
    );
    ctx.run_prop_par(
        "maps",
        nrand,
        8,
        || {
            (shape_strategy(maxlen), 0u8..=MAP_POWF, -3i32..=5, 0usize..POWF_EXPS.len(), 0u8..5, any::<u64>()).prop_map(|((cont, rows, cols), map, ei, pi, dkind, salt)| MapCase {
                cont,
                rows,
                cols,
                map,
                ei: if map == MAP_POWI { ei } else { 0 },
                p: if map == MAP_POWF { POWF_EXPS[pi] } else { 0.0 },
                dkind,
                salt: salt | 1,
            })
        },
        check_maps,
    );
    ctx.run_prop_par(
        "mismatch",
        ctx.scale(2_000, 20_000),
        4,
        || {
            (0usize..=2_000, 0usize..2_000, 0u16..4, 0usize..6).prop_map(|(n, o, op, ki)| MisCase { cont: 0, form: op * 11 + [0u16, 1, 2, 3, 8, 9][ki], ar: 1, ac: n, br: 1, bc: if o >= n { o + 1 } else { o } })
        },
        check_mismatch,
    );
    ctx.run_prop_par(
        "reduce",
        ctx.scale(4_000, 20_000),
        8,
        || {
            (1usize..=maxlen, any::<u16>(), any::<u64>(), 0u8..8).prop_map(|(n, dsel, salt, z)| {
                let d = divisors(n);
                RedCase { n, rows: d[dsel as usize % d.len()], salt, zeros: if z >= 6 { z - 5 } else { 0 } }
            })
        },
        check_reduce,
    );
}

pub fn replay(ctx: &mut Ctx, sub: &str, v: Value) -> Option<R> {
    match sub {
        "ops" => Some(check_ops(ctx, &decode::<OpCase>(v)?)),
        "maps" => Some(check_maps(ctx, &decode::<MapCase>(v)?)),
        "mismatch" => Some(check_mismatch(ctx, &decode::<MisCase>(v)?)),
        "reduce" => Some(check_reduce(ctx, &decode::<RedCase>(v)?)),
        _ => None,
    }
}
