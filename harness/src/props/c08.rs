//! C08 — Descriptive statistics equal their textbook definitions.
//!
//! Generated: data vectors (and pairs) of length 1..=10^4 in nine classes — small integers, Gaussian,
//! heavily offset (mean/sd = 10^0..10^8), constant, sorted, reversed, with ties, signed zeros, large
//! integer offset — every length 1..=40 per class deterministically, the rest by proptest; dyadic-grid
//! data with exactly representable shifts / scale factors for the metamorphic clauses; uniform,
//! non-uniform and log-spaced bin edges.
//!
//! Oracle: the definitions in double-double (exact integer arithmetic in i128 when the data are
//! integers, which also cross-checks the dd code).  One sub-check (own proptest run, own signature) per
//! function and clause so that one defect cannot hide another.
//!
//! Tolerances (ε = 2^-52 = 2u, n = length, x̄ = mean, a = mean|x|, ‖dx‖ = ‖x − x̄‖₂):
//!  * mean, welford_mean: (n+8)·ε·a.  Recursive summation: (n−1)·u·Σ|x|/n + u·|x̄|; Welford's running
//!    mean: error e_n = Σ_k (k/n)·local_k with local_k ≤ u(|m_k| + 2|x_k − m_{k−1}|/k), which sums to
//!    ≤ u·(n + 2 + 2 ln n)·a.  (n+8)·ε = (2n+16)·u covers both for every n ≥ 1.  =: δ(x).
//!  * M2 = Σ(x−x̄)² (var = M2/n, sample_var = M2/(n−1)): 8·n·ε·(‖dx‖² + √n·|x̄|·‖dx‖) + 4·n·δ(x)².
//!    First term = 8·n·ε·M2·(1 + |x̄|/sd) ≥ the 8·n·κ·ε·M2 of DESIGN (κ = √(1+x̄²/var)), the bound of an
//!    updating (Welford/West) algorithm with 16× slack (Chan–Golub–LeVeque: n·κ·u); the second term is
//!    the n·δ² a two-pass algorithm with a rounded mean is entitled to (it is what makes constant data
//!    with an inexactly computed mean acceptable; 1e-24 relative to x̄² at n = 1e4).
//!  * std: |√a − √b| ≤ min(|a−b|/√b, √|a−b|) applied to the variance tolerance, + 4·ε·sd.
//!  * Sxy = Σ(x−x̄)(y−ȳ) (covariance = Sxy/n, sample versions Sxy/(n−1)):
//!    8·n·ε·(‖dx‖‖dy‖ + √n·(|x̄|‖dy‖ + |ȳ|‖dx‖)) + 4·n·δ(x)·δ(y) — the bilinear analogue of the above.
//!    For the one-pass algorithm documented as "shifted by a data element" ‖dx‖ is replaced by
//!    √(‖dx‖² + n·max|dx_i|²) ≥ ‖x − s‖₂ for every data element s (error bound of a shifted one-pass
//!    formula: n·u·(Σ|u_i v_i| + |Σu Σv|/n) ≤ 2·n·u·‖x−s‖‖y−t‖).
//!  * metamorphic (exact shifts / scalings, so the mathematical value is unchanged / scaled exactly):
//!    |f(Tx) − g·f(x)| ≤ tol(Tx) + |g|·tol(x).
//!  * min/max: equal as values (so −0 = +0); argmin/argmax: index of an extreme element and no earlier
//!    element equal to it.
//!  * hist_bin_centers: 4·ε·max|e|·len (admits the cumulative algorithm on uniform edges).
//! "The alternative algorithms agree with one another" follows from every algorithm being within its
//! bound of the same reference (triangle inequality) with the n vs n−1 divisor applied by the oracle.

use crate::engine::{catch, decode, fail, mix_seed, Ctx, Hx, R};
use crate::oracle::dd::DD;
use compute::linalg::{Matrix, Vector};
use compute::statistics as st;
use proptest::collection::vec;
use proptest::prelude::*;
use serde::{Deserialize, Serialize};
use serde_json::{json, Value};

const EPS: f64 = f64::EPSILON;

// ------------------------------------------------------------------------------------------------
// cases

#[derive(Clone, Debug, Serialize, Deserialize)]
pub struct SCase {
    pub class: u8,
    pub x: Vec<f64>,
    /// paired vector (empty for univariate sub-checks)
    #[serde(default)]
    pub y: Vec<f64>,
}

#[derive(Clone, Debug, Serialize, Deserialize)]
pub struct MCase {
    pub class: u8,
    pub x: Vec<f64>,
    #[serde(default)]
    pub y: Vec<f64>,
    /// shifts added to x and y (exactly representable sums by construction)
    pub c: f64,
    pub d: f64,
    /// scale factors for x and y (exact products by construction)
    pub a: f64,
    pub b: f64,
}

#[derive(Clone, Debug, Serialize, Deserialize)]
pub struct HCase {
    pub class: u8,
    pub edges: Vec<f64>,
}

const CLASSES: [&str; 9] = ["int", "gauss", "offset", "const", "sorted", "reversed", "ties", "zeros", "int+offset"];
const NCLASS: u8 = 9;
const MCLASSES: [&str; 5] = ["grid-gauss", "grid-int", "grid-ties", "grid-const", "grid-preoffset"];
const HCLASSES: [&str; 4] = ["uniform", "non-uniform", "log-spaced", "near-uniform"];

// ------------------------------------------------------------------------------------------------
// oracle

struct Uni {
    n: usize,
    mean: DD,
    /// Σ (x − mean)²
    m2: DD,
    /// sqrt(m2)
    nrm: f64,
    /// max |x − mean|
    maxdev: f64,
    /// δ(x): bound on the error of a computed mean
    dmean: f64,
}

fn is_small_int(x: &[f64]) -> bool {
    x.iter().all(|v| v.fract() == 0.0 && v.abs() <= 2147483648.0)
}

fn dd_from_i128(v: i128) -> DD {
    let neg = v < 0;
    let a = v.unsigned_abs();
    let lo = (a & ((1u128 << 48) - 1)) as f64;
    let hi = ((a >> 48) as f64) * 2f64.powi(48);
    let r = DD::from_sum(hi, lo);
    if neg {
        -r
    } else {
        r
    }
}

fn close(a: DD, b: DD) -> bool {
    let d = (a - b).abs().f();
    d <= 1e-25 * (a.abs().f() + b.abs().f()) + 1e-290
}

fn uni(x: &[f64]) -> Uni {
    let n = x.len();
    let nf = DD::new(n as f64);
    let mut s = DD::ZERO;
    let mut sa = 0.0;
    for &v in x {
        s = s + DD::new(v);
        sa += v.abs();
    }
    let mut mean = s / nf;
    let mut m2 = DD::ZERO;
    let mut maxdev = 0.0f64;
    for &v in x {
        let d = DD::new(v) - mean;
        m2 = m2 + d * d;
        maxdev = maxdev.max(d.f().abs());
    }
    if is_small_int(x) {
        // exact rational oracle: mean = S/n, M2 = (n Σx² − S²)/n
        let si: i128 = x.iter().map(|v| *v as i128).sum();
        let sq: i128 = x.iter().map(|v| (*v as i128) * (*v as i128)).sum();
        let mean_e = dd_from_i128(si) / nf;
        let m2_e = dd_from_i128(n as i128 * sq - si * si) / nf;
        // the two oracles must agree far below any tolerance used (dd carries ~1e-32; the sums of
        // squares of offset integers cancel, hence the absolute allowance)
        let scale = dd_from_i128(sq).f().abs();
        if !close(mean, mean_e) || (m2 - m2_e).abs().f() > 1e-25 * (scale + 1.0) {
            panic!("oracle disagreement (dd vs exact integer): mean {:?} vs {:?}, M2 {:?} vs {:?}", mean, mean_e, m2, m2_e);
        }
        mean = mean_e;
        m2 = m2_e;
    }
    let absmean = sa / n as f64;
    Uni {
        n,
        mean,
        m2,
        nrm: m2.f().max(0.0).sqrt(),
        maxdev,
        dmean: (n as f64 + 8.0) * EPS * absmean,
    }
}

/// Σ (x − x̄)(y − ȳ)
fn sxy(x: &[f64], y: &[f64], ux: &Uni, uy: &Uni) -> DD {
    let mut s = DD::ZERO;
    for (a, b) in x.iter().zip(y) {
        s = s + (DD::new(*a) - ux.mean) * (DD::new(*b) - uy.mean);
    }
    if is_small_int(x) && is_small_int(y) {
        let n = x.len() as i128;
        let sx: i128 = x.iter().map(|v| *v as i128).sum();
        let sy: i128 = y.iter().map(|v| *v as i128).sum();
        let sp: i128 = x.iter().zip(y).map(|(a, b)| (*a as i128) * (*b as i128)).sum();
        let e = dd_from_i128(n * sp - sx * sy) / DD::new(n as f64);
        let scale = x.iter().zip(y).map(|(a, b)| (a * b).abs()).sum::<f64>() + ux.nrm * uy.nrm;
        if (s - e).abs().f() > 1e-25 * (scale + 1.0) {
            panic!("oracle disagreement (dd vs exact integer): Sxy {:?} vs {:?}", s, e);
        }
        return e;
    }
    s
}

fn tol_m2(u: &Uni) -> f64 {
    let n = u.n as f64;
    8.0 * n * EPS * (u.nrm * u.nrm + n.sqrt() * u.mean.f().abs() * u.nrm) + 4.0 * n * u.dmean * u.dmean
}

fn tol_sxy(ux: &Uni, uy: &Uni, shifted_onepass: bool) -> f64 {
    let n = ux.n as f64;
    let (ax, ay) = if shifted_onepass {
        ((ux.nrm * ux.nrm + n * ux.maxdev * ux.maxdev).sqrt(), (uy.nrm * uy.nrm + n * uy.maxdev * uy.maxdev).sqrt())
    } else {
        (ux.nrm, uy.nrm)
    };
    8.0 * n * EPS * (ax * ay + n.sqrt() * (ux.mean.f().abs() * uy.nrm + uy.mean.f().abs() * ux.nrm)) + 4.0 * n * ux.dmean * uy.dmean
}

#[derive(Clone, Copy, PartialEq, Debug)]
enum Stat {
    Mean,
    WelfordMean,
    Var,
    SampleVar,
    Std,
    SampleStd,
    Cov,
    SampleCov,
    OnePass,
    Online,
}

impl Stat {
    /// sub-check name
    fn sub(self) -> &'static str {
        match self {
            Stat::Mean => "mean",
            Stat::WelfordMean => "welford_mean",
            Stat::Var => "var",
            Stat::SampleVar => "sample_var",
            Stat::Std => "std",
            Stat::SampleStd => "sample_std",
            Stat::Cov => "covariance/two-pass",
            Stat::SampleCov => "sample_covariance/two-pass",
            Stat::OnePass => "covariance/onepass",
            Stat::Online => "covariance/online",
        }
    }
    /// library function name (for messages)
    fn func(self) -> &'static str {
        match self {
            Stat::Cov => "covariance",
            Stat::SampleCov => "sample_covariance",
            Stat::OnePass => "sample_covariance_onepass",
            Stat::Online => "sample_covariance_online",
            s => s.sub(),
        }
    }
    fn biv(self) -> bool {
        matches!(self, Stat::Cov | Stat::SampleCov | Stat::OnePass | Stat::Online)
    }
    fn min_n(self) -> usize {
        match self {
            Stat::Mean | Stat::WelfordMean | Stat::Var | Stat::Std | Stat::Cov => 1,
            _ => 2,
        }
    }
    /// 0 = free function, 1 = Vector method, 2 = Matrix method
    fn forms(self) -> &'static [u8] {
        match self {
            Stat::Mean | Stat::Var | Stat::SampleVar | Stat::Std | Stat::SampleStd => &[0, 1, 2],
            _ => &[0],
        }
    }
}

fn form_prefix(form: u8) -> &'static str {
    match form {
        0 => "",
        1 => "Vector::",
        _ => "Matrix::",
    }
}

/// A divisor of n used as the column count of the Matrix forms (2 ≤ d < n when n is composite).
fn some_divisor(n: usize) -> usize {
    let mut d = 2;
    while d * d <= n {
        if n % d == 0 {
            return d;
        }
        d += 1;
    }
    n
}

fn lib_value(s: Stat, form: u8, x: &[f64], y: &[f64]) -> Result<f64, String> {
    catch(|| match form {
        0 => match s {
            Stat::Mean => st::mean(x),
            Stat::WelfordMean => st::welford_mean(x),
            Stat::Var => st::var(x),
            Stat::SampleVar => st::sample_var(x),
            Stat::Std => st::std(x),
            Stat::SampleStd => st::sample_std(x),
            Stat::Cov => st::covariance(x, y),
            Stat::SampleCov => st::sample_covariance(x, y),
            Stat::OnePass => st::sample_covariance_onepass(x, y),
            Stat::Online => st::sample_covariance_online(x, y),
        },
        1 => {
            let v = Vector::new(x.to_vec());
            match s {
                Stat::Mean => v.mean(),
                Stat::Var => v.var(),
                Stat::SampleVar => v.sample_var(),
                Stat::Std => v.std(),
                _ => v.sample_std(),
            }
        }
        _ => {
            let nc = some_divisor(x.len());
            let m = Matrix::new(x.to_vec(), (x.len() / nc) as i32, nc as i32);
            match s {
                Stat::Mean => m.mean(),
                Stat::Var => m.var(),
                Stat::SampleVar => m.sample_var(),
                Stat::Std => m.std(),
                _ => m.sample_std(),
            }
        }
    })
}

/// (reference value, absolute tolerance, κ = 1 + |mean|/sd of the worse-conditioned operand)
fn reference(s: Stat, x: &[f64], y: &[f64]) -> (f64, f64, f64) {
    let ux = uni(x);
    let n = ux.n as f64;
    let kap = |u: &Uni| -> f64 {
        if u.nrm > 0.0 {
            1.0 + u.mean.f().abs() * n.sqrt() / u.nrm
        } else if u.mean.f() == 0.0 {
            1.0
        } else {
            f64::INFINITY
        }
    };
    match s {
        Stat::Mean | Stat::WelfordMean => (ux.mean.f(), ux.dmean, kap(&ux)),
        Stat::Var | Stat::SampleVar | Stat::Std | Stat::SampleStd => {
            let div = if matches!(s, Stat::Var | Stat::Std) { n } else { n - 1.0 };
            let v = ux.m2 / DD::new(div);
            let tv = tol_m2(&ux) / div;
            if matches!(s, Stat::Var | Stat::SampleVar) {
                (v.f(), tv, kap(&ux))
            } else {
                let sd = v.sqrt().f();
                let t = if sd > 0.0 { (tv / sd).min(tv.sqrt()) } else { tv.sqrt() };
                (sd, t + 4.0 * EPS * sd, kap(&ux))
            }
        }
        _ => {
            let uy = uni(y);
            let sp = sxy(x, y, &ux, &uy);
            let div = if s == Stat::Cov { n } else { n - 1.0 };
            let t = tol_sxy(&ux, &uy, s == Stat::OnePass) / div;
            ((sp / DD::new(div)).f(), t, kap(&ux).max(kap(&uy)))
        }
    }
}

fn ratio(diff: f64, tol: f64) -> f64 {
    if diff <= tol {
        if tol > 0.0 {
            diff / tol
        } else {
            0.0
        }
    } else if diff.is_nan() {
        f64::INFINITY
    } else {
        diff / tol
    }
}

fn decade(k: f64) -> String {
    if !k.is_finite() {
        "kappa=inf".into()
    } else {
        format!("kappa=1e{}", (k.max(1.0).log10().floor() as i32).min(9))
    }
}

fn len_bucket(n: usize) -> &'static str {
    match n {
        0..=2 => "n=1..2",
        3..=8 => "n=3..8",
        9..=40 => "n=9..40",
        41..=400 => "n=41..400",
        _ => "n>400",
    }
}

fn finite(x: &[f64]) -> bool {
    x.iter().all(|v| v.is_finite())
}

fn show(x: &[f64]) -> String {
    if x.len() <= 8 {
        format!("{:?}", x)
    } else {
        format!("[{:?}, {:?}, {:?}, … {} values]", x[0], x[1], x[2], x.len())
    }
}

fn scase_hash(c: &SCase) -> u64 {
    Hx::new().u(c.class as u64).fs(&c.x).fs(&c.y).finish()
}

fn class_name(c: u8) -> &'static str {
    CLASSES.get(c as usize).copied().unwrap_or("other")
}

// ------------------------------------------------------------------------------------------------
// definitional sub-checks

fn check_def(ctx: &mut Ctx, c: &SCase, s: Stat) -> R {
    let n = c.x.len();
    if n < s.min_n() || n > 10_000 || !finite(&c.x) || (s.biv() && (c.y.len() != n || !finite(&c.y))) {
        return Ok(()); // outside the quantifier (hand-edited replay files only)
    }
    let sub = s.sub();
    let y: &[f64] = if s.biv() { &c.y } else { &[] };
    let constant = c.x.iter().all(|v| *v == c.x[0]) && y.iter().all(|v| *v == y[0]);
    ctx.case(sub, class_name(c.class), n >= 3 && !constant, scase_hash(c));
    ctx.label(sub, len_bucket(n));
    ctx.sample(sub, || json!(c));
    let (want, tol, kap) = reference(s, &c.x, y);
    if !matches!(s, Stat::Mean | Stat::WelfordMean) {
        ctx.label(sub, &decade(kap));
    } else {
        ctx.label(sub, &format!("len%8={}", n % 8));
    }
    for &form in s.forms() {
        let name = format!("{}{}", form_prefix(form), s.func());
        let sig = format!("C08/{}{}", form_prefix(form), sub);
        let got = match lib_value(s, form, &c.x, y) {
            Ok(v) => v,
            Err(msg) => return fail(format!("{}/panic", sig), format!("{} panicked on valid data {} {}: {}", name, show(&c.x), show(y), msg)),
        };
        let diff = (got - want).abs();
        ctx.worst(&format!("{} |got-def|/tol", name), ratio(diff, tol));
        ensure!(
            diff <= tol,
            sig,
            "{}(x={}{}) = {:e}, definition gives {:e} (difference {:e}, rounding allowance {:e}, n = {})",
            name,
            show(&c.x),
            if s.biv() { format!(", y={}", show(y)) } else { String::new() },
            got,
            want,
            diff,
            tol,
            n
        );
    }
    // the covariance of a series with itself, passed as the *same* slice twice (x aliased with y): the value is
    // the variance with the function's own divisor; an identity shortcut must not change it
    if s.biv() {
        let (want, tol, _) = reference(s, &c.x, &c.x);
        let sig = format!("C08/{}", sub);
        let got = match catch(|| match s {
            Stat::Cov => st::covariance(&c.x, &c.x),
            Stat::SampleCov => st::sample_covariance(&c.x, &c.x),
            Stat::OnePass => st::sample_covariance_onepass(&c.x, &c.x),
            _ => st::sample_covariance_online(&c.x, &c.x),
        }) {
            Ok(v) => v,
            Err(msg) => return fail(format!("{}/panic", sig), format!("{}(x, x) panicked on valid data {}: {}", s.func(), show(&c.x), msg)),
        };
        let diff = (got - want).abs();
        ctx.worst(&format!("{}(x, x) |got-def|/tol", s.func()), ratio(diff, tol));
        ensure!(
            diff <= tol,
            sig,
            "{}(x, x) with the same slice passed twice, x={}: {:e}, definition gives {:e} (difference {:e}, rounding allowance {:e}, n = {})",
            s.func(), show(&c.x), got, want, diff, tol, n
        );
    }
    Ok(())
}

macro_rules! def_fns {
    ($($name:ident => $stat:expr),+ $(,)?) => {
        $( fn $name(ctx: &mut Ctx, c: &SCase) -> R { check_def(ctx, c, $stat) } )+
    };
}
def_fns!(
    d_mean => Stat::Mean,
    d_wmean => Stat::WelfordMean,
    d_var => Stat::Var,
    d_svar => Stat::SampleVar,
    d_std => Stat::Std,
    d_sstd => Stat::SampleStd,
    d_cov => Stat::Cov,
    d_scov => Stat::SampleCov,
    d_onepass => Stat::OnePass,
    d_online => Stat::Online,
);

// ------------------------------------------------------------------------------------------------
// metamorphic sub-checks: shift invariance and quadratic / bilinear scaling

#[derive(Clone, Copy, PartialEq)]
enum Meta {
    Shift,
    Scale,
}

fn check_meta(ctx: &mut Ctx, c: &MCase, s: Stat, m: Meta) -> R {
    let n = c.x.len();
    let biv = s.biv();
    let mname = if m == Meta::Shift { "shift-invariance" } else { "scaling" };
    let sub = format!("{}/{}", mname, s.sub());
    if n < s.min_n() || n > 10_000 || !finite(&c.x) || (biv && (c.y.len() != n || !finite(&c.y))) || !c.a.is_finite() || !c.b.is_finite() || !c.c.is_finite() || !c.d.is_finite() {
        return Ok(());
    }
    let y: &[f64] = if biv { &c.y } else { &[] };
    let constant = c.x.iter().all(|v| *v == c.x[0]) && y.iter().all(|v| *v == y[0]);
    let h = Hx::new().u(c.class as u64).fs(&c.x).fs(y).f(c.c).f(c.d).f(c.a).f(c.b).finish();
    ctx.case(&sub, MCLASSES.get(c.class as usize).copied().unwrap_or("other"), n >= 3 && !constant, h);
    ctx.sample(&sub, || json!(c));
    // transformed data; the construction makes every sum / product exact, which is what turns the
    // mathematical identity into one between representable data sets
    let (tx, ty, g, exact) = match m {
        Meta::Shift => {
            let tx: Vec<f64> = c.x.iter().map(|v| v + c.c).collect();
            let ty: Vec<f64> = y.iter().map(|v| v + c.d).collect();
            let ex = c.x.iter().all(|v| DD::from_sum(*v, c.c).lo == 0.0) && y.iter().all(|v| DD::from_sum(*v, c.d).lo == 0.0);
            (tx, ty, 1.0, ex)
        }
        Meta::Scale => {
            let tx: Vec<f64> = c.x.iter().map(|v| v * c.a).collect();
            let ty: Vec<f64> = y.iter().map(|v| v * c.b).collect();
            let ex = c.x.iter().all(|v| DD::from_prod(*v, c.a).lo == 0.0) && y.iter().all(|v| DD::from_prod(*v, c.b).lo == 0.0);
            let g = if biv { c.a * c.b } else { c.a * c.a };
            (tx, ty, g, ex && DD::from_prod(if biv { c.b } else { c.a }, c.a).lo == 0.0)
        }
    };
    if !exact || !finite(&tx) || !finite(&ty) {
        ctx.label(&sub, "skipped/inexact-transform");
        return Ok(());
    }
    let base_sig = format!("C08/{}", s.sub());
    let sig = format!("C08/{}/{}", mname, s.sub());
    let (want0, tol0, _) = reference(s, &c.x, y);
    let (_, tol1, kap1) = reference(s, &tx, &ty);
    ctx.label(&sub, &decade(kap1));
    let r0 = match lib_value(s, 0, &c.x, y) {
        Ok(v) => v,
        Err(msg) => return fail(format!("{}/panic", base_sig), format!("{} panicked on valid data {} {}: {}", s.func(), show(&c.x), show(y), msg)),
    };
    // a function that is already wrong on the base data is reported under its definitional signature
    ensure!(
        (r0 - want0).abs() <= tol0,
        base_sig,
        "{}(x={}{}) = {:e}, definition gives {:e} (rounding allowance {:e})",
        s.func(),
        show(&c.x),
        if biv { format!(", y={}", show(y)) } else { String::new() },
        r0,
        want0,
        tol0
    );
    let r1 = match lib_value(s, 0, &tx, &ty) {
        Ok(v) => v,
        Err(msg) => return fail(format!("{}/panic", sig), format!("{} panicked on valid data {} {}: {}", s.func(), show(&tx), show(&ty), msg)),
    };
    let tol = tol1 + g.abs() * tol0;
    let diff = (r1 - g * r0).abs();
    ctx.worst(&format!("{} {}", mname, s.func()), ratio(diff, tol));
    match m {
        Meta::Shift => ensure!(
            diff <= tol,
            sig,
            "{} changed under an exact shift: f(x{})={:e} but f(x+{:e}{})={:e} (difference {:e}, allowance {:e}); x={}",
            s.func(),
            if biv { ",y" } else { "" },
            r0,
            c.c,
            if biv { format!(", y+{:e}", c.d) } else { String::new() },
            r1,
            diff,
            tol,
            show(&c.x)
        ),
        Meta::Scale => ensure!(
            diff <= tol,
            sig,
            "{} does not scale by {:e}: f(x{})={:e}, f({:e}·x{})={:e}, expected {:e} (difference {:e}, allowance {:e}); x={}",
            s.func(),
            g,
            if biv { ",y" } else { "" },
            r0,
            c.a,
            if biv { format!(", {:e}·y", c.b) } else { String::new() },
            r1,
            g * r0,
            diff,
            tol,
            show(&c.x)
        ),
    }
    Ok(())
}

macro_rules! meta_fns {
    ($($name:ident => ($stat:expr, $m:expr)),+ $(,)?) => {
        $( fn $name(ctx: &mut Ctx, c: &MCase) -> R { check_meta(ctx, c, $stat, $m) } )+
    };
}
meta_fns!(
    sh_var => (Stat::Var, Meta::Shift),
    sh_svar => (Stat::SampleVar, Meta::Shift),
    sh_cov => (Stat::Cov, Meta::Shift),
    sh_scov => (Stat::SampleCov, Meta::Shift),
    sh_onepass => (Stat::OnePass, Meta::Shift),
    sh_online => (Stat::Online, Meta::Shift),
    sc_var => (Stat::Var, Meta::Scale),
    sc_svar => (Stat::SampleVar, Meta::Scale),
    sc_cov => (Stat::Cov, Meta::Scale),
    sc_scov => (Stat::SampleCov, Meta::Scale),
    sc_onepass => (Stat::OnePass, Meta::Scale),
    sc_online => (Stat::Online, Meta::Scale),
);

const META_STATS: [Stat; 6] = [Stat::Var, Stat::SampleVar, Stat::Cov, Stat::SampleCov, Stat::OnePass, Stat::Online];

fn meta_fn(s: Stat, m: Meta) -> fn(&mut Ctx, &MCase) -> R {
    match (s, m) {
        (Stat::Var, Meta::Shift) => sh_var,
        (Stat::SampleVar, Meta::Shift) => sh_svar,
        (Stat::Cov, Meta::Shift) => sh_cov,
        (Stat::SampleCov, Meta::Shift) => sh_scov,
        (Stat::OnePass, Meta::Shift) => sh_onepass,
        (_, Meta::Shift) => sh_online,
        (Stat::Var, Meta::Scale) => sc_var,
        (Stat::SampleVar, Meta::Scale) => sc_svar,
        (Stat::Cov, Meta::Scale) => sc_cov,
        (Stat::SampleCov, Meta::Scale) => sc_scov,
        (Stat::OnePass, Meta::Scale) => sc_onepass,
        (_, Meta::Scale) => sc_online,
    }
}

// ------------------------------------------------------------------------------------------------
// extrema

#[derive(Clone, Copy, PartialEq)]
enum Ord4 {
    Min,
    Max,
    Argmin,
    Argmax,
}

impl Ord4 {
    fn sub(self) -> &'static str {
        match self {
            Ord4::Min => "min",
            Ord4::Max => "max",
            Ord4::Argmin => "argmin",
            Ord4::Argmax => "argmax",
        }
    }
}

fn check_ord(ctx: &mut Ctx, c: &SCase, o: Ord4) -> R {
    let n = c.x.len();
    if n < 1 || n > 10_000 || !finite(&c.x) {
        return Ok(());
    }
    let sub = o.sub();
    let x = &c.x;
    let is_min = matches!(o, Ord4::Min | Ord4::Argmin);
    let mut ext = x[0];
    let mut first = 0usize;
    let mut count = 1usize;
    for (i, &v) in x.iter().enumerate().skip(1) {
        if (is_min && v < ext) || (!is_min && v > ext) {
            ext = v;
            first = i;
            count = 1;
        } else if v == ext {
            count += 1;
        }
    }
    let constant = x.iter().all(|v| *v == x[0]);
    ctx.case(sub, class_name(c.class), n >= 3 && !constant, scase_hash(c));
    ctx.label(sub, if count > 1 { "extreme-tied" } else { "extreme-unique" });
    if count > 1 && first > 0 {
        ctx.label(sub, "extreme-tied, first not at index 0");
    }
    if ext == 0.0 && x.iter().any(|v| *v == 0.0 && v.is_sign_negative()) && x.iter().any(|v| *v == 0.0 && v.is_sign_positive()) {
        ctx.label(sub, "extreme is a zero, both signs present");
    }
    ctx.sample(sub, || json!(c));
    let nc = some_divisor(n);
    match o {
        Ord4::Min | Ord4::Max => {
            for form in 0u8..3 {
                let sig = format!("C08/{}{}", form_prefix(form), sub);
                let got = catch(|| match (form, is_min) {
                    (0, true) => st::min(x),
                    (0, false) => st::max(x),
                    (1, true) => Vector::new(x.clone()).min(),
                    (1, false) => Vector::new(x.clone()).max(),
                    (_, true) => Matrix::new(x.clone(), (n / nc) as i32, nc as i32).min(),
                    (_, false) => Matrix::new(x.clone(), (n / nc) as i32, nc as i32).max(),
                });
                let got = match got {
                    Ok(v) => v,
                    Err(msg) => return fail(format!("{}/panic", sig), format!("{}{} panicked on {}: {}", form_prefix(form), sub, show(x), msg)),
                };
                ensure!(got == ext, sig, "{}{}({}) = {:e}, the extreme element is {:e}", form_prefix(form), sub, show(x), got, ext);
            }
        }
        Ord4::Argmin | Ord4::Argmax => {
            for form in 0u8..4 {
                // forms 2 and 3: Matrix with ncols = d and ncols = n/d
                let ncols = if form == 3 { n / nc } else { nc };
                let pre = match form {
                    0 => "",
                    1 => "Vector::",
                    _ => "Matrix::",
                };
                let got = catch(|| match (form, is_min) {
                    (0, true) => st::argmin(x),
                    (0, false) => st::argmax(x),
                    (1, true) => Vector::new(x.clone()).argmin(),
                    (1, false) => Vector::new(x.clone()).argmax(),
                    (_, mn) => {
                        let m = Matrix::new(x.clone(), (n / ncols) as i32, ncols as i32);
                        let (r, cc) = if mn { m.argmin() } else { m.argmax() };
                        if cc >= ncols {
                            usize::MAX
                        } else {
                            r * ncols + cc
                        }
                    }
                });
                let idx = match got {
                    Ok(v) => v,
                    Err(msg) => return fail(format!("C08/{}{}/panic", pre, sub), format!("{}{} panicked on {}: {}", pre, sub, show(x), msg)),
                };
                ensure!(
                    idx < n && x[idx] == ext,
                    format!("C08/{}{}/value", pre, sub),
                    "{}{}({}) = flat index {} (ncols {}), which does not hold the extreme value {:e} (first at {})",
                    pre, sub, show(x), idx as i64, ncols, ext, first
                );
                ensure!(
                    idx == first,
                    format!("C08/{}{}/first-occurrence", pre, sub),
                    "{}{}({}) = flat index {} (ncols {}), but the extreme value {:e} first occurs at index {}",
                    pre, sub, show(x), idx, ncols, ext, first
                );
            }
        }
    }
    Ok(())
}

fn o_min(ctx: &mut Ctx, c: &SCase) -> R {
    check_ord(ctx, c, Ord4::Min)
}
fn o_max(ctx: &mut Ctx, c: &SCase) -> R {
    check_ord(ctx, c, Ord4::Max)
}
fn o_argmin(ctx: &mut Ctx, c: &SCase) -> R {
    check_ord(ctx, c, Ord4::Argmin)
}
fn o_argmax(ctx: &mut Ctx, c: &SCase) -> R {
    check_ord(ctx, c, Ord4::Argmax)
}

// ------------------------------------------------------------------------------------------------
// histogram bin centres

fn check_hist(ctx: &mut Ctx, c: &HCase) -> R {
    let e = &c.edges;
    let n = e.len();
    if n < 2 || n > 10_001 || !finite(e) || e.windows(2).any(|w| !(w[0] < w[1])) {
        return Ok(()); // edges are strictly increasing
    }
    let sub = "hist_bin_centers";
    let w0 = e[1] - e[0];
    let uniform = e.windows(2).all(|w| ((w[1] - w[0]) - w0).abs() <= 1e-9 * w0.abs());
    ctx.case(sub, HCLASSES.get(c.class as usize).copied().unwrap_or("other"), n >= 4 && !uniform, Hx::new().fs(e).finish());
    ctx.label(sub, if uniform { "edges uniform (1e-9)" } else { "edges not uniform" });
    ctx.sample(sub, || json!(c));
    let got = match catch(|| st::hist_bin_centers(e)) {
        Ok(v) => v,
        Err(msg) => return fail("C08/hist_bin_centers/panic", format!("hist_bin_centers panicked on edges {}: {}", show(e), msg)),
    };
    ensure!(got.len() == n - 1, "C08/hist_bin_centers/length", "hist_bin_centers of {} edges returned {} centres, expected {}", n, got.len(), n - 1);
    let emax = e.iter().fold(0.0f64, |a, v| a.max(v.abs()));
    let tol = 4.0 * EPS * emax * n as f64;
    for i in 0..n - 1 {
        let want = (DD::new(e[i]) + DD::new(e[i + 1])).f() / 2.0;
        let diff = (got[i] - want).abs();
        ctx.worst("hist_bin_centers |got-def|/tol", ratio(diff, tol));
        ensure!(
            diff <= tol,
            "C08/hist_bin_centers",
            "hist_bin_centers({})[{}] = {:e}, the midpoint of [{:e}, {:e}] is {:e} (difference {:e}, allowance {:e})",
            show(e), i, got[i], e[i], e[i + 1], want, diff, tol
        );
    }
    Ok(())
}

// ------------------------------------------------------------------------------------------------
// generators

fn unit(u: u32) -> f64 {
    u as f64 / 4294967296.0
}

/// Box–Muller; (0, 0) ↦ 0 so that shrinking moves toward zero.
fn normal(a: u32, b: u32) -> f64 {
    let u1 = 1.0 - unit(a); // (0, 1]
    let r = (-2.0 * u1.ln()).sqrt();
    r * (2.0 * std::f64::consts::PI * unit(b)).cos()
}

fn round_to(v: f64, lim: f64) -> f64 {
    v.round().max(-lim).min(lim)
}

fn rho_of(p: u32) -> f64 {
    let u = unit(p);
    if u < 0.06 {
        -1.0
    } else if u > 0.94 {
        1.0
    } else if (u - 0.5).abs() < 0.03 {
        0.0
    } else {
        2.0 * u - 1.0
    }
}

fn sgn(p: u32, bit: u32) -> f64 {
    if (p >> bit) & 1 == 1 {
        -1.0
    } else {
        1.0
    }
}

/// Build a data set (pair) of the given class from standard normals and six uniform parameters.
fn build(class: u8, ux: &[(u32, u32)], uy: &[(u32, u32)], p: &[u32; 6]) -> SCase {
    let gx: Vec<f64> = ux.iter().map(|(a, b)| normal(*a, *b)).collect();
    let rho = rho_of(p[3]);
    let biv = !uy.is_empty();
    let gy: Vec<f64> = uy.iter().zip(&gx).map(|((a, b), g)| rho * g + (1.0 - rho * rho).sqrt() * normal(*a, *b)).collect();
    let sx = 10f64.powf(6.0 * unit(p[0]) - 3.0);
    let sy = 10f64.powf(6.0 * unit(p[1]) - 3.0);
    let kx = sgn(p[4], 0) * 10f64.powf(8.0 * unit(p[0]));
    let ky = sgn(p[4], 1) * 10f64.powf(8.0 * unit(p[1]));
    let ssx = 10f64.powf(4.0 * unit(p[2]) - 2.0);
    let ssy = 10f64.powf(4.0 * unit(p[5]) - 2.0);
    let (mut x, mut y): (Vec<f64>, Vec<f64>) = match class {
        0 => (gx.iter().map(|g| round_to(g * 300.0, 1000.0)).collect(), gy.iter().map(|g| round_to(g * 300.0, 1000.0)).collect()),
        1 | 4 | 5 => (gx.iter().map(|g| sx * g).collect(), gy.iter().map(|g| sy * g).collect()),
        2 => (gx.iter().map(|g| ssx * (kx + g)).collect(), gy.iter().map(|g| ssy * (ky + g)).collect()),
        3 => {
            let v = ssx * (kx + gx.first().copied().unwrap_or(0.0));
            let w = ssy * (ky + gy.first().copied().unwrap_or(0.0));
            let yconst = unit(p[5]) < 0.5;
            (gx.iter().map(|_| v).collect(), gy.iter().map(|g| if yconst { w } else { ssy * (ky + g) }).collect())
        }
        6 => {
            let ox = (kx.abs().log10() * 3.0).round() * sgn(p[4], 2);
            let oy = (ky.abs().log10() * 3.0).round() * sgn(p[4], 3);
            (gx.iter().map(|g| sx * ((g * 1.2).round() + ox)).collect(), gy.iter().map(|g| sy * ((g * 1.2).round() + oy)).collect())
        }
        7 => {
            let allzero = unit(p[0]) < 0.35;
            let f = |g: &f64| -> f64 {
                let t = (g * 1.5).round();
                if t == 0.0 {
                    0.0
                } else if t == 1.0 || t == -2.0 {
                    -0.0
                } else if t == -1.0 || allzero {
                    0.0
                } else if t > 0.0 {
                    t - 1.0
                } else {
                    t + 2.0
                }
            };
            (gx.iter().map(f).collect(), gy.iter().map(f).collect())
        }
        _ => {
            let mx = kx.round();
            let my = ky.round();
            (gx.iter().map(|g| mx + round_to(g * 300.0, 1000.0)).collect(), gy.iter().map(|g| my + round_to(g * 300.0, 1000.0)).collect())
        }
    };
    if class == 4 {
        x.sort_by(|a, b| a.partial_cmp(b).unwrap());
    }
    if class == 5 {
        x.sort_by(|a, b| b.partial_cmp(a).unwrap());
    }
    if !biv {
        y.clear();
    }
    SCase { class, x, y }
}

fn sizes(big: usize) -> impl Strategy<Value = usize> {
    prop_oneof![6 => 1usize..=40, 3 => 41usize..=400, 1 => 401usize..=big]
}

fn scase_strat(minn: usize, big: usize, biv: bool) -> impl Strategy<Value = SCase> {
    (0u8..NCLASS, sizes(big))
        .prop_flat_map(move |(class, n)| {
            let n = n.max(minn);
            (Just(class), vec(any::<(u32, u32)>(), n), vec(any::<(u32, u32)>(), if biv { n } else { 0 }), proptest::array::uniform6(any::<u32>()))
        })
        .prop_map(|(class, ux, uy, p)| build(class, &ux, &uy, &p))
}

/// Deterministic case for the enumerated part (every length 1..=40 × class).
fn enum_scase(seed: u64, tag: &str, class: u8, n: usize, biv: bool) -> SCase {
    let s = mix_seed(seed, tag, (class as u64) << 32 | n as u64);
    let draw = |k: u64| -> u32 { (mix_seed(s, "u", k) >> 16) as u32 };
    let ux: Vec<(u32, u32)> = (0..n as u64).map(|i| (draw(4 * i), draw(4 * i + 1))).collect();
    let uy: Vec<(u32, u32)> = if biv { (0..n as u64).map(|i| (draw(4 * i + 2), draw(4 * i + 3))).collect() } else { vec![] };
    let p = [draw(1 << 40), draw((1 << 40) + 1), draw((1 << 40) + 2), draw((1 << 40) + 3), draw((1 << 40) + 4), draw((1 << 40) + 5)];
    build(class, &ux, &uy, &p)
}

/// Dyadic-grid data with exactly representable shifts and scalings.
fn build_meta(class: u8, ux: &[(u32, u32)], uy: &[(u32, u32)], p: &[u32; 6]) -> MCase {
    let gx: Vec<f64> = ux.iter().map(|(a, b)| normal(*a, *b)).collect();
    let rho = rho_of(p[3]);
    let gy: Vec<f64> = uy.iter().zip(&gx).map(|((a, b), g)| rho * g + (1.0 - rho * rho).sqrt() * normal(*a, *b)).collect();
    // grid unit 2^q
    // 2^-70 .. 2^20: data whose absolute spread is far below 1 (Σdx² down to ~1e-38) as well as far above,
    // so that a threshold on a dimensionful quantity (e.g. "M2 < ε ⇒ 0") cannot hide
    let q = (unit(p[2]) * 91.0).floor() as i32 - 70;
    let u = 2f64.powi(q);
    let grid = |g: &f64, sd: f64| -> f64 { (g * sd).round() };
    let (kx, ky): (Vec<f64>, Vec<f64>) = match class {
        0 => (gx.iter().map(|g| grid(g, 16384.0)).collect(), gy.iter().map(|g| grid(g, 16384.0)).collect()),
        1 => (gx.iter().map(|g| grid(g, 300.0)).collect(), gy.iter().map(|g| grid(g, 300.0)).collect()),
        2 => (gx.iter().map(|g| grid(g, 1.2) * 4096.0).collect(), gy.iter().map(|g| grid(g, 1.2) * 4096.0).collect()),
        3 => {
            let v = grid(gx.first().unwrap_or(&0.0), 16384.0);
            (gx.iter().map(|_| v).collect(), gy.iter().map(|g| grid(g, 16384.0)).collect())
        }
        _ => {
            // already offset by up to 1e4 sd before the extra shift
            let m0 = (16384.0 * 10f64.powf(4.0 * unit(p[5]))).round();
            (gx.iter().map(|g| m0 + grid(g, 16384.0)).collect(), gy.iter().map(|g| -m0 + grid(g, 16384.0)).collect())
        }
    };
    let sd_units = match class {
        1 => 300.0,
        2 => 4096.0,
        _ => 16384.0,
    };
    // shift = ± sd · 10^(0..8) grid units: |k + m| < 2^42, exact
    let mc = sgn(p[4], 0) * (sd_units * 10f64.powf(8.0 * unit(p[0]))).round();
    let md = sgn(p[4], 1) * (sd_units * 10f64.powf(8.0 * unit(p[1]))).round();
    // scale factor: ± 2^j or a small integer (products of 28-bit by 10-bit integers are exact)
    let fac = |r: u32, bit: u32| -> f64 {
        let t = unit(r);
        let s = sgn(p[4], bit);
        if t < 0.5 {
            s * 2f64.powi((t * 2.0 * 51.0).floor() as i32 - 40)
        } else {
            s * (1.0 + ((t - 0.5) * 2.0 * 999.0).floor())
        }
    };
    MCase {
        class,
        x: kx.iter().map(|k| k * u).collect(),
        y: ky.iter().map(|k| k * u).collect(),
        c: mc * u,
        d: md * u,
        a: fac(p[0].rotate_left(13) ^ p[5], 2),
        b: fac(p[1].rotate_left(7) ^ p[2], 3),
    }
}

fn mcase_strat(minn: usize, big: usize, biv: bool) -> impl Strategy<Value = MCase> {
    (0u8..5, sizes(big))
        .prop_flat_map(move |(class, n)| {
            let n = n.max(minn);
            (Just(class), vec(any::<(u32, u32)>(), n), vec(any::<(u32, u32)>(), if biv { n } else { 0 }), proptest::array::uniform6(any::<u32>()))
        })
        .prop_map(move |(class, ux, uy, p)| {
            let mut c = build_meta(class, &ux, &uy, &p);
            if !biv {
                c.y.clear();
            }
            c
        })
}

fn hcase_strat(maxbins: usize) -> impl Strategy<Value = HCase> {
    (0u8..4, 1usize..=maxbins)
        .prop_flat_map(|(class, nb)| (Just(class), vec(any::<u32>(), nb), any::<u32>(), any::<u32>()))
        .prop_map(|(class, w, p0, p1)| {
            let lo = sgn(p1, 0) * if p1 & 2 == 0 { 0.0 } else { 10f64.powf(6.0 * unit(p0) - 2.0) };
            let scale = 10f64.powf(4.0 * unit(p1) - 2.0);
            let nb = w.len();
            let mut e = Vec::with_capacity(nb + 1);
            match class {
                0 => {
                    for i in 0..=nb {
                        e.push(lo + i as f64 * scale);
                    }
                }
                2 => {
                    // ratio 1.01..1.51, at most six decades
                    let r = 1.0 + 0.5 * unit(p0) + 0.01;
                    let start = scale;
                    let cap = (1e6f64.ln() / r.ln()).floor() as usize;
                    for i in 0..=nb.min(cap).max(1) {
                        e.push(start * r.powi(i as i32));
                    }
                }
                _ => {
                    e.push(lo);
                    for (i, wi) in w.iter().enumerate() {
                        let width = if class == 1 { scale * (0.05 + 4.0 * unit(*wi)) } else { scale * (1.0 + 1e-3 * unit(*wi)) };
                        let next = e[i] + width;
                        e.push(next);
                    }
                }
            }
            HCase { class, edges: e }
        })
}

// ------------------------------------------------------------------------------------------------

const DEF_STATS: [Stat; 10] = [
    Stat::Mean,
    Stat::WelfordMean,
    Stat::Var,
    Stat::SampleVar,
    Stat::Std,
    Stat::SampleStd,
    Stat::Cov,
    Stat::SampleCov,
    Stat::OnePass,
    Stat::Online,
];

fn def_fn(s: Stat) -> fn(&mut Ctx, &SCase) -> R {
    match s {
        Stat::Mean => d_mean,
        Stat::WelfordMean => d_wmean,
        Stat::Var => d_var,
        Stat::SampleVar => d_svar,
        Stat::Std => d_std,
        Stat::SampleStd => d_sstd,
        Stat::Cov => d_cov,
        Stat::SampleCov => d_scov,
        Stat::OnePass => d_onepass,
        Stat::Online => d_online,
    }
}

pub fn run(ctx: &mut Ctx) {
    ctx.rule = "data sets (pairs for covariance) of nine classes (small integers, Gaussian, offset with mean/sd 10^0..10^8, constant, sorted, reversed, ties, \
signed zeros, integers with large offset): every length 1..=40 per class from a seed-derived table, then proptest with lengths up to 10^4; dyadic-grid data with exact \
shifts (up to 1e8 sd) and exact scale factors for the metamorphic clauses; uniform, non-uniform, log-spaced and nearly uniform strictly increasing bin edges. \
A case is non-trivial when it has at least 3 elements and is not constant (histogram: at least 3 bins and not uniform); distinct by hash of (class, data, transform)"
        .into();
    ctx.assumptions = vec![
        "data are finite with magnitudes at most 1e11 and no subnormal values: no overflow or underflow in sums of squares".into(),
        "rounding allowances as derived in the module header: mean (n+8)·eps·mean|x|; M2 and Sxy 8·n·eps·(||dx||·||dy|| + sqrt(n)(|mx|·||dy|| + |my|·||dx||)) + 4n·dmx·dmy; the one-pass covariance is allowed the bound of a formula shifted by any data element".into(),
        "a panic on valid data is a violation".into(),
        "bin edges are strictly increasing and there are at least two of them".into(),
    ];
    let big = ctx.scale(4_000, 10_000) as usize;
    let par = 16usize;

    // ---- enumerated part: every length 1..=40 × class, plus the canonical small examples
    let canon = SCase { class: 0, x: vec![0.0, 1.0, 2.0], y: vec![0.0, 1.0, 2.0] };
    let canon11 = SCase {
        class: 0,
        x: vec![3.0, 1.0, 4.0, 1.0, 5.0, 9.0, 2.0, 6.0, 5.0, 3.0, 5.0],
        y: vec![2.0, 7.0, 1.0, 8.0, 2.0, 8.0, 1.0, 8.0, 2.0, 8.0, 4.0],
    };
    for s in DEF_STATS {
        let f = def_fn(s);
        ctx.check_one(s.sub(), &canon, f);
        ctx.check_one(s.sub(), &canon11, f);
        for class in 0..NCLASS {
            for n in s.min_n()..=40 {
                let c = enum_scase(ctx.seed, s.sub(), class, n, s.biv());
                ctx.check_one(s.sub(), &c, f);
            }
        }
        // full length
        for class in [1u8, 2, 8] {
            let c = enum_scase(ctx.seed, s.sub(), class, 10_000, s.biv());
            ctx.check_one(s.sub(), &c, f);
        }
    }
    for (o, f) in [(Ord4::Min, o_min as fn(&mut Ctx, &SCase) -> R), (Ord4::Max, o_max), (Ord4::Argmin, o_argmin), (Ord4::Argmax, o_argmax)] {
        // ties of the extreme value at every pair of positions of a length-4 vector, and signed zeros
        for i in 0..4usize {
            for j in 0..4usize {
                for ext in [-1.0f64, 1.0, 0.0] {
                    let fill = if matches!(o, Ord4::Min | Ord4::Argmin) { ext + 1.0 } else { ext - 1.0 };
                    let mut x = vec![fill; 4];
                    x[i] = ext;
                    x[j] = if ext == 0.0 { -0.0 } else { ext };
                    ctx.check_one(o.sub(), &SCase { class: 6, x, y: vec![] }, f);
                }
            }
        }
        for class in 0..NCLASS {
            for n in 1..=40 {
                let c = enum_scase(ctx.seed, o.sub(), class, n, false);
                ctx.check_one(o.sub(), &c, f);
            }
        }
    }
    ctx.check_one("hist_bin_centers", &HCase { class: 1, edges: vec![0.0, 1.0, 3.0, 7.0] }, check_hist);
    ctx.check_one("hist_bin_centers", &HCase { class: 0, edges: vec![0.0, 1.0] }, check_hist);
    ctx.check_one("hist_bin_centers", &HCase { class: 0, edges: vec![-2.0, 0.0, 2.0, 4.0] }, check_hist);
    ctx.exhaustive.push("every length 1..=40 (2..=40 for sample statistics) in each of the nine data classes, for each of the 14 functions; extreme-value ties at every pair of positions of a 4-vector (values −1, 1, ±0)".into());

    // ---- random part
    let n_def = ctx.scale(30_000, 200_000);
    for s in DEF_STATS {
        let (minn, biv) = (s.min_n(), s.biv());
        ctx.run_prop_par(s.sub(), n_def, par, move || scase_strat(minn, big, biv), def_fn(s));
    }
    let n_meta = ctx.scale(10_000, 60_000);
    for m in [Meta::Shift, Meta::Scale] {
        for s in META_STATS {
            let (minn, biv) = (s.min_n(), s.biv());
            let sub = format!("{}/{}", if m == Meta::Shift { "shift-invariance" } else { "scaling" }, s.sub());
            ctx.run_prop_par(&sub, n_meta, par, move || mcase_strat(minn, big, biv), meta_fn(s, m));
        }
    }
    let n_ord = ctx.scale(25_000, 150_000);
    ctx.run_prop_par("min", n_ord, par, move || scase_strat(1, big, false), o_min);
    ctx.run_prop_par("max", n_ord, par, move || scase_strat(1, big, false), o_max);
    ctx.run_prop_par("argmin", n_ord, par, move || scase_strat(1, big, false), o_argmin);
    ctx.run_prop_par("argmax", n_ord, par, move || scase_strat(1, big, false), o_argmax);
    let n_hist = ctx.scale(50_000, 300_000);
    let maxbins = ctx.scale(300, 2_000) as usize;
    ctx.run_prop_par("hist_bin_centers", n_hist, par, move || hcase_strat(maxbins), check_hist);
}

pub fn replay(ctx: &mut Ctx, sub: &str, v: Value) -> Option<R> {
    for s in DEF_STATS {
        if sub == s.sub() {
            return Some(check_def(ctx, &decode::<SCase>(v)?, s));
        }
    }
    for (m, pre) in [(Meta::Shift, "shift-invariance/"), (Meta::Scale, "scaling/")] {
        if let Some(rest) = sub.strip_prefix(pre) {
            for s in META_STATS {
                if rest == s.sub() {
                    return Some(check_meta(ctx, &decode::<MCase>(v)?, s, m));
                }
            }
            return None;
        }
    }
    match sub {
        "min" => Some(check_ord(ctx, &decode::<SCase>(v)?, Ord4::Min)),
        "max" => Some(check_ord(ctx, &decode::<SCase>(v)?, Ord4::Max)),
        "argmin" => Some(check_ord(ctx, &decode::<SCase>(v)?, Ord4::Argmin)),
        "argmax" => Some(check_ord(ctx, &decode::<SCase>(v)?, Ord4::Argmax)),
        "hist_bin_centers" => Some(check_hist(ctx, &decode::<HCase>(v)?)),
        _ => None,
    }
}
