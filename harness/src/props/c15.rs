//! C15 — Shape operations and constructors preserve data and the matrix invariant.
//!
//! Sub-checks
//! * `program/enum`    every two-step program [fresh r x c; op] for r, c in 1..=8, every op kind, full operand
//!                     selector grid (exhaustive).
//! * `program/<focus>` random programs of 1..=40 (thorough 1..=200) ops in which an op of kind <focus> is
//!                     guaranteed to occur; one proptest run per op kind. A failure whose op kind already has a
//!                     recorded violation in this run of the harness is not reported again: the program is cut
//!                     there, so one broken op cannot hide the others.
//! * `ctor/<name>`     eye, zeros, ones, diag_matrix, toeplitz, vandermonde, design, linspace, arange, rotation.
//! * `pred/<name>`     is_square, is_matrix, is_symmetric, triangular, is_design, close_to, eq.
//! * `program/bytes`   random byte strings through `decode_program` (the fuzz target's decoder), same oracle.
//! The interpreter, the op enum and the model live in `c15_model.rs` (shared with the fuzz target).

use super::c15_model::{decode_program, run_program_scaled, sig_op, Op, Other, ShapeSel, KINDS, N_DEGENERATE, OOR};
use crate::engine::{catch, decode, fail, Ctx, Hx, R};
use crate::oracle::dd::DD;
use compute::linalg::{
    arange, design, diag_matrix, is_design, is_matrix, is_square, is_symmetric, linspace, rotation_matrix_ccw, rotation_matrix_cw, toeplitz,
    vandermonde, Axis, Matrix, Vector,
};
use proptest::collection::vec as pvec;
use proptest::prelude::*;
use proptest::strategy::Union;
use serde::{Deserialize, Serialize};
use serde_json::{json, Value};
use std::collections::BTreeSet;

const EPS: f64 = f64::EPSILON;

// ===================================================================================================
// programs

#[derive(Clone, Debug, Serialize, Deserialize)]
pub struct ProgCase {
    /// op kind guaranteed to occur ("enum" for the enumerated two-step programs)
    pub focus: String,
    pub ops: Vec<Op>,
    /// entries are (distinct integers) · 2^scale
    #[serde(default)]
    pub scale: i32,
}

fn check_program_with(ctx: &mut Ctx, c: &ProgCase, bad: &BTreeSet<String>) -> R {
    let sub = format!("program/{}", c.focus);
    let h = Hx::new().json(&c.ops).i(c.scale as i64).finish();
    match run_program_scaled(&c.ops, c.scale) {
        Ok(st) => {
            let class = match (st.changing_nonsquare >= 3, st.reject_then_ok) {
                (true, true) => "nonsquare>=3+reject-then-ok",
                (true, false) => "nonsquare>=3",
                (false, true) => "reject-then-ok",
                (false, false) => "trivial",
            };
            ctx.case(&sub, class, st.nontrivial(), h);
            if c.focus != "enum" {
                ctx.sample(&sub, || json!(c));
                ctx.label("program", &format!("all-random/{}", class));
                ctx.label("program", &format!("len/{}", match c.ops.len() {
                    0..=5 => "01-05",
                    6..=10 => "06-10",
                    11..=20 => "11-20",
                    21..=40 => "21-40",
                    _ => "41+",
                }));
            }
            let hist = if c.focus == "enum" { "enum-op" } else { "op" };
            for (name, o) in &st.trace {
                ctx.label("program", &format!("{}/{}/{}", hist, name, o.label()));
            }
            Ok(())
        }
        Err(f) => {
            if bad.contains(sig_op(&f.sig)) {
                ctx.case(&sub, "cut-at-op-with-recorded-violation", false, h);
                Ok(())
            } else {
                ctx.case(&sub, "failed", false, h);
                Err(f)
            }
        }
    }
}

pub fn check_program(ctx: &mut Ctx, c: &ProgCase) -> R {
    check_program_with(ctx, c, &BTreeSet::new())
}

fn reg() -> impl Strategy<Value = u8> {
    0u8..4
}
/// index selector: mostly in range, 1 in 8 out of range
fn idx() -> impl Strategy<Value = u8> {
    prop_oneof![7 => 0u8..8, 1 => OOR..(OOR + 4)]
}
fn flat_sel() -> impl Strategy<Value = u8> {
    prop_oneof![7 => 0u8..64, 1 => OOR..(OOR + 4)]
}
fn shape_sel() -> impl Strategy<Value = ShapeSel> {
    // kinds 0..=3 dividing (explicit x2, -1 rows, -1 cols), 4..=6 arbitrary, 7 degenerate
    (prop_oneof![5 => 0u8..4, 4 => 4u8..7, 1 => Just(7u8)], 0u8..16, 0u8..16).prop_map(|(kind, a, b)| ShapeSel { kind, a, b })
}
fn other() -> impl Strategy<Value = Other> {
    prop_oneof![3 => (0u8..8).prop_map(Other::Fresh), 2 => reg().prop_map(Other::Reg)]
}

fn op_of_kind(k: usize) -> BoxedStrategy<Op> {
    match k {
        0 => (reg(), 0u8..8, 0u8..8).prop_map(|(dst, rows, cols)| Op::Fresh { dst, rows, cols }).boxed(),
        1 => (reg(), 0u8..8, 0u8..8, shape_sel()).prop_map(|(dst, rows, cols, shape)| Op::New { dst, rows, cols, shape }).boxed(),
        2 => (reg(), reg()).prop_map(|(src, dst)| Op::T { src, dst }).boxed(),
        3 => reg().prop_map(|reg| Op::TMut { reg }).boxed(),
        4 => (reg(), reg(), shape_sel()).prop_map(|(src, dst, shape)| Op::Reshape { src, dst, shape }).boxed(),
        5 => (reg(), shape_sel()).prop_map(|(reg, shape)| Op::ReshapeMut { reg, shape }).boxed(),
        6 => (reg(), reg(), shape_sel()).prop_map(|(src, dst, shape)| Op::VecReshape { src, dst, shape }).boxed(),
        7 => (reg(), reg()).prop_map(|(src, dst)| Op::VecToMatrix { src, dst }).boxed(),
        8 => reg().prop_map(|src| Op::ToVec { src }).boxed(),
        9 => (reg(), reg(), other()).prop_map(|(a, dst, other)| Op::Hcat { a, dst, other }).boxed(),
        10 => (reg(), reg(), other()).prop_map(|(a, dst, other)| Op::Vcat { a, dst, other }).boxed(),
        11 => (reg(), reg(), 0u8..9).prop_map(|(src, dst, k)| Op::HRepeat { src, dst, k }).boxed(),
        12 => (reg(), reg(), 0u8..9).prop_map(|(src, dst, k)| Op::VRepeat { src, dst, k }).boxed(),
        13 => (reg(), idx()).prop_map(|(src, row)| Op::GetRow { src, row }).boxed(),
        14 => (reg(), idx()).prop_map(|(src, col)| Op::GetCol { src, col }).boxed(),
        15 => (reg(), idx(), 0u8..4).prop_map(|(reg, row, map)| Op::ApplyRow { reg, row, map }).boxed(),
        16 => (reg(), idx(), 0u8..4).prop_map(|(reg, col, map)| Op::ApplyCol { reg, col, map }).boxed(),
        17 => (reg(), idx()).prop_map(|(src, row)| Op::IdxRow { src, row }).boxed(),
        18 => (reg(), idx(), idx()).prop_map(|(src, row, col)| Op::Idx2 { src, row, col }).boxed(),
        19 => (reg(), flat_sel()).prop_map(|(src, idx)| Op::FlatIdx { src, idx }).boxed(),
        20 => (reg(), flat_sel()).prop_map(|(reg, idx)| Op::FlatReplace { reg, idx }).boxed(),
        21 => (reg(), idx(), idx()).prop_map(|(reg, row, col)| Op::Set2 { reg, row, col }).boxed(),
        22 => (reg(), idx(), idx()).prop_map(|(reg, row, col)| Op::SetRow { reg, row, col }).boxed(),
        23 => reg().prop_map(|src| Op::Diag { src }).boxed(),
        24 => (reg(), reg()).prop_map(|(src, dst)| Op::Clone { src, dst }).boxed(),
        25 => (reg(), reg()).prop_map(|(src, dst)| Op::RowToCol { src, dst }).boxed(),
        26 => (reg(), reg()).prop_map(|(src, dst)| Op::ColToRow { src, dst }).boxed(),
        _ => (reg(), reg()).prop_map(|(src, dst)| Op::TransposeSlice { src, dst }).boxed(),
    }
}

fn any_op() -> impl Strategy<Value = Op> {
    // shape-changing ops a little heavier so that registers do not stay at their initial shapes
    let w = |k: usize| -> u32 {
        match k {
            0 | 4 | 5 => 3,
            1 | 2 | 3 | 9 | 10 | 11 | 12 => 2,
            _ => 1,
        }
    };
    Union::new_weighted((0..KINDS.len()).map(|k| (w(k), op_of_kind(k))).collect::<Vec<_>>())
}

fn program(focus: usize, maxlen: usize) -> impl Strategy<Value = ProgCase> {
    (pvec(any_op(), 0..maxlen), op_of_kind(focus), any::<prop::sample::Index>(), 0usize..10).prop_map(move |(mut ops, f, at, sc)| {
        let pos = at.index(ops.len() + 1);
        ops.insert(pos, f);
        // 60 % unit scale, otherwise tiny or huge entries (exact powers of two; index 0 shrinks to unit scale)
        let scale = [0, 0, 0, 0, 0, 0, -60, -75, -300, 200][sc];
        ProgCase { focus: KINDS[focus].to_string(), ops, scale }
    })
}

/// Every op of every kind over the full operand selector grid, applied to register 0.
fn enum_ops() -> Vec<Op> {
    let mut v = vec![];
    let idxs: Vec<u8> = (0u8..8).chain(OOR..OOR + 4).collect();
    let flats: Vec<u8> = (0u8..64).chain(OOR..OOR + 4).collect();
    let mut shapes: Vec<ShapeSel> = vec![];
    for kind in 0u8..4 {
        for a in 0u8..7 {
            shapes.push(ShapeSel { kind, a, b: 0 });
        }
    }
    for a in 0u8..9 {
        for b in 0u8..9 {
            shapes.push(ShapeSel { kind: 4, a, b });
        }
    }
    for kind in 5u8..7 {
        for a in 0u8..12 {
            shapes.push(ShapeSel { kind, a, b: 0 });
        }
    }
    for a in 0..N_DEGENERATE {
        for b in 0u8..8 {
            shapes.push(ShapeSel { kind: 7, a, b });
        }
    }
    for &shape in &shapes {
        v.push(Op::Reshape { src: 0, dst: 1, shape });
        v.push(Op::ReshapeMut { reg: 0, shape });
        v.push(Op::VecReshape { src: 0, dst: 1, shape });
    }
    for op in [
        Op::T { src: 0, dst: 1 },
        Op::T { src: 0, dst: 0 },
        Op::TMut { reg: 0 },
        Op::VecToMatrix { src: 0, dst: 1 },
        Op::ToVec { src: 0 },
        Op::Diag { src: 0 },
        Op::Clone { src: 0, dst: 1 },
        Op::RowToCol { src: 0, dst: 1 },
        Op::ColToRow { src: 0, dst: 1 },
        Op::TransposeSlice { src: 0, dst: 1 },
    ] {
        v.push(op);
    }
    for b in 0u8..4 {
        v.push(Op::Hcat { a: 0, dst: 1, other: Other::Reg(b) });
        v.push(Op::Vcat { a: 0, dst: 1, other: Other::Reg(b) });
    }
    for n in 0u8..8 {
        v.push(Op::Hcat { a: 0, dst: 1, other: Other::Fresh(n) });
        v.push(Op::Vcat { a: 0, dst: 1, other: Other::Fresh(n) });
    }
    for k in 0u8..9 {
        v.push(Op::HRepeat { src: 0, dst: 1, k });
        v.push(Op::VRepeat { src: 0, dst: 1, k });
    }
    for &i in &idxs {
        v.push(Op::GetRow { src: 0, row: i });
        v.push(Op::GetCol { src: 0, col: i });
        v.push(Op::IdxRow { src: 0, row: i });
        for map in 0u8..4 {
            v.push(Op::ApplyRow { reg: 0, row: i, map });
            v.push(Op::ApplyCol { reg: 0, col: i, map });
        }
        for &j in &idxs {
            v.push(Op::Idx2 { src: 0, row: i, col: j });
            v.push(Op::Set2 { reg: 0, row: i, col: j });
            v.push(Op::SetRow { reg: 0, row: i, col: j });
        }
    }
    for &k in &flats {
        v.push(Op::FlatIdx { src: 0, idx: k });
        v.push(Op::FlatReplace { reg: 0, idx: k });
    }
    v
}

fn run_programs(ctx: &mut Ctx) {
    // --- exhaustive two-step programs
    let singles = enum_ops();
    let mut shapes: Vec<ShapeSel> = vec![];
    for op in &singles {
        if let Op::Reshape { shape, .. } = op {
            shapes.push(*shape);
        }
    }
    for r in 0u8..8 {
        for c in 0u8..8 {
            for op in &singles {
                let case = ProgCase { focus: "enum".into(), ops: vec![Op::Fresh { dst: 0, rows: r, cols: c }, op.clone()], scale: 0 };
                ctx.check_one("program/enum", &case, check_program);
            }
            for &shape in &shapes {
                let case = ProgCase { focus: "enum".into(), ops: vec![Op::New { dst: 0, rows: r, cols: c, shape }], scale: 0 };
                ctx.check_one("program/enum", &case, check_program);
            }
        }
    }
    ctx.exhaustive.push(
        "every two-step program [fresh r x c matrix; one op] for r, c in 1..=8, every op kind, every operand selector (all indices in range plus 4 out-of-range ones, all dividing / non-dividing / inferred / zero / negative reshape targets, concatenation with every register and with matching fresh matrices, repetition counts up to one beyond the size cap)"
            .into(),
    );

    // --- random programs, one proptest run per focus op
    let total = ctx.scale(280_000, 3_360_000);
    let maxlen = ctx.scale(40, 200) as usize;
    let per = total / KINDS.len() as u64;
    let mut cut_note: Vec<String> = vec![];
    for k in 0..KINDS.len() {
        // op kinds with a recorded violation so far (deterministic: the runs are sequential)
        let bad: BTreeSet<String> =
            ctx.violations.iter().filter(|v| v.sig.starts_with("C15/program/")).map(|v| sig_op(&v.sig).to_string()).collect();
        if bad.contains(KINDS[k]) {
            cut_note.push(KINDS[k].to_string());
        }
        let sub = format!("program/{}", KINDS[k]);
        ctx.run_prop_par(&sub, per, 16, || program(k, maxlen), |cx, c| check_program_with(cx, c, &bad));
    }
    // the byte decoder the fuzz target uses, driven by random bytes (uniform op kinds, raw selectors)
    {
        let bad: BTreeSet<String> =
            ctx.violations.iter().filter(|v| v.sig.starts_with("C15/program/")).map(|v| sig_op(&v.sig).to_string()).collect();
        ctx.run_prop_par(
            "program/bytes",
            per,
            16,
            || pvec(any::<u8>(), 1..(4 * maxlen)).prop_map(move |b| ProgCase { focus: "bytes".into(), ops: decode_program(&b, maxlen), scale: 0 }),
            |cx, c| check_program_with(cx, c, &bad),
        );
    }
    if !cut_note.is_empty() {
        ctx.note("program:focus-ops-already-failing-before-their-own-run", json!(cut_note));
    }
    // distribution summary
    let get = |ctx: &Ctx, k: &str| ctx.classes.get(&format!("program:all-random/{}", k)).copied().unwrap_or(0) as f64;
    let (a, b, c, d) = (get(ctx, "nonsquare>=3+reject-then-ok"), get(ctx, "nonsquare>=3"), get(ctx, "reject-then-ok"), get(ctx, "trivial"));
    let n = (a + b + c + d).max(1.0);
    ctx.note(
        "program:distribution",
        json!({
            "random_programs_completed": n,
            "fraction_with_>=3_successful_state_changing_ops_on_nonsquare": (a + b) / n,
            "fraction_with_rejected_op_followed_by_successful_ops": (a + c) / n,
            "fraction_nontrivial": (a + b + c) / n,
        }),
    );
}

// ===================================================================================================
// constructors

#[derive(Clone, Debug, Serialize, Deserialize)]
pub enum Ctor {
    Eye { n: usize },
    Zeros { r: usize, c: usize },
    Ones { r: usize, c: usize },
    DiagMatrix { a: Vec<f64> },
    Toeplitz { x: Vec<f64> },
    Vandermonde { x: Vec<f64>, n: usize },
    /// x holds rows*k values
    Design { x: Vec<f64>, rows: usize },
    Linspace { a: f64, b: f64, n: usize },
    Arange { a: f64, b: f64, s: f64 },
    /// axis 0 = X, 1 = Y, 2 = Z
    Rotation { angle: f64, axis: u8 },
}

impl Ctor {
    fn name(&self) -> &'static str {
        match self {
            Ctor::Eye { .. } => "eye",
            Ctor::Zeros { .. } => "zeros",
            Ctor::Ones { .. } => "ones",
            Ctor::DiagMatrix { .. } => "diag_matrix",
            Ctor::Toeplitz { .. } => "toeplitz",
            Ctor::Vandermonde { .. } => "vandermonde",
            Ctor::Design { .. } => "design",
            Ctor::Linspace { .. } => "linspace",
            Ctor::Arange { .. } => "arange",
            Ctor::Rotation { .. } => "rotation",
        }
    }
}

fn size_class(n: usize) -> &'static str {
    match n {
        0 => "0",
        1 => "1",
        2..=8 => "2-8",
        9..=32 => "9-32",
        _ => "33+",
    }
}

fn axis_of(a: u8) -> Axis {
    match a % 3 {
        0 => Axis::X,
        1 => Axis::Y,
        _ => Axis::Z,
    }
}

fn matmul3(a: &[f64], b: &[f64]) -> [f64; 9] {
    let mut c = [0.0; 9];
    for i in 0..3 {
        for j in 0..3 {
            c[i * 3 + j] = a[i * 3] * b[j] + a[i * 3 + 1] * b[3 + j] + a[i * 3 + 2] * b[6 + j];
        }
    }
    c
}

fn t3(a: &[f64]) -> [f64; 9] {
    let mut c = [0.0; 9];
    for i in 0..3 {
        for j in 0..3 {
            c[j * 3 + i] = a[i * 3 + j];
        }
    }
    c
}

pub fn check_ctor(ctx: &mut Ctx, case: &Ctor) -> R {
    let name = case.name();
    let sub = format!("ctor/{}", name);
    let sig = |t: &str| format!("C15/ctor/{}/{}", name, t);
    let h = Hx::new().json(case).finish();
    macro_rules! lib {
        ($e:expr) => {
            match catch(|| $e) {
                Ok(v) => v,
                Err(msg) => return fail(sig("spurious-panic"), format!("{:?} panicked: {}", case, msg)),
            }
        };
    }
    match case {
        Ctor::Eye { n } => {
            let n = *n;
            if n == 0 || n > 64 {
                return Ok(());
            }
            ctx.case(&sub, size_class(n), n > 1, h);
            let m: Matrix = lib!(Matrix::eye(n));
            ensure!(m.nrows == n && m.ncols == n && m.data.len() == n * n, sig("shape"), "eye({}) is {}x{} with {} elements", n, m.nrows, m.ncols, m.data.len());
            for i in 0..n {
                for j in 0..n {
                    let want = if i == j { 1.0 } else { 0.0 };
                    ensure!(m.data[i * n + j] == want, sig("value"), "eye({})[{},{}] = {:e}", n, i, j, m.data[i * n + j]);
                }
            }
            Ok(())
        }
        Ctor::Zeros { r, c } | Ctor::Ones { r, c } => {
            let (r, c) = (*r, *c);
            if r == 0 || c == 0 || r > 64 || c > 64 {
                return Ok(());
            }
            ctx.case(&sub, if r == c { "square" } else { "non-square" }, r != c, h);
            let (m, want): (Matrix, f64) = if let Ctor::Zeros { .. } = case { (lib!(Matrix::zeros(r, c)), 0.0) } else { (lib!(Matrix::ones(r, c)), 1.0) };
            ensure!(m.nrows == r && m.ncols == c && m.data.len() == r * c, sig("shape"), "{}({},{}) is {}x{} with {} elements", name, r, c, m.nrows, m.ncols, m.data.len());
            for (k, x) in m.data.iter().enumerate() {
                ensure!(*x == want, sig("value"), "{}({},{}) element {} = {:e}", name, r, c, k, x);
            }
            Ok(())
        }
        Ctor::DiagMatrix { a } => {
            let n = a.len();
            if n == 0 || n > 64 || a.iter().any(|x| !x.is_finite()) {
                return Ok(());
            }
            ctx.case(&sub, size_class(n), n > 1, h);
            ctx.sample(&sub, || json!(case));
            let v: Vector = lib!(diag_matrix(a));
            ensure!(v.len() == n * n, sig("shape"), "diag_matrix of {} values has {} elements", n, v.len());
            for i in 0..n {
                for j in 0..n {
                    let g = v[i * n + j];
                    if i == j {
                        ensure!(g.to_bits() == a[i].to_bits(), sig("value"), "diag_matrix (n={}) entry ({},{}) = {:e}, expected {:e}", n, i, j, g, a[i]);
                    } else {
                        ensure!(g == 0.0, sig("value"), "diag_matrix (n={}) off-diagonal entry ({},{}) = {:e}", n, i, j, g);
                    }
                }
            }
            Ok(())
        }
        Ctor::Toeplitz { x } => {
            let n = x.len();
            if n == 0 || n > 64 || x.iter().any(|x| !x.is_finite()) {
                return Ok(());
            }
            ctx.case(&sub, size_class(n), n > 1, h);
            ctx.sample(&sub, || json!(case));
            let v: Vec<f64> = lib!(toeplitz(x));
            ensure!(v.len() == n * n, sig("shape"), "toeplitz of {} values has {} elements", n, v.len());
            for i in 0..n {
                for j in 0..n {
                    let want = x[if i > j { i - j } else { j - i }];
                    ensure!(v[i * n + j].to_bits() == want.to_bits(), sig("value"), "toeplitz (n={}) entry ({},{}) = {:e}, expected x[|i-j|] = {:e}", n, i, j, v[i * n + j], want);
                }
            }
            Ok(())
        }
        Ctor::Vandermonde { x, n } => {
            let (m, n) = (x.len(), *n);
            if m == 0 || m > 64 || n == 0 || n > 64 || x.iter().any(|v| !(v.abs() >= 0.25 && v.abs() <= 4.0)) {
                return Ok(());
            }
            ctx.case(&sub, &format!("m={},n={}", size_class(m), size_class(n)), m > 1 && n > 2, h);
            ctx.sample(&sub, || json!(case));
            let v: Vec<f64> = lib!(vandermonde(x, n));
            ensure!(v.len() == m * n, sig("shape"), "vandermonde of {} points, {} columns has {} elements", m, n, v.len());
            for i in 0..m {
                for j in 0..n {
                    let g = v[i * n + j];
                    if j <= 1 {
                        let want = if j == 0 { 1.0 } else { x[i] };
                        ensure!(g == want, sig("value"), "vandermonde entry ({},{}) = {:e}, expected x^{} = {:e} exactly (x = {:e})", i, j, g, j, want, x[i]);
                    } else {
                        // any product of j factors x carries a relative error <= (j-1)·ε/2; slack x8
                        let reference = DD::new(x[i]).powi(j as i32).f();
                        let bound = 4.0 * j as f64 * EPS * reference.abs();
                        let err = (g - reference).abs();
                        ctx.worst("vandermonde |entry - x^j| / (4 j eps |x^j|)", err / bound);
                        ensure!(err <= bound, sig("value"), "vandermonde entry ({},{}) = {:e}, expected x^{} = {:e} (x = {:e}); error {:e} > {:e}", i, j, g, j, reference, x[i], err, bound);
                    }
                }
            }
            Ok(())
        }
        Ctor::Design { x, rows } => {
            let rows = *rows;
            if rows == 0 || rows > 64 || x.is_empty() || x.len() % rows != 0 || x.len() / rows > 8 || x.iter().any(|v| !v.is_finite()) {
                return Ok(());
            }
            let k = x.len() / rows;
            ctx.case(&sub, &format!("rows={},inputcols={}", size_class(rows), k), rows > 1, h);
            ctx.sample(&sub, || json!(case));
            let v: Vec<f64> = lib!(design(x, rows));
            ensure!(v.len() == rows * (k + 1), sig("shape"), "design of {} rows x {} columns has {} elements, expected {}", rows, k, v.len(), rows * (k + 1));
            for i in 0..rows {
                ensure!(v[i * (k + 1)] == 1.0, sig("first-column"), "design ({} rows, {} input columns): entry ({},0) = {:e}, expected 1", rows, k, i, v[i * (k + 1)]);
            }
            // the documentation does not say whether the input slice is column- or row-major: accept either
            let colmajor = (0..rows).all(|i| (0..k).all(|j| v[i * (k + 1) + j + 1].to_bits() == x[j * rows + i].to_bits()));
            let rowmajor = (0..rows).all(|i| (0..k).all(|j| v[i * (k + 1) + j + 1].to_bits() == x[i * k + j].to_bits()));
            ensure!(colmajor || rowmajor, sig("value"), "design ({} rows, {} input columns): the columns after the first are neither the column-major nor the row-major reading of the input; input {:?} output {:?}", rows, k, &x[..x.len().min(12)], &v[..v.len().min(16)]);
            Ok(())
        }
        Ctor::Linspace { a, b, n } => {
            let (a, b, n) = (*a, *b, *n);
            if n < 2 || n > 64 || !a.is_finite() || !b.is_finite() || a.abs() > 1e9 || b.abs() > 1e9 {
                return Ok(());
            }
            ctx.case(&sub, &format!("{},n={}", if a < b { "ascending" } else if a > b { "descending" } else { "constant" }, size_class(n)), n > 2, h);
            ctx.sample(&sub, || json!(case));
            let v: Vector = lib!(linspace(a, b, n));
            ensure!(v.len() == n, sig("len"), "linspace({:e},{:e},{}) has {} elements", a, b, n, v.len());
            ensure!(v[0] == a, sig("first"), "linspace({:e},{:e},{}) starts at {:e}", a, b, n, v[0]);
            // a + i(b-a)/(n-1): three roundings relative to |b-a| <= 2s and one relative to the result,
            // s = max(|a|,|b|): error <= 3.5 eps s; slack x ~9
            let s = a.abs().max(b.abs());
            let bound = 32.0 * EPS * s;
            let width = (DD::new(b) - a) / (n as f64 - 1.0);
            for i in 0..n {
                let reference = (width * i as f64 + a).f();
                let err = (v[i] - reference).abs();
                if bound > 0.0 {
                    ctx.worst("linspace |x_i - (a + i(b-a)/(n-1))| / (32 eps max(|a|,|b|))", err / bound);
                }
                let which = if i == n - 1 { "last" } else { "spacing" };
                ensure!(err <= bound, sig(which), "linspace({:e},{:e},{}) element {} = {:e}, expected {:e} (error {:e} > {:e})", a, b, n, i, v[i], reference, err, bound);
            }
            Ok(())
        }
        Ctor::Arange { a, b, s } => {
            let (a, b, s) = (*a, *b, *s);
            if !(s > 0.0) || !a.is_finite() || !b.is_finite() || !s.is_finite() || a.abs() > 1e6 || b.abs() > 1e6 {
                return Ok(());
            }
            let q = ((DD::new(b) - a) / s).f();
            if q > 4096.0 {
                return Ok(());
            }
            let nearest = q.round();
            // integer-valued start, stop and step: every formula for the count is exact in f64, so there is
            // no rounding ambiguity and the half-open convention decides the count alone
            let exact_ints = [a, b, s].iter().all(|v| v.fract() == 0.0 && v.abs() <= 1048576.0);
            let boundary = !exact_ints && (q - nearest).abs() <= 1e-9 * q.abs().max(1.0);
            // admissible element counts: the number of i >= 0 with a + i s < b is max(ceil(q), 0); when q is
            // within 1e-9 of an integer k either rounding of the count (k or k+1) is accepted
            let (lo, hi): (usize, usize) = if exact_ints {
                let (ai, bi, si) = (a as i64, b as i64, s as i64);
                let k = if bi > ai { ((bi - ai + si - 1) / si) as usize } else { 0 };
                (k, k)
            } else if q < -0.5 {
                (0, 0)
            } else if boundary {
                let k = nearest.max(0.0) as usize;
                (k, k + 1)
            } else {
                let k = q.ceil().max(0.0) as usize;
                (k, k)
            };
            let class = if q <= 0.0 { "empty" } else if exact_ints { "exact-integer-grid" } else if boundary { "integer-ratio" } else { "non-integer-ratio" };
            ctx.case(&sub, &format!("{},count={}", class, size_class(hi)), q > 0.0, h);
            ctx.sample(&sub, || json!(case));
            let v: Vector = lib!(arange(a, b, s));
            ensure!(
                v.len() >= lo && v.len() <= hi,
                sig("count"),
                "arange({:e},{:e},{:e}) has {} elements {:?}; (stop-start)/step = {:.12} so the half-open interval holds {} grid points{}",
                a, b, s, v.len(), &v[..v.len().min(8)], q, lo, if hi > lo { " (or one more: ratio at an integer)" } else { "" }
            );
            for i in 0..v.len() {
                // fl(a + fl(i s)): error <= eps (|a| + i s); slack x8
                let reference = DD::from_prod(i as f64, s) + a;
                let bound = 8.0 * EPS * (a.abs() + i as f64 * s);
                let err = (v[i] - reference.f()).abs();
                if bound > 0.0 {
                    ctx.worst("arange |x_i - (a + i s)| / (8 eps (|a| + i s))", err / bound);
                }
                ensure!(err <= bound, sig("value"), "arange({:e},{:e},{:e}) element {} = {:e}, expected {:e}", a, b, s, i, v[i], reference.f());
                // half-open: stated only where the exact grid point is clearly below stop
                if (DD::new(b) - reference).f() > 2.0 * bound {
                    ensure!(v[i] < b, sig("value"), "arange({:e},{:e},{:e}) element {} = {:e} is not below stop", a, b, s, i, v[i]);
                }
            }
            Ok(())
        }
        Ctor::Rotation { angle, axis } => {
            let (th, ax) = (*angle, *axis % 3);
            if !th.is_finite() || th.abs() > 4.0 * std::f64::consts::PI * (1.0 + 1e-12) {
                return Ok(());
            }
            ctx.case(&sub, ["X", "Y", "Z"][ax as usize], th != 0.0, h);
            ctx.sample(&sub, || json!(case));
            let cw: Matrix = lib!(rotation_matrix_cw(th, axis_of(ax)));
            let ccw: Matrix = lib!(rotation_matrix_ccw(th, axis_of(ax)));
            for (nm, m) in [("cw", &cw), ("ccw", &ccw)] {
                ensure!(m.nrows == 3 && m.ncols == 3 && m.data.len() == 9, sig("shape"), "rotation_matrix_{}({:e}) is {}x{} with {} elements", nm, th, m.nrows, m.ncols, m.data.len());
            }
            // cw = ccw^T, entry by entry (== so that a signed zero does not matter)
            let cct = t3(&ccw.data);
            for k in 0..9 {
                ensure!(cw.data[k] == cct[k], sig("cw-vs-ccw-transpose"), "axis {} angle {:e}: cw[{}] = {:e} but ccw^T[{}] = {:e}", ax, th, k, cw.data[k], k, cct[k]);
            }
            // each entry is a product / sum of sin and cos values with relative error <= eps each; the
            // quantities below are then off by <= ~3.5 eps; bound 8 eps as in DESIGN.md
            let tol = 8.0 * EPS;
            let eye = [1.0, 0., 0., 0., 1.0, 0., 0., 0., 1.0];
            for (nm, m) in [("cw", &cw), ("ccw", &ccw)] {
                let rtr = matmul3(&t3(&m.data), &m.data);
                for k in 0..9 {
                    let e = (rtr[k] - eye[k]).abs();
                    ctx.worst("rotation |R^T R - I| / (8 eps)", e / tol);
                    ensure!(e <= tol, sig("orthogonal"), "axis {} angle {:e}: ({}^T {})[{}] = {:e}", ax, th, nm, nm, k, rtr[k]);
                }
                let d = &m.data;
                let det = d[0] * (d[4] * d[8] - d[5] * d[7]) - d[1] * (d[3] * d[8] - d[5] * d[6]) + d[2] * (d[3] * d[7] - d[4] * d[6]);
                ctx.worst("rotation |det - 1| / (8 eps)", (det - 1.0).abs() / tol);
                ensure!((det - 1.0).abs() <= tol, sig("det"), "axis {} angle {:e}: det({}) = {:e}", ax, th, nm, det);
                // the rotation axis is fixed
                let a = ax as usize;
                for i in 0..3 {
                    let want = if i == a { 1.0 } else { 0.0 };
                    ensure!(d[i * 3 + a] == want && d[a * 3 + i] == want, sig("axis"), "axis {} angle {:e}: {} does not leave the axis fixed: {:?}", ax, th, nm, &d[..]);
                }
                // rotation angle: trace = 1 + 2 cos(theta)
                let tr = d[0] + d[4] + d[8];
                let etr = (tr - (1.0 + 2.0 * th.cos())).abs();
                ctx.worst("rotation |trace - (1 + 2 cos)| / (8 eps)", etr / tol);
                ensure!(etr <= tol, sig("angle"), "axis {} angle {:e}: trace({}) = {:e}, expected 1 + 2cos = {:e}", ax, th, nm, tr, 1.0 + 2.0 * th.cos());
            }
            let prod = matmul3(&cw.data, &ccw.data);
            for k in 0..9 {
                let e = (prod[k] - eye[k]).abs();
                ctx.worst("rotation |cw ccw - I| / (8 eps)", e / tol);
                ensure!(e <= tol, sig("cw-times-ccw"), "axis {} angle {:e}: (cw ccw)[{}] = {:e}", ax, th, k, prod[k]);
            }
            {
                // sense of rotation (right-hand rule, the picture behind "counter-clockwise"): ccw about z maps
                // e1 to (cos, sin, 0); about x it maps e2 to (0, cos, sin); about y it maps e3 to (sin, 0, cos)
                let (c, s) = (th.cos(), th.sin());
                let a = ax as usize;
                let from = (a + 1) % 3; // the unit vector that is rotated toward the next one
                let to = (a + 2) % 3;
                let col = [ccw.data[from], ccw.data[3 + from], ccw.data[6 + from]];
                let e = (col[from] - c).abs().max((col[to] - s).abs()).max(col[a].abs());
                ctx.worst("rotation |ccw e_next - (cos, sin)| / (4 eps)", e / (4.0 * EPS));
                ensure!(e <= 4.0 * EPS, sig("direction"), "ccw about axis {} by {:e} maps unit vector {} to {:?}; expected component {} = cos = {:e}, component {} = sin = {:e}, component {} = 0", a, th, from, col, from, c, to, s, a);
            }
            Ok(())
        }
    }
}

/// distinct, non-zero, finite values of mixed sign and magnitude
fn values(n: usize, salt: u64, lo_exp: i32, hi_exp: i32) -> Vec<f64> {
    (0..n)
        .map(|i| {
            let h = Hx::new().u(salt).u(i as u64).finish();
            let mant = 1.0 + (h >> 12) as f64 / (1u64 << 52) as f64;
            let e = lo_exp + ((h & 0xff) as i32) % (hi_exp - lo_exp + 1);
            let s = if (h >> 8) & 1 == 1 { -1.0 } else { 1.0 };
            s * mant * 2f64.powi(e)
        })
        .collect()
}

fn real(maxabs: i32) -> impl Strategy<Value = f64> {
    prop_oneof![
        (-maxabs..=maxabs).prop_map(|i| i as f64),
        (-maxabs * 10..=maxabs * 10).prop_map(|i| i as f64 / 10.0),
        (-(maxabs as f64)..(maxabs as f64)),
    ]
}

fn step() -> impl Strategy<Value = f64> {
    prop_oneof![
        (1i32..=100).prop_map(|i| i as f64),
        (1i32..=100).prop_map(|i| i as f64 / 10.0),
        (1i32..=400).prop_map(|i| i as f64 / 100.0),
        (0.01f64..50.0),
    ]
}

fn arange_strategy() -> impl Strategy<Value = Ctor> {
    prop_oneof![
        // decimal grids such as arange(0, 1, 0.3)
        3 => (-50i32..50, 1i32..=64, 1i32..=12).prop_map(|(i, span, m)| Ctor::Arange { a: i as f64 / 10.0, b: (i + span) as f64 / 10.0, s: m as f64 / 10.0 }),
        // integer start / stop / step (exact arithmetic: stop itself must be excluded)
        2 => (-50i32..50, 0i32..=64, 1i32..=8).prop_map(|(i, span, m)| Ctor::Arange { a: i as f64, b: (i + span) as f64, s: m as f64 }),
        // exact integer multiple of the step
        2 => (real(1000), step(), 0u32..=64).prop_map(|(a, s, k)| Ctor::Arange { a, b: a + k as f64 * s, s }),
        // clearly non-integer ratio
        4 => (real(1000), step(), 0u32..64, 0.05f64..0.95).prop_map(|(a, s, k, fr)| Ctor::Arange { a, b: a + (k as f64 + fr) * s, s }),
        // ratio a whisker above or below a whole number (fractional part 1e-7 .. 1e-2 or its complement): far outside
        // rounding noise, so the half-open convention decides — a "snap to the nearest integer" guard does not
        2 => (-8i32..=8, 1i32..=16, 0u32..=48, -7.0f64..-2.0, any::<bool>()).prop_map(|(ai, si, k, e, below)| {
            let (a, s) = (ai as f64 / 4.0, si as f64 / 8.0);
            let f = 10f64.powf(e);
            let q = if below { (k as f64 + 1.0) - f } else { k as f64 + f };
            Ctor::Arange { a, b: a + q * s, s }
        }),
        // stop <= start
        1 => (real(1000), step(), 0.0f64..10.0).prop_map(|(a, s, d)| Ctor::Arange { a, b: a - d * s, s }),
    ]
}

fn linspace_strategy() -> impl Strategy<Value = Ctor> {
    prop_oneof![
        4 => (real(1000), real(1000), 2usize..=64).prop_map(|(a, b, n)| Ctor::Linspace { a, b, n }),
        1 => (real(1000), 2usize..=64).prop_map(|(a, n)| Ctor::Linspace { a, b: a, n }),
        // far from the origin: the end point rounding is relative to |b|, not |b-a|
        2 => (real(1000), 0.001f64..10.0, 2usize..=64).prop_map(|(a, d, n)| Ctor::Linspace { a: a * 1000.0, b: a * 1000.0 + d, n }),
        1 => (-1.0f64..1.0, -1e-3f64..1e-3, 2usize..=64).prop_map(|(a, b, n)| Ctor::Linspace { a, b, n }),
    ]
}

fn rotation_strategy() -> impl Strategy<Value = Ctor> {
    let pi = std::f64::consts::PI;
    prop_oneof![
        3 => (-1.0f64..=1.0, 0u8..3).prop_map(move |(f, axis)| Ctor::Rotation { angle: f * 4.0 * pi, axis }),
        1 => (-16i32..=16, 0u8..3).prop_map(move |(k, axis)| Ctor::Rotation { angle: k as f64 * pi / 4.0, axis }),
        1 => (-1e-6f64..1e-6, 0u8..3).prop_map(|(angle, axis)| Ctor::Rotation { angle, axis }),
    ]
}

fn run_ctors(ctx: &mut Ctx) {
    for n in 1..=64usize {
        ctx.check_one("ctor/eye", &Ctor::Eye { n }, check_ctor);
        for c in 1..=64usize {
            ctx.check_one("ctor/zeros", &Ctor::Zeros { r: n, c }, check_ctor);
            ctx.check_one("ctor/ones", &Ctor::Ones { r: n, c }, check_ctor);
        }
        ctx.check_one("ctor/diag_matrix", &Ctor::DiagMatrix { a: values(n, 11 + n as u64, -8, 8) }, check_ctor);
        ctx.check_one("ctor/toeplitz", &Ctor::Toeplitz { x: values(n, 77 + n as u64, -8, 8) }, check_ctor);
    }
    ctx.exhaustive.push("eye(n) for n in 1..=64; zeros(r,c) and ones(r,c) for r, c in 1..=64; diag_matrix and toeplitz at every size 1..=64 (one value set each)".into());
    // F27's own input, always present
    ctx.check_one("ctor/arange", &Ctor::Arange { a: 0.0, b: 1.0, s: 0.3 }, check_ctor);
    for ax in 0u8..3 {
        for k in -16i32..=16 {
            ctx.check_one("ctor/rotation", &Ctor::Rotation { angle: k as f64 * std::f64::consts::PI / 4.0, axis: ax }, check_ctor);
        }
    }
    let n = ctx.scale(1, 60);
    ctx.run_prop_par("ctor/diag_matrix", 400 * n, 4, || (1usize..=64, any::<u64>()).prop_map(|(n, s)| Ctor::DiagMatrix { a: values(n, s, -20, 20) }), check_ctor);
    ctx.run_prop_par("ctor/toeplitz", 400 * n, 4, || (1usize..=64, any::<u64>()).prop_map(|(n, s)| Ctor::Toeplitz { x: values(n, s, -20, 20) }), check_ctor);
    ctx.run_prop_par("ctor/vandermonde", 800 * n, 8, || (1usize..=64, 1usize..=64, any::<u64>()).prop_map(|(m, n, s)| Ctor::Vandermonde { x: values(m, s, -2, 1), n }), check_ctor);
    ctx.run_prop_par("ctor/design", 1500 * n, 8, || (1usize..=64, 1usize..=6, any::<u64>()).prop_map(|(rows, k, s)| Ctor::Design { x: values(rows * k, s, -6, 6), rows }), check_ctor);
    ctx.run_prop_par("ctor/linspace", 6000 * n, 8, linspace_strategy, check_ctor);
    ctx.run_prop_par("ctor/arange", 8000 * n, 8, arange_strategy, check_ctor);
    ctx.run_prop_par("ctor/rotation", 4000 * n, 8, rotation_strategy, check_ctor);
}

// ===================================================================================================
// predicates and comparisons

#[derive(Clone, Debug, Serialize, Deserialize)]
pub enum Pred {
    SquareMatrix { r: usize, c: usize },
    SquareSlice { len: usize },
    IsMatrix { len: usize, nrows: usize },
    /// r x c row-major; both the Matrix method and (when square) the slice function
    Symmetric { m: Vec<f64>, r: usize, c: usize },
    /// n x n row-major
    Triangular { m: Vec<f64>, n: usize },
    IsDesign { m: Vec<f64>, nrows: usize },
    /// Vector::close_to when both shapes are None, Matrix::close_to otherwise
    CloseTo { x: Vec<f64>, y: Vec<f64>, tol: f64, sx: Option<(usize, usize)>, sy: Option<(usize, usize)> },
    Eq { x: Vec<f64>, y: Vec<f64>, sx: Option<(usize, usize)>, sy: Option<(usize, usize)> },
}

impl Pred {
    fn name(&self) -> &'static str {
        match self {
            Pred::SquareMatrix { .. } | Pred::SquareSlice { .. } => "is_square",
            Pred::IsMatrix { .. } => "is_matrix",
            Pred::Symmetric { .. } => "is_symmetric",
            Pred::Triangular { .. } => "triangular",
            Pred::IsDesign { .. } => "is_design",
            Pred::CloseTo { .. } => "close_to",
            Pred::Eq { .. } => "eq",
        }
    }
}

fn raw(v: &[f64], r: usize, c: usize) -> Matrix {
    Matrix { data: Vector::new(v.to_vec()), nrows: r, ncols: c }
}

fn shapes_ok(x: &[f64], y: &[f64], sx: &Option<(usize, usize)>, sy: &Option<(usize, usize)>) -> bool {
    let fin = |v: &[f64]| !v.is_empty() && v.len() <= 4096 && v.iter().all(|t| t.is_finite());
    let ok = |v: &[f64], s: &Option<(usize, usize)>| s.map(|(r, c)| r > 0 && c > 0 && r * c == v.len()).unwrap_or(true);
    fin(x) && fin(y) && sx.is_some() == sy.is_some() && ok(x, sx) && ok(y, sy)
}

pub fn check_pred(ctx: &mut Ctx, case: &Pred) -> R {
    let name = case.name();
    let sub = format!("pred/{}", name);
    let sig = |t: &str| format!("C15/pred/{}/{}", name, t);
    let h = Hx::new().json(case).finish();
    macro_rules! lib {
        ($e:expr) => {
            match catch(|| $e) {
                Ok(v) => v,
                Err(msg) => return fail(sig("spurious-panic"), format!("{:?} panicked: {}", case, msg)),
            }
        };
    }
    match case {
        Pred::SquareMatrix { r, c } => {
            let (r, c) = (*r, *c);
            if r == 0 || c == 0 || r * c > 4096 {
                return Ok(());
            }
            ctx.case(&sub, if r == c { "Matrix/square" } else { "Matrix/non-square" }, true, h);
            let m = raw(&vec![1.0; r * c], r, c);
            let got: bool = lib!(m.is_square());
            ensure!(got == (r == c), sig("matrix"), "Matrix {}x{}: is_square() = {}", r, c, got);
            Ok(())
        }
        Pred::SquareSlice { len } => {
            let len = *len;
            if len == 0 || len > 1 << 20 {
                return Ok(());
            }
            let root = (0..=len).find(|k| k * k >= len).unwrap();
            let square = root * root == len;
            ctx.case(&sub, if square { "slice/square" } else { "slice/non-square" }, true, h);
            let v = vec![0.5; len];
            let got: Result<usize, String> = lib!(is_square(&v));
            match got {
                Ok(n) => ensure!(square && n == root, sig("slice"), "is_square(slice of {} elements) = Ok({})", len, n),
                Err(_) => ensure!(!square, sig("slice"), "is_square(slice of {} = {}^2 elements) = Err", len, root),
            }
            Ok(())
        }
        Pred::IsMatrix { len, nrows } => {
            let (len, nrows) = (*len, *nrows);
            if len == 0 || nrows == 0 || len > 1 << 16 {
                return Ok(());
            }
            ctx.case(&sub, if len % nrows == 0 { "divides" } else { "does-not-divide" }, true, h);
            let v = vec![0.5; len];
            let got: Result<usize, String> = lib!(is_matrix(&v, nrows));
            match got {
                Ok(c) => ensure!(len % nrows == 0 && c == len / nrows, sig("value"), "is_matrix({} elements, {} rows) = Ok({})", len, nrows, c),
                Err(_) => ensure!(len % nrows != 0, sig("value"), "is_matrix({} elements, {} rows) = Err although {} x {} = {}", len, nrows, nrows, len / nrows, len),
            }
            Ok(())
        }
        Pred::Symmetric { m, r, c } => {
            let (r, c) = (*r, *c);
            if r == 0 || c == 0 || r * c != m.len() || m.len() > 4096 || m.iter().any(|t| !t.is_finite()) {
                return Ok(());
            }
            let mat = raw(m, r, c);
            if r != c {
                ctx.case(&sub, "non-square", true, h);
                let got: bool = lib!(mat.is_symmetric());
                ensure!(!got, sig("non-square"), "Matrix {}x{}: is_symmetric() = true", r, c);
                return Ok(());
            }
            let n = r;
            let mut maxd = 0.0f64;
            for i in 0..n {
                for j in 0..n {
                    maxd = maxd.max((m[i * n + j] - m[j * n + i]).abs());
                }
            }
            // exactly symmetric => true; some |a_ij - a_ji| >= 1e-9 => false; in between: the implementation's tolerance
            let want = if maxd == 0.0 { Some(true) } else if maxd >= 1e-9 { Some(false) } else { None };
            ctx.case(&sub, match want { Some(true) => "symmetric", Some(false) => "asymmetric", None => "tolerance-band(not asserted)" }, want.is_some() && n > 1, h);
            ctx.sample(&sub, || json!(case));
            let gm: bool = lib!(mat.is_symmetric());
            let gs: bool = lib!(is_symmetric(m));
            if let Some(w) = want {
                ensure!(gm == w, sig(if w { "symmetric-rejected" } else { "asymmetric-accepted" }), "Matrix::is_symmetric() = {} for a {}x{} matrix with max |a_ij - a_ji| = {:e}", gm, n, n, maxd);
                ensure!(gs == w, sig(if w { "symmetric-rejected" } else { "asymmetric-accepted" }), "is_symmetric(slice) = {} for a {}x{} matrix with max |a_ij - a_ji| = {:e}", gs, n, n, maxd);
            }
            Ok(())
        }
        Pred::Triangular { m, n } => {
            let n = *n;
            if n == 0 || n * n != m.len() || n > 64 || m.iter().any(|t| !t.is_finite()) {
                return Ok(());
            }
            let mut upper = true;
            let mut lower = true;
            for i in 0..n {
                for j in 0..n {
                    if m[i * n + j] != 0.0 {
                        if j < i {
                            upper = false;
                        }
                        if j > i {
                            lower = false;
                        }
                    }
                }
            }
            ctx.case(&sub, &format!("upper={},lower={}", upper, lower), n > 1, h);
            ctx.sample(&sub, || json!(case));
            let mat = raw(m, n, n);
            let gu: bool = lib!(mat.is_upper_triangular());
            let gl: bool = lib!(mat.is_lower_triangular());
            ensure!(gu == upper, sig("upper"), "is_upper_triangular() = {} for {}x{} {:?}", gu, n, n, &m[..m.len().min(16)]);
            ensure!(gl == lower, sig("lower"), "is_lower_triangular() = {} for {}x{} {:?}", gl, n, n, &m[..m.len().min(16)]);
            Ok(())
        }
        Pred::IsDesign { m, nrows } => {
            let nrows = *nrows;
            if nrows == 0 || m.is_empty() || m.len() % nrows != 0 || m.len() > 4096 || m.iter().any(|t| !t.is_finite()) {
                return Ok(());
            }
            let ncols = m.len() / nrows;
            let dev = (0..nrows).map(|i| (m[i * ncols] - 1.0).abs()).fold(0.0, f64::max);
            let want = if dev == 0.0 { Some(true) } else if dev >= 1e-9 { Some(false) } else { None };
            ctx.case(&sub, match want { Some(true) => "design", Some(false) => "not-design", None => "tolerance-band(not asserted)" }, want.is_some(), h);
            ctx.sample(&sub, || json!(case));
            let got: bool = lib!(is_design(m, nrows));
            if let Some(w) = want {
                ensure!(got == w, sig(if w { "design-rejected" } else { "non-design-accepted" }), "is_design = {} for a {}x{} matrix whose first column deviates from 1 by at most {:e}", got, nrows, ncols, dev);
            }
            Ok(())
        }
        Pred::CloseTo { x, y, tol, sx, sy } => {
            let tol = *tol;
            if !shapes_ok(x, y, sx, sy) || !(tol > 0.0 && tol < 1.0) {
                return Ok(());
            }
            let got: bool = if sx.is_some() {
                let (a, b) = (raw(x, sx.unwrap().0, sx.unwrap().1), raw(y, sy.unwrap().0, sy.unwrap().1));
                lib!(a.close_to(&b, tol))
            } else {
                let (a, b) = (Vector::new(x.clone()), Vector::new(y.clone()));
                lib!(a.close_to(&b, tol))
            };
            let kind = if sx.is_some() { "Matrix" } else { "Vector" };
            // expectation by definition, first applicable clause
            let (want, clause): (Option<bool>, &str) = if x.len() != y.len() || sx != sy {
                (Some(false), "shape")
            } else if x.iter().zip(y).all(|(a, b)| a.to_bits() == b.to_bits()) {
                (Some(true), "identical")
            } else if x.iter().zip(y).all(|(a, b)| a == b) {
                // equal as values although not bit-identical: the two zeros (+0.0 == -0.0 has no sign to oppose)
                (Some(true), "value-equal")
            } else if x.iter().zip(y).any(|(a, b)| (*a < 0.0 && *b > 0.0) || (*a > 0.0 && *b < 0.0)) {
                // "never equate values of opposite sign": any magnitude, down to subnormals (signs are compared
                // directly: a product of two tiny values underflows to ±0 and loses the sign information)
                (Some(false), "opposite-sign")
            } else if x.iter().zip(y).any(|(a, b)| ((*a > 0.0 && *b > 0.0) || (*a < 0.0 && *b < 0.0)) && (a - b).abs() / a.abs().max(b.abs()) >= 10.0 * tol) {
                (Some(false), "different")
            } else {
                (None, "not-asserted")
            };
            ctx.case(&sub, &format!("{}/{}", kind, clause), want.is_some(), h);
            ctx.sample(&sub, || json!(case));
            if let Some(w) = want {
                ensure!(got == w, sig(clause), "{}::close_to(tol = {:e}) = {} for x = {:?}, y = {:?} (shapes {:?}, {:?}); expected {} by clause '{}'", kind, tol, got, &x[..x.len().min(8)], &y[..y.len().min(8)], sx, sy, w, clause);
            }
            Ok(())
        }
        Pred::Eq { x, y, sx, sy } => {
            if !shapes_ok(x, y, sx, sy) {
                return Ok(());
            }
            let got: bool = if sx.is_some() {
                let (a, b) = (raw(x, sx.unwrap().0, sx.unwrap().1), raw(y, sy.unwrap().0, sy.unwrap().1));
                lib!(a == b)
            } else {
                let (a, b) = (Vector::new(x.clone()), Vector::new(y.clone()));
                lib!(a == b)
            };
            let kind = if sx.is_some() { "Matrix" } else { "Vector" };
            let (want, clause): (Option<bool>, &str) = if x.len() != y.len() || sx != sy {
                (Some(false), "shape")
            } else if x.iter().zip(y).all(|(a, b)| a.to_bits() == b.to_bits()) {
                (Some(true), "identical")
            } else if x.iter().zip(y).any(|(a, b)| a * b < 0.0 && (a - b).abs() >= 1e-9) {
                (Some(false), "opposite-sign")
            } else if x.iter().zip(y).any(|(a, b)| (a - b).abs() >= 1e-9) {
                (Some(false), "different")
            } else {
                (None, "not-asserted")
            };
            ctx.case(&sub, &format!("{}/{}", kind, clause), want.is_some(), h);
            ctx.sample(&sub, || json!(case));
            if let Some(w) = want {
                ensure!(got == w, sig(clause), "{} == {} is {} for x = {:?}, y = {:?} (shapes {:?}, {:?}); expected {} by clause '{}'", kind, kind, got, &x[..x.len().min(8)], &y[..y.len().min(8)], sx, sy, w, clause);
            }
            Ok(())
        }
    }
}

/// (x, y, shapes) pairs for close_to / ==: variant 0 identical, 1 shape differs, 2 one entry relatively
/// different by `rel`, 3 one entry negated, 4 one entry negated and slightly rescaled
fn pair(n: usize, salt: u64, variant: u8, pos: usize, rel: f64, matrix: bool) -> (Vec<f64>, Vec<f64>, Option<(usize, usize)>, Option<(usize, usize)>) {
    let x = values(n, salt, -10, 10);
    let mut y = x.clone();
    let p = pos % n;
    // a factorisation r x c of n (for the Matrix form)
    let r = (1..=n).rev().find(|d| n % d == 0 && d * d <= n).unwrap_or(1);
    let (mut sx, mut sy) = if matrix { (Some((r, n / r)), Some((r, n / r))) } else { (None, None) };
    match variant % 5 {
        0 => {}
        1 => {
            if matrix && r != n / r && salt & 1 == 0 {
                sy = Some((n / r, r)); // same data, transposed shape
            } else if matrix {
                y.extend_from_slice(&x[..n / r]); // one more row
                sy = Some((r + 1, n / r));
            } else {
                y.push(1.0);
            }
        }
        2 => y[p] = x[p] * (1.0 + rel),
        3 => y[p] = -x[p],
        _ => y[p] = -x[p] * (1.0 + rel * 0.01),
    }
    if !matrix {
        sx = None;
        sy = None;
    }
    (x, y, sx, sy)
}

fn close_to_strategy() -> impl Strategy<Value = Pred> {
    (1usize..=16, any::<u64>(), 0u8..5, any::<usize>(), 2i32..=12, any::<bool>(), 0usize..16).prop_map(|(n, salt, variant, pos, e, matrix, tiny)| {
        let tol = 10f64.powi(-e);
        let (mut x, mut y, sx, sy) = pair(n, salt, variant, pos, 20.0 * tol, matrix);
        // half of the negated pairs get a tiny magnitude (down to the smallest subnormal): far below every
        // tolerance, and small enough that the product of the two values underflows to zero
        const TINY: [i32; 8] = [-60, -100, -300, -538, -600, -800, -1022, -1074];
        if variant % 5 == 0 && tiny < 6 && x.len() == y.len() {
            // identical data in which some entries are zeros of either sign on either side (still equal as values)
            let p = pos % n;
            x[p] = if tiny & 1 == 0 { 0.0 } else { -0.0 };
            y[p] = if tiny & 2 == 0 { -0.0 } else { 0.0 };
            if n > 1 && tiny >= 4 {
                let q = (p + 1) % n;
                x[q] = -0.0;
                y[q] = 0.0;
            }
        }
        if variant % 5 >= 3 && tiny < TINY.len() && x.len() == y.len() {
            let p = pos % n;
            let m = 2f64.powi(TINY[tiny].max(-1022)) * if TINY[tiny] < -1022 { 2f64.powi(TINY[tiny] + 1022) } else { 1.0 };
            let sgn = if x[p] < 0.0 { -1.0 } else { 1.0 };
            x[p] = sgn * m;
            y[p] = -x[p];
        }
        Pred::CloseTo { x, y, tol, sx, sy }
    })
}

fn eq_strategy() -> impl Strategy<Value = Pred> {
    (1usize..=16, any::<u64>(), 0u8..5, any::<usize>(), 1i32..=6, any::<bool>()).prop_map(|(n, salt, variant, pos, e, matrix)| {
        let (x, y, sx, sy) = pair(n, salt, variant, pos, 10f64.powi(-e), matrix);
        Pred::Eq { x, y, sx, sy }
    })
}

fn symmetric_strategy() -> impl Strategy<Value = Pred> {
    (1usize..=8, 1usize..=8, any::<u64>(), 0u8..4, any::<usize>(), any::<usize>(), -9i32..=0).prop_map(|(n, c, salt, variant, i, j, e)| {
        if variant == 3 && c != n {
            // non-square Matrix (symmetric-looking leading block)
            return Pred::Symmetric { m: values(n * c, salt, -3, 3), r: n, c };
        }
        let base = values(n * n, salt, -6, 6);
        let mut m = vec![0.0; n * n];
        for a in 0..n {
            for b in 0..n {
                m[a * n + b] = base[a.min(b) * n + a.max(b)];
            }
        }
        if variant >= 1 && n > 1 {
            // perturb one off-diagonal entry by about 10^e (>= 1e-9)
            let (a, mut b) = (i % n, j % n);
            if a == b {
                b = (b + 1) % n;
            }
            m[a * n + b] += 10f64.powi(e) * if variant == 1 { 1.0 } else { -3.0 };
        }
        Pred::Symmetric { m, r: n, c: n }
    })
}

fn triangular_strategy() -> impl Strategy<Value = Pred> {
    (1usize..=8, any::<u64>(), 0u8..6, any::<usize>(), any::<usize>()).prop_map(|(n, salt, variant, i, j)| {
        let mut m = values(n * n, salt, -6, 6);
        for a in 0..n {
            for b in 0..n {
                let zero = match variant {
                    0 | 3 => b < a,          // upper triangular
                    1 | 4 => b > a,          // lower triangular
                    2 => a != b,             // diagonal
                    _ => false,              // full
                };
                if zero {
                    m[a * n + b] = 0.0;
                }
            }
        }
        if variant >= 3 && n > 1 {
            // one stray non-zero (possibly tiny) entry off the diagonal
            let (a, mut b) = (i % n, j % n);
            if a == b {
                b = (b + 1) % n;
            }
            m[a * n + b] = if salt & 1 == 0 { 1e-300 } else { -2.5 };
        }
        Pred::Triangular { m, n }
    })
}

fn design_pred_strategy() -> impl Strategy<Value = Pred> {
    (1usize..=8, 1usize..=8, any::<u64>(), 0u8..4, any::<usize>()).prop_map(|(r, c, salt, variant, i)| {
        let mut m = values(r * c, salt, -3, 3);
        for a in 0..r {
            m[a * c] = 1.0;
        }
        match variant {
            0 => {}
            1 => m[(i % r) * c] = 1.0 + 1e-6,
            2 => m[(i % r) * c] = 0.0,
            _ => {
                // first *row* all ones, first column not: catches a row/column mix-up
                for b in 0..c {
                    m[b] = 1.0;
                }
                if r > 1 {
                    m[(1 + i % (r - 1)) * c] = 2.0;
                }
            }
        }
        Pred::IsDesign { m, nrows: r }
    })
}

fn run_preds(ctx: &mut Ctx) {
    for r in 1..=8usize {
        for c in 1..=8usize {
            ctx.check_one("pred/is_square", &Pred::SquareMatrix { r, c }, check_pred);
        }
    }
    for len in 1..=4300usize {
        ctx.check_one("pred/is_square", &Pred::SquareSlice { len }, check_pred);
    }
    for len in 1..=80usize {
        for nrows in 1..=90usize {
            ctx.check_one("pred/is_matrix", &Pred::IsMatrix { len, nrows }, check_pred);
        }
    }
    ctx.exhaustive.push("Matrix::is_square for all shapes 1..=8 x 1..=8; slice is_square for every length 1..=4300; is_matrix for every (length 1..=80, nrows 1..=90)".into());
    // F28's own input, always present
    ctx.check_one("pred/close_to", &Pred::CloseTo { x: vec![1.0], y: vec![-1.0], tol: 1e-6, sx: None, sy: None }, check_pred);
    let n = ctx.scale(1, 60);
    ctx.run_prop_par("pred/is_symmetric", 3000 * n, 4, symmetric_strategy, check_pred);
    ctx.run_prop_par("pred/triangular", 3000 * n, 4, triangular_strategy, check_pred);
    ctx.run_prop_par("pred/is_design", 2000 * n, 4, design_pred_strategy, check_pred);
    ctx.run_prop_par("pred/close_to", 6000 * n, 8, close_to_strategy, check_pred);
    ctx.run_prop_par("pred/eq", 6000 * n, 8, eq_strategy, check_pred);
}

// ===================================================================================================

pub fn run(ctx: &mut Ctx) {
    // 28 focus runs of long programs: keep the quick tier at twice the base counts (about 30 s)
    ctx.qmult = ctx.qmult.min(2);
    ctx.rule = "programs: Vec<Op> over 4 registers (1..=8 rows/cols, distinct integer entries), operands stored as raw selectors and resolved against \
the current model shapes; every two-step program [fresh r x c; op] is enumerated, then one proptest run per op kind with that kind guaranteed to occur \
(1..=40 ops, thorough 1..=200). A program is non-trivial when it has >= 3 successful state-changing ops on a non-square matrix or a rejected op followed \
by further successful ops; distinct by program hash. Constructor / predicate cases are non-trivial when size > 1 (resp. when the definition decides the \
answer); distinct by case hash."
        .into();
    ctx.assumptions = vec![
        "a panic of any kind counts as rejection".into(),
        "entries are distinct integers (fresh values continue one counter), so a misplaced element changes a bit pattern; apply_along_* use injective maps evaluated identically on both sides".into(),
        "results with a dimension > 8 are checked but not stored (the property quantifies over 1..=8 rows/columns)".into(),
        "repetition counts start at 1 (a 0-fold repetition has no defined shape in the statement)".into(),
        "is_symmetric / is_design / == / close_to are only asserted outside the implementation's own tolerance band (exact agreement => true; deviation >= 1e-9 resp. >= 10 tol => false)".into(),
        "triangular predicates are asserted on square matrices only".into(),
    ];
    run_programs(ctx);
    run_ctors(ctx);
    run_preds(ctx);
    // coverage-guided campaign (libFuzzer, ASan) over the same decoder and oracle: thorough tier only
    if !ctx.quick() {
        crate::engine::fuzzdrv::run(
            ctx,
            crate::engine::fuzzdrv::Campaign { target: "c15", runs_per_job: 60000, jobs: 8, max_len: 400, seeds: vec![vec![0, 2, 3, 4, 5, 6, 1, 1, 2, 3, 9, 9, 9, 2, 0, 0, 7, 1, 2, 3], (0u8..120).collect::<Vec<u8>>(), vec![5, 200, 17, 5, 33, 6, 8, 250, 4, 4, 12, 0, 1, 2, 3, 4, 5, 6, 7, 8, 9, 10]] },
        );
    }
}

pub fn replay(ctx: &mut Ctx, sub: &str, v: Value) -> Option<R> {
    if sub.starts_with("program") {
        Some(check_program(ctx, &decode::<ProgCase>(v)?))
    } else if sub.starts_with("ctor/") {
        Some(check_ctor(ctx, &decode::<Ctor>(v)?))
    } else if sub.starts_with("pred/") {
        Some(check_pred(ctx, &decode::<Pred>(v)?))
    } else {
        None
    }
}
