//! C07 — Quadrature rules are exact on their polynomial class and converge at order.
//!
//! Integrands are *data*: `Integrand { id, p }` is either a polynomial (`id = "poly"`, `p` = c0..cd) or a
//! member of a catalogue of 21 smooth functions with closed-form antiderivative (evaluated in
//! double-double), closed-form f, f', f'' and the exact location of the extrema of f'' (so max|f''| on an
//! interval is computed, not estimated). The closures handed to the library count their evaluations
//! (`N`), every rounding allowance is proportional to the measured `N`.
//!
//! Sub-checks (one signature each):
//!   trapz/affine-exact    |trapz − I| ≤ tol_poly                      deg ≤ 1, every n in 1..=4096
//!   romberg/poly-exact    |romberg(eps=0, k) − I| ≤ tol_poly          deg ≤ 2k−1, k in 2..=20
//!   quad5/poly-exact      |quad5 − I| ≤ tol_poly                      deg ≤ 9 (deg 10..19 recorded only)
//!   linearity/<rule>      |Q(αf+βg) − αQ(f) − βQ(g)| ≤ 16(N+16)ε|b−a|·max_i(|αf(x_i)|+|βg(x_i)|)
//!   swap-limits/<rule>    |Q(f;b,a) + Q(f;a,b)| ≤ 2·rounding allowance
//!   trapz/error-bound     |trapz − I| ≤ |b−a|h²/12·max|f''|·(1+1e-9) + R
//!   romberg/tolerance     |romberg(τ, budget) − I| ≤ 100·τ·max(1,|I|) + R   (resolved intervals only)
//!   samples/value         |trapezoid(y,x,dx) − Σ(y_i+y_{i−1})/2·Δx_i (dd)| ≤ 8(n+8)ε Σ(|y_i|+|y_{i−1}|)/2·|Δx_i|
//!   samples/reject        different lengths, or both x and dx: behaviour recorded (not in the statement)
//!
//! tol_poly = 8·(N + 4·deg + 16)·ε·|b−a|·Σ|c_j|M^j, M = max(|a|,|b|): summation of N terms (≤ Nε), the
//! closure's own Horner rounding (≤ 2·deg·ε), node rounding |δx| ≤ 4εM propagated through f' (≤ 4·deg·ε),
//! Richardson amplification ≤ 2, all relative to |b−a|·max Σ|c_j||x|^j; slack ×8.
//! R = 64·N·ε·|b−a|·(max|f| + 8(M+shift)·max|f'|) with rigorous upper bounds max|f'| ≤ |f'(a)|+|b−a|max|f''|,
//! max|f| ≤ |f(a)| + |b−a|max|f'|; `shift` covers the rounding of an inner argument (x−c, ωx+φ).

use crate::engine::{catch, decode, fail, report, Ctx, Hx, Fail, R};
use crate::oracle::dd::DD;
use compute::integrate::{quad5, romberg, trapezoid, trapz};
use proptest::prelude::*;
use serde::{Deserialize, Serialize};
use serde_json::{json, Value};
use std::cell::Cell;

const EPS: f64 = 2.220446049250313e-16;
const PI: f64 = std::f64::consts::PI;

// ------------------------------------------------------------------------------------------------
// double-double sin / cos / atan (the shared dd module has exp, ln, sqrt only)
// ------------------------------------------------------------------------------------------------

fn dd_sincos(x: DD) -> (DD, DD) {
    let half_pi = DD::PI * 0.5;
    let k = (x.hi / half_pi.hi).round();
    let r = x - half_pi * k;
    let r2 = r * r;
    let mut term = r;
    let mut s = r;
    for i in 1..=16 {
        term = -(term * r2) / ((2 * i) as f64 * (2 * i + 1) as f64);
        s = s + term;
    }
    let mut term = DD::ONE;
    let mut c = DD::ONE;
    for i in 1..=16 {
        term = -(term * r2) / ((2 * i - 1) as f64 * (2 * i) as f64);
        c = c + term;
    }
    match (k as i64).rem_euclid(4) {
        0 => (s, c),
        1 => (c, -s),
        2 => (-s, -c),
        _ => (-c, s),
    }
}

fn dd_atan(x: DD) -> DD {
    let y0 = DD::new(x.hi.atan());
    let (s, c) = dd_sincos(y0);
    // Newton on tan y = x: y1 = y0 + (x cos y0 − sin y0) cos y0
    y0 + (x * c - s) * c
}

// ------------------------------------------------------------------------------------------------
// integrands
// ------------------------------------------------------------------------------------------------

#[derive(Clone, Debug, Serialize, Deserialize, PartialEq)]
pub struct Integrand {
    /// "poly" or a catalogue id
    pub id: String,
    /// poly: coefficients c0..cd; catalogue: the member's parameters
    pub p: Vec<f64>,
}

struct Entry {
    id: &'static str,
    /// admissible values per parameter (a replayed case with other values is outside the quantifier)
    ptab: &'static [&'static [f64]],
    f: fn(&[f64], f64) -> f64,
    f1: fn(&[f64], f64) -> f64,
    f2: fn(&[f64], f64) -> f64,
    anti: fn(&[f64], f64) -> DD,
    /// superset of the maximisers of |f''| in the open interval (zeros of f'''); for periodic |f''| the
    /// maximisers next to `lo` suffice
    crit: fn(&[f64], f64, f64) -> Vec<f64>,
    /// where the integrand is defined and smooth (inside ±1e3)
    dom: fn(&[f64]) -> (f64, f64),
    /// longest interval with at most one interior extremum of f (trigonometric members: half a period)
    maxlen: fn(&[f64]) -> f64,
    /// local smoothness scale (≈ half the distance to the nearest complex singularity, or 2/rate)
    scale: fn(&[f64], f64) -> f64,
    /// magnitude of a constant added to x (or to ωx, divided by ω) inside the closure
    shift: fn(&[f64]) -> f64,
}

fn no_crit(_: &[f64], _: f64, _: f64) -> Vec<f64> {
    vec![]
}
fn inf_len(_: &[f64]) -> f64 {
    f64::INFINITY
}
fn no_shift(_: &[f64]) -> f64 {
    0.0
}
fn pos_dom(_: &[f64]) -> (f64, f64) {
    (0.1, 1e3)
}
fn half_x(_: &[f64], x: f64) -> f64 {
    0.5 * x
}
fn trig_dom(p: &[f64]) -> (f64, f64) {
    let m = (100.0 / p[0]).min(1e3);
    (-m, m)
}
fn trig_len(p: &[f64]) -> f64 {
    PI / p[0]
}
fn trig_scale(p: &[f64], _: f64) -> f64 {
    PI / (2.0 * p[0])
}
fn trig_shift(p: &[f64]) -> f64 {
    p[1].abs() / p[0]
}
/// points where ωx+φ = off + mπ next to lo
fn trig_crit(p: &[f64], lo: f64, off: f64) -> Vec<f64> {
    let (w, ph) = (p[0], p[1]);
    let m = ((w * lo + ph - off) / PI).ceil();
    vec![(off + (m - 1.0) * PI - ph) / w, (off + m * PI - ph) / w, (off + (m + 1.0) * PI - ph) / w]
}

const K_EXP: &[f64] = &[1.0, -1.0, 0.5, -2.0, 3.0, 0.03];
const OMEGA: &[f64] = &[1.0, 2.0, 0.5, 3.0, 0.1, 7.0];
const PHASE: &[f64] = &[0.0, 0.3, -1.0, 1.5707963267948966, 2.5, -3.0];
const CENTRE: &[f64] = &[0.0, 1.0, -3.0, 10.0];
const OFFSET: &[f64] = &[0.0, 1.0, 2.5, 0.4];
const MONO_DEG: &[f64] = &[2.0, 3.0, 4.0, 5.0, 6.0];

static CATALOGUE: &[Entry] = &[
    Entry {
        id: "exp", // exp(kx)
        ptab: &[K_EXP],
        f: |p, x| (p[0] * x).exp(),
        f1: |p, x| p[0] * (p[0] * x).exp(),
        f2: |p, x| p[0] * p[0] * (p[0] * x).exp(),
        anti: |p, x| DD::from_prod(p[0], x).exp() / p[0],
        crit: no_crit,
        dom: |p| {
            let m = (30.0 / p[0].abs()).min(1e3);
            (-m, m)
        },
        maxlen: inf_len,
        scale: |p, _| 2.0 / p[0].abs(),
        shift: no_shift,
    },
    Entry {
        id: "sin", // sin(ωx+φ)
        ptab: &[OMEGA, PHASE],
        f: |p, x| (p[0] * x + p[1]).sin(),
        f1: |p, x| p[0] * (p[0] * x + p[1]).cos(),
        f2: |p, x| -p[0] * p[0] * (p[0] * x + p[1]).sin(),
        anti: |p, x| -(dd_sincos(DD::from_prod(p[0], x) + p[1]).1) / p[0],
        crit: |p, lo, _| trig_crit(p, lo, PI / 2.0),
        dom: trig_dom,
        maxlen: trig_len,
        scale: trig_scale,
        shift: trig_shift,
    },
    Entry {
        id: "cos", // cos(ωx+φ)
        ptab: &[OMEGA, PHASE],
        f: |p, x| (p[0] * x + p[1]).cos(),
        f1: |p, x| -p[0] * (p[0] * x + p[1]).sin(),
        f2: |p, x| -p[0] * p[0] * (p[0] * x + p[1]).cos(),
        anti: |p, x| dd_sincos(DD::from_prod(p[0], x) + p[1]).0 / p[0],
        crit: |p, lo, _| trig_crit(p, lo, 0.0),
        dom: trig_dom,
        maxlen: trig_len,
        scale: trig_scale,
        shift: trig_shift,
    },
    Entry {
        id: "lorentz", // 1/(1+(x−c)²)
        ptab: &[CENTRE],
        f: |p, x| 1.0 / (1.0 + (x - p[0]) * (x - p[0])),
        f1: |p, x| {
            let t = x - p[0];
            -2.0 * t / (1.0 + t * t).powi(2)
        },
        f2: |p, x| {
            let t = x - p[0];
            (6.0 * t * t - 2.0) / (1.0 + t * t).powi(3)
        },
        anti: |p, x| dd_atan(DD::from_sum(x, -p[0])),
        crit: |p, _, _| vec![p[0] - 1.0, p[0], p[0] + 1.0],
        dom: |p| (p[0] - 50.0, p[0] + 50.0),
        maxlen: inf_len,
        scale: |p, x| 0.5 * (1.0 + (x - p[0]) * (x - p[0])).sqrt(),
        shift: |p| p[0].abs(),
    },
    Entry {
        id: "recip", // 1/x on [0.1, 1e3]
        ptab: &[],
        f: |_, x| 1.0 / x,
        f1: |_, x| -1.0 / (x * x),
        f2: |_, x| 2.0 / (x * x * x),
        anti: |_, x| DD::new(x).ln(),
        crit: no_crit,
        dom: pos_dom,
        maxlen: inf_len,
        scale: half_x,
        shift: no_shift,
    },
    Entry {
        id: "log", // ln x on [0.1, 1e3]
        ptab: &[],
        f: |_, x| x.ln(),
        f1: |_, x| 1.0 / x,
        f2: |_, x| -1.0 / (x * x),
        anti: |_, x| DD::new(x) * DD::new(x).ln() - x,
        crit: no_crit,
        dom: pos_dom,
        maxlen: inf_len,
        scale: half_x,
        shift: no_shift,
    },
    Entry {
        id: "sqrt",
        ptab: &[],
        f: |_, x| x.sqrt(),
        f1: |_, x| 0.5 / x.sqrt(),
        f2: |_, x| -0.25 / (x * x.sqrt()),
        anti: |_, x| DD::new(x) * DD::new(x).sqrt() * 2.0 / 3.0,
        crit: no_crit,
        dom: pos_dom,
        maxlen: inf_len,
        scale: half_x,
        shift: no_shift,
    },
    Entry {
        id: "rsqrt", // 1/sqrt(x)
        ptab: &[],
        f: |_, x| 1.0 / x.sqrt(),
        f1: |_, x| -0.5 / (x * x.sqrt()),
        f2: |_, x| 0.75 / (x * x * x.sqrt()),
        anti: |_, x| DD::new(x).sqrt() * 2.0,
        crit: no_crit,
        dom: pos_dom,
        maxlen: inf_len,
        scale: half_x,
        shift: no_shift,
    },
    Entry {
        id: "xexp", // x e^{-x} on [-5, 30]
        ptab: &[],
        f: |_, x| x * (-x).exp(),
        f1: |_, x| (1.0 - x) * (-x).exp(),
        f2: |_, x| (x - 2.0) * (-x).exp(),
        anti: |_, x| -((DD::new(x) + 1.0) * DD::new(-x).exp()),
        crit: |_, _, _| vec![3.0],
        dom: |_| (-5.0, 30.0),
        maxlen: inf_len,
        scale: |_, _| 2.0,
        shift: no_shift,
    },
    Entry {
        id: "xgauss", // x e^{-x²} on [0, 6]
        ptab: &[],
        f: |_, x| x * (-x * x).exp(),
        f1: |_, x| (1.0 - 2.0 * x * x) * (-x * x).exp(),
        f2: |_, x| (4.0 * x * x * x - 6.0 * x) * (-x * x).exp(),
        anti: |_, x| -((-(DD::new(x) * DD::new(x))).exp()) * 0.5,
        // f''' ∝ −8x⁴ + 24x² − 6: x² = (3 ∓ √6)/2
        crit: |_, _, _| vec![((3.0 - 6f64.sqrt()) / 2.0).sqrt(), ((3.0 + 6f64.sqrt()) / 2.0).sqrt()],
        dom: |_| (0.0, 6.0),
        maxlen: inf_len,
        scale: |_, _| 0.75,
        shift: no_shift,
    },
    Entry {
        id: "invsq", // 1/(x+c)² for x+c ≥ 0.1
        ptab: &[OFFSET],
        f: |p, x| 1.0 / ((x + p[0]) * (x + p[0])),
        f1: |p, x| -2.0 / (x + p[0]).powi(3),
        f2: |p, x| 6.0 / (x + p[0]).powi(4),
        anti: |p, x| -(DD::ONE / DD::from_sum(x, p[0])),
        crit: no_crit,
        dom: |p| (0.1 - p[0], 100.0 - p[0]),
        maxlen: inf_len,
        scale: |p, x| 0.5 * (x + p[0]),
        shift: |p| p[0].abs(),
    },
    Entry {
        id: "xsqrt", // x sqrt(1+2x) on [0, 100]
        ptab: &[],
        f: |_, x| x * (1.0 + 2.0 * x).sqrt(),
        f1: |_, x| (1.0 + 3.0 * x) / (1.0 + 2.0 * x).sqrt(),
        f2: |_, x| (2.0 + 3.0 * x) / (1.0 + 2.0 * x).powf(1.5),
        anti: |_, x| {
            let t = DD::from_prod(2.0, x) + 1.0;
            t * t.sqrt() * (DD::from_prod(3.0, x) - 1.0) / 15.0
        },
        crit: no_crit, // f''' = −3(1+x)/(1+2x)^{5/2} < 0
        dom: |_| (0.0, 100.0),
        maxlen: inf_len,
        scale: |_, x| 0.5 * (x + 0.5),
        shift: |_| 0.5,
    },
    Entry {
        id: "sin2cos2", // sin²x cos²x = (1 − cos 4x)/8
        ptab: &[],
        f: |_, x| x.sin().powi(2) * x.cos().powi(2),
        f1: |_, x| 0.5 * (4.0 * x).sin(),
        f2: |_, x| 2.0 * (4.0 * x).cos(),
        anti: |_, x| DD::new(x) / 8.0 - dd_sincos(DD::from_prod(4.0, x)).0 / 32.0,
        crit: |_, lo, _| trig_crit(&[4.0, 0.0], lo, 0.0),
        dom: |_| (-20.0, 20.0),
        maxlen: |_| PI / 4.0,
        scale: |_, _| PI / 8.0,
        shift: no_shift,
    },
    Entry {
        id: "lnx_x", // ln(x)/x on [0.5, 100]
        ptab: &[],
        f: |_, x| x.ln() / x,
        f1: |_, x| (1.0 - x.ln()) / (x * x),
        f2: |_, x| (2.0 * x.ln() - 3.0) / (x * x * x),
        anti: |_, x| DD::new(x).ln().sqr() * 0.5,
        crit: |_, _, _| vec![(11.0f64 / 6.0).exp()],
        dom: |_| (0.5, 100.0),
        maxlen: inf_len,
        scale: half_x,
        shift: no_shift,
    },
    Entry {
        id: "cosh",
        ptab: &[],
        f: |_, x| x.cosh(),
        f1: |_, x| x.sinh(),
        f2: |_, x| x.cosh(),
        anti: |_, x| (DD::new(x).exp() - DD::new(-x).exp()) * 0.5,
        crit: |_, _, _| vec![0.0],
        dom: |_| (-20.0, 20.0),
        maxlen: inf_len,
        scale: |_, _| 2.0,
        shift: no_shift,
    },
    Entry {
        id: "sinh",
        ptab: &[],
        f: |_, x| x.sinh(),
        f1: |_, x| x.cosh(),
        f2: |_, x| x.sinh(),
        anti: |_, x| (DD::new(x).exp() + DD::new(-x).exp()) * 0.5,
        crit: no_crit,
        dom: |_| (-20.0, 20.0),
        maxlen: inf_len,
        scale: |_, _| 2.0,
        shift: no_shift,
    },
    Entry {
        id: "x_1px2", // x/(1+x²) on [0, 50]
        ptab: &[],
        f: |_, x| x / (1.0 + x * x),
        f1: |_, x| (1.0 - x * x) / (1.0 + x * x).powi(2),
        f2: |_, x| 2.0 * x * (x * x - 3.0) / (1.0 + x * x).powi(3),
        anti: |_, x| (DD::from_prod(x, x) + 1.0).ln() * 0.5,
        // f''' ∝ x⁴ − 6x² + 1: x = √2 ∓ 1
        crit: |_, _, _| vec![2f64.sqrt() - 1.0, 2f64.sqrt() + 1.0],
        dom: |_| (0.0, 50.0),
        maxlen: inf_len,
        scale: |_, x| 0.5 * (1.0 + x * x).sqrt(),
        shift: no_shift,
    },
    Entry {
        id: "logistic", // 1/(1+e^{-x})
        ptab: &[],
        f: |_, x| 1.0 / (1.0 + (-x).exp()),
        // s(1−s) = t/(1+t)² with t = e^{−|x|} (no cancellation), 1 − 2s = −tanh(x/2)
        f1: |_, x| {
            let t = (-x.abs()).exp();
            t / ((1.0 + t) * (1.0 + t))
        },
        f2: |_, x| {
            let t = (-x.abs()).exp();
            -t / ((1.0 + t) * (1.0 + t)) * (0.5 * x).tanh()
        },
        anti: |_, x| (DD::new(x).exp() + 1.0).ln(),
        crit: |_, _, _| vec![-(2.0 + 3f64.sqrt()).ln(), (2.0 + 3f64.sqrt()).ln()],
        dom: |_| (-30.0, 30.0),
        maxlen: inf_len,
        scale: |_, _| 1.5,
        shift: no_shift,
    },
    Entry {
        id: "tanh",
        ptab: &[],
        f: |_, x| x.tanh(),
        f1: |_, x| 1.0 / x.cosh().powi(2),
        f2: |_, x| -2.0 * x.tanh() / x.cosh().powi(2),
        anti: |_, x| ((DD::new(x).exp() + DD::new(-x).exp()) * 0.5).ln(),
        // f''' = sech²(6 tanh² − 2): tanh² = 1/3
        crit: |_, _, _| vec![-(1.0 / 3f64.sqrt()).atanh(), (1.0 / 3f64.sqrt()).atanh()],
        dom: |_| (-20.0, 20.0),
        maxlen: inf_len,
        scale: |_, _| 0.75,
        shift: no_shift,
    },
    Entry {
        id: "pow2", // 2^x
        ptab: &[],
        f: |_, x| x.exp2(),
        f1: |_, x| std::f64::consts::LN_2 * x.exp2(),
        f2: |_, x| std::f64::consts::LN_2 * std::f64::consts::LN_2 * x.exp2(),
        anti: |_, x| (DD::LN2 * x).exp() / DD::LN2,
        crit: no_crit,
        dom: |_| (-40.0, 40.0),
        maxlen: inf_len,
        scale: |_, _| 3.0,
        shift: no_shift,
    },
    Entry {
        id: "mono", // x^d, d = 2..6 (not exact for the trapezoid rule: error clause)
        ptab: &[MONO_DEG],
        f: |p, x| x.powi(p[0] as i32),
        f1: |p, x| p[0] * x.powi(p[0] as i32 - 1),
        f2: |p, x| p[0] * (p[0] - 1.0) * x.powi(p[0] as i32 - 2),
        anti: |p, x| DD::new(x).powi(p[0] as i32 + 1) / (p[0] + 1.0),
        crit: |_, _, _| vec![0.0],
        dom: |_| (-1e3, 1e3),
        maxlen: inf_len,
        scale: |_, _| 1e3,
        shift: no_shift,
    },
];

fn entry(id: &str) -> Option<&'static Entry> {
    CATALOGUE.iter().find(|e| e.id == id)
}

fn params_ok(e: &Entry, p: &[f64]) -> bool {
    p.len() == e.ptab.len() && p.iter().zip(e.ptab).all(|(v, tab)| tab.iter().any(|t| t.to_bits() == v.to_bits()))
}

impl Integrand {
    fn poly(c: Vec<f64>) -> Self {
        Integrand { id: "poly".into(), p: c }
    }
    fn is_poly(&self) -> bool {
        self.id == "poly"
    }
    /// degree as written (length − 1), polynomials only
    fn deg(&self) -> usize {
        self.p.len().saturating_sub(1)
    }
    /// is this integrand in the quantifier at all
    fn valid(&self) -> bool {
        if self.is_poly() {
            !self.p.is_empty() && self.p.len() <= 20 && self.p.iter().all(|c| c.is_finite() && c.abs() <= 1e6)
        } else {
            entry(&self.id).map(|e| params_ok(e, &self.p)).unwrap_or(false)
        }
    }
    /// the f64 function handed to the library
    fn eval(&self, x: f64) -> f64 {
        if self.is_poly() {
            self.p.iter().rev().fold(0.0, |acc, c| acc * x + c)
        } else {
            (entry(&self.id).unwrap().f)(&self.p, x)
        }
    }
    /// exact ∫_a^b f in double-double
    fn integral(&self, a: f64, b: f64) -> DD {
        if self.is_poly() {
            let (da, db) = (DD::new(a), DD::new(b));
            let (mut pa, mut pb) = (da, db);
            let mut s = DD::ZERO;
            for (j, c) in self.p.iter().enumerate() {
                s = s + (pb - pa) * *c / (j as f64 + 1.0);
                pa = pa * da;
                pb = pb * db;
            }
            s
        } else {
            let e = entry(&self.id).unwrap();
            (e.anti)(&self.p, b) - (e.anti)(&self.p, a)
        }
    }
    /// Σ|c_j| M^j (polynomials)
    fn abs_poly(&self, m: f64) -> f64 {
        self.p.iter().rev().fold(0.0, |acc, c| acc * m + c.abs())
    }
    fn label(&self) -> String {
        if self.is_poly() {
            let nz = self.p.iter().filter(|c| **c != 0.0).count();
            format!("poly/deg={}{}", self.deg(), if nz <= 1 { "/monomial" } else { "" })
        } else {
            self.id.clone()
        }
    }
    /// does [a,b] lie in the member's domain (polynomials: ±1e3); short non-degenerate intervals are
    /// excluded for catalogue members so that F(b) − F(a) in dd keeps ≥ 1e-6 relative to its allowance
    fn interval_ok(&self, a: f64, b: f64) -> bool {
        if !(a.is_finite() && b.is_finite() && a.abs() <= 1e3 && b.abs() <= 1e3) {
            return false;
        }
        if self.is_poly() {
            return true;
        }
        let e = entry(&self.id).unwrap();
        let (lo, hi) = (e.dom)(&self.p);
        let m = a.abs().max(b.abs());
        a >= lo && a <= hi && b >= lo && b <= hi && (a == b || (b - a).abs() >= 1e-6 * (1.0 + m))
    }
}

/// Rigorous data about a catalogue member on [a,b]: max|f''| and the rounding allowance scale.
struct Smooth {
    b2: f64,
    /// max|f| + 8(M + shift)·max|f'| (upper bounds)
    a_scale: f64,
}

fn smooth_info(f: &Integrand, a: f64, b: f64) -> Smooth {
    let e = entry(&f.id).unwrap();
    let (lo, hi) = if a <= b { (a, b) } else { (b, a) };
    let mut b2 = (e.f2)(&f.p, lo).abs().max((e.f2)(&f.p, hi).abs());
    for c in (e.crit)(&f.p, lo, hi) {
        let t = 1e-9 * (1.0 + c.abs());
        if c >= lo - t && c <= hi + t {
            let (dlo, dhi) = (e.dom)(&f.p);
            b2 = b2.max((e.f2)(&f.p, c.max(dlo).min(dhi)).abs());
        }
    }
    let len = hi - lo;
    let m = a.abs().max(b.abs());
    let maxf1 = (e.f1)(&f.p, a).abs() + len * b2;
    let maxf = (e.f)(&f.p, a).abs() + len * maxf1;
    Smooth { b2, a_scale: maxf + 8.0 * (m + (e.shift)(&f.p)) * maxf1 }
}

/// rounding allowance for a polynomial integrand
fn tol_poly(f: &Integrand, a: f64, b: f64, n_eval: u64) -> f64 {
    let m = a.abs().max(b.abs());
    8.0 * (n_eval as f64 + 4.0 * f.deg() as f64 + 16.0) * EPS * (b - a).abs() * f.abs_poly(m)
}

/// rounding allowance R for a catalogue member
fn tol_smooth(s: &Smooth, a: f64, b: f64, n_eval: u64) -> f64 {
    64.0 * n_eval as f64 * EPS * (b - a).abs() * s.a_scale
}

fn tol_any(f: &Integrand, a: f64, b: f64, n_eval: u64) -> f64 {
    if f.is_poly() {
        tol_poly(f, a, b, n_eval)
    } else {
        tol_smooth(&smooth_info(f, a, b), a, b, n_eval)
    }
}

// ------------------------------------------------------------------------------------------------
// calling the library
// ------------------------------------------------------------------------------------------------

const RULES: [&str; 3] = ["trapz", "romberg", "quad5"];

struct Called {
    q: f64,
    n_eval: u64,
    /// max over the evaluated nodes of the magnitude reported by the closure
    max_abs: f64,
}

/// Run one rule; `n` is the panel count (trapz) or the level budget (romberg), `eps` romberg's tolerance.
/// `g` returns (value, magnitude) at a node.
fn call_rule(rule: &str, g: &dyn Fn(f64) -> (f64, f64), a: f64, b: f64, n: usize, eps: f64) -> Result<Called, String> {
    let cnt = Cell::new(0u64);
    let mx = Cell::new(0.0f64);
    // The integrand handed to the library exists on the interval of integration only: outside [min(a,b), max(a,b)]
    // it is NaN (as x²√x is left of 0). A rule for the integral over [a,b] has no business evaluating elsewhere — a
    // node recomputed as a + n·((b−a)/n) may land one ulp beyond b.
    let (lo, hi) = (a.min(b), a.max(b));
    let h = |x: f64| {
        cnt.set(cnt.get() + 1);
        if x < lo || x > hi {
            return f64::NAN;
        }
        let (v, m) = g(x);
        if m > mx.get() || m.is_nan() {
            mx.set(m);
        }
        v
    };
    let q = match rule {
        "trapz" => catch(|| trapz(&h, a, b, n)),
        "romberg" => catch(|| romberg(&h, a, b, eps, n)),
        _ => catch(|| quad5(&h, a, b)),
    }?;
    Ok(Called { q, n_eval: cnt.get().max(1), max_abs: mx.get() })
}

fn rule_ok(rule: &str, n: usize) -> bool {
    match rule {
        "trapz" => (1..=4096).contains(&n),
        "romberg" => (2..=20).contains(&n),
        "quad5" => true,
        _ => false,
    }
}

fn interval_class(a: f64, b: f64) -> &'static str {
    if a == b {
        "a=b"
    } else if a > b {
        "a>b"
    } else {
        "a<b"
    }
}

// ------------------------------------------------------------------------------------------------
// exactness on the polynomial class
// ------------------------------------------------------------------------------------------------

#[derive(Clone, Debug, Serialize, Deserialize)]
pub struct QCase {
    pub rule: String,
    pub f: Integrand,
    pub a: f64,
    pub b: f64,
    /// panels (trapz) or levels (romberg); ignored by quad5
    pub n: usize,
    /// romberg tolerance (0 in the exactness, linearity and swap clauses)
    #[serde(default)]
    pub tol: f64,
}

fn exact_sub(rule: &str) -> &'static str {
    match rule {
        "trapz" => "trapz/affine-exact",
        "romberg" => "romberg/poly-exact",
        _ => "quad5/poly-exact",
    }
}

/// highest degree the statement requires the rule to integrate exactly
fn exact_degree(rule: &str, n: usize) -> usize {
    match rule {
        "trapz" => 1,
        "romberg" => 2 * n - 1,
        _ => 9,
    }
}

pub fn check_exact(ctx: &mut Ctx, c: &QCase) -> R {
    if !rule_ok(&c.rule, c.n) || !c.f.is_poly() || !c.f.valid() || !c.f.interval_ok(c.a, c.b) {
        return Ok(());
    }
    let sub = exact_sub(&c.rule);
    let required = c.f.deg() <= exact_degree(&c.rule, c.n);
    if !required && c.rule != "quad5" {
        return Ok(());
    }
    let nontrivial = c.f.deg() >= 1 && c.a != c.b;
    let class = format!("{}/{}{}", c.f.label(), interval_class(c.a, c.b), if required { "" } else { "/recorded-only" });
    ctx.case(sub, &class, nontrivial, Hx::new().json(c).finish());
    if c.rule == "romberg" {
        ctx.label(sub, &format!("levels={}", c.n));
    }
    ctx.sample(sub, || json!(c));
    let f = &c.f;
    let g = |x: f64| (f.eval(x), 0.0);
    let r = match call_rule(&c.rule, &g, c.a, c.b, c.n, 0.0) {
        Ok(r) => r,
        Err(msg) => {
            return fail(format!("C07/{}/panic", c.rule), format!("{}({:?}, a={:e}, b={:e}, n={}) panicked: {}", c.rule, f, c.a, c.b, c.n, msg))
        }
    };
    let exact = f.integral(c.a, c.b);
    let err = (DD::new(r.q) - exact).abs().f();
    let tol = tol_poly(f, c.a, c.b, r.n_eval);
    if !required {
        // quad5 is in fact a 10-point rule; degrees 10..19 are recorded, not required
        ctx.worst("quad5 deg 10..19 (recorded only, not required)", if tol > 0.0 { err / tol } else { 0.0 });
        return Ok(());
    }
    ctx.worst(&format!("{} |Q-I| / tol_poly", sub), if tol > 0.0 { err / tol } else if err == 0.0 { 0.0 } else { f64::INFINITY });
    ensure!(
        err <= tol,
        format!("C07/{}", sub),
        "{} of the degree-{} polynomial {:?} over [{:e}, {:e}] with n={} returned {:e}, exact integral {:e}: error {:e} > rounding allowance {:e} ({} evaluations)",
        c.rule, f.deg(), f.p, c.a, c.b, c.n, r.q, exact.f(), err, tol, r.n_eval
    );
    Ok(())
}

// ------------------------------------------------------------------------------------------------
// linearity
// ------------------------------------------------------------------------------------------------

#[derive(Clone, Debug, Serialize, Deserialize)]
pub struct LinCase {
    pub rule: String,
    pub f: Integrand,
    pub g: Integrand,
    pub alpha: f64,
    pub beta: f64,
    pub a: f64,
    pub b: f64,
    pub n: usize,
}

pub fn check_lin(ctx: &mut Ctx, c: &LinCase) -> R {
    if !rule_ok(&c.rule, c.n) || !c.f.valid() || !c.g.valid() || !c.f.interval_ok(c.a, c.b) || !c.g.interval_ok(c.a, c.b) {
        return Ok(());
    }
    if !(c.alpha.is_finite() && c.beta.is_finite() && c.alpha.abs() <= 1e3 && c.beta.abs() <= 1e3) {
        return Ok(());
    }
    let sub = format!("linearity/{}", c.rule);
    let class = format!("{}+{}/{}", if c.f.is_poly() { "poly" } else { "smooth" }, if c.g.is_poly() { "poly" } else { "smooth" }, interval_class(c.a, c.b));
    ctx.case(&sub, &class, c.a != c.b && c.alpha != 0.0 && c.beta != 0.0, Hx::new().json(c).finish());
    ctx.sample(&sub, || json!(c));
    let (f, g, al, be) = (&c.f, &c.g, c.alpha, c.beta);
    let hf = |x: f64| {
        let (u, v) = (al * f.eval(x), be * g.eval(x));
        (u + v, u.abs() + v.abs())
    };
    let ff = |x: f64| (f.eval(x), 0.0);
    let gf = |x: f64| (g.eval(x), 0.0);
    let sig_p = format!("C07/{}/panic", c.rule);
    let run = |fun: &dyn Fn(f64) -> (f64, f64), who: &str| -> Result<Called, Fail> {
        call_rule(&c.rule, fun, c.a, c.b, c.n, 0.0)
            .map_err(|m| Fail { sig: sig_p.clone(), what: format!("{} on {} over [{:e},{:e}] n={} panicked: {}", c.rule, who, c.a, c.b, c.n, m) })
    };
    let qh = run(&hf, "alpha f + beta g")?;
    let qf = run(&ff, "f")?;
    let qg = run(&gf, "g")?;
    let comb = al * qf.q + be * qg.q;
    let n = qh.n_eval.max(qf.n_eval).max(qg.n_eval);
    // every rule is Σ w_i h(x_i) with Σ|w_i| ≤ 2|b−a| (Richardson amplification ≤ 2): the three calls see the
    // same nodes, so the difference is rounding only, relative to |b−a|·max_i(|αf(x_i)| + |βg(x_i)|)
    let tol = 16.0 * (n as f64 + 16.0) * EPS * (c.b - c.a).abs() * qh.max_abs;
    let err = (qh.q - comb).abs();
    ctx.worst(&format!("{} |Q(af+bg)-aQ(f)-bQ(g)| / tol", sub), if tol > 0.0 { err / tol } else if err == 0.0 { 0.0 } else { f64::INFINITY });
    ensure!(
        err <= tol,
        format!("C07/{}", sub),
        "{} over [{:e},{:e}] n={}: Q({}*{:?} + {}*{:?}) = {:e} but {}*Q(f) + {}*Q(g) = {}*{:e} + {}*{:e} = {:e}; difference {:e} > rounding allowance {:e}",
        c.rule, c.a, c.b, c.n, al, f, be, g, qh.q, al, be, al, qf.q, be, qg.q, comb, err, tol
    );
    Ok(())
}

// ------------------------------------------------------------------------------------------------
// swapped limits
// ------------------------------------------------------------------------------------------------

pub fn check_swap(ctx: &mut Ctx, c: &QCase) -> R {
    if !rule_ok(&c.rule, c.n) || !c.f.valid() || !c.f.interval_ok(c.a, c.b) {
        return Ok(());
    }
    let sub = format!("swap-limits/{}", c.rule);
    ctx.case(&sub, &format!("{}/{}", c.f.label(), interval_class(c.a, c.b)), c.a != c.b, Hx::new().json(c).finish());
    ctx.sample(&sub, || json!(c));
    let f = &c.f;
    let g = |x: f64| (f.eval(x), 0.0);
    let sig_p = format!("C07/{}/panic", c.rule);
    let fwd = call_rule(&c.rule, &g, c.a, c.b, c.n, 0.0)
        .map_err(|m| Fail { sig: sig_p.clone(), what: format!("{}({:?}, {:e}, {:e}, n={}) panicked: {}", c.rule, f, c.a, c.b, c.n, m) })?;
    let bwd = call_rule(&c.rule, &g, c.b, c.a, c.n, 0.0)
        .map_err(|m| Fail { sig: sig_p.clone(), what: format!("{}({:?}, {:e}, {:e}, n={}) panicked: {}", c.rule, f, c.b, c.a, c.n, m) })?;
    // both values carry their own rounding (the nodes a+k·dx and b−k·dx differ by rounding)
    let tol = 2.0 * tol_any(f, c.a, c.b, fwd.n_eval.max(bwd.n_eval));
    let err = (fwd.q + bwd.q).abs();
    ctx.worst(&format!("{} |Q(a,b)+Q(b,a)| / tol", sub), if tol > 0.0 { err / tol } else if err == 0.0 { 0.0 } else { f64::INFINITY });
    ensure!(
        err <= tol,
        format!("C07/{}", sub),
        "{} of {:?} n={}: Q(a={:e}, b={:e}) = {:e} but Q(b, a) = {:e}; sum {:e} > rounding allowance {:e}",
        c.rule, f, c.n, c.a, c.b, fwd.q, bwd.q, err, tol
    );
    Ok(())
}

// ------------------------------------------------------------------------------------------------
// trapezoid error bound
// ------------------------------------------------------------------------------------------------

pub fn check_errbound(ctx: &mut Ctx, c: &QCase) -> R {
    if c.rule != "trapz" || !rule_ok(&c.rule, c.n) || c.f.is_poly() || !c.f.valid() || !c.f.interval_ok(c.a, c.b) {
        return Ok(());
    }
    let sub = "trapz/error-bound";
    ctx.case(sub, &format!("{}/{}", c.f.label(), interval_class(c.a, c.b)), c.a != c.b, Hx::new().json(c).finish());
    ctx.sample(sub, || json!(c));
    let f = &c.f;
    let g = |x: f64| (f.eval(x), 0.0);
    let r = match call_rule("trapz", &g, c.a, c.b, c.n, 0.0) {
        Ok(r) => r,
        Err(m) => return fail("C07/trapz/panic", format!("trapz({:?}, {:e}, {:e}, {}) panicked: {}", f, c.a, c.b, c.n, m)),
    };
    let s = smooth_info(f, c.a, c.b);
    let exact = f.integral(c.a, c.b);
    let err = (DD::new(r.q) - exact).abs().f();
    let len = (c.b - c.a).abs();
    let h = len / c.n as f64;
    let trunc = len * h * h / 12.0 * s.b2 * (1.0 + 1e-9);
    let round = tol_smooth(&s, c.a, c.b, r.n_eval);
    let bound = trunc + round;
    ctx.worst("trapz/error-bound |Q-I| / ((b-a)h^2/12 max|f''| + R)", if bound > 0.0 { err / bound } else if err == 0.0 { 0.0 } else { f64::INFINITY });
    if round > trunc {
        ctx.label(sub, "bound dominated by the rounding allowance (R > truncation bound)");
    }
    ensure!(
        err <= bound,
        "C07/trapz/error-bound",
        "trapz of {:?} over [{:e}, {:e}] with {} panels returned {:e}, exact {:e}: error {:e} exceeds (b-a)h^2/12*max|f''| = {:e} (max|f''| = {:e}) plus rounding allowance {:e}",
        f, c.a, c.b, c.n, r.q, exact.f(), err, trunc, s.b2, round
    );
    Ok(())
}

// ------------------------------------------------------------------------------------------------
// Romberg with a positive tolerance
// ------------------------------------------------------------------------------------------------

/// Is [a,b] resolved for adaptive stopping: at most one interior extremum (half a period for
/// trigonometric members) and not longer than twice the local smoothness scale at either end.
fn resolved(f: &Integrand, a: f64, b: f64) -> bool {
    let e = entry(&f.id).unwrap();
    let len = (b - a).abs();
    len <= (e.maxlen)(&f.p) * (1.0 + 1e-12) && len <= 2.0 * (e.scale)(&f.p, a).min((e.scale)(&f.p, b)) * (1.0 + 1e-12)
}

pub fn check_rtol(ctx: &mut Ctx, c: &QCase) -> R {
    if c.rule != "romberg" || !(10..=20).contains(&c.n) || c.f.is_poly() || !c.f.valid() || !c.f.interval_ok(c.a, c.b) {
        return Ok(());
    }
    if !(c.tol >= 1e-12 && c.tol <= 1e-3) {
        return Ok(());
    }
    let sub = "romberg/tolerance";
    if !resolved(&c.f, c.a, c.b) {
        ctx.label(sub, "skipped: interval not resolved (outside the domain)");
        return Ok(());
    }
    ctx.case(sub, &format!("{}/{}", c.f.label(), interval_class(c.a, c.b)), c.a != c.b, Hx::new().json(c).finish());
    ctx.label(sub, &format!("tol=1e{}", c.tol.log10().round()));
    ctx.label(sub, &format!("budget={}", c.n));
    ctx.sample(sub, || json!(c));
    let f = &c.f;
    let g = |x: f64| (f.eval(x), 0.0);
    let r = match call_rule("romberg", &g, c.a, c.b, c.n, c.tol) {
        Ok(r) => r,
        Err(m) => return fail("C07/romberg/panic", format!("romberg({:?}, {:e}, {:e}, eps={:e}, {}) panicked: {}", f, c.a, c.b, c.tol, c.n, m)),
    };
    let s = smooth_info(f, c.a, c.b);
    let exact = f.integral(c.a, c.b);
    let err = (DD::new(r.q) - exact).abs().f();
    let main = 100.0 * c.tol * exact.f().abs().max(1.0);
    let bound = main + tol_smooth(&s, c.a, c.b, r.n_eval);
    ctx.worst("romberg/tolerance |Q-I| / (100 tau max(1,|I|) + R)", err / bound);
    ctx.worst("romberg/tolerance |Q-I| / (tau max(1,|I|))  [informative]", err / (c.tol * exact.f().abs().max(1.0)));
    ensure!(
        err <= bound,
        "C07/romberg/tolerance",
        "romberg of {:?} over [{:e}, {:e}] with eps={:e}, budget {} returned {:e}, exact {:e}: error {:e} > 100*eps*max(1,|I|) = {:e} (+ rounding allowance {:e})",
        f, c.a, c.b, c.tol, c.n, r.q, exact.f(), err, main, bound - main
    );
    Ok(())
}

/// Romberg with a positive tolerance on polynomials of degree ≤ 5 ("romberg/tolerance-poly").
/// Soundness: from level 2 on the diagonal entry R[n][n] is Boole's rule or better and integrates
/// degree ≤ 5 exactly, so whichever level ≥ 2 a "two successive estimates agree" rule stops at — or if it
/// never stops early and returns the last level of a budget ≥ 3 — the returned value is exact up to
/// rounding. An answer that is off by more than 100·τ·max(1,|I|) therefore comes from stopping before
/// level 2, i.e. from comparing the one-panel trapezoid with Simpson's rule. The generator aims at
/// exactly that: polynomials that agree with a straight line at a, (a+b)/2 and b (so that the two
/// coarsest estimates coincide exactly) while their integral differs from the line's.
pub fn check_rtol_poly(ctx: &mut Ctx, c: &QCase) -> R {
    if c.rule != "romberg" || !(3..=14).contains(&c.n) || !c.f.is_poly() || !c.f.valid() || !c.f.interval_ok(c.a, c.b) || c.f.p.len() > 6 {
        return Ok(());
    }
    if !(c.tol >= 1e-12 && c.tol <= 1e-3) {
        return Ok(());
    }
    let sub = "romberg/tolerance-poly";
    let m = 0.5 * (c.a + c.b);
    let coincide = c.a != c.b && c.f.eval(m) == 0.5 * (c.f.eval(c.a) + c.f.eval(c.b)) && c.f.p.len() >= 5;
    ctx.case(
        sub,
        &format!("deg={}/{}{}", c.f.p.len() - 1, interval_class(c.a, c.b), if coincide { "/three-point-coincidence" } else { "" }),
        c.a != c.b && c.f.p.len() >= 2,
        Hx::new().json(c).finish(),
    );
    ctx.label(sub, &format!("tol=1e{}", c.tol.log10().round()));
    ctx.sample(sub, || json!(c));
    let f = &c.f;
    let g = |x: f64| (f.eval(x), 0.0);
    let r = match call_rule("romberg", &g, c.a, c.b, c.n, c.tol) {
        Ok(r) => r,
        Err(m) => return fail("C07/romberg/panic", format!("romberg({:?}, {:e}, {:e}, eps={:e}, {}) panicked: {}", f, c.a, c.b, c.tol, c.n, m)),
    };
    let exact = f.integral(c.a, c.b);
    let err = (DD::new(r.q) - exact).abs().f();
    let main = 100.0 * c.tol * exact.f().abs().max(1.0);
    let bound = main + tol_poly(f, c.a, c.b, r.n_eval);
    ctx.worst("romberg/tolerance-poly |Q-I| / (100 tau max(1,|I|) + R)", err / bound);
    ensure!(
        err <= bound,
        "C07/romberg/tolerance",
        "romberg of {:?} over [{:e}, {:e}] with eps={:e}, budget {} returned {:e} after {} evaluations, exact {:e}: error {:e} > 100*eps*max(1,|I|) = {:e} (+ rounding allowance {:e}); degree <= 5 is integrated exactly from level 2 on, so the rule stopped before level 2",
        f, c.a, c.b, c.tol, c.n, r.q, r.n_eval, exact.f(), err, main, bound - main
    );
    Ok(())
}

// ------------------------------------------------------------------------------------------------
// tabulated samples
// ------------------------------------------------------------------------------------------------

#[derive(Clone, Debug, Serialize, Deserialize)]
pub struct SampCase {
    pub y: Vec<f64>,
    pub x: Option<Vec<f64>>,
    pub dx: Option<f64>,
    /// generator's label for the abscissae
    #[serde(default)]
    pub kind: String,
}

pub fn check_samples(ctx: &mut Ctx, c: &SampCase) -> R {
    let n = c.y.len();
    if !(2..=10_000).contains(&n) || !c.y.iter().all(|v| v.is_finite() && v.abs() <= 1e6) {
        return Ok(());
    }
    if c.x.is_some() && c.dx.is_some() {
        return Ok(());
    }
    if let Some(x) = &c.x {
        if x.len() != n || !x.iter().all(|v| v.is_finite() && v.abs() <= 1e6) {
            return Ok(());
        }
    }
    if let Some(d) = c.dx {
        if !(d.is_finite() && d.abs() <= 1e6) {
            return Ok(());
        }
    }
    let sub = "samples/value";
    let mode = if c.x.is_some() { "x" } else if c.dx.is_some() { "dx" } else { "default-spacing" };
    let lenc = if n <= 8 { "n<=8" } else if n <= 100 { "n<=100" } else { "n<=1e4" };
    ctx.case(sub, &format!("{}/{}/{}", mode, if c.kind.is_empty() { "-" } else { &c.kind }, lenc), true, Hx::new().fs(&c.y).fs(c.x.as_deref().unwrap_or(&[])).f(c.dx.unwrap_or(-0.0)).finish());
    ctx.sample(sub, || json!(c));
    let got = match catch(|| trapezoid(&c.y, c.x.as_deref(), c.dx)) {
        Ok(v) => v,
        Err(m) => return fail("C07/samples/panic", format!("trapezoid(y[{}], x {}, dx {:?}) panicked on valid input: {}", n, if c.x.is_some() { "given" } else { "None" }, c.dx, m)),
    };
    let mut exact = DD::ZERO;
    let mut scale = 0.0f64;
    for i in 1..n {
        let d = match (&c.x, c.dx) {
            (Some(x), _) => DD::from_sum(x[i], -x[i - 1]),
            (None, Some(d)) => DD::new(d),
            _ => DD::ONE,
        };
        exact = exact + DD::from_sum(c.y[i], c.y[i - 1]) * 0.5 * d;
        scale += 0.5 * (c.y[i].abs() + c.y[i - 1].abs()) * d.f().abs();
    }
    let err = (DD::new(got) - exact).abs().f();
    // each term carries ≤ 3ε relative rounding, the running sum ≤ (n−1)ε relative to Σ|terms|; slack ×8
    let tol = 8.0 * (n as f64 + 8.0) * EPS * scale;
    ctx.worst("samples/value |Q - sum| / tol", if tol > 0.0 { err / tol } else if err == 0.0 { 0.0 } else { f64::INFINITY });
    ensure!(
        err <= tol,
        format!("C07/samples/{}", mode),
        "trapezoid(y, x, dx) with {} samples ({} mode, y[..3]={:?}, x[..3]={:?}, dx={:?}) returned {:e}; the integral of the piecewise-linear interpolant is {:e}: error {:e} > {:e}",
        n, mode, &c.y[..n.min(3)], c.x.as_ref().map(|x| x[..n.min(3)].to_vec()), c.dx, got, exact.f(), err, tol
    );
    Ok(())
}

#[derive(Clone, Debug, Serialize, Deserialize)]
pub struct RejCase {
    pub ny: usize,
    /// length of x (None: x not passed)
    pub nx: Option<usize>,
    pub dx: bool,
}

pub fn check_reject(ctx: &mut Ctx, c: &RejCase) -> R {
    let nx = match c.nx {
        Some(v) => v,
        None => return Ok(()),
    };
    if !(2..=10_000).contains(&c.ny) || !(2..=10_000).contains(&nx) {
        return Ok(());
    }
    let mism = nx != c.ny;
    if !mism && !c.dx {
        return Ok(()); // a valid call
    }
    let sub = "samples/reject";
    let class = if mism { "length-mismatch" } else { "x-and-dx" };
    ctx.case(sub, class, true, Hx::new().json(c).finish());
    ctx.sample(sub, || json!(c));
    let y: Vec<f64> = (0..c.ny).map(|i| 1.0 + (i % 7) as f64).collect();
    let x: Vec<f64> = (0..nx).map(|i| i as f64 * 0.5).collect();
    let dx = if c.dx { Some(0.5) } else { None };
    // Recorded, not asserted: the statement says nothing about invalid sample arrays (an implementation that, like
    // numpy, lets x take precedence over dx still integrates the interpolant of the samples it was given).
    match catch(|| trapezoid(&y, Some(&x), dx)) {
        Err(_) => ctx.label(sub, &format!("{}:panics", class)),
        Ok(_) => ctx.label(sub, &format!("{}:returns-a-value", class)),
    }
    Ok(())
}

// ------------------------------------------------------------------------------------------------
// strategies
// ------------------------------------------------------------------------------------------------

fn endpoint() -> impl Strategy<Value = f64> {
    prop_oneof![
        3 => (-64i32..=64).prop_map(|k| k as f64 / 16.0),
        3 => (-8000i32..=8000).prop_map(|k| k as f64 / 8.0),
        3 => -1000.0f64..1000.0,
        1 => -2.0f64..2.0,
    ]
}

/// (a, b) with a = b in 1 of 16 cases
fn interval() -> impl Strategy<Value = (f64, f64)> {
    (endpoint(), endpoint(), 0u8..16).prop_map(|(a, b, sel)| if sel == 0 { (a, a) } else { (a, b) })
}

fn coef() -> impl Strategy<Value = f64> {
    prop_oneof![
        3 => (-9i32..=9).prop_map(|k| k as f64),
        3 => -100.0f64..100.0,
        1 => (-999i32..=999, -6i32..=2).prop_map(|(m, e)| m as f64 * 10f64.powi(e)),
    ]
}

fn poly(maxdeg: usize) -> impl Strategy<Value = Integrand> {
    (0..=maxdeg, 0u8..4).prop_flat_map(|(d, mono)| {
        prop::collection::vec(coef(), d + 1).prop_map(move |mut c| {
            if mono == 0 {
                // a monomial: by linearity the basis decides exactness
                for v in c.iter_mut().take(d) {
                    *v = 0.0;
                }
                if c[d] == 0.0 {
                    c[d] = 1.0;
                }
            }
            Integrand::poly(c)
        })
    })
}

fn panels() -> impl Strategy<Value = usize> {
    prop_oneof![
        3 => 1usize..=64,
        2 => (6u32..12, 0.0f64..1.0).prop_map(|(e, u)| (((1u64 << e) as f64) * (1.0 + u)).floor().min(4096.0) as usize),
        1 => Just(4096usize),
    ]
}

fn levels() -> impl Strategy<Value = usize> {
    prop_oneof![8 => 2usize..=10, 2 => 11usize..=14, 1 => 15usize..=20]
}

fn exact_case(rule: &'static str) -> impl Strategy<Value = QCase> {
    let n = match rule {
        "trapz" => panels().boxed(),
        "romberg" => levels().boxed(),
        _ => Just(0usize).boxed(),
    };
    (n, interval()).prop_flat_map(move |(n, (a, b))| {
        let maxdeg = exact_degree(rule, n.max(1)).min(19);
        poly(maxdeg).prop_map(move |f| QCase { rule: rule.into(), f, a, b, n, tol: 0.0 })
    })
}

/// Polynomials that vanish on the 3, 5 or 9 equally spaced nodes of the first Romberg levels (integer or
/// half-integer nodes, small integer cofactor, so the library's evaluations there are exactly 0): every coarse
/// tableau entry is then exactly 0 and successive diagonal entries tie bit for bit, although the integral is not 0.
/// The rule is called with tolerance 0 like every other exactness case, so k levels must still deliver degree 2k-1.
fn romberg_roots_case() -> impl Strategy<Value = QCase> {
    (0usize..3, -4i32..=4, 0usize..3, prop::collection::vec(-3i32..=3, 1..=3), 0usize..5, any::<bool>()).prop_map(|(jsel, a0, hsel, q, extra, swap)| {
        let nodes = [3usize, 5, 9][jsel];
        let h = if nodes == 9 { [1.0, 0.5, 1.0][hsel] } else { [1.0, 0.5, 2.0][hsel] };
        let build = |a0: f64, h: f64, q: &[f64]| -> Vec<f64> {
            let mut c: Vec<f64> = q.to_vec();
            for j in 0..nodes {
                let r = a0 + j as f64 * h;
                // c(x) * (x - r)
                let mut d = vec![0.0; c.len() + 1];
                for (k, v) in c.iter().enumerate() {
                    d[k + 1] += v;
                    d[k] -= r * v;
                }
                c = d;
            }
            c
        };
        let mut qf: Vec<f64> = q.iter().map(|v| *v as f64).collect();
        if *qf.last().unwrap() == 0.0 {
            *qf.last_mut().unwrap() = 1.0;
        }
        let (mut a, mut hh) = (a0 as f64, h);
        let mut c = build(a, hh, &qf);
        if !c.iter().all(|v| v.abs() <= 1e6) {
            a = 0.0;
            hh = 1.0;
            qf = vec![1.0];
            c = build(a, hh, &qf);
        }
        let deg = c.len() - 1;
        let n = ((deg + 2) / 2 + extra).min(20);
        let b = a + (nodes - 1) as f64 * hh;
        let (a, b) = if swap { (b, a) } else { (a, b) };
        QCase { rule: "romberg".into(), f: Integrand::poly(c), a, b, n, tol: 0.0 }
    })
}

/// a catalogue member with an interval inside its domain; `resolve` additionally keeps the interval short
/// enough for the adaptive-stopping clause
fn smooth_case(resolve: bool) -> impl Strategy<Value = (Integrand, f64, f64)> {
    (0..CATALOGUE.len(), 0usize..6, 0usize..6, 0.0f64..1.0, 0.0f64..1.0, 0u8..16).prop_map(move |(i, s0, s1, u, v, sel)| {
        let e = &CATALOGUE[i];
        let sels = [s0, s1];
        let p: Vec<f64> = e.ptab.iter().enumerate().map(|(k, tab)| tab[sels[k] % tab.len()]).collect();
        let (lo, hi) = (e.dom)(&p);
        let f = Integrand { id: e.id.into(), p };
        // left end, then a length that respects half-period / resolution limits
        let a0 = lo + u * (hi - lo) * 0.98;
        let mut len = (hi - a0).min((e.maxlen)(&f.p));
        if resolve {
            len = len.min(2.0 * (e.scale)(&f.p, a0));
        }
        // lengths from 2e-3 of the admissible length upward, quadratically concentrated on short ones
        let mut b0 = a0 + len * (0.002 + 0.998 * v * v);
        if resolve {
            for _ in 0..4 {
                let l2 = 2.0 * (e.scale)(&f.p, b0);
                if b0 - a0 > l2 {
                    b0 = a0 + l2 * 0.999;
                }
            }
        }
        let b0 = b0.min(hi);
        match sel {
            0 => (f, a0, a0),
            1..=5 => (f, b0, a0),
            _ => (f, a0, b0),
        }
    })
}

fn errbound_case() -> impl Strategy<Value = QCase> {
    (smooth_case(false), panels()).prop_map(|((f, a, b), n)| QCase { rule: "trapz".into(), f, a, b, n, tol: 0.0 })
}

fn rtol_case() -> impl Strategy<Value = QCase> {
    (smooth_case(true), 3i32..=12, prop_oneof![6 => Just(12usize), 2 => Just(16usize), 1 => Just(10usize), 1 => Just(20usize)])
        .prop_map(|((f, a, b), k, n)| QCase { rule: "romberg".into(), f, a, b, n, tol: 10f64.powi(-k) })
}

/// Polynomials of degree ≤ 5 for `romberg/tolerance-poly`: half of them random, half built as
/// line(x) + (x−a)(x−m)(x−b)(c0 + c1·x) with small integers, so that f(m) = (f(a)+f(b))/2 exactly.
fn rtol_poly_case() -> impl Strategy<Value = QCase> {
    let tol = (3i32..=12).prop_map(|e| 10f64.powi(-e));
    let random = (poly(5), interval(), 3usize..=14, tol.clone()).prop_map(|(f, (a, b), n, tol)| QCase { rule: "romberg".into(), f, a, b, n, tol });
    let built = (-8i32..=8, 1i32..=6, -6i32..=6, -6i32..=6, -6i32..=6, -6i32..=6, any::<bool>(), 3usize..=14, tol).prop_map(
        |(a, half, l0, l1, c0, c1, swap, n, tol)| {
            let (a, m, b) = (a as f64, (a + half) as f64, (a + 2 * half) as f64);
            // (x-a)(x-m)(x-b) = x^3 - (a+m+b) x^2 + (am+ab+mb) x - amb
            let cubic = [-(a * m * b), a * m + a * b + m * b, -(a + m + b), 1.0];
            let c1 = if c0 == 0 && c1 == 0 { 1 } else { c1 };
            let mut co = vec![0.0; 5];
            for (i, q) in cubic.iter().enumerate() {
                co[i] += q * c0 as f64;
                co[i + 1] += q * c1 as f64;
            }
            co[0] += l0 as f64;
            co[1] += l1 as f64;
            while co.len() > 1 && *co.last().unwrap() == 0.0 {
                co.pop();
            }
            let (a, b) = if swap { (b, a) } else { (a, b) };
            QCase { rule: "romberg".into(), f: Integrand::poly(co), a, b, n, tol }
        },
    );
    prop_oneof![random, built]
}

fn any_integrand_on() -> impl Strategy<Value = (Integrand, f64, f64)> {
    prop_oneof![
        1 => (poly(19), interval()).prop_map(|(f, (a, b))| (f, a, b)),
        1 => smooth_case(false),
    ]
}

fn rule_n(rule: &'static str) -> BoxedStrategy<usize> {
    match rule {
        "trapz" => panels().boxed(),
        "romberg" => prop_oneof![10 => 2usize..=10, 1 => 11usize..=14].boxed(),
        _ => Just(0usize).boxed(),
    }
}

fn swap_case(rule: &'static str) -> impl Strategy<Value = QCase> {
    (any_integrand_on(), rule_n(rule)).prop_map(move |((f, a, b), n)| QCase { rule: rule.into(), f, a, b, n, tol: 0.0 })
}

/// Two integrands on a common interval: polynomials anywhere in ±1e3, catalogue members on [0.5, 6]
/// (inside every member's domain for the offsets used).
fn lin_case(rule: &'static str) -> impl Strategy<Value = LinCase> {
    let member = || {
        prop_oneof![
            1 => poly(19),
            1 => (0..CATALOGUE.len(), 0usize..6, 0usize..6).prop_map(|(i, s0, s1)| {
                let e = &CATALOGUE[i];
                let sels = [s0, s1];
                Integrand { id: e.id.into(), p: e.ptab.iter().enumerate().map(|(k, tab)| tab[sels[k] % tab.len()]).collect() }
            }),
        ]
    };
    (member(), member(), coef(), coef(), interval(), 0.0f64..1.0, 0.0f64..1.0, rule_n(rule), 0u8..16).prop_map(move |(f, g, alpha, beta, (a, b), u, v, n, sel)| {
        let (a, b) = if f.is_poly() && g.is_poly() {
            (a, b)
        } else {
            let a0 = 0.5 + 5.5 * u;
            let b0 = 0.5 + 5.5 * v;
            let b0 = if (b0 - a0).abs() < 1e-3 { a0 } else { b0 };
            if sel == 0 {
                (a0, a0)
            } else {
                (a0, b0)
            }
        };
        LinCase { rule: rule.into(), f, g, alpha, beta, a, b, n }
    })
}

fn sample_value() -> impl Strategy<Value = f64> {
    prop_oneof![
        2 => (-20i32..=20).prop_map(|k| k as f64),
        3 => -1000.0f64..1000.0,
        1 => (-999i32..=999, -3i32..=3).prop_map(|(m, e)| m as f64 * 10f64.powi(e)),
    ]
}

fn samp_case(maxn: usize) -> impl Strategy<Value = SampCase> {
    let n = prop_oneof![4 => 2usize..=8, 3 => 9usize..=100, 1 => 101usize..=maxn];
    (n, 0u8..7).prop_flat_map(|(n, kind)| {
        let y = prop::collection::vec(sample_value(), n);
        match kind {
            0 => y.prop_map(|y| SampCase { y, x: None, dx: None, kind: "".into() }).boxed(),
            1 => (y, prop_oneof![(1i32..=64).prop_map(|k| k as f64 / 16.0), 1e-3f64..100.0, (-64i32..=-1).prop_map(|k| k as f64 / 16.0)])
                .prop_map(|(y, dx)| SampCase { y, x: None, dx: Some(dx), kind: "".into() })
                .boxed(),
            2 => (y, -1000.0f64..1000.0, 1e-3f64..10.0)
                .prop_map(|(y, x0, h)| {
                    let x = (0..y.len()).map(|i| x0 + i as f64 * h).collect();
                    SampCase { y, x: Some(x), dx: None, kind: "uniform".into() }
                })
                .boxed(),
            // an evenly spaced dyadic grid whose interior nodes are displaced: the first spacing, the last spacing and
            // the mean spacing all still equal h exactly, so "is it uniform?" shortcuts that look at a few spacings
            // misjudge it
            6 => (y, -64i32..=64, 0usize..6, prop::collection::vec(-3i32..=3, n))
                .prop_map(|(y, k0, hs, disp)| {
                    let h = [0.0625, 0.25, 0.5, 1.0, 2.0, 8.0][hs];
                    let n = y.len();
                    let x = (0..n)
                        .map(|i| {
                            let d = if i >= 2 && i + 2 < n { disp[i] as f64 * h / 8.0 } else { 0.0 };
                            (k0 as f64) * h + i as f64 * h + d
                        })
                        .collect();
                    SampCase { y, x: Some(x), dx: None, kind: "uniform-ends-displaced-interior".into() }
                })
                .boxed(),
            3 | 4 => (y, -1000.0f64..1000.0, prop::collection::vec(1e-3f64..10.0, n))
                .prop_map(|(y, x0, inc)| {
                    let mut x = Vec::with_capacity(y.len());
                    let mut t = x0;
                    for d in inc {
                        x.push(t);
                        t += d;
                    }
                    SampCase { y, x: Some(x), dx: None, kind: "increasing".into() }
                })
                .boxed(),
            _ => (y, prop::collection::vec(sample_value(), n)).prop_map(|(y, x)| SampCase { y, x: Some(x), dx: None, kind: "non-monotone".into() }).boxed(),
        }
    })
}

fn rej_case() -> impl Strategy<Value = RejCase> {
    (2usize..=200, 2usize..=200, any::<bool>(), 0u8..4).prop_map(|(ny, nx, dx, sel)| {
        if sel == 0 {
            RejCase { ny, nx: Some(ny), dx: true }
        } else {
            RejCase { ny, nx: Some(if nx == ny { ny + 1 } else { nx }), dx }
        }
    })
}

// ------------------------------------------------------------------------------------------------
// self-test of the catalogue (formulas against numerical differentiation) and of dd trig
// ------------------------------------------------------------------------------------------------

pub fn self_test() -> Result<(), String> {
    // dd trig
    let (s, c) = dd_sincos(DD::PI / 6.0);
    if (s - 0.5).abs().f() > 1e-30 || (c * c + s * s - 1.0).abs().f() > 1e-30 {
        return Err("dd sin(pi/6)".into());
    }
    for &x in &[0.1, 1.0, -2.5, 17.0, 700.0, -6999.5] {
        let (s, c) = dd_sincos(DD::new(x));
        if (s * s + c * c - 1.0).abs().f() > 1e-28 || (s.f() - x.sin()).abs() > 4e-16 || (c.f() - x.cos()).abs() > 4e-16 {
            return Err(format!("dd sincos({})", x));
        }
    }
    if (dd_atan(DD::ONE) * 4.0 - DD::PI).abs().f() > 1e-30 || (dd_atan(DD::new(-37.5)).f() - (-37.5f64).atan()).abs() > 4e-16 {
        return Err("dd atan".into());
    }
    for e in CATALOGUE {
        // every parameter combination
        let combos: Vec<Vec<f64>> = match e.ptab.len() {
            0 => vec![vec![]],
            1 => e.ptab[0].iter().map(|v| vec![*v]).collect(),
            _ => e.ptab[0].iter().flat_map(|u| e.ptab[1].iter().map(move |v| vec![*u, *v])).collect(),
        };
        for p in combos {
            let (lo, hi) = (e.dom)(&p);
            if !(lo < hi && lo >= -1e3 && hi <= 1e3) {
                return Err(format!("{} {:?}: domain", e.id, p));
            }
            for k in 0..=8 {
                let x = lo + (hi - lo) * (0.031 + 0.93 * k as f64 / 8.0); // never the centre of a symmetric domain
                let h = 1e-4 * (e.scale)(&p, x).min(1.0).min(0.25 * (hi - lo));
                let (f, f1, f2) = ((e.f)(&p, x), (e.f1)(&p, x), (e.f2)(&p, x));
                let mag = |g: fn(&[f64], f64) -> f64| g(&p, x).abs().max(g(&p, x - h).abs()).max(g(&p, x + h).abs());
                let dfa = (((e.anti)(&p, x + h) - (e.anti)(&p, x - h)) / (2.0 * h)).f();
                let df = ((e.f)(&p, x + h) - (e.f)(&p, x - h)) / (2.0 * h);
                let df1 = ((e.f1)(&p, x + h) - (e.f1)(&p, x - h)) / (2.0 * h);
                // generous: only gross formula errors matter here. Natural size of a derivative of g is |g|/s;
                // 1e-10·|g|/h covers the cancellation in the f64 central differences
                let s = (e.scale)(&p, x).min(1.0);
                let t0 = 1e-3 * (mag(e.f) + mag(e.f1) * s) + h * h * mag(e.f2) + 1e-300;
                let t1 = 1e-3 * (mag(e.f1) + mag(e.f) / s) + 1e-10 * mag(e.f) / h + 10.0 * h * h * mag(e.f2) / s + 1e-300;
                let t2 = 1e-3 * (mag(e.f2) + mag(e.f1) / s) + 1e-10 * mag(e.f1) / h + 10.0 * h * h * mag(e.f2) / (s * s) + 1e-300;
                if !((dfa - f).abs() <= t0) {
                    return Err(format!("{} {:?}: F' = {:e} but f = {:e} at {}", e.id, p, dfa, f, x));
                }
                if !((df - f1).abs() <= t1) {
                    return Err(format!("{} {:?}: (f)' = {:e} but f1 = {:e} at {}", e.id, p, df, f1, x));
                }
                if !((df1 - f2).abs() <= t2) {
                    return Err(format!("{} {:?}: (f1)' = {:e} but f2 = {:e} at {}", e.id, p, df1, f2, x));
                }
            }
            // the listed critical points are stationary points of f''; dense sampling never exceeds the computed max|f''|
            let f = Integrand { id: e.id.into(), p: p.clone() };
            for (u, v) in [(0.0, 1.0), (0.1, 0.35), (0.3, 0.9), (0.45, 0.55), (0.7, 0.72)] {
                let a = lo + u * (hi - lo);
                let b = lo + v * (hi - lo);
                let b2 = smooth_info(&f, a, b).b2;
                for k in 0..=2000 {
                    let x = a + (b - a) * k as f64 / 2000.0;
                    if (e.f2)(&p, x).abs() > b2 * (1.0 + 1e-9) {
                        return Err(format!("{} {:?}: |f''({})| = {:e} exceeds the computed maximum {:e} on [{}, {}]", e.id, p, x, (e.f2)(&p, x).abs(), b2, a, b));
                    }
                }
            }
        }
    }
    Ok(())
}

// ------------------------------------------------------------------------------------------------
// run / replay
// ------------------------------------------------------------------------------------------------

pub fn run(ctx: &mut Ctx) {
    ctx.rule = "integrands are data (polynomial coefficients or catalogue id + parameters) with an interval in +-1e3 (dyadic and random end-points, a > b in about half and a = b in 1/16 of the cases); \
exactness: every (rule, monomial degree, panel count 1..=64 / level 2..=20) on fixed intervals is enumerated, then random polynomials (1/4 monomials) with panel counts up to 4096, and for Romberg polynomials built to vanish on the 3/5/9 equispaced nodes of the coarse levels (bit-exact ties of successive estimates); \
error clauses: 21 catalogue members with every parameter combination, intervals inside the member's domain; samples: lengths 2..=1e4 with default spacing, dx, uniform, increasing and non-monotone x, and dyadic uniform grids with displaced interior nodes (first, last and mean spacing still equal). \
Non-trivial: degree >= 1 or non-polynomial integrand, and a != b; distinct by (sub-check, rule, integrand, interval, n, tolerance)"
        .into();
    ctx.assumptions = vec![
        "the rules evaluate the integrand only through the closure; N = number of closure calls is measured and every rounding allowance is proportional to it".into(),
        "the closure is NaN outside the closed interval of integration: a rule must take all its nodes inside [min(a,b), max(a,b)] (an integrand need not exist elsewhere)".into(),
        "rounding allowance for polynomials: 8(N+4deg+16) eps |b-a| sum|c_j|M^j; for catalogue members 64 N eps |b-a| (max|f| + 8(M+shift) max|f'|) with rigorous upper bounds from f, f', max|f''|".into(),
        "max|f''| on the interval is computed from closed-form f'' at the end-points and at the known zeros of f''' (self-tested against dense sampling at start-up)".into(),
        "romberg/tolerance domain: catalogue members on intervals with at most one interior extremum (half a period for trigonometric members) and no longer than twice the local smoothness scale at both ends; aliasing of adaptive stopping on unresolved integrands is outside the statement (DESIGN section 4/5)".into(),
        "romberg/tolerance uses budgets 10..20: the statement's error clause presupposes a budget that lets the tolerance be reached".into(),
        "romberg with eps = 0 never stops early (strict < comparison), so k levels means the full k-level tableau".into(),
        "samples/reject (length mismatch, x together with dx) only records whether the call panics: the property statement is silent on invalid sample arrays, so nothing is asserted (this was an assertion until a property-preserving change that follows numpy's convention showed it to be beyond the statement)".into(),
    ];
    if let Err(msg) = self_test() {
        report(&format!("INCONCLUSIVE property=C07 catalogue self-test failed: {}", msg));
        ctx.note("self-test", json!(msg));
        crate::engine::INCONCLUSIVE.store(1, std::sync::atomic::Ordering::SeqCst);
        return;
    }

    // ---- enumerated sub-spaces -------------------------------------------------------------------
    let fixed_intervals: [(f64, f64); 5] = [(0.0, 1.0), (-1.0, 2.0), (3.0, -5.0), (-1000.0, 1000.0), (2.0, 2.0)];
    for n in 1..=64usize {
        for coefs in [vec![1.0], vec![0.0, 1.0], vec![-3.0, 2.0]] {
            for (a, b) in fixed_intervals {
                let c = QCase { rule: "trapz".into(), f: Integrand::poly(coefs.clone()), a, b, n, tol: 0.0 };
                ctx.check_one("trapz/affine-exact", &c, check_exact);
            }
        }
    }
    ctx.exhaustive.push("trapz: panels 1..=64 x integrands {1, x, 2x-3} x 5 fixed intervals".into());
    let mut rom: Vec<QCase> = vec![];
    for k in 2..=20usize {
        for d in 0..=(2 * k - 1).min(19) {
            for (a, b) in [(0.0, 1.0), (-1.0, 2.0), (3.0, -5.0)] {
                let mut co = vec![0.0; d + 1];
                co[d] = 1.0;
                rom.push(QCase { rule: "romberg".into(), f: Integrand::poly(co), a, b, n: k, tol: 0.0 });
            }
        }
    }
    {
        // evaluate on workers (k = 20 costs 2^19 evaluations), feed failures back in order
        let base: &Ctx = &*ctx;
        let outs = crate::engine::par_map(&rom, 16, |_, c| {
            let mut local = base.fork();
            let r = catch(std::panic::AssertUnwindSafe(|| check_exact(&mut local, c)));
            (r, local)
        });
        for (c, (r, local)) in rom.iter().zip(outs) {
            ctx.merge(local);
            match r {
                Ok(Ok(())) => {}
                Ok(Err(f)) => {
                    ctx.handle_fail("romberg/poly-exact", &f, c);
                }
                Err(m) => {
                    ctx.handle_fail("romberg/poly-exact", &Fail { sig: "C07/romberg/poly-exact/harness-panic".into(), what: m }, c);
                }
            }
        }
    }
    ctx.exhaustive.push("romberg (eps = 0): levels 2..=20 x every monomial degree 0..=min(2k-1,19) x 3 fixed intervals".into());
    for d in 0..=19usize {
        for (a, b) in fixed_intervals {
            let mut co = vec![0.0; d + 1];
            co[d] = 1.0;
            let c = QCase { rule: "quad5".into(), f: Integrand::poly(co), a, b, n: 0, tol: 0.0 };
            ctx.check_one("quad5/poly-exact", &c, check_exact);
        }
    }
    ctx.exhaustive.push("quad5: monomial degrees 0..=9 (required) and 10..=19 (recorded only) x 5 fixed intervals".into());
    for ny in 2..=12usize {
        for nx in 2..=12usize {
            for dx in [false, true] {
                ctx.check_one("samples/reject", &RejCase { ny, nx: Some(nx), dx }, check_reject);
            }
        }
    }
    ctx.exhaustive.push("samples/reject: every (len y, len x) in 2..=12 with and without dx".into());

    // ---- random ---------------------------------------------------------------------------------
    let th = 8;
    ctx.run_prop_par("trapz/affine-exact", ctx.scale(12_000, 300_000), th, || exact_case("trapz"), check_exact);
    ctx.run_prop_par("romberg/poly-exact", ctx.scale(8_000, 200_000), 16, || exact_case("romberg"), check_exact);
    ctx.run_prop_par("romberg/poly-exact", ctx.scale(1_000, 20_000), 8, || romberg_roots_case(), check_exact);
    ctx.run_prop_par("quad5/poly-exact", ctx.scale(12_000, 300_000), th, || exact_case("quad5"), check_exact);
    for rule in RULES {
        let n = ctx.scale(4_000, 100_000);
        ctx.run_prop_par(&format!("linearity/{}", rule), n, th, || lin_case(rule), check_lin);
        ctx.run_prop_par(&format!("swap-limits/{}", rule), n, th, || swap_case(rule), check_swap);
    }
    ctx.run_prop_par("trapz/error-bound", ctx.scale(20_000, 400_000), th, errbound_case, check_errbound);
    ctx.run_prop_par("romberg/tolerance", ctx.scale(8_000, 200_000), 16, rtol_case, check_rtol);
    // the textbook three-point coincidences: x^4 - x^2 on [-1,1] (both coarse estimates are 0, the integral is -4/15)
    for (co, a, b) in [(vec![0.0, 0.0, -1.0, 0.0, 1.0], -1.0, 1.0), (vec![0.0, 0.0, -4.0, 0.0, 1.0], 2.0, -2.0)] {
        for tol in [1e-3, 1e-6, 1e-9] {
            let c = QCase { rule: "romberg".into(), f: Integrand::poly(co.clone()), a, b, n: 10, tol };
            ctx.check_one("romberg/tolerance-poly", &c, check_rtol_poly);
        }
    }
    ctx.run_prop_par("romberg/tolerance-poly", ctx.scale(8_000, 200_000), 16, rtol_poly_case, check_rtol_poly);
    let maxn = 10_000usize;
    ctx.run_prop_par("samples/value", ctx.scale(6_000, 100_000), 16, || samp_case(maxn), check_samples);
    ctx.run_prop_par("samples/reject", ctx.scale(500, 20_000), 4, rej_case, check_reject);
}

pub fn replay(ctx: &mut Ctx, sub: &str, v: Value) -> Option<R> {
    if sub.ends_with("-exact") {
        return Some(check_exact(ctx, &decode::<QCase>(v)?));
    }
    if sub.starts_with("linearity") {
        return Some(check_lin(ctx, &decode::<LinCase>(v)?));
    }
    if sub.starts_with("swap-limits") {
        return Some(check_swap(ctx, &decode::<QCase>(v)?));
    }
    match sub {
        "trapz/error-bound" => Some(check_errbound(ctx, &decode::<QCase>(v)?)),
        "romberg/tolerance" => Some(check_rtol(ctx, &decode::<QCase>(v)?)),
        "romberg/tolerance-poly" => Some(check_rtol_poly(ctx, &decode::<QCase>(v)?)),
        "samples/value" => Some(check_samples(ctx, &decode::<SampCase>(v)?)),
        "samples/reject" => Some(check_reject(ctx, &decode::<RejCase>(v)?)),
        _ => None,
    }
}
