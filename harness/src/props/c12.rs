//! C12 — Broadcast arithmetic follows NumPy semantics.
//!
//! Generated: all 1296 shape pairs with rows, cols in 1..=6 × 4 operators × {Matrix∘Matrix,
//! Matrix∘Vector, Vector∘Matrix} × 4 ownership forms (exhaustive), then random larger shapes.
//! Oracle: compatible ⇔ every dimension equal or one side 1; compatible ⇒ no panic, shape =
//! element-wise maximum, entry (i,j) bit-identical to l[i|0][j|0] ∘ r[i|0][j|0]; incompatible ⇒ panic.

use crate::engine::{catch, decode, fail, Ctx, Hx, R};
use compute::linalg::{Matrix, Vector};
use proptest::prelude::*;
use serde::{Deserialize, Serialize};
use serde_json::{json, Value};

#[derive(Clone, Debug, Serialize, Deserialize)]
pub struct Case {
    /// 0 = Matrix∘Matrix, 1 = Matrix∘Vector, 2 = Vector∘Matrix
    pub kind: u8,
    /// 0 = owned∘owned, 1 = owned∘&, 2 = &∘owned, 3 = &∘&
    pub own: u8,
    /// 0 +, 1 −, 2 ×, 3 ÷
    pub op: u8,
    pub lr: usize,
    pub lc: usize,
    pub rr: usize,
    pub rc: usize,
    /// 0 = canonical entries (left 1,2,3…, right 101,102,…); otherwise pseudo-random distinct entries
    pub salt: u64,
}

fn entry(side: u64, idx: usize, salt: u64) -> f64 {
    if salt == 0 {
        (if side == 0 { 1 } else { 101 }) as f64 + idx as f64
    } else {
        // distinct, non-zero, mixed sign and magnitude, deterministic
        let h = Hx::new().u(salt).u(side).u(idx as u64).finish();
        let mant = 1.0 + (h >> 12) as f64 / (1u64 << 52) as f64; // [1,2)
        let e = ((h & 0x3f) as i32) - 32;
        let s = if (h >> 6) & 1 == 1 { -1.0 } else { 1.0 };
        s * mant * 2f64.powi(e) + (idx as f64) * 1e-3
    }
}

fn apply(op: u8, a: f64, b: f64) -> f64 {
    match op {
        0 => a + b,
        1 => a - b,
        2 => a * b,
        _ => a / b,
    }
}

const OPS: [&str; 4] = ["add", "sub", "mul", "div"];
const KINDS: [&str; 3] = ["Matrix.Matrix", "Matrix.Vector", "Vector.Matrix"];

fn dim_class(l: usize, r: usize) -> &'static str {
    if l == r {
        "eq"
    } else if l == 1 {
        "l1"
    } else if r == 1 {
        "r1"
    } else {
        "mismatch"
    }
}

macro_rules! dispatch {
    ($op:expr, $own:expr, $l:expr, $r:expr) => {{
        let l = $l;
        let r = $r;
        match ($op, $own) {
            (0, 0) => l + r,
            (0, 1) => l + &r,
            (0, 2) => &l + r,
            (0, _) => &l + &r,
            (1, 0) => l - r,
            (1, 1) => l - &r,
            (1, 2) => &l - r,
            (1, _) => &l - &r,
            (2, 0) => l * r,
            (2, 1) => l * &r,
            (2, 2) => &l * r,
            (2, _) => &l * &r,
            (_, 0) => l / r,
            (_, 1) => l / &r,
            (_, 2) => &l / r,
            (_, _) => &l / &r,
        }
    }};
}

pub fn check(ctx: &mut Ctx, c: &Case) -> R {
    let (lr, lc, rr, rc) = (c.lr, c.lc, c.rr, c.rc);
    if lr == 0 || lc == 0 || rr == 0 || rc == 0 || c.kind > 2 || c.own > 3 || c.op > 3 {
        return Ok(()); // outside the quantifier (decoded replay files only)
    }
    if (c.kind == 1 && rr != 1) || (c.kind == 2 && lr != 1) {
        return Ok(());
    }
    let ldata: Vec<f64> = (0..lr * lc).map(|i| entry(0, i, c.salt)).collect();
    let rdata: Vec<f64> = (0..rr * rc).map(|i| entry(1, i, c.salt)).collect();
    let rowc = dim_class(lr, rr);
    let colc = dim_class(lc, rc);
    let class = format!("rows={},cols={}", rowc, colc);
    let compatible = rowc != "mismatch" && colc != "mismatch";
    let nontrivial = !(lr == rr && lc == rc);
    let h = Hx::new().u(c.kind as u64).u(c.own as u64).u(c.op as u64).u(lr as u64).u(lc as u64).u(rr as u64).u(rc as u64).u(c.salt).finish();
    ctx.case("broadcast", &format!("{}/{}", KINDS[c.kind as usize], class), nontrivial, h);
    ctx.sample("broadcast", || json!(c));
    let sig = |t: &str| format!("C12/{}/{}/{}", KINDS[c.kind as usize], class, t);

    let (op, own) = (c.op, c.own);
    let res: Result<Matrix, String> = match c.kind {
        0 => {
            let l = Matrix::new(ldata.clone(), lr as i32, lc as i32);
            let r = Matrix::new(rdata.clone(), rr as i32, rc as i32);
            catch(move || dispatch!(op, own, l, r))
        }
        1 => {
            let l = Matrix::new(ldata.clone(), lr as i32, lc as i32);
            let r = Vector::new(rdata.clone());
            catch(move || dispatch!(op, own, l, r))
        }
        _ => {
            let l = Vector::new(ldata.clone());
            let r = Matrix::new(rdata.clone(), rr as i32, rc as i32);
            catch(move || dispatch!(op, own, l, r))
        }
    };
    match (compatible, res) {
        (false, Err(_)) => Ok(()),
        (false, Ok(m)) => fail(
            sig("missing-panic"),
            format!(
                "{} {} of {}x{} and {}x{} (own form {}) returned a {}x{} value instead of panicking",
                KINDS[c.kind as usize], OPS[op as usize], lr, lc, rr, rc, own, m.nrows, m.ncols
            ),
        ),
        (true, Err(msg)) => fail(
            sig("spurious-panic"),
            format!(
                "{} {} of compatible shapes {}x{} and {}x{} (own form {}) panicked: {}",
                KINDS[c.kind as usize], OPS[op as usize], lr, lc, rr, rc, own, msg
            ),
        ),
        (true, Ok(m)) => {
            let (er, ec) = (lr.max(rr), lc.max(rc));
            ensure!(
                m.nrows == er && m.ncols == ec && m.data.len() == er * ec,
                sig("shape"),
                "{} {} of {}x{} and {}x{}: result shape {}x{} (len {}), expected {}x{}",
                KINDS[c.kind as usize], OPS[op as usize], lr, lc, rr, rc, m.nrows, m.ncols, m.data.len(), er, ec
            );
            for i in 0..er {
                for j in 0..ec {
                    let a = ldata[(if lr > 1 { i } else { 0 }) * lc + if lc > 1 { j } else { 0 }];
                    let b = rdata[(if rr > 1 { i } else { 0 }) * rc + if rc > 1 { j } else { 0 }];
                    let want = apply(op, a, b);
                    let got = m.data[i * ec + j];
                    ensure!(
                        want.to_bits() == got.to_bits(),
                        sig("value"),
                        "{} {} of {}x{} and {}x{} (own form {}): entry ({},{}) = {:e}, expected {:e} {} {:e} = {:e}",
                        KINDS[c.kind as usize], OPS[op as usize], lr, lc, rr, rc, own, i, j, got, a, OPS[op as usize], b, want
                    );
                }
            }
            Ok(())
        }
    }
}

fn strat(maxdim: usize) -> impl Strategy<Value = Case> {
    // shape pair classes by construction: equal, one side 1 in a dimension, both, scalar, mismatch
    (0u8..3, 0u8..4, 0u8..4, 1usize..=maxdim, 1usize..=maxdim, 1usize..=maxdim, 1usize..=maxdim, 0u8..8, 0u8..8, any::<u64>()).prop_map(
        |(kind, own, op, a, b, c, d, rsel, csel, salt)| {
            let pick = |sel: u8, x: usize, y: usize| -> (usize, usize) {
                match sel {
                    0 | 1 | 2 => (x, x), // equal
                    3 | 4 => (1, y),     // left broadcast
                    5 | 6 => (x, 1),     // right broadcast
                    _ => (x, y),         // arbitrary (mostly mismatch)
                }
            };
            let (mut lr, mut rr) = pick(rsel, a, c);
            let (lc, rc) = pick(csel, b, d);
            if kind == 1 {
                rr = 1;
            }
            if kind == 2 {
                lr = 1;
            }
            Case { kind, own, op, lr, lc, rr, rc, salt: salt | 1 }
        },
    )
}

pub fn run(ctx: &mut Ctx) {
    ctx.rule = "every (kind, ownership, operator, left shape, right shape) with rows, cols in 1..=6 is enumerated (Vector operands are 1 x len), \
then random shapes up to 40x40 (thorough 64x64) with pseudo-random distinct entries; a case is non-trivial when the two shapes differ \
(compatible broadcast or incompatible pair); distinct by (kind, ownership, operator, shapes, entry salt)"
        .into();
    ctx.assumptions = vec![
        "entries are distinct per position and differ between the two operands, no zeros, so a misplaced or swapped operand changes the bit pattern".into(),
        "a panic of any kind counts as rejection".into(),
    ];
    // exhaustive part
    for kind in 0u8..3 {
        for lr in 1..=6usize {
            for lc in 1..=6usize {
                for rr in 1..=6usize {
                    for rc in 1..=6usize {
                        if (kind == 1 && rr != 1) || (kind == 2 && lr != 1) {
                            continue;
                        }
                        for op in 0u8..4 {
                            for own in 0u8..4 {
                                let c = Case { kind, own, op, lr, lc, rr, rc, salt: 0 };
                                ctx.check_one("broadcast", &c, check);
                            }
                        }
                    }
                }
            }
        }
    }
    ctx.exhaustive.push("all shape pairs with rows, cols in 1..=6 x 4 operators x 3 operand kinds x 4 ownership forms".into());
    // large operands (above any plausible batching / parallelisation threshold, non-square, lengths that are
    // not multiples of 8): every broadcast pattern once per operator and operand kind
    let big: [(usize, usize); 6] = [(200, 100), (16, 1024), (128, 129), (129, 128), (1031, 17), (300, 300)];
    for (r, c) in big {
        // (left shape, right shape) patterns for a full r x c matrix
        let pats: [((usize, usize), (usize, usize)); 9] = [
            ((r, c), (r, c)),
            ((r, c), (1, c)),
            ((1, c), (r, c)),
            ((r, c), (r, 1)),
            ((r, 1), (r, c)),
            ((r, 1), (1, c)),
            ((1, c), (r, 1)),
            ((r, c), (1, 1)),
            ((1, 1), (r, c)),
        ];
        for (k, ((lr, lc), (rr, rc))) in pats.iter().enumerate() {
            for op in 0u8..4 {
                for kind in 0u8..3 {
                    if (kind == 1 && *rr != 1) || (kind == 2 && *lr != 1) {
                        continue;
                    }
                    let own = ((k as u8) + op + kind) % 4;
                    let c = Case { kind, own, op, lr: *lr, lc: *lc, rr: *rr, rc: *rc, salt: 0x9e3779b97f4a7c15 ^ ((r * 4099 + c) as u64) };
                    ctx.check_one("broadcast", &c, check);
                }
            }
        }
    }
    ctx.exhaustive.push("6 large shapes (16k..90k elements, non-square, odd lengths) x 9 broadcast patterns x 4 operators x applicable operand kinds".into());
    let n = ctx.scale(20_000, 400_000);
    let maxdim = ctx.scale(40, 64) as usize;
    ctx.run_prop_par("broadcast", n, 8, || strat(maxdim), check);
    if !ctx.quick() {
        crate::engine::fuzzdrv::run(
            ctx,
            crate::engine::fuzzdrv::Campaign {
                target: "c12",
                runs_per_job: 500_000,
                jobs: 8,
                max_len: 64,
                seeds: vec![vec![0, 3, 1, 3, 4, 1, 4, 1, 2, 3, 4, 5, 6, 7, 8], vec![1, 0, 3, 5, 5, 1, 5, 9, 9, 9, 9, 9, 9, 9, 9], vec![2, 2, 2, 1, 7, 7, 1, 0, 0, 0, 0, 0, 0, 0, 0]],
            },
        );
    }
}

pub fn replay(ctx: &mut Ctx, sub: &str, v: Value) -> Option<R> {
    match sub {
        "broadcast" => Some(check(ctx, &decode::<Case>(v)?)),
        _ => None,
    }
}
