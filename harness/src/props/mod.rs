//! One module per property: generator, oracle, non-trivial rule.
use crate::engine::{Ctx, R};
use serde_json::Value;

pub mod c12;

pub fn run(ctx: &mut Ctx) -> bool {
    match ctx.property.as_str() {
        "C12" => c12::run(ctx),
        _ => return false,
    }
    true
}

pub fn replay(ctx: &mut Ctx, sub: &str, v: Value) -> Option<R> {
    match ctx.property.clone().as_str() {
        "C12" => c12::replay(ctx, sub, v),
        _ => None,
    }
}

/// Cheap self-tests of the numerical oracles; failure makes the run inconclusive, not a violation.
pub fn self_test() -> bool {
    crate::oracle::dd::self_test()
}
