//! One module per property: generator, oracle, non-trivial rule.
use crate::engine::{Ctx, R};
use serde_json::Value;

macro_rules! properties {
    ($($id:literal => $m:ident),+ $(,)?) => {
        $(pub mod $m;)+
        pub fn run(ctx: &mut Ctx) -> bool {
            match ctx.property.as_str() {
                $($id => $m::run(ctx),)+
                _ => return false,
            }
            true
        }
        pub fn replay(ctx: &mut Ctx, sub: &str, v: Value) -> Option<R> {
            match ctx.property.clone().as_str() {
                $($id => $m::replay(ctx, sub, v),)+
                _ => None,
            }
        }
    };
}

properties! {
    "C01" => c01,
    "C02" => c02,
    "C03" => c03,
    "C04" => c04,
    "C05" => c05,
    "C06" => c06,
    "C07" => c07,
    "C08" => c08,
    "C09" => c09,
    "C10" => c10,
    "C11" => c11,
    "C12" => c12,
    "C13" => c13,
    "C14" => c14,
    "C15" => c15,
    "C16" => c16,
    "C17" => c17,
    "C18" => c18,
    "C19" => c19,
    "C20" => c20,
}

pub mod c15_model;
pub mod c18_model;
pub mod ptsweep;

/// Cheap self-tests of the numerical oracles; failure makes the run inconclusive, not a violation.
pub fn self_test() -> bool {
    crate::oracle::dd::self_test()
        && crate::oracle::linalg::self_test()
        && crate::oracle::quad::self_test()
        && crate::oracle::cdf::self_test()
        && crate::oracle::dual::self_test()
        && crate::oracle::glm_ref::self_test()
        && crate::oracle::special::self_test()
        && c02::self_test()
        && c13::self_test()
        && c19::self_test()
        && c20::self_test()
}
