//! C18 — operation enum, parameter model and history interpreter (no dependency on `Ctx`, so a
//! libFuzzer target can decode bytes into a [`History`] and call [`run_history`]).
//!
//! A history is one value: distribution id + raw constructor selectors + `Vec<Op>` + RNG seeds. All
//! selectors are *raw* (`u8` class selector, `u16` magnitude selector) and are resolved against the
//! current model parameters at interpretation time ("new lower bound above the old upper bound",
//! "below the current value", "same value", "invalid: zero"), so every byte pattern is a meaningful
//! history and proptest can delete and simplify operations freely.
//!
//! Model = current parameter vector + the documented domain predicate ([`in_domain`]). The verdict on
//! every mutation is derived from the predicate applied to the *concrete* resolved value, never from
//! the selector class.

use crate::engine::{catch, Fail};
use compute::distributions::*;
use serde::{Deserialize, Serialize};
use std::collections::BTreeSet;
use std::panic::AssertUnwindSafe;

pub const N_DIST: usize = 13;
pub const DIST_NAMES: [&str; N_DIST] = [
    "Bernoulli",
    "Beta",
    "Binomial",
    "ChiSquared",
    "DiscreteUniform",
    "Exponential",
    "Gamma",
    "Gumbel",
    "Normal",
    "Pareto",
    "Poisson",
    "T",
    "Uniform",
];
const BERNOULLI: u8 = 0;
const BETA: u8 = 1;
const BINOMIAL: u8 = 2;
const CHISQ: u8 = 3;
const DUNIF: u8 = 4;
const EXPON: u8 = 5;
const GAMMA: u8 = 6;
const GUMBEL: u8 = 7;
const NORMAL: u8 = 8;
const PARETO: u8 = 9;
const POISSON: u8 = 10;
const TDIST: u8 = 11;
const UNIFORM: u8 = 12;

/// Gamma-type shapes below this value are never sampled: on the unchanged tree `Gamma::sample` does
/// not terminate for shape < 1/3 (F10, a C03 defect), which would turn a C18 run into a hang.
pub const SAFE_SHAPE: f64 = 0.34;
/// Longest prefix of a history that is interpreted (fuzzer inputs may be longer).
pub const MAX_OPS: usize = 256;
/// Samples compared per stream (48 through `sample()`, then 16 through `sample_n`).
pub const STREAM: usize = 64;

// ------------------------------------------------------------------------------------------------
// parameter specifications

#[derive(Clone, Copy, Debug, PartialEq, Eq)]
pub enum PK {
    /// any finite real (location)
    Real,
    /// > 0 (rate / scale)
    Pos,
    /// > 0, shape of a gamma sampler
    Shape,
    /// > 0, twice the shape of a gamma sampler (Student's t dof)
    HalfShape,
    /// >= 0 (Normal sigma)
    NonNeg,
    /// in [0, 1]
    Prob,
    /// integer >= 1 (`usize`)
    PosInt,
    /// integer >= 0 (`u64`)
    Nat,
    /// lower / upper bound of a real interval, lower <= upper
    RealLo,
    RealHi,
    /// lower / upper bound of an integer interval, lower <= upper
    IntLo,
    IntHi,
}

pub struct PSpec {
    pub name: &'static str,
    pub setter: &'static str,
    pub kind: PK,
}

const fn ps(name: &'static str, setter: &'static str, kind: PK) -> PSpec {
    PSpec { name, setter, kind }
}

static SPECS: [&[PSpec]; N_DIST] = [
    &[ps("p", "set_p", PK::Prob)],
    &[ps("alpha", "set_alpha", PK::Shape), ps("beta", "set_beta", PK::Shape)],
    &[ps("n", "set_n", PK::Nat), ps("p", "set_p", PK::Prob)],
    &[ps("dof", "set_dof", PK::PosInt)],
    &[ps("lower", "set_lower", PK::IntLo), ps("upper", "set_upper", PK::IntHi)],
    &[ps("lambda", "set_lambda", PK::Pos)],
    &[ps("alpha", "set_alpha", PK::Shape), ps("beta", "set_beta", PK::Pos)],
    &[ps("mu", "set_mu", PK::Real), ps("beta", "set_beta", PK::Pos)],
    &[ps("mu", "set_mu", PK::Real), ps("sigma", "set_sigma", PK::NonNeg)],
    &[ps("alpha", "set_alpha", PK::Pos), ps("minval", "set_minval", PK::Pos)],
    &[ps("lambda", "set_lambda", PK::Pos)],
    &[ps("dof", "set_dof", PK::HalfShape)],
    &[ps("lower", "set_lower", PK::RealLo), ps("upper", "set_upper", PK::RealHi)],
];

pub fn specs(dist: u8) -> &'static [PSpec] {
    SPECS[dist as usize % N_DIST]
}

pub fn default_params(dist: u8) -> Vec<f64> {
    match dist % N_DIST as u8 {
        BERNOULLI => vec![0.5],
        BETA => vec![1., 1.],
        BINOMIAL => vec![1., 0.5],
        CHISQ => vec![1.],
        DUNIF => vec![0., 1.],
        EXPON => vec![1.],
        GAMMA => vec![1., 1.],
        GUMBEL => vec![0., 1.],
        NORMAL => vec![0., 1.],
        PARETO => vec![1., 1.],
        POISSON => vec![1.],
        TDIST => vec![1.],
        _ => vec![0., 1.],
    }
}

fn is_bounds(dist: u8) -> bool {
    dist == DUNIF || dist == UNIFORM
}
pub fn is_discrete(dist: u8) -> bool {
    matches!(dist, BERNOULLI | BINOMIAL | DUNIF | POISSON)
}
/// laws that keep helper sampler objects as fields
fn has_cached_sampler(dist: u8) -> bool {
    matches!(dist, BETA | CHISQ | GAMMA | EXPON | GUMBEL)
}

/// The documented parameter domain (constructor docs / panic messages of each law). Integer-typed
/// parameters are held as integer-valued `f64`.
pub fn in_domain(dist: u8, p: &[f64]) -> bool {
    if p.iter().any(|v| !v.is_finite()) {
        return false;
    }
    match dist {
        BERNOULLI => (0.0..=1.0).contains(&p[0]),
        BETA => p[0] > 0. && p[1] > 0.,
        BINOMIAL => p[0] >= 0. && (0.0..=1.0).contains(&p[1]),
        CHISQ => p[0] >= 1.,
        DUNIF => p[0] <= p[1],
        EXPON => p[0] > 0.,
        GAMMA => p[0] > 0. && p[1] > 0.,
        GUMBEL => p[1] > 0.,
        NORMAL => p[1] >= 0.,
        PARETO => p[0] > 0. && p[1] > 0.,
        POISSON => p[0] > 0.,
        TDIST => p[0] > 0.,
        _ => p[0] <= p[1],
    }
}

/// Smallest shape handed to a gamma sampler by this law with these parameters.
pub fn min_shape(dist: u8, p: &[f64]) -> f64 {
    match dist {
        BETA => p[0].min(p[1]),
        GAMMA => p[0],
        TDIST => p[0] / 2.,
        CHISQ => p[0] / 2.,
        _ => f64::INFINITY,
    }
}

/// Identifier of the code/formula branch the parameters select (sampler algorithm switch points,
/// closed-form case distinctions). A mutation "crosses a branch" when this changes.
fn branch_id(dist: u8, p: &[f64]) -> u32 {
    let b = |c: bool| c as u32;
    match dist {
        BERNOULLI => b(p[0] == 0.) + 2 * b(p[0] == 1.),
        BETA => b(p[0] < 1.) + 2 * b(p[1] < 1.),
        BINOMIAL => {
            let q = if p[1] > 0.5 { 1. - p[1] } else { p[1] };
            b(p[0] == 0. || p[1] == 0.) + 2 * b(p[1] == 1.) + 4 * b(p[1] > 0.5) + 8 * b(q * p[0] <= 30.) + 16 * b(p[0] <= 67.)
        }
        CHISQ => b(p[0] == 1.) + 2 * b(p[0] < 2.),
        GAMMA => b(p[0] < 1.),
        NORMAL => b(p[1] == 0.),
        PARETO => b(p[0] <= 1.) + 2 * b(p[0] <= 2.),
        POISSON => b(p[0] < 10.),
        TDIST => b(p[0] <= 1.) + 2 * b(p[0] <= 2.) + 4 * b(p[0] < 2.),
        DUNIF | UNIFORM => b(p[0] == p[1]),
        _ => 0,
    }
}

fn crosses(dist: u8, old: &[f64], new: &[f64]) -> bool {
    let changed = old.iter().zip(new).any(|(a, b)| a.to_bits() != b.to_bits());
    if !changed {
        return false;
    }
    if is_bounds(dist) && (new[0] > old[1] || new[1] < old[0]) {
        return true;
    }
    if has_cached_sampler(dist) {
        return true;
    }
    branch_id(dist, old) != branch_id(dist, new)
}

// ------------------------------------------------------------------------------------------------
// the objects under test

#[derive(Clone, Copy, Debug)]
pub enum Obj {
    Bernoulli(Bernoulli),
    Beta(Beta),
    Binomial(Binomial),
    ChiSquared(ChiSquared),
    DiscreteUniform(DiscreteUniform),
    Exponential(Exponential),
    Gamma(Gamma),
    Gumbel(Gumbel),
    Normal(Normal),
    Pareto(Pareto),
    Poisson(Poisson),
    T(T),
    Uniform(Uniform),
}

macro_rules! each {
    ($s:expr, $o:ident => $e:expr) => {
        match $s {
            Obj::Bernoulli($o) => $e,
            Obj::Beta($o) => $e,
            Obj::Binomial($o) => $e,
            Obj::ChiSquared($o) => $e,
            Obj::DiscreteUniform($o) => $e,
            Obj::Exponential($o) => $e,
            Obj::Gamma($o) => $e,
            Obj::Gumbel($o) => $e,
            Obj::Normal($o) => $e,
            Obj::Pareto($o) => $e,
            Obj::Poisson($o) => $e,
            Obj::T($o) => $e,
            Obj::Uniform($o) => $e,
        }
    };
}

impl Obj {
    /// Constructor call; integer-typed parameters are passed as the integers the model holds
    /// (`0` for an invalid non-positive integer: the typed API cannot express a negative one).
    pub fn construct(dist: u8, p: &[f64]) -> Result<Obj, String> {
        let p = p.to_vec();
        catch(move || match dist {
            BERNOULLI => Obj::Bernoulli(Bernoulli::new(p[0])),
            BETA => Obj::Beta(Beta::new(p[0], p[1])),
            BINOMIAL => Obj::Binomial(Binomial::new(p[0] as u64, p[1])),
            CHISQ => Obj::ChiSquared(ChiSquared::new(p[0] as usize)),
            DUNIF => Obj::DiscreteUniform(DiscreteUniform::new(p[0] as i64, p[1] as i64)),
            EXPON => Obj::Exponential(Exponential::new(p[0])),
            GAMMA => Obj::Gamma(Gamma::new(p[0], p[1])),
            GUMBEL => Obj::Gumbel(Gumbel::new(p[0], p[1])),
            NORMAL => Obj::Normal(Normal::new(p[0], p[1])),
            PARETO => Obj::Pareto(Pareto::new(p[0], p[1])),
            POISSON => Obj::Poisson(Poisson::new(p[0])),
            TDIST => Obj::T(T::new(p[0])),
            _ => Obj::Uniform(Uniform::new(p[0], p[1])),
        })
    }

    /// `Default::default()` of the distribution — a constructor like `new`.
    pub fn default_of(dist: u8) -> Result<Obj, String> {
        catch(move || match dist {
            BERNOULLI => Obj::Bernoulli(Bernoulli::default()),
            BETA => Obj::Beta(Beta::default()),
            BINOMIAL => Obj::Binomial(Binomial::default()),
            CHISQ => Obj::ChiSquared(ChiSquared::default()),
            DUNIF => Obj::DiscreteUniform(DiscreteUniform::default()),
            EXPON => Obj::Exponential(Exponential::default()),
            GAMMA => Obj::Gamma(Gamma::default()),
            GUMBEL => Obj::Gumbel(Gumbel::default()),
            NORMAL => Obj::Normal(Normal::default()),
            PARETO => Obj::Pareto(Pareto::default()),
            POISSON => Obj::Poisson(Poisson::default()),
            TDIST => Obj::T(T::default()),
            _ => Obj::Uniform(Uniform::default()),
        })
    }

    /// Individual setter of parameter `i`.
    pub fn set(&mut self, i: usize, v: f64) -> Result<(), String> {
        catch(AssertUnwindSafe(|| match (self, i) {
            (Obj::Bernoulli(o), _) => {
                o.set_p(v);
            }
            (Obj::Beta(o), 0) => {
                o.set_alpha(v);
            }
            (Obj::Beta(o), _) => {
                o.set_beta(v);
            }
            (Obj::Binomial(o), 0) => {
                o.set_n(v as u64);
            }
            (Obj::Binomial(o), _) => {
                o.set_p(v);
            }
            (Obj::ChiSquared(o), _) => {
                o.set_dof(v as usize);
            }
            (Obj::DiscreteUniform(o), 0) => {
                o.set_lower(v as i64);
            }
            (Obj::DiscreteUniform(o), _) => {
                o.set_upper(v as i64);
            }
            (Obj::Exponential(o), _) => {
                o.set_lambda(v);
            }
            (Obj::Gamma(o), 0) => {
                o.set_alpha(v);
            }
            (Obj::Gamma(o), _) => {
                o.set_beta(v);
            }
            (Obj::Gumbel(o), 0) => {
                o.set_mu(v);
            }
            (Obj::Gumbel(o), _) => {
                o.set_beta(v);
            }
            (Obj::Normal(o), 0) => {
                o.set_mu(v);
            }
            (Obj::Normal(o), _) => {
                o.set_sigma(v);
            }
            (Obj::Pareto(o), 0) => {
                o.set_alpha(v);
            }
            (Obj::Pareto(o), _) => {
                o.set_minval(v);
            }
            (Obj::Poisson(o), _) => {
                o.set_lambda(v);
            }
            (Obj::T(o), _) => {
                o.set_dof(v);
            }
            (Obj::Uniform(o), 0) => {
                o.set_lower(v);
            }
            (Obj::Uniform(o), _) => {
                o.set_upper(v);
            }
        }))
    }

    /// Bulk update through `Distribution1D::update`.
    pub fn update(&mut self, p: &[f64]) -> Result<(), String> {
        catch(AssertUnwindSafe(|| each!(self, o => o.update(p))))
    }

    /// pdf (continuous laws) or pmf at `x as i64` (discrete laws).
    pub fn density(&self, x: f64) -> Result<f64, String> {
        catch(|| match self {
            Obj::Bernoulli(o) => o.pmf(x as i64),
            Obj::Binomial(o) => o.pmf(x as i64),
            Obj::DiscreteUniform(o) => o.pmf(x as i64),
            Obj::Poisson(o) => o.pmf(x as i64),
            Obj::Beta(o) => o.pdf(x),
            Obj::ChiSquared(o) => o.pdf(x),
            Obj::Exponential(o) => o.pdf(x),
            Obj::Gamma(o) => o.pdf(x),
            Obj::Gumbel(o) => o.pdf(x),
            Obj::Normal(o) => o.pdf(x),
            Obj::Pareto(o) => o.pdf(x),
            Obj::T(o) => o.pdf(x),
            Obj::Uniform(o) => o.pdf(x),
        })
    }

    pub fn mean(&self) -> Result<f64, String> {
        catch(|| each!(self, o => o.mean()))
    }

    pub fn var(&self) -> Result<f64, String> {
        catch(|| each!(self, o => o.var()))
    }

    pub fn sample(&self) -> Result<f64, String> {
        catch(|| each!(self, o => o.sample()))
    }

    /// Seed the (thread-local) RNG, then one bulk call: `sample_n(n)` (cols = 0) or
    /// `sample_matrix(n / cols, cols)`. Bit patterns and the shape are returned.
    pub fn bulk(&self, seed: u64, n: usize, cols: usize) -> Result<(Vec<u64>, usize, usize), String> {
        catch(|| {
            alea::set_seed(seed);
            if cols == 0 {
                let v = each!(self, o => o.sample_n(n));
                (v.iter().map(|x| x.to_bits()).collect(), 1, v.len())
            } else {
                let m = each!(self, o => o.sample_matrix(n / cols, cols));
                (m.data.iter().map(|x| x.to_bits()).collect(), m.nrows, m.ncols)
            }
        })
    }

    /// Seed the (thread-local) RNG, then draw `n` values: all but the last 16 through `sample()`,
    /// the rest through one `sample_n` call. Bit patterns are returned.
    pub fn stream(&self, seed: u64, n: usize) -> Result<Vec<u64>, String> {
        catch(|| {
            alea::set_seed(seed);
            let tail = n.min(16);
            let mut out = Vec::with_capacity(n);
            for _ in 0..n - tail {
                out.push(each!(self, o => o.sample()).to_bits());
            }
            let v = each!(self, o => o.sample_n(tail));
            out.extend(v.iter().map(|x| x.to_bits()));
            out
        })
    }
}

// ------------------------------------------------------------------------------------------------
// histories

#[derive(Clone, Copy, Debug, Serialize, Deserialize, PartialEq, Eq)]
pub struct Sel {
    /// raw class selector, mapped through the kind's weight table (0 = simplest valid class)
    pub c: u8,
    /// raw magnitude selector, index into the value tables (0 = simplest value)
    pub m: u16,
}

/// A full parameter vector: constructor arguments or a bulk `update`.
#[derive(Clone, Copy, Debug, Serialize, Deserialize, PartialEq, Eq)]
pub struct Bulk {
    /// joint class for the two-sided-bound laws (Uniform, DiscreteUniform); ignored otherwise
    pub j: u8,
    /// per-parameter selectors (magnitudes only for the two-sided-bound laws)
    pub t: [Sel; 2],
}

#[derive(Clone, Debug, Serialize, Deserialize, PartialEq, Eq)]
pub enum Op {
    /// individual setter of parameter `p % n_params`
    Set { p: u8, t: Sel },
    /// bulk `update(&[..])`
    Update(Bulk),
    /// create an unrelated distribution object (kept alive until dropped)
    Spawn { d: u8, a: u16, b: u16 },
    /// drop one of the unrelated objects
    DropOther { i: u8 },
    /// sample `n` values from one of the unrelated objects
    SampleOther { i: u8, n: u8 },
    /// re-seed the RNG and draw a few values from the object under test
    Reseed { s: u64 },
    /// reproducibility: same seed, same object, same stream — with `churn` other objects created
    /// and sampled in between
    Reproduce { churn: u8 },
}

#[derive(Clone, Debug, Serialize, Deserialize, PartialEq, Eq)]
pub struct History {
    pub dist: u8,
    pub ctor: Bulk,
    pub ops: Vec<Op>,
    /// RNG seeds for the compared sample streams: step k uses `seeds[k % len]`, the final state all
    pub seeds: Vec<u64>,
}

impl History {
    /// Total decoder for fuzzing: every byte string is a history (short inputs give short ones).
    pub fn from_bytes(data: &[u8]) -> History {
        let mut it = data.iter().copied();
        let mut b = move || it.next();
        let dist = b().unwrap_or(0) % N_DIST as u8;
        let sel = |b: &mut dyn FnMut() -> Option<u8>| -> Option<Sel> { Some(Sel { c: b()?, m: b()? as u16 }) };
        let zero = Sel { c: 0, m: 0 };
        let ctor = Bulk { j: b().unwrap_or(6), t: [sel(&mut b).unwrap_or(zero), sel(&mut b).unwrap_or(zero)] };
        let nseeds = 1 + (b().unwrap_or(0) % 4) as usize;
        let seeds: Vec<u64> = (0..nseeds).map(|i| 0x9E37_79B9_7F4A_7C15u64.wrapping_mul(i as u64 + 1) ^ b().unwrap_or(0) as u64).collect();
        let mut ops = Vec::new();
        while ops.len() < MAX_OPS {
            let tag = match b() {
                Some(t) => t,
                None => break,
            };
            let op = (|| -> Option<Op> {
                Some(match tag % 16 {
                    0..=5 => Op::Set { p: b()?, t: sel(&mut b)? },
                    6..=10 => Op::Update(Bulk { j: b()?, t: [sel(&mut b)?, sel(&mut b)?] }),
                    11 => Op::Spawn { d: b()?, a: b()? as u16, b: b()? as u16 },
                    12 => Op::DropOther { i: b()? },
                    13 => Op::SampleOther { i: b()?, n: b()? },
                    14 => Op::Reseed { s: b()? as u64 * 0x0101_0101_0101_0101 },
                    _ => Op::Reproduce { churn: b()? },
                })
            })();
            match op {
                Some(o) => ops.push(o),
                None => break,
            }
        }
        History { dist, ctor, ops, seeds }
    }
}

// ------------------------------------------------------------------------------------------------
// selector resolution

const MAG: [f64; 24] = [
    1.0, 2.0, 0.5, 3.0, 10.0, 0.25, 5.0, 50.0, 100.0, 0.125, 1.5, 7.5, 20.0, 1000.0, 0.015625, 0.75, 30.0, 250.0, 0.001, 12.5, 4.0, 64.0, 1e4, 0.3,
];
const IMAG: [f64; 16] = [1., 2., 3., 5., 10., 4., 50., 100., 7., 20., 1000., 30., 64., 13., 255., 100000.];
/// values next to the switch points of samplers and closed forms
const BRANCH: [f64; 16] = [1.0, 0.999, 1.001, 2.0, 2.001, 1.999, 10.0, 9.99, 10.01, 0.5, 0.34, 0.35, 30.0, 30.5, 0.4999, 0.5001];
const PROBS: [f64; 16] = [0.5, 0.25, 0.75, 0.1, 0.9, 0.01, 0.99, 0.3, 0.6, 0.499, 0.501, 1e-6, 0.999999, 0.05, 0.95, 0.0003];
const NTAB: [f64; 20] = [1., 2., 0., 5., 10., 20., 50., 60., 61., 67., 68., 100., 1000., 10000., 100000., 30., 31., 3., 200., 500.];
const FRAC: [f64; 4] = [0.5, 0.25, 0.75, 0.125];
const POS_MAX: f64 = 1e6;
const NAT_MAX: f64 = 200_000.;

fn mag(m: u16) -> f64 {
    MAG[m as usize % MAG.len()]
}
fn imag(m: u16) -> f64 {
    IMAG[m as usize % IMAG.len()]
}
fn real_abs(m: u16) -> f64 {
    let k = m as usize % (2 * MAG.len() + 1);
    if k == 0 {
        0.0
    } else if k % 2 == 1 {
        MAG[(k - 1) / 2]
    } else {
        -MAG[(k - 1) / 2]
    }
}

/// Class weight tables (sum = modulus for the raw selector). Index 0 is the simplest valid class.
pub fn class_weights(kind: PK) -> &'static [u8] {
    match kind {
        // abs, above, below, same, branch, invalid zero, invalid negative, tiny
        PK::Pos | PK::Shape | PK::HalfShape => &[6, 3, 3, 1, 3, 2, 2, 1],
        // abs, above, below, same, zero (valid), invalid negative, invalid tiny negative
        PK::NonNeg => &[6, 3, 3, 1, 2, 3, 1],
        // abs, boundary 0/1, same, complement, invalid above, invalid below
        PK::Prob => &[7, 3, 1, 2, 2, 2],
        // abs, above, below, same
        PK::Real => &[5, 3, 3, 1],
        // abs, above, below, same, invalid zero, invalid negative (bulk update only)
        PK::PosInt => &[6, 3, 3, 1, 3, 1],
        // abs, above, below, same
        PK::Nat => &[6, 3, 3, 1],
        // inside-from-other-bound, outward, between, equal to other bound, same, invalid (crossing the other bound)
        PK::RealLo | PK::RealHi | PK::IntLo | PK::IntHi => &[4, 3, 3, 2, 1, 4],
    }
}
pub const CLASS_NAMES_POS: [&str; 8] = ["abs", "above", "below", "same", "branch", "zero!", "negative!", "tiny"];
pub const CLASS_NAMES_NONNEG: [&str; 7] = ["abs", "above", "below", "same", "zero", "negative!", "tiny-negative!"];
pub const CLASS_NAMES_PROB: [&str; 6] = ["abs", "boundary", "same", "complement", "above-one!", "below-zero!"];
pub const CLASS_NAMES_REAL: [&str; 4] = ["abs", "above", "below", "same"];
pub const CLASS_NAMES_POSINT: [&str; 6] = ["abs", "above", "below", "same", "zero!", "negative!"];
pub const CLASS_NAMES_BOUND: [&str; 6] = ["inside", "outward", "between", "degenerate", "same", "crossing!"];
/// joint classes of a bulk update of (lower, upper)
pub const JOINT_WEIGHTS: [u8; 11] = [4, 4, 2, 2, 2, 2, 1, 3, 2, 2, 2];
pub const JOINT_NAMES: [&str; 11] = [
    "entirely-above",
    "entirely-below",
    "overlap-right",
    "overlap-left",
    "containing",
    "degenerate",
    "same",
    "absolute",
    "reversed-above!",
    "upper-below-lower!",
    "reversed-below!",
];

fn class_name(kind: PK, class: usize) -> &'static str {
    match kind {
        PK::Pos | PK::Shape | PK::HalfShape => CLASS_NAMES_POS[class],
        PK::NonNeg => CLASS_NAMES_NONNEG[class],
        PK::Prob => CLASS_NAMES_PROB[class],
        PK::Real | PK::Nat => CLASS_NAMES_REAL[class],
        PK::PosInt => CLASS_NAMES_POSINT[class],
        _ => CLASS_NAMES_BOUND[class],
    }
}

pub fn pick(weights: &[u8], c: u8) -> usize {
    let tot: u32 = weights.iter().map(|w| *w as u32).sum();
    let mut r = c as u32 % tot;
    for (i, w) in weights.iter().enumerate() {
        if r < *w as u32 {
            return i;
        }
        r -= *w as u32;
    }
    0
}

/// Smallest raw selector that maps to `class` (used by the exhaustive class grid).
pub fn sel_for_class(weights: &[u8], class: usize) -> u8 {
    weights[..class].iter().map(|w| *w as u32).sum::<u32>() as u8
}

/// Resolve one parameter target against the current value `cur` (and the other bound for the
/// two-sided laws). Returns the value and the class label. `bulk` = the value travels through
/// `update(&[f64])` (so a negative integer can be expressed).
fn resolve(kind: PK, cur: f64, other: f64, s: Sel, bulk: bool) -> (f64, &'static str) {
    let class = pick(class_weights(kind), s.c);
    let m = s.m;
    let v = match kind {
        PK::Pos | PK::Shape | PK::HalfShape => {
            let safe_min = match kind {
                PK::Shape => 0.35,
                PK::HalfShape => 0.7,
                _ => 1e-6,
            };
            let lift = |v: f64| if v < safe_min { v + safe_min } else { v };
            match class {
                0 => lift(mag(m)),
                1 => (cur + mag(m)).min(POS_MAX),
                2 => (cur / (1. + mag(m))).max(safe_min),
                3 => cur,
                4 => lift(BRANCH[m as usize % BRANCH.len()]),
                5 => 0.0,
                6 => -mag(m),
                _ => {
                    let t = [0.3, 0.1, 0.01, 0.2, 1e-3][m as usize % 5];
                    match kind {
                        PK::Shape => t,
                        PK::HalfShape => 2. * t,
                        _ => t * 1e-5,
                    }
                }
            }
        }
        PK::NonNeg => match class {
            0 => mag(m),
            1 => (cur + mag(m)).min(POS_MAX),
            2 => cur / (1. + mag(m)),
            3 => cur,
            4 => 0.0,
            5 => -mag(m),
            _ => -f64::MIN_POSITIVE,
        },
        PK::Prob => match class {
            0 => PROBS[m as usize % PROBS.len()],
            1 => (m % 2) as f64,
            2 => cur,
            3 => 1. - cur,
            4 => {
                if m % 2 == 1 {
                    f64::from_bits(1f64.to_bits() + 1)
                } else {
                    1. + mag(m / 2)
                }
            }
            _ => {
                if m % 2 == 1 {
                    -f64::from_bits(1)
                } else {
                    -mag(m / 2)
                }
            }
        },
        PK::Real => match class {
            0 => real_abs(m),
            1 => cur + mag(m),
            2 => cur - mag(m),
            _ => cur,
        },
        PK::PosInt => match class {
            0 => imag(m),
            1 => (cur + imag(m)).min(POS_MAX),
            2 => (cur - imag(m)).max(1.),
            3 => cur,
            4 => 0.0,
            _ => {
                if bulk {
                    -imag(m)
                } else {
                    0.0
                }
            }
        },
        PK::Nat => match class {
            0 => NTAB[m as usize % NTAB.len()],
            1 => (cur + imag(m)).min(NAT_MAX),
            2 => (cur - imag(m)).max(0.),
            _ => cur,
        },
        PK::RealLo | PK::IntLo | PK::RealHi | PK::IntHi => {
            let int = matches!(kind, PK::IntLo | PK::IntHi);
            let d = if int { imag(m) } else { mag(m) };
            // sign: +1 moves a lower bound toward / beyond the upper bound
            let sg = if matches!(kind, PK::RealLo | PK::IntLo) { 1. } else { -1. };
            match class {
                0 => other - sg * d,
                1 => cur - sg * d,
                2 => {
                    let x = cur + (other - cur) * FRAC[m as usize % 4];
                    if int {
                        x.floor()
                    } else {
                        x
                    }
                }
                3 => other,
                4 => cur,
                _ => other + sg * d,
            }
        }
    };
    (v, class_name(kind, class))
}

/// Resolve a full parameter vector (constructor or bulk update) against the current parameters.
fn resolve_bulk(dist: u8, cur: &[f64], b: &Bulk) -> (Vec<f64>, Vec<String>) {
    let sp = specs(dist);
    if is_bounds(dist) {
        let int = dist == DUNIF;
        let (lo, hi) = (cur[0], cur[1]);
        let d = |m: u16| if int { imag(m) } else { mag(m) };
        let (d1, d2) = (d(b.t[0].m), d(b.t[1].m));
        let mid = {
            let x = lo + (hi - lo) / 2.;
            if int {
                x.floor()
            } else {
                x
            }
        };
        let class = pick(&JOINT_WEIGHTS, b.j);
        let (l, u) = match class {
            0 => (hi + d1, hi + d1 + d2),
            1 => (lo - d1 - d2, lo - d1),
            2 => (mid, hi + d2),
            3 => (lo - d1, mid),
            4 => (lo - d1, hi + d2),
            5 => {
                let x = if b.t[0].m % 2 == 1 { hi + d1 } else { lo - d1 };
                (x, x)
            }
            6 => (lo, hi),
            7 => {
                let a = if int { real_abs(b.t[0].m).trunc() * 4. } else { real_abs(b.t[0].m) };
                (a, a + d2)
            }
            8 => (hi + d1 + d2, hi + d1),
            9 => (lo, lo - d1),
            _ => (lo - d1, lo - d1 - d2),
        };
        (vec![l, u], vec![JOINT_NAMES[class].to_string()])
    } else {
        let mut v = Vec::with_capacity(sp.len());
        let mut names = Vec::with_capacity(sp.len());
        for (i, s) in sp.iter().enumerate() {
            let (x, n) = resolve(s.kind, cur[i], f64::NAN, b.t[i], true);
            v.push(x);
            names.push(format!("{}/{}", s.name, n));
        }
        (v, names)
    }
}

/// A parameter vector that is valid and safe to sample whatever the selectors are (unrelated
/// objects, re-synchronisation after a rejected bulk update).
pub fn valid_params(dist: u8, a: u16, b: u16) -> Vec<f64> {
    let sp = specs(dist);
    if is_bounds(dist) {
        let int = dist == DUNIF;
        let lo = if int { real_abs(a).trunc() * 4. } else { real_abs(a) };
        let w = if b % 5 == 4 { 0. } else if int { imag(b) } else { mag(b) };
        return vec![lo, lo + w];
    }
    let zero = Sel { c: 0, m: 0 };
    sp.iter()
        .enumerate()
        .map(|(i, s)| {
            let m = if i == 0 { a } else { b };
            resolve(s.kind, 1.0, f64::NAN, Sel { m, ..zero }, true).0
        })
        .collect()
}

// ------------------------------------------------------------------------------------------------
// observation

fn same_f(a: f64, b: f64) -> bool {
    a.to_bits() == b.to_bits() || (a.is_nan() && b.is_nan())
}

/// Observationally identical results: both panic, or both return the same bit pattern.
fn same_result(a: &Result<f64, String>, b: &Result<f64, String>) -> bool {
    match (a, b) {
        (Ok(x), Ok(y)) => same_f(*x, *y),
        (Err(_), Err(_)) => true,
        _ => false,
    }
}

fn same_stream(a: &Result<Vec<u64>, String>, b: &Result<Vec<u64>, String>) -> bool {
    match (a, b) {
        (Ok(x), Ok(y)) => x.len() == y.len() && x.iter().zip(y).all(|(p, q)| same_f(f64::from_bits(*p), f64::from_bits(*q))),
        (Err(_), Err(_)) => true,
        _ => false,
    }
}

fn show_r(r: &Result<f64, String>) -> String {
    match r {
        Ok(v) => format!("{:e}", v),
        Err(m) => format!("panic({})", m),
    }
}

fn show_stream(r: &Result<Vec<u64>, String>) -> String {
    match r {
        Ok(v) => format!("{:?}…", v.iter().take(4).map(|b| f64::from_bits(*b)).collect::<Vec<_>>()),
        Err(m) => format!("panic({})", m),
    }
}

/// Nine evaluation points for pdf / pmf, placed relative to the model parameters: inside the
/// support, at its ends, outside on both sides.
pub fn probe_points(dist: u8, p: &[f64]) -> Vec<f64> {
    match dist {
        BERNOULLI => vec![-1., 0., 1., 2., 3., -2., 10., 100., -100.],
        BINOMIAL => {
            let n = p[0];
            vec![-1., 0., 1., 2., (n / 2.).floor(), (n * p[1]).floor(), n - 1., n, n + 1.]
        }
        POISSON => {
            let l = p[0].min(1e6);
            vec![-1., 0., 1., 2., 5., l.floor(), l.floor() + 1., (2. * l).floor(), 100.]
        }
        DUNIF => {
            let (l, u) = (p[0], p[1]);
            vec![l - 1., l, l + 1., (l + (u - l) / 2.).floor(), u - 1., u, u + 1., 0., 1.]
        }
        UNIFORM => {
            let (l, u) = (p[0], p[1]);
            vec![l - 1., l, l + (u - l) / 4., l + (u - l) / 2., u, u + 1., 0., 1., u + (u - l)]
        }
        NORMAL | GUMBEL => {
            let (m, s) = (p[0], p[1]);
            vec![m, m - s, m + s, m - 3. * s, m + 3. * s, 0., 1., -1., m + 0.5]
        }
        PARETO => {
            let k = p[1];
            vec![-1., 0., k * 0.99, k, k * 1.5, k * 4., k + 1., 1., 20.]
        }
        TDIST => vec![-20., -2., -1., -0.25, 0., 0.5, 1., 5., 20.],
        BETA => vec![-1., 0., 1e-3, 0.25, 0.5, 0.75, 0.999, 1., 2.],
        _ => vec![-1., 0., 1e-3, 0.25, 0.5, 1., 2., 5., 20.],
    }
}

/// Support every object of this law must sample from whatever its (valid) parameters are.
fn in_universal_support(dist: u8, x: f64) -> bool {
    if x.is_nan() {
        return true; // not judged here
    }
    match dist {
        BERNOULLI => x == 0. || x == 1.,
        BETA => (0.0..=1.0).contains(&x),
        BINOMIAL | POISSON => x >= 0. && (x == x.floor() || x.is_infinite()),
        DUNIF => x == x.floor(),
        CHISQ | EXPON | GAMMA | PARETO => x >= 0.,
        _ => true,
    }
}

// ------------------------------------------------------------------------------------------------
// interpreter

#[derive(Clone, Debug, Default)]
pub struct Stats {
    pub ops: u32,
    /// successful parameter mutations (setter or bulk update applied)
    pub mutations_ok: u32,
    /// of those, mutations that moved a parameter across a branch / bound / cached sampler
    pub crossings: u32,
    /// correctly rejected invalid mutations
    pub rejected: u32,
    pub ctor_rejected: bool,
    /// re-synchronisations after a rejected bulk update of a multi-parameter law
    pub resyncs: u32,
    pub twin_compares: u32,
    pub stream_compares: u32,
    pub reproduce_checks: u32,
    /// at some step a gamma shape below SAFE_SHAPE was current: sample streams were not compared there
    pub sampling_unsafe: bool,
    /// observations where the object and its twin both panicked (counted as identical)
    pub both_panicked: u32,
    /// class labels met in this history ("set/alpha/above", "update/entirely-above", …)
    pub labels: BTreeSet<String>,
}

struct Interp {
    dist: u8,
    name: &'static str,
    obj: Obj,
    model: Vec<f64>,
    /// every value each parameter has held or been offered (stale-state diagnosis)
    seen: Vec<Vec<f64>>,
    safe: bool,
    others: Vec<Obj>,
    st: Stats,
}

fn mk_fail<T>(sig: String, what: String) -> Result<T, Fail> {
    Err(Fail { sig, what })
}

impl Interp {
    fn sig(&self, a: &str, b: &str) -> String {
        format!("C18/{}/{}/{}", self.name, a, b)
    }

    fn note_seen(&mut self, p: &[f64]) {
        for (i, v) in p.iter().enumerate() {
            if !self.seen[i].iter().any(|x| x.to_bits() == v.to_bits()) {
                self.seen[i].push(*v);
            }
        }
    }

    /// Sampling is skipped while a gamma-sampler shape below SAFE_SHAPE is (or, after a rejected
    /// bulk update, may be) current.
    fn track_safety(&mut self, p: &[f64]) {
        let sp = specs(self.dist);
        self.safe = true;
        for (i, s) in sp.iter().enumerate() {
            let shape = match s.kind {
                PK::Shape => p[i],
                PK::HalfShape => p[i] / 2.,
                _ => continue,
            };
            if shape > 0. && shape < SAFE_SHAPE {
                self.safe = false;
                self.st.sampling_unsafe = true;
            }
        }
    }

    /// Compare the mutated object with a twin freshly constructed from the model parameters.
    fn compare(&mut self, seeds: &[u64], after: &str) -> Result<(), Fail> {
        let twin = match Obj::construct(self.dist, &self.model) {
            Ok(t) => t,
            Err(m) => {
                return mk_fail(self.sig("new", "valid-rejected"), format!("{}::new{:?} (valid parameters) panicked: {}", self.name, self.model, m));
            }
        };
        self.st.twin_compares += 1;
        let kind = if is_discrete(self.dist) { "pmf" } else { "pdf" };
        for x in probe_points(self.dist, &self.model) {
            let (a, b) = (self.obj.density(x), twin.density(x));
            if a.is_err() && b.is_err() {
                self.st.both_panicked += 1;
            }
            if !same_result(&a, &b) {
                return mk_fail(
                    self.sig("twin", kind),
                    format!("after {}: {} with history-reached parameters {:?}: {}({:e}) = {}, fresh twin gives {}", after, self.name, self.model, kind, x, show_r(&a), show_r(&b)),
                );
            }
        }
        let (a, b) = (self.obj.mean(), twin.mean());
        if !same_result(&a, &b) {
            return mk_fail(self.sig("twin", "mean"), format!("after {}: {} {:?}: mean = {}, fresh twin gives {}", after, self.name, self.model, show_r(&a), show_r(&b)));
        }
        let (a, b) = (self.obj.var(), twin.var());
        if !same_result(&a, &b) {
            return mk_fail(self.sig("twin", "var"), format!("after {}: {} {:?}: var = {}, fresh twin gives {}", after, self.name, self.model, show_r(&a), show_r(&b)));
        }
        if !self.safe {
            return Ok(());
        }
        for &seed in seeds {
            let a = self.obj.stream(seed, STREAM);
            let b = twin.stream(seed, STREAM);
            self.st.stream_compares += 1;
            if a.is_err() && b.is_err() {
                self.st.both_panicked += 1;
            }
            if !same_stream(&a, &b) {
                // diagnosis: does the stream equal that of a twin in which one parameter still has an
                // earlier value? Then the sampler state for that parameter is stale.
                for i in 0..self.model.len() {
                    for &v in self.seen[i].iter().rev() {
                        if v.to_bits() == self.model[i].to_bits() {
                            continue;
                        }
                        let mut c = self.model.clone();
                        c[i] = v;
                        if !in_domain(self.dist, &c) || min_shape(self.dist, &c) < SAFE_SHAPE {
                            continue;
                        }
                        if let Ok(t2) = Obj::construct(self.dist, &c) {
                            if a.is_ok() && same_stream(&t2.stream(seed, STREAM), &a) {
                                let sp = &specs(self.dist)[i];
                                return mk_fail(
                                    self.sig(sp.setter, "stale-sampler"),
                                    format!(
                                        "after {}: {} reports parameters {:?} (pdf/pmf, mean, var equal to a fresh twin) but with seed {} it samples {} — exactly the stream of a fresh object with {} = {:e} (an earlier value); a fresh twin samples {}",
                                        after, self.name, self.model, seed, show_stream(&a), sp.name, v, show_stream(&b)
                                    ),
                                );
                            }
                        }
                    }
                }
                return mk_fail(
                    self.sig("twin", "samples"),
                    format!("after {}: {} {:?}, seed {}: samples {}, fresh twin samples {}", after, self.name, self.model, seed, show_stream(&a), show_stream(&b)),
                );
            }
        }
        Ok(())
    }

    /// After a rejected bulk update of a multi-parameter law the parameters are unknown but must be
    /// in the domain: densities and variance are never negative, a sample lies in the support common
    /// to all valid parameters.
    fn probe_unknown(&mut self, attempted: &[f64]) -> Result<(), Fail> {
        let kind = if is_discrete(self.dist) { "pmf" } else { "pdf" };
        let pts = probe_points(self.dist, &self.model);
        for &x in pts.iter().skip(1).step_by(3) {
            if let Ok(d) = self.obj.density(x) {
                if d < 0. {
                    return mk_fail(
                        self.sig("update", "out-of-domain-after-reject"),
                        format!("{}: after the rejected update({:?}) on {:?}, {}({:e}) = {:e} < 0", self.name, attempted, self.model, kind, x, d),
                    );
                }
            }
        }
        if let Ok(v) = self.obj.var() {
            if v < 0. {
                return mk_fail(
                    self.sig("update", "out-of-domain-after-reject"),
                    format!("{}: after the rejected update({:?}) on {:?}, var = {:e} < 0", self.name, attempted, self.model, v),
                );
            }
        }
        if self.safe {
            alea::set_seed(0x5EED);
            if let Ok(x) = self.obj.sample() {
                if !in_universal_support(self.dist, x) {
                    return mk_fail(
                        self.sig("update", "out-of-domain-after-reject"),
                        format!("{}: after the rejected update({:?}) on {:?}, a sample is {:e}, outside the support of every valid parameter choice", self.name, attempted, self.model, x),
                    );
                }
            }
            // interval laws: whatever valid bounds the object holds, what it draws lies where its own density is
            // positive (an object holding lower > upper draws values to which it assigns density 0). Only for the
            // laws whose density is bounded away from 0 on the support — elsewhere a density may underflow legitimately.
            for j in 0..(if is_bounds(self.dist) { 8u64 } else { 0 }) {
                alea::set_seed(0x5EED + 1 + j);
                if let Ok(x) = self.obj.sample() {
                    if !x.is_finite() {
                        continue;
                    }
                    if let Ok(d) = self.obj.density(x) {
                        if d == 0. {
                            return mk_fail(
                                self.sig("update", "out-of-domain-after-reject"),
                                format!(
                                    "{}: after the rejected update({:?}) on {:?}, the object draws {:e} but its own {}({:e}) is 0: it is not a member of the family for any valid parameters",
                                    self.name, attempted, self.model, x, kind, x
                                ),
                            );
                        }
                    }
                }
            }
        }
        Ok(())
    }

    fn apply_ok(&mut self, new: Vec<f64>) {
        self.st.mutations_ok += 1;
        if crosses(self.dist, &self.model, &new) {
            self.st.crossings += 1;
        }
        self.track_safety(&new);
        self.note_seen(&new);
        self.model = new;
    }

    fn step(&mut self, k: usize, op: &Op, seeds: &[u64]) -> Result<(), Fail> {
        let sp = specs(self.dist);
        let seed_k = [seeds[k % seeds.len()]];
        match op {
            Op::Set { p, t } => {
                let i = *p as usize % sp.len();
                let other = if sp.len() == 2 { self.model[1 - i] } else { f64::NAN };
                let (v, cls) = resolve(sp[i].kind, self.model[i], other, *t, false);
                let mut cand = self.model.clone();
                cand[i] = v;
                let valid = in_domain(self.dist, &cand);
                self.st.labels.insert(format!("set/{}/{}", sp[i].name, cls));
                let r = self.obj.set(i, v);
                let call = format!("{}({:e}) on {} {:?}", sp[i].setter, v, self.name, self.model);
                match (valid, r) {
                    (true, Ok(())) => self.apply_ok(cand),
                    (true, Err(m)) => return mk_fail(self.sig(sp[i].setter, "valid-rejected"), format!("{} — a valid target — panicked: {}", call, m)),
                    (false, Ok(())) => return mk_fail(self.sig(sp[i].setter, "invalid-accepted"), format!("{} — outside the domain — was accepted", call)),
                    (false, Err(_)) => {
                        self.st.rejected += 1;
                        // a positive shape offered together with an invalid value cannot have been
                        // applied by a single-parameter setter: model unchanged
                    }
                }
                self.compare(&seed_k, &call)
            }
            Op::Update(b) => {
                let (cand, names) = resolve_bulk(self.dist, &self.model, b);
                let valid = in_domain(self.dist, &cand);
                for n in &names {
                    self.st.labels.insert(format!("update/{}", n));
                }
                let r = self.obj.update(&cand);
                let call = format!("update({:?}) on {} {:?}", cand, self.name, self.model);
                match (valid, r) {
                    (true, Ok(())) => self.apply_ok(cand),
                    (true, Err(m)) => return mk_fail(self.sig("update", "valid-rejected"), format!("{} — valid targets — panicked: {}", call, m)),
                    (false, Ok(())) => return mk_fail(self.sig("update", "invalid-accepted"), format!("{} — outside the domain — was accepted", call)),
                    (false, Err(_)) => {
                        self.st.rejected += 1;
                        if sp.len() > 1 {
                            // not promised to be atomic: unknown but in-domain, then re-synchronise
                            // either the old or the offered value of each parameter may be current
                            let was_safe = self.safe;
                            self.track_safety(&cand);
                            self.safe &= was_safe;
                            self.note_seen(&cand);
                            self.probe_unknown(&cand)?;
                            let re = valid_params(self.dist, b.t[0].m, b.t[1].m);
                            if let Err(m) = self.obj.update(&re) {
                                return mk_fail(
                                    self.sig("update", "valid-rejected"),
                                    format!("update({:?}) on {} after the rejected update({:?}) on {:?} — valid targets — panicked: {}", re, self.name, cand, self.model, m),
                                );
                            }
                            self.st.resyncs += 1;
                            self.apply_ok(re);
                        }
                    }
                }
                self.compare(&seed_k, &call)
            }
            Op::Spawn { d, a, b } => {
                let d2 = *d % N_DIST as u8;
                let p = valid_params(d2, *a, *b);
                match Obj::construct(d2, &p) {
                    Ok(o) => {
                        if self.others.len() >= 8 {
                            self.others.remove(0);
                        }
                        self.others.push(o);
                    }
                    Err(m) => {
                        return mk_fail(format!("C18/{}/new/valid-rejected", DIST_NAMES[d2 as usize]), format!("{}::new{:?} (valid parameters) panicked: {}", DIST_NAMES[d2 as usize], p, m));
                    }
                }
                self.st.labels.insert("noise/spawn".into());
                self.compare(&seed_k, "creating an unrelated object")
            }
            Op::DropOther { i } => {
                if !self.others.is_empty() {
                    let j = *i as usize % self.others.len();
                    self.others.remove(j);
                }
                self.st.labels.insert("noise/drop".into());
                self.compare(&seed_k, "dropping an unrelated object")
            }
            Op::SampleOther { i, n } => {
                if !self.others.is_empty() {
                    let j = *i as usize % self.others.len();
                    for _ in 0..(*n % 32) {
                        let _ = self.others[j].sample();
                    }
                }
                self.st.labels.insert("noise/sample-other".into());
                self.compare(&seed_k, "sampling an unrelated object")
            }
            Op::Reseed { s } => {
                alea::set_seed(*s);
                if self.safe {
                    for _ in 0..3 {
                        let _ = self.obj.sample();
                    }
                }
                self.st.labels.insert("noise/reseed".into());
                self.compare(&seed_k, "re-seeding and sampling")
            }
            Op::Reproduce { churn } => {
                self.st.labels.insert("reproduce".into());
                if self.safe {
                    let seed = seed_k[0];
                    let a = self.obj.stream(seed, 32);
                    let mut tmp: Vec<Obj> = Vec::new();
                    for c in 0..(*churn % 6) as u16 {
                        let d2 = ((*churn as u16 / 6 + c * 5) % N_DIST as u16) as u8;
                        if let Ok(o) = Obj::construct(d2, &valid_params(d2, c + *churn as u16, c)) {
                            for _ in 0..7 {
                                let _ = o.sample();
                            }
                            tmp.push(o);
                        }
                    }
                    let b = self.obj.stream(seed, 32);
                    self.st.reproduce_checks += 1;
                    if !same_stream(&a, &b) {
                        return mk_fail(
                            self.sig("reproducibility", "stream"),
                            format!(
                                "{} {:?}: seed {} gave {} and, after creating and sampling {} other objects, {}",
                                self.name, self.model, seed, show_stream(&a), tmp.len(), show_stream(&b)
                            ),
                        );
                    }
                    drop(tmp);
                }
                self.compare(&seed_k, "the reproducibility check")
            }
        }
    }
}

/// Interpret a history against the library. `Err` = the property is violated on this history.
pub fn run_history(h: &History) -> Result<Stats, Fail> {
    let dist = h.dist % N_DIST as u8;
    let name = DIST_NAMES[dist as usize];
    let defaults = default_params(dist);
    let seeds: Vec<u64> = if h.seeds.is_empty() { vec![1] } else { h.seeds.clone() };
    let mut st = Stats::default();

    // constructor
    let (target, names) = resolve_bulk(dist, &defaults, &h.ctor);
    for n in &names {
        st.labels.insert(format!("new/{}", n));
    }
    let valid = in_domain(dist, &target);
    let r = Obj::construct(dist, &target);
    let (obj, model) = match (valid, r) {
        (true, Ok(o)) => (o, target.clone()),
        (true, Err(m)) => return mk_fail(format!("C18/{}/new/valid-rejected", name), format!("{}::new{:?} (valid parameters) panicked: {}", name, target, m)),
        (false, Ok(_)) => return mk_fail(format!("C18/{}/new/invalid-accepted", name), format!("{}::new{:?} — outside the domain — was accepted", name, target)),
        (false, Err(_)) => {
            st.ctor_rejected = true;
            match Obj::construct(dist, &defaults) {
                Ok(o) => (o, defaults.clone()),
                Err(m) => return mk_fail(format!("C18/{}/new/valid-rejected", name), format!("{}::new{:?} (valid parameters) panicked: {}", name, defaults, m)),
            }
        }
    };
    let np = model.len();
    let mut it = Interp { dist, name, obj, model, seen: vec![Vec::new(); np], safe: true, others: Vec::new(), st };
    let m0 = it.model.clone();
    it.track_safety(&m0);
    it.note_seen(&m0);
    it.compare(&[seeds[0]], "construction")?;

    for (k, op) in h.ops.iter().take(MAX_OPS).enumerate() {
        it.st.ops += 1;
        it.step(k, op, &seeds)?;
    }
    // final state: every seed
    it.compare(&seeds, "the whole history")?;
    Ok(it.st)
}
