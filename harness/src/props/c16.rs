//! C16 — Linear interpolation reproduces knots and honours the out-of-range mode.
//!
//! One case type (`Case`: abscissae, ordinates, targets, mode, fill values, checked/unchecked) and one
//! oracle (`check_case`, callable without `Ctx` so that a libFuzzer target can decode bytes into the
//! same type). The data decide what is checked:
//!   * lengths differ, checked variant                  ⇒ the call must panic      (C16/length-mismatch)
//!   * equal lengths, a strict descent, checked variant ⇒ the call must panic      (C16/checked/unsorted-accepted)
//!   * strictly increasing abscissae                    ⇒ the value clauses below
//!   * anything else (ties, NaN, outside the quantifier) ⇒ skipped, never a verdict.
//! For strictly increasing abscissae the targets are split into in-range, left and right ones and
//! the library is called once per group, so that a defect on one side does not hide the other clauses:
//!   in-range call: no panic in any mode (C16/in-range-panics), length (C16/output-order), a target
//!     equal to knot i returns y_i as a value (C16/knot-exact), a target strictly inside a segment equals
//!     the double-double chord within 4ε(|y_i|+|y_i+1|) (C16/interior/chord);
//!   left call / right call: Panic ⇒ panic, Fill ⇒ bit-identical left / right fill value, Extrapolate ⇒
//!     double-double line through the first / last two knots within 8ε(|y_a|+|y_b|)(1+distance/segment)
//!     (C16/left/<mode>, C16/right/<mode>);
//!   full call (mixed list): length = number of targets and slot i bit-identical to what the group calls
//!     returned for target i (C16/output-order); in Panic mode with an out-of-range target it must panic.
//! The right-hand clauses are evaluated last.

use crate::engine::{catch, decode, fail, fx, Ctx, Fail, Hx, R};
use crate::oracle::dd::DD;
use compute::functions::{interp1d_linear, interp1d_linear_unchecked, ExtrapolationMode};
use proptest::prelude::*;
use serde::{Deserialize, Serialize};
use serde_json::{json, Value};

const EPS: f64 = f64::EPSILON; // 2^-52

/// Domain limits (the quantifier of the property, made concrete).
pub const MAX_KNOTS: usize = 200;
pub const MAX_ABS_X: f64 = 1e15;
pub const MAX_ABS_T: f64 = 1e19;
pub const MAX_SPACING_RATIO: f64 = 1e6;
pub const MIN_ABS_Y: f64 = 1e-200; // non-zero ordinates
pub const MAX_ABS_Y: f64 = 1e200;

#[derive(Clone, Debug, Serialize, Deserialize)]
pub struct Case {
    #[serde(with = "fx::v")]
    pub x: Vec<f64>,
    #[serde(with = "fx::v")]
    pub y: Vec<f64>,
    #[serde(with = "fx::v")]
    pub t: Vec<f64>,
    /// 0 = Panic, 1 = Fill(fill_l, fill_r), 2 = Extrapolate
    pub mode: u8,
    #[serde(with = "fx::f")]
    pub fill_l: f64,
    #[serde(with = "fx::f")]
    pub fill_r: f64,
    /// true = interp1d_linear (checks sortedness), false = interp1d_linear_unchecked
    pub checked: bool,
}

pub const MODES: [&str; 3] = ["Panic", "Fill", "Extrapolate"];

#[derive(Clone, Copy, Debug, PartialEq, Eq)]
pub enum Kind {
    Valid,
    Unsorted,
    Mismatch,
    Skipped(&'static str),
}

#[derive(Clone, Copy, Debug, PartialEq)]
enum Tc {
    Knot(usize),
    Interior(usize),
    Left,
    Right,
}

#[derive(Clone, Debug, Default)]
pub struct Stats {
    pub knots: usize,
    pub interior: usize,
    pub left: usize,
    pub right: usize,
    /// worst |got − chord| / (4ε(|y_i|+|y_i+1|))
    pub worst_chord: f64,
    /// worst |got − line| / (8ε·S·(1+D/h))
    pub worst_extrap: f64,
    /// extrapolation targets whose scale would overflow (not compared)
    pub extrap_unchecked: usize,
}

fn y_ok(v: f64) -> bool {
    v.is_finite() && (v == 0.0 || (v.abs() >= MIN_ABS_Y && v.abs() <= MAX_ABS_Y))
}

/// Which clause of the statement applies to this case (pure, no library call).
pub fn kind(c: &Case) -> Kind {
    if c.mode > 2 {
        return Kind::Skipped("mode");
    }
    let n = c.x.len();
    if n < 2 || n > MAX_KNOTS {
        return Kind::Skipped("knot-count");
    }
    if c.t.len() > 4096 || !c.t.iter().all(|v| v.is_finite() && v.abs() <= MAX_ABS_T) {
        return Kind::Skipped("target");
    }
    if !c.x.iter().all(|v| v.is_finite() && v.abs() <= MAX_ABS_X) {
        return Kind::Skipped("abscissa");
    }
    if !c.y.iter().all(|v| y_ok(*v)) {
        return Kind::Skipped("ordinate");
    }
    if c.y.len() != n {
        if !c.checked || c.y.len() > 2 * MAX_KNOTS {
            return Kind::Skipped("mismatch-unchecked");
        }
        if !c.x.windows(2).all(|w| w[0] < w[1]) {
            return Kind::Skipped("mismatch-and-unsorted");
        }
        return Kind::Mismatch;
    }
    let increasing = c.x.windows(2).all(|w| w[0] < w[1]);
    if increasing {
        let (mut lo, mut hi) = (f64::INFINITY, 0.0f64);
        for w in c.x.windows(2) {
            let d = w[1] - w[0];
            lo = lo.min(d);
            hi = hi.max(d);
        }
        if !(hi <= MAX_SPACING_RATIO * lo) {
            return Kind::Skipped("spacing-ratio");
        }
        return Kind::Valid;
    }
    if c.x.windows(2).any(|w| w[1] < w[0]) {
        if c.checked {
            return Kind::Unsorted;
        }
        return Kind::Skipped("unsorted-unchecked");
    }
    Kind::Skipped("ties")
}

fn classify(x: &[f64], t: f64) -> Tc {
    let n = x.len();
    if t < x[0] {
        return Tc::Left;
    }
    if t > x[n - 1] {
        return Tc::Right;
    }
    // largest i with x[i] <= t
    let (mut lo, mut hi) = (0usize, n - 1);
    while hi - lo > 1 {
        let mid = (lo + hi) / 2;
        if x[mid] <= t {
            lo = mid;
        } else {
            hi = mid;
        }
    }
    if t == x[lo] {
        Tc::Knot(lo)
    } else if t == x[hi] {
        Tc::Knot(hi)
    } else {
        Tc::Interior(lo)
    }
}

fn mode_of(c: &Case) -> ExtrapolationMode {
    match c.mode {
        0 => ExtrapolationMode::Panic,
        1 => ExtrapolationMode::Fill(c.fill_l, c.fill_r),
        _ => ExtrapolationMode::Extrapolate,
    }
}

/// The only place that touches the library.
fn call(c: &Case, tg: &[f64]) -> Result<Vec<f64>, String> {
    let m = mode_of(c);
    let (x, y) = (&c.x[..], &c.y[..]);
    let checked = c.checked;
    catch(move || {
        let v = if checked { interp1d_linear(x, y, tg, m) } else { interp1d_linear_unchecked(x, y, tg, m) };
        v.data().to_vec()
    })
}

fn fname(c: &Case) -> &'static str {
    if c.checked {
        "interp1d_linear"
    } else {
        "interp1d_linear_unchecked"
    }
}

/// value of the straight line through (xa,ya),(xb,yb) at t, in double-double
fn line(xa: f64, ya: f64, xb: f64, yb: f64, t: f64) -> f64 {
    let dy = DD::from_sum(yb, -ya);
    let dt = DD::from_sum(t, -xa);
    let h = DD::from_sum(xb, -xa);
    (DD::new(ya) + dy * dt / h).f()
}

fn show(v: &[f64]) -> String {
    if v.len() <= 6 {
        format!("{:?}", v)
    } else {
        format!("[{:e}, {:e}, … {} values … , {:e}]", v[0], v[1], v.len(), v[v.len() - 1])
    }
}

fn check_side(c: &Case, right: bool, tg: &[f64], res: &Result<Vec<f64>, String>, st: &mut Stats) -> Result<(), Fail> {
    let side = if right { "right" } else { "left" };
    let sig = format!("C16/{}/{}", side, MODES[c.mode as usize]);
    let n = c.x.len();
    let where_ = if right {
        format!("above the last abscissa {:e}", c.x[n - 1])
    } else {
        format!("below the first abscissa {:e}", c.x[0])
    };
    match c.mode {
        0 => match res {
            Err(_) => Ok(()),
            Ok(v) => fail(
                sig,
                format!(
                    "{}(x={}, y={}, targets={}, Panic): every target is {} but the call returned {} instead of panicking",
                    fname(c), show(&c.x), show(&c.y), show(tg), where_, show(v)
                ),
            ),
        },
        1 => {
            let want = if right { c.fill_r } else { c.fill_l };
            match res {
                Err(m) => fail(sig, format!("{}(.., Fill({:e},{:e})) panicked for targets {} ({}): {}", fname(c), c.fill_l, c.fill_r, show(tg), where_, m)),
                Ok(v) => {
                    ensure!(v.len() == tg.len(), "C16/output-order", "{} {} out-of-range targets gave {} outputs (Fill mode)", tg.len(), side, v.len());
                    for (i, g) in v.iter().enumerate() {
                        ensure!(
                            g.to_bits() == want.to_bits(),
                            sig,
                            "{}(x={}, y={}, Fill({:e},{:e})): target {:e} is {} but the result is {:e}, expected the {} fill value {:e}",
                            fname(c), show(&c.x), show(&c.y), c.fill_l, c.fill_r, tg[i], where_, g, side, want
                        );
                    }
                    Ok(())
                }
            }
        }
        _ => match res {
            Err(m) => fail(sig, format!("{}(.., Extrapolate) panicked for targets {} ({}): {}", fname(c), show(tg), where_, m)),
            Ok(v) => {
                ensure!(v.len() == tg.len(), "C16/output-order", "{} {} out-of-range targets gave {} outputs (Extrapolate mode)", tg.len(), side, v.len());
                let (ia, ib) = if right { (n - 2, n - 1) } else { (0, 1) };
                let (xa, ya, xb, yb) = (c.x[ia], c.y[ia], c.x[ib], c.y[ib]);
                let h = xb - xa;
                let s = ya.abs() + yb.abs();
                for (i, g) in v.iter().enumerate() {
                    let t = tg[i];
                    let dist = if right { t - xb } else { xa - t };
                    let scale = s * (1.0 + dist / h);
                    if !(scale < 1e290) {
                        st.extrap_unchecked += 1;
                        continue;
                    }
                    let want = line(xa, ya, xb, yb, t);
                    let tol = 8.0 * EPS * scale;
                    let diff = (g - want).abs();
                    let ok = if tol == 0.0 { *g == want } else { diff <= tol };
                    if tol > 0.0 {
                        st.worst_extrap = st.worst_extrap.max(diff / tol);
                    }
                    ensure!(
                        ok,
                        sig,
                        "{}(.., Extrapolate): target {:e} ({}) gave {:e}, the line through ({:e},{:e}) and ({:e},{:e}) gives {:e} (|diff| {:e} > tol {:e})",
                        fname(c), t, where_, g, xa, ya, xb, yb, want, diff, tol
                    );
                }
                Ok(())
            }
        },
    }
}

/// The oracle. `Ok(stats)` = property holds on this case (or the case is outside the quantifier).
pub fn check_case(c: &Case) -> Result<Stats, Fail> {
    let mut st = Stats::default();
    match kind(c) {
        Kind::Skipped(_) => return Ok(st),
        Kind::Mismatch => {
            return match call(c, &c.t) {
                Err(_) => Ok(st),
                Ok(v) => fail(
                    "C16/length-mismatch",
                    format!("interp1d_linear with {} abscissae and {} ordinates returned {} instead of panicking", c.x.len(), c.y.len(), show(&v)),
                ),
            };
        }
        Kind::Unsorted => {
            return match call(c, &c.t) {
                Err(_) => Ok(st),
                Ok(v) => {
                    let p = c.x.windows(2).position(|w| w[1] < w[0]).unwrap_or(0);
                    fail(
                        "C16/checked/unsorted-accepted",
                        format!(
                            "interp1d_linear accepted unsorted abscissae {} (x[{}]={:e} > x[{}]={:e}), mode {}, and returned {}",
                            show(&c.x), p, c.x[p], p + 1, c.x[p + 1], MODES[c.mode as usize], show(&v)
                        ),
                    )
                }
            };
        }
        Kind::Valid => {}
    }
    let x = &c.x;
    let y = &c.y;
    let cls: Vec<Tc> = c.t.iter().map(|t| classify(x, *t)).collect();
    let mut tin = vec![];
    let mut tl = vec![];
    let mut tr = vec![];
    for (t, k) in c.t.iter().zip(&cls) {
        match k {
            Tc::Left => tl.push(*t),
            Tc::Right => tr.push(*t),
            _ => tin.push(*t),
        }
    }
    st.left = tl.len();
    st.right = tr.len();
    let rin = call(c, &tin);
    let rl = if tl.is_empty() { Ok(vec![]) } else { call(c, &tl) };
    let rr = if tr.is_empty() { Ok(vec![]) } else { call(c, &tr) };

    // --- in-range targets
    let vin = match &rin {
        Err(m) => {
            return fail(
                "C16/in-range-panics",
                format!(
                    "{}(x={}, y={}, {}) panicked although all {} targets {} lie inside [{:e}, {:e}]: {}",
                    fname(c), show(x), show(y), MODES[c.mode as usize], tin.len(), show(&tin), x[0], x[x.len() - 1], m
                ),
            )
        }
        Ok(v) => v,
    };
    ensure!(vin.len() == tin.len(), "C16/output-order", "{} in-range targets gave {} outputs ({} mode)", tin.len(), vin.len(), MODES[c.mode as usize]);
    let mut k = 0usize;
    for (t, cl) in c.t.iter().zip(&cls) {
        let g = match cl {
            Tc::Left | Tc::Right => continue,
            _ => {
                k += 1;
                vin[k - 1]
            }
        };
        match *cl {
            Tc::Knot(i) => {
                st.knots += 1;
                ensure!(
                    g == y[i],
                    "C16/knot-exact",
                    "{}: target {:e} equals abscissa x[{}] (of {}) but the result is {:e}, not the ordinate y[{}] = {:e} ({} mode)",
                    fname(c), t, i, x.len(), g, i, y[i], MODES[c.mode as usize]
                );
            }
            Tc::Interior(i) => {
                st.interior += 1;
                let want = line(x[i], y[i], x[i + 1], y[i + 1], *t);
                let s = y[i].abs() + y[i + 1].abs();
                let tol = 4.0 * EPS * s;
                let diff = (g - want).abs();
                let (lo, hi) = (y[i].min(y[i + 1]) - tol, y[i].max(y[i + 1]) + tol);
                let ok = if tol == 0.0 { g == want } else { diff <= tol && g >= lo && g <= hi };
                if tol > 0.0 {
                    st.worst_chord = st.worst_chord.max(diff / tol);
                }
                ensure!(
                    ok,
                    "C16/interior/chord",
                    "{}: target {:e} in ({:e}, {:e}) gave {:e}{}; the chord between ordinates {:e} and {:e} gives {:e} (|diff| {:e} > tol {:e}, {} mode)",
                    fname(c), t, x[i], x[i + 1], g, if crate::engine::alloc::is_poison(g) { " (uninitialised slot)" } else { "" },
                    y[i], y[i + 1], want, diff, tol, MODES[c.mode as usize]
                );
            }
            _ => {}
        }
    }

    // --- left side
    if !tl.is_empty() {
        check_side(c, false, &tl, &rl, &mut st)?;
    }

    // --- full (mixed) list: length and order
    let groups = [!tl.is_empty(), !tin.is_empty(), !tr.is_empty()].iter().filter(|b| **b).count();
    if groups >= 2 {
        let full = call(c, &c.t);
        if c.mode == 0 {
            if let Ok(v) = &full {
                let side = if !tl.is_empty() { "left" } else { "right" };
                return fail(
                    format!("C16/{}/Panic", side),
                    format!(
                        "{}(x={}, y={}, targets={}, Panic): {} targets below the first and {} above the last abscissa, but the call returned {} values instead of panicking",
                        fname(c), show(x), show(y), show(&c.t), tl.len(), tr.len(), v.len()
                    ),
                );
            }
        } else if let (Ok(vl), Ok(vr)) = (&rl, &rr) {
            if vl.len() == tl.len() && vr.len() == tr.len() {
                match &full {
                    Err(m) => {
                        return fail(
                            "C16/output-order",
                            format!("{} ({} mode) panicked on the mixed target list {} although each group of targets alone is handled: {}", fname(c), MODES[c.mode as usize], show(&c.t), m),
                        )
                    }
                    Ok(v) => {
                        ensure!(
                            v.len() == c.t.len(),
                            "C16/output-order",
                            "{} ({} mode): {} targets ({} left, {} in range, {} right) gave {} outputs",
                            fname(c), MODES[c.mode as usize], c.t.len(), tl.len(), tin.len(), tr.len(), v.len()
                        );
                        let (mut a, mut b, mut d) = (0usize, 0usize, 0usize);
                        for (i, cl) in cls.iter().enumerate() {
                            let want = match cl {
                                Tc::Left => {
                                    a += 1;
                                    vl[a - 1]
                                }
                                Tc::Right => {
                                    b += 1;
                                    vr[b - 1]
                                }
                                _ => {
                                    d += 1;
                                    vin[d - 1]
                                }
                            };
                            ensure!(
                                v[i].to_bits() == want.to_bits(),
                                "C16/output-order",
                                "{} ({} mode): slot {} of the mixed target list (target {:e}) holds {:e}, but the same target evaluated in a list of its own group gives {:e}",
                                fname(c), MODES[c.mode as usize], i, c.t[i], v[i], want
                            );
                        }
                    }
                }
            }
        }
    }

    // --- right side (last: F29 lives here)
    if !tr.is_empty() {
        check_side(c, true, &tr, &rr, &mut st)?;
    }
    Ok(st)
}

fn size_class(n: usize) -> &'static str {
    if n <= 5 {
        "n<=5"
    } else if n <= 40 {
        "n<=40"
    } else {
        "n<=200"
    }
}

/// Engine-facing oracle: accounting + `check_case`. The sub-check name is the driver's.
pub fn check_as(ctx: &mut Ctx, sub: &str, c: &Case) -> R {
    let k = kind(c);
    let h = Hx::new().fs(&c.x).fs(&c.y).fs(&c.t).u(c.mode as u64).f(c.fill_l).f(c.fill_r).u(c.checked as u64).finish();
    let var = if c.checked { "checked" } else { "unchecked" };
    match k {
        Kind::Skipped(why) => {
            ctx.case(sub, &format!("skipped/{}", why), false, h);
            return Ok(());
        }
        Kind::Mismatch => {
            ctx.case(sub, &format!("mismatch/{}/{}", if c.y.len() < c.x.len() { "y-short" } else { "y-long" }, size_class(c.x.len())), c.x.len() >= 3, h);
        }
        Kind::Unsorted => {
            ctx.case(sub, &format!("unsorted/{}/{}", MODES[c.mode as usize], size_class(c.x.len())), c.x.len() >= 3, h);
        }
        Kind::Valid => {
            let (mut l, mut r, mut interior) = (false, false, false);
            for t in &c.t {
                match classify(&c.x, *t) {
                    Tc::Left => l = true,
                    Tc::Right => r = true,
                    Tc::Interior(_) => interior = true,
                    _ => {}
                }
            }
            let sides = match (l, r) {
                (false, false) => "in-range",
                (true, false) => "left",
                (false, true) => "right",
                _ => "both",
            };
            let nontrivial = c.x.len() >= 3 && r && interior;
            ctx.case(sub, &format!("valid/{}/{}/{}/{}", MODES[c.mode as usize], sides, size_class(c.x.len()), var), nontrivial, h);
        }
    }
    ctx.sample(sub, || json!(c));
    let st = check_case(c)?;
    if k == Kind::Valid {
        ctx.worst("interior: |got-chord| / (4 eps (|y_i|+|y_i+1|))", st.worst_chord);
        ctx.worst("extrapolate: |got-line| / (8 eps (|y_a|+|y_b|) (1+dist/segment))", st.worst_extrap);
        if st.extrap_unchecked > 0 {
            ctx.label(sub, "extrapolate/scale-overflow-not-compared");
        }
        if st.knots > 0 {
            ctx.label(sub, "targets/knot");
        }
        if st.interior > 0 {
            ctx.label(sub, "targets/interior");
        }
        data_labels(ctx, sub, c);
    }
    Ok(())
}

/// Histogram labels derived from the data (the case does not carry its generator class).
fn data_labels(ctx: &mut Ctx, sub: &str, c: &Case) {
    let x = &c.x;
    let n = x.len();
    let (mut lo, mut hi) = (f64::INFINITY, 0.0f64);
    for w in x.windows(2) {
        lo = lo.min(w[1] - w[0]);
        hi = hi.max(w[1] - w[0]);
    }
    let r = hi / lo;
    ctx.label(sub, if r < 1.0 + 1e-9 { "spacing/regular" } else if r <= 1e2 { "spacing/ratio<=1e2" } else if r <= 1e4 { "spacing/ratio<=1e4" } else { "spacing/ratio<=1e6" });
    let ymax = c.y.iter().fold(0.0f64, |s, v| s.max(v.abs()));
    let ymin = c.y.iter().filter(|v| **v != 0.0).fold(f64::INFINITY, |s, v| s.min(v.abs()));
    if ymax > 1e150 {
        ctx.label(sub, "ordinates/huge(>1e150)");
    }
    if ymin < 1e-150 {
        ctx.label(sub, "ordinates/tiny(<1e-150)");
    }
    if c.y.windows(2).any(|w| w[0] == w[1]) {
        ctx.label(sub, "ordinates/equal-neighbours");
    }
    if c.y.iter().any(|v| *v == 0.0 && v.is_sign_negative()) {
        ctx.label(sub, "ordinates/negative-zero");
    }
    let range = x[n - 1] - x[0];
    let (mut ulp_in, mut ulp_out, mut near, mut far) = (false, false, false, false);
    for t in &c.t {
        match classify(x, *t) {
            Tc::Interior(i) => {
                if *t == x[i].next_up() || *t == x[i + 1].next_down() {
                    ulp_in = true;
                }
            }
            Tc::Left | Tc::Right => {
                let d = if *t < x[0] { x[0] - t } else { t - x[n - 1] };
                if *t == x[0].next_down() || *t == x[n - 1].next_up() {
                    ulp_out = true;
                } else if d <= range {
                    near = true;
                } else {
                    far = true;
                }
            }
            _ => {}
        }
    }
    if ulp_in {
        ctx.label(sub, "targets/1ulp-inside-a-knot");
    }
    if ulp_out {
        ctx.label(sub, "targets/1ulp-beyond-an-end");
    }
    if near {
        ctx.label(sub, "targets/beyond<=range");
    }
    if far {
        ctx.label(sub, "targets/beyond>range");
    }
    if !c.fill_l.is_finite() || !c.fill_r.is_finite() {
        if c.mode == 1 {
            ctx.label(sub, "fill/non-finite-value");
        }
    }
}

macro_rules! sub_fn {
    ($name:ident, $sub:expr) => {
        fn $name(ctx: &mut Ctx, c: &Case) -> R {
            check_as(ctx, $sub, c)
        }
    };
}
// one plain `fn` per driver (run_prop_par wants a `Sync` fn and a fixed sub-check name)
sub_fn!(ck_p_in, "Panic/in-range");
sub_fn!(ck_p_l, "Panic/left");
sub_fn!(ck_p_r, "Panic/right");
sub_fn!(ck_p_b, "Panic/both");
sub_fn!(ck_f_in, "Fill/in-range");
sub_fn!(ck_f_l, "Fill/left");
sub_fn!(ck_f_r, "Fill/right");
sub_fn!(ck_f_b, "Fill/both");
sub_fn!(ck_e_in, "Extrapolate/in-range");
sub_fn!(ck_e_l, "Extrapolate/left");
sub_fn!(ck_e_r, "Extrapolate/right");
sub_fn!(ck_e_b, "Extrapolate/both");
sub_fn!(ck_unsorted, "unsorted");
sub_fn!(ck_mismatch, "mismatch");
sub_fn!(ck_enum, "enumerated");

// ------------------------------------------------------------------------------------------------
// generator

#[derive(Clone, Debug)]
struct G {
    n: usize,
    /// 0 unit grid, 1 regular, 2 random increments, 3 geometric growing, 4 geometric shrinking, 5 two-scale
    grid: u8,
    /// spacing ratio 10^rexp (capped at 0.99e6)
    rexp: u8,
    /// index into SCALES
    sexp: u8,
    /// 0 start at 0, 1 centred, 2 ends at 0, 3 far positive, 4 far negative
    off: u8,
    ycls: u8,
    mode: u8,
    /// 0 none, 1 left, 2 right, 3 both
    side: u8,
    checked: bool,
    /// number of in-range targets kept
    keep: usize,
    /// out-of-range targets per requested side
    nout: usize,
    fl: u8,
    fr: u8,
    salt: u64,
}

const SCALES: [i32; 8] = [0, -1, 1, -3, 3, -6, -9, -12];
const FILLS: [f64; 9] = [-1.0, 7.5, 0.0, -0.0, f64::NAN, f64::INFINITY, f64::NEG_INFINITY, 1e300, 5e-324];

fn u01(salt: u64, tag: u64, i: u64) -> f64 {
    (Hx::new().u(salt).u(tag).u(i).finish() >> 11) as f64 / (1u64 << 53) as f64
}

fn build_x(g: &G) -> Vec<f64> {
    let n = g.n;
    if g.grid == 0 {
        return (0..n).map(|i| i as f64).collect();
    }
    let r = 10f64.powi(g.rexp.min(6) as i32).min(0.99e6);
    let scale = 10f64.powi(SCALES[(g.sexp as usize) % SCALES.len()]);
    let mut inc = vec![1.0f64; n - 1];
    for (i, d) in inc.iter_mut().enumerate() {
        let f = if n > 2 { i as f64 / (n - 2) as f64 } else { 0.0 };
        *d = match g.grid {
            1 => 1.0,
            2 => r.powf(u01(g.salt, 1, i as u64)),
            3 => r.powf(f),
            4 => r.powf(1.0 - f),
            _ => {
                if Hx::new().u(g.salt).u(2).u(i as u64).finish() % 4 == 0 {
                    r
                } else {
                    1.0
                }
            }
        };
    }
    let h = scale * (1.0 + 0.37 * u01(g.salt, 3, 0)); // not a power of two
    let range: f64 = inc.iter().sum::<f64>() * h;
    let x0 = match g.off {
        0 => 0.0,
        1 => -0.5 * range,
        2 => -range,
        3 => range * 10f64.powf(3.0 * u01(g.salt, 4, 0)),
        _ => -range * (1.0 + 10f64.powf(3.0 * u01(g.salt, 4, 1))),
    };
    let mut x = Vec::with_capacity(n);
    x.push(x0);
    if g.grid == 1 {
        for i in 1..n {
            x.push(x0 + i as f64 * h);
        }
    } else {
        for i in 1..n {
            let p = x[i - 1] + inc[i - 1] * h;
            x.push(p);
        }
    }
    for i in 1..n {
        if !(x[i] > x[i - 1]) {
            x[i] = x[i - 1].next_up();
        }
    }
    if g.off == 2 {
        // the class is meant to end exactly at zero when rounding allows it
        let last = x[n - 1];
        if last.abs() < 1e-9 * range && x[n - 2] < 0.0 {
            x[n - 1] = 0.0;
        }
    }
    x
}

fn build_y(g: &G, m: usize) -> Vec<f64> {
    let s = g.salt;
    (0..m)
        .map(|i| {
            let u = u01(s, 10, i as u64);
            let v = u01(s, 11, i as u64);
            let sign = if v < 0.5 { -1.0 } else { 1.0 };
            match g.ycls {
                0 => (i * i) as f64,
                1 => (0.7 * i as f64 + u01(s, 12, 0)).sin() * 10f64.powf(6.0 * u01(s, 12, 1) - 3.0),
                2 => 2.0 * u - 1.0,
                3 => sign * 10f64.powf(398.0 * u - 199.0),
                4 => {
                    // plateaus: equal neighbours, zeros of both signs
                    let blk = (i / 2) as u64;
                    let w = u01(s, 13, blk);
                    if w < 0.2 {
                        0.0
                    } else if w < 0.3 {
                        -0.0
                    } else {
                        (w * 16.0).floor() - 8.0
                    }
                }
                5 => sign * 10f64.powf(190.0 + 9.9 * u),
                6 => sign * 10f64.powf(-190.0 - 9.9 * u),
                _ => {
                    if i % 2 == 0 {
                        1.0 + u
                    } else {
                        -1.0 - u
                    }
                }
            }
        })
        .collect()
}

fn shuffle(v: &mut [f64], salt: u64, tag: u64) {
    for i in (1..v.len()).rev() {
        let j = (Hx::new().u(salt).u(tag).u(i as u64).finish() % (i as u64 + 1)) as usize;
        v.swap(i, j);
    }
}

fn beyond(x: &[f64], right: bool, j: usize, salt: u64) -> f64 {
    let n = x.len();
    let range = x[n - 1] - x[0];
    let (end, seg) = if right { (x[n - 1], x[n - 1] - x[n - 2]) } else { (x[0], x[1] - x[0]) };
    let dist = match j {
        0 => seg,           // one segment beyond
        1 => 0.0,           // 1 ulp beyond
        2 => 1e3 * range,   // far
        3 => 0.5 * seg,
        _ => range * 10f64.powf(9.0 * u01(salt, 20 + right as u64, j as u64) - 6.0),
    };
    let t = if right { end + dist } else { end - dist };
    // rounding may land on the end point: step one ulp outwards
    if right {
        if t > end {
            t
        } else {
            end.next_up()
        }
    } else if t < end {
        t
    } else {
        end.next_down()
    }
}

fn build(g: &G) -> Case {
    let x = build_x(g);
    let n = x.len();
    let y = build_y(g, n);
    // in-range candidates
    let mut inr: Vec<f64> = vec![];
    inr.extend_from_slice(&x);
    for i in 0..n - 1 {
        inr.push(x[i] + 0.5 * (x[i + 1] - x[i]));
    }
    inr.push(x[0].next_up());
    inr.push(x[n - 1].next_down());
    let step = (n / 12).max(1);
    for i in (1..n - 1).step_by(step) {
        inr.push(x[i].next_up());
        inr.push(x[i].next_down());
    }
    for j in 0..16u64 {
        let i = (Hx::new().u(g.salt).u(30).u(j).finish() % (n as u64 - 1)) as usize;
        inr.push(x[i] + u01(g.salt, 31, j) * (x[i + 1] - x[i]));
    }
    // rounding can push a candidate outside [x0, x_last]; clamp so that "in-range" is true by construction
    for v in inr.iter_mut() {
        if *v < x[0] {
            *v = x[0];
        }
        if *v > x[n - 1] {
            *v = x[n - 1];
        }
    }
    if g.grid == 0 && g.keep <= 3 {
        // simple targets first for the simplest class (readable shrunk cases): midpoint, knot, knot
        inr = vec![x[0] + 0.5 * (x[1] - x[0]), x[n - 1], x[0]];
    } else {
        shuffle(&mut inr, g.salt, 32);
    }
    inr.truncate(g.keep);
    let mut t = vec![];
    if g.side & 1 != 0 {
        for j in 0..g.nout {
            t.push(beyond(&x, false, j, g.salt));
        }
    }
    if g.side & 2 != 0 {
        for j in 0..g.nout {
            t.push(beyond(&x, true, j, g.salt));
        }
    }
    t.extend_from_slice(&inr);
    if t.len() > 2 {
        shuffle(&mut t, g.salt, 33);
    }
    // a knot at zero: also ask for the zero of the other sign (the same abscissa)
    if g.salt & 1 == 0 {
        if let Some(z) = x.iter().find(|v| **v == 0.0) {
            t.insert(0, -*z);
        }
    }
    let fl = FILLS[(g.fl as usize) % FILLS.len()];
    let mut fr = FILLS[(g.fr as usize) % FILLS.len()];
    if fr.to_bits() == fl.to_bits() {
        fr = FILLS[(g.fr as usize + 1) % FILLS.len()];
    }
    Case { x, y, t, mode: g.mode, fill_l: fl, fill_r: fr, checked: g.checked }
}

type GP = ((u8, usize), (u8, u8, u8, u8, u8), bool, usize, usize, (u8, u8), u64);

fn gparams(maxn: usize) -> impl Strategy<Value = GP> {
    (
        (0u8..3, 2usize..=maxn),
        (0u8..6, 0u8..=6, 0u8..8, 0u8..5, 0u8..8),
        any::<bool>(),
        0usize..=480,
        1usize..=6,
        (0u8..9, 0u8..9),
        any::<u64>(),
    )
}

fn to_g(p: GP, mode: u8, side: u8) -> G {
    let ((ncls, nk), (grid, rexp, sexp, off, ycls), checked, keep, nout, (fl, fr), salt) = p;
    // a third each: 2..=5, 2..=40, 2..=max knots; the count shrinks toward 2
    let n = match ncls {
        1 => 2 + (nk - 2) % 4,
        2 => 2 + (nk - 2) % 39,
        _ => nk,
    };
    let keep = if side == 0 { keep.max(1) } else { keep };
    G { n, grid, rexp, sexp, off, ycls, mode, side, checked, keep, nout, fl, fr, salt }
}

fn strat(mode: u8, side: u8, maxn: usize) -> impl Strategy<Value = Case> {
    gparams(maxn).prop_map(move |p| build(&to_g(p, mode, side)))
}

/// strictly increasing abscissae perturbed so that at least one strict descent exists
fn strat_unsorted(maxn: usize) -> impl Strategy<Value = Case> {
    (gparams(maxn), 0u8..10, 1u8..3).prop_map(|(p, pert, mode)| {
        let g = to_g(p, mode, 0);
        let mut c = build(&g);
        let n = c.x.len();
        let pos = (Hx::new().u(g.salt).u(40).finish() % (n as u64 - 1)) as usize;
        match pert {
            // disorder that is tiny in absolute terms: the whole table scaled by 2^-70 / 2^-200 before an
            // adjacent swap, or a single descent of exactly one ulp ("strictly increasing" has no tolerance)
            6 | 7 => {
                let f = if pert == 6 { 2f64.powi(-70) } else { 2f64.powi(-200) };
                for v in c.x.iter_mut().chain(c.t.iter_mut()) {
                    *v *= f;
                }
                c.x.swap(pos, pos + 1)
            }
            8 | 9 => {
                let a = c.x[pos];
                c.x[pos + 1] = if a == 0.0 { -f64::from_bits(1) } else if a > 0.0 { f64::from_bits(a.to_bits() - 1) } else { f64::from_bits(a.to_bits() + 1) };
            }
            0 => c.x.swap(pos, pos + 1),
            1 => c.x.reverse(),
            2 => c.x.swap(n - 2, n - 1),
            3 => c.x.swap(0, 1),
            4 => c.x.rotate_left(pos + 1),
            _ => shuffle(&mut c.x, g.salt, 41),
        }
        if !c.x.windows(2).any(|w| w[1] < w[0]) {
            c.x.swap(0, 1); // a shuffle that happened to be the identity
        }
        c.checked = true;
        c
    })
}

fn strat_mismatch(maxn: usize) -> impl Strategy<Value = Case> {
    (gparams(maxn), 0u8..4, 1usize..=8, 0u8..3).prop_map(|(p, how, k, mode)| {
        let g = to_g(p, mode, 0);
        let mut c = build(&g);
        let n = c.x.len();
        let m = match how {
            0 => n + 1,
            1 => n - 1,
            2 => n + k,
            _ => n.saturating_sub(k),
        };
        c.y = build_y(&g, m);
        c.checked = true;
        c
    })
}

fn enumerated() -> Vec<Case> {
    let mut v = vec![];
    let x = vec![0.0, 1.0, 2.0, 4.0];
    let y = vec![1.0, 3.0, 2.0, -2.0];
    let targets: Vec<Vec<f64>> = vec![
        vec![0.0, 1.0, 2.0, 4.0],
        vec![0.5, 1.5, 3.0],
        vec![-1.0],
        vec![5.0],
        vec![4.0f64.next_up()],
        vec![0.0f64.next_down()],
        vec![5.0, 0.5, -1.0, 4.0],
        vec![0.5, 6.0],
        vec![],
    ];
    for mode in 0u8..3 {
        for checked in [true, false] {
            for t in &targets {
                v.push(Case { x: x.clone(), y: y.clone(), t: t.clone(), mode, fill_l: -7.0, fill_r: 9.0, checked });
                v.push(Case { x: vec![0.0, 1.0], y: vec![0.0, 1.0], t: t.clone(), mode, fill_l: -7.0, fill_r: 9.0, checked });
            }
            // a zero knot and a target zero of the other sign are the same abscissa
            for (xz, tz) in [(0.0f64, -0.0f64), (-0.0, 0.0)] {
                v.push(Case { x: vec![xz, 1.0, 2.0], y: vec![5.0, 3.0, 2.0], t: vec![tz], mode, fill_l: -7.0, fill_r: 9.0, checked });
                v.push(Case { x: vec![-2.0, -1.0, xz], y: vec![5.0, 3.0, 2.0], t: vec![tz, -1.5], mode, fill_l: -7.0, fill_r: 9.0, checked });
                v.push(Case { x: vec![-1.0, xz, 1.0], y: vec![5.0, 3.0, 2.0], t: vec![0.5, tz], mode, fill_l: -7.0, fill_r: 9.0, checked });
            }
        }
        v.push(Case { x: vec![0.0, 2.0, 1.0], y: vec![0.0, 1.0, 2.0], t: vec![0.5], mode, fill_l: 0.0, fill_r: 1.0, checked: true });
        v.push(Case { x: vec![2.0, 1.0], y: vec![0.0, 1.0], t: vec![1.5], mode, fill_l: 0.0, fill_r: 1.0, checked: true });
        v.push(Case { x: vec![0.0, 1.0, 2.0], y: vec![0.0, 1.0], t: vec![0.5], mode, fill_l: 0.0, fill_r: 1.0, checked: true });
        v.push(Case { x: vec![0.0, 1.0], y: vec![0.0, 1.0, 2.0], t: vec![0.5], mode, fill_l: 0.0, fill_r: 1.0, checked: true });
    }
    v
}

pub fn run(ctx: &mut Ctx) {
    ctx.rule = "knot sets of 2..=200 strictly increasing abscissae (unit grid, regular, random / geometric / two-scale increments with spacing \
ratio up to 1e6, scales 1e-12..1e3, five offsets) with eight ordinate classes (integers, smooth, random, exponents -199..199, plateaus with \
signed zeros, huge, tiny, saw-tooth); targets: every knot, every midpoint, +-1 ulp around first / last / interior knots, random interior points, \
and beyond the requested end(s) at one segment, 1 ulp, half a segment, 1e3 ranges and log-uniform 1e-6..1e3 ranges; one driver per mode x \
{in-range, left, right, both}; unsorted abscissae (adjacent swap, reversed, first / last pair swapped, rotated, shuffled) and mismatched lengths \
for the checked variant; non-trivial = at least 3 knots, an out-of-range target on the right and an interior non-knot target (for unsorted / \
mismatch cases: at least 3 knots); distinct by hash of (x, y, targets, mode, fill values, variant)"
        .into();
    ctx.assumptions = vec![
        "non-zero ordinates have magnitude in [1e-200, 1e200], abscissae magnitude <= 1e15, so that no intermediate of a chord evaluation over- or underflows harmfully".into(),
        "a panic of any kind counts as rejection".into(),
        "equal neighbouring abscissae are in neither quantifier (not strictly increasing, not unsorted) and are not generated".into(),
        "length mismatch is only demanded of the checked variant (the statement names only it)".into(),
        "order preservation is checked as: slot i of a mixed target list is bit-identical to the value the same target gets in a list of its own group (the function is a pure map over targets)".into(),
    ];
    for c in enumerated() {
        ctx.check_one("enumerated", &c, ck_enum);
    }
    let maxn = MAX_KNOTS;
    let n_in = ctx.scale(32_000, 400_000);
    let n_side = ctx.scale(32_000, 400_000);
    let th = 16;
    ctx.run_prop_par("Panic/in-range", n_in, th, || strat(0, 0, maxn), ck_p_in);
    ctx.run_prop_par("Panic/left", n_side, th, || strat(0, 1, maxn), ck_p_l);
    ctx.run_prop_par("Panic/right", n_side, th, || strat(0, 2, maxn), ck_p_r);
    ctx.run_prop_par("Panic/both", n_side, th, || strat(0, 3, maxn), ck_p_b);
    ctx.run_prop_par("Fill/in-range", n_in, th, || strat(1, 0, maxn), ck_f_in);
    ctx.run_prop_par("Fill/left", n_side, th, || strat(1, 1, maxn), ck_f_l);
    ctx.run_prop_par("Fill/right", n_side, th, || strat(1, 2, maxn), ck_f_r);
    ctx.run_prop_par("Fill/both", n_side, th, || strat(1, 3, maxn), ck_f_b);
    ctx.run_prop_par("Extrapolate/in-range", n_in, th, || strat(2, 0, maxn), ck_e_in);
    ctx.run_prop_par("Extrapolate/left", n_side, th, || strat(2, 1, maxn), ck_e_l);
    ctx.run_prop_par("Extrapolate/right", n_side, th, || strat(2, 2, maxn), ck_e_r);
    ctx.run_prop_par("Extrapolate/both", n_side, th, || strat(2, 3, maxn), ck_e_b);
    let n_bad = ctx.scale(16_000, 200_000);
    ctx.run_prop_par("unsorted", n_bad, th, || strat_unsorted(maxn), ck_unsorted);
    ctx.run_prop_par("mismatch", n_bad, th, || strat_mismatch(maxn), ck_mismatch);
    // coverage-guided campaign (libFuzzer, ASan) over the same decoder and oracle: thorough tier only
    if !ctx.quick() {
        crate::engine::fuzzdrv::run(
            ctx,
            crate::engine::fuzzdrv::Campaign { target: "c16", runs_per_job: 1000000, jobs: 8, max_len: 200, seeds: vec![vec![3, 2, 0, 0, 0, 0, 2, 2, 2, 9, 3, 0, 5, 7, 11, 1, 0, 1], (0u8..100).collect::<Vec<u8>>(), vec![10, 4, 3, 1, 2, 3, 4, 5, 6, 7, 0, 0, 0, 0, 15, 6, 5, 5, 6, 9, 10, 2, 4, 0]] },
        );
    }
}

pub fn replay(ctx: &mut Ctx, sub: &str, v: Value) -> Option<R> {
    const SUBS: [&str; 15] = [
        "Panic/in-range", "Panic/left", "Panic/right", "Panic/both", "Fill/in-range", "Fill/left", "Fill/right", "Fill/both",
        "Extrapolate/in-range", "Extrapolate/left", "Extrapolate/right", "Extrapolate/both", "unsorted", "mismatch", "enumerated",
    ];
    let s = SUBS.iter().find(|s| **s == sub)?;
    Some(check_as(ctx, s, &decode::<Case>(v)?))
}
