//! C03 — Samplers draw from the distribution they describe, in every parameter regime.
//!
//! Sub-check `sample` (13 univariate laws): a case is (distribution, parameters, n, bulk sizes, alea
//! seed). The library is driven on a watched worker thread: `n/2` single `sample()` calls, then
//! `sample_n(0)`, `sample_n(1)`, `sample_n(~n/4)` and `sample_matrix(r, c)` with `r·c ≈ n/4`.
//! Oracle: (i) termination — the worker publishes a counter after every completed library call; a call
//! that makes no progress for 30 s violates the termination clause (the stuck thread is detached and
//! its class is excluded for the rest of the run); (ii) no panic on valid parameters; (iii) bulk calls
//! return exactly the requested length / shape; (iv) every draw is finite, inside the (closed)
//! support, integer-valued for discrete laws and not the allocator's poison pattern; (v) the empirical
//! distribution function of all N pooled draws stays within the DKW band sqrt(ln(2/α)/(2N)),
//! α = 1e-12, of the harness's own CDF (`oracle::cdf`), evaluated on both sides of every atom.
//!
//! Sub-check `mvn`: mean + covariance (d = 1..=6, correlated, ill-matched scales); draws from
//! `sample()` and `DistributionND::sample_n` are whitened with the *oracle's* Cholesky factor; every
//! whitened coordinate and 8 pseudo-random unit projections must pass (v) against Φ.
//!
//! Only exact checks and the DKW bound are verdicts; no moment comparison.

use crate::engine::{self, catch, decode, fail, mix_seed, Ctx, Fail, Hx, R};
use crate::oracle::cdf;
use compute::distributions::{
    Bernoulli, Beta, Binomial, ChiSquared, DiscreteUniform, Distribution, Distribution1D, DistributionND, Exponential,
    Gamma, Gumbel, Normal, Pareto, Poisson, Uniform, MVN, T,
};
use compute::linalg::Matrix;
use proptest::prelude::*;
use serde::{Deserialize, Serialize};
use serde_json::{json, Value};
use std::collections::BTreeSet;
use std::sync::atomic::{AtomicU64, Ordering};
use std::sync::{mpsc, Arc, Mutex};
use std::time::{Duration, Instant};

/// DKW level per test.
const ALPHA: f64 = 1e-12;
/// Termination clause: a library call that makes no progress for this long is a violation.
const STALL: Duration = Duration::from_secs(30);
/// Upper limit of CDF evaluations per DKW test (order statistics are sub-sampled beyond it; a sub-set
/// of evaluation points can only under-estimate the supremum, so the verdict stays sound).
const MAX_EVAL: usize = 1 << 16;

/// Classes (`Dist/regime`) in which a hang was observed: excluded from further generation in this
/// process so that the search continues behind the defect.
static EXCLUDED: Mutex<BTreeSet<String>> = Mutex::new(BTreeSet::new());

fn band(n: usize) -> f64 {
    ((2.0 / ALPHA).ln() / (2.0 * n as f64)).sqrt()
}

// ---------------------------------------------------------------------------------------------
// watched execution

enum Watched<T> {
    Done(T),
    Panicked(String),
    Hung { progress: u64 },
}

/// Run `f` on a detached worker thread. `f` bumps the counter after every completed library call.
/// If the counter stands still for `STALL` the worker is abandoned (it can never block process exit:
/// it is not joined and `main` ends with `process::exit`).
fn watched<T: Send + 'static>(f: impl FnOnce(&AtomicU64) -> T + Send + 'static) -> Watched<T> {
    let prog = Arc::new(AtomicU64::new(0));
    let p2 = prog.clone();
    let (tx, rx) = mpsc::channel::<Result<T, String>>();
    let h = std::thread::Builder::new().name("c03-sampler".into()).spawn(move || {
        let r = catch(|| f(&p2));
        let _ = tx.send(r);
    });
    if let Err(e) = h {
        return Watched::Panicked(format!("harness: cannot spawn sampler thread: {}", e));
    }
    let mut last = 0u64;
    let mut since = Instant::now();
    loop {
        match rx.recv_timeout(Duration::from_millis(200)) {
            Ok(Ok(v)) => return Watched::Done(v),
            Ok(Err(msg)) => return Watched::Panicked(msg),
            Err(mpsc::RecvTimeoutError::Timeout) => {
                let p = prog.load(Ordering::SeqCst);
                if p != last {
                    last = p;
                    since = Instant::now();
                } else if since.elapsed() >= STALL {
                    return Watched::Hung { progress: p };
                }
            }
            Err(mpsc::RecvTimeoutError::Disconnected) => {
                return Watched::Panicked("harness: sampler thread vanished".into());
            }
        }
    }
}

// ---------------------------------------------------------------------------------------------
// DKW

struct Sup {
    d: f64,
    x: f64,
    fn_: f64,
    f: f64,
    side: &'static str,
}

fn next_up(x: f64) -> f64 {
    if x.is_nan() || x == f64::INFINITY {
        x
    } else if x == 0.0 {
        f64::from_bits(1)
    } else if x > 0.0 {
        f64::from_bits(x.to_bits() + 1)
    } else {
        f64::from_bits(x.to_bits() - 1)
    }
}

/// `x` moved by `k` representable numbers (k < 0: downwards).
fn ulps(x: f64, k: i32) -> f64 {
    let mut y = x;
    for _ in 0..k.abs() {
        y = if k > 0 { next_up(y) } else { -next_up(-y) };
    }
    y
}

/// Number of ulps by which a correctly implemented sampler's returned double may differ from the
/// exact real-valued draw (e.g. x/(x+y) in the beta sampler: two roundings, 1 ulp; the same slack
/// as in the support test).
const ROUND_ULPS: i32 = 4;

/// distance from `x` to the interval [a, b]
fn dist(x: f64, a: f64, b: f64) -> f64 {
    if x.is_nan() || a.is_nan() || b.is_nan() {
        return f64::NAN;
    }
    (a - x).max(x - b).max(0.0)
}

/// sup_x |F_n(x) − F(x)| over the runs of equal values of `sorted` (at most ~MAX_EVAL of them):
/// at a value v with `lo` draws below and `hi` draws at or below it, F_n(v) = hi/n is compared with
/// F(v) and F_n(v−) = lo/n with F(v−). Between sample points F_n is constant and F monotone, so the
/// supremum over the real line is attained at these one-sided limits.
///
/// `continuous`: the law has a density and the draws are real numbers *rounded to doubles*. The DKW
/// inequality then holds for the law G of the rounded variable, about which we know
/// G(v) ∈ [F(v), F(v + k ulp)] and G(v−) ∈ [F(v − k ulp), F(v)]; the deviation is measured to these
/// intervals. This only matters where F moves visibly within an ulp: Beta(0.05, 0.05) has 7.8 % of its
/// mass within half an ulp of 1.0, and any double-valued sampler must return exactly 1.0 that often.
fn dkw_sup(sorted: &[f64], f: &dyn Fn(f64) -> f64, f_left: &dyn Fn(f64) -> f64, continuous: bool) -> Sup {
    let n = sorted.len();
    let nf = n as f64;
    let stride = (n / MAX_EVAL).max(1);
    let mut best = Sup { d: 0.0, x: f64::NAN, fn_: 0.0, f: 0.0, side: "" };
    let mut idx = 0usize;
    while idx < n {
        let v = sorted[idx];
        let lo = sorted.partition_point(|&y| y < v);
        let hi = sorted.partition_point(|&y| y <= v);
        let (e_hi, e_lo) = (hi as f64 / nf, lo as f64 / nf);
        let fr = f(v);
        let fl = f_left(v);
        let mut d_hi = (e_hi - fr).abs();
        let mut d_lo = (e_lo - fl).abs();
        let (mut f_hi, mut f_lo) = (fr, fl);
        if continuous && (d_hi > best.d || d_lo > best.d) {
            // refine only where it can change the maximum (the interval distance is never larger)
            let fp = f(ulps(v, ROUND_ULPS));
            let fm = f(ulps(v, -ROUND_ULPS));
            d_hi = dist(e_hi, fr, fp);
            d_lo = dist(e_lo, fm, fl);
            f_hi = if e_hi > fp { fp } else { fr };
            f_lo = if e_lo < fm { fm } else { fl };
        }
        if d_hi > best.d || d_hi.is_nan() {
            best = Sup { d: d_hi, x: v, fn_: e_hi, f: f_hi, side: "at" };
        }
        if d_lo > best.d || d_lo.is_nan() {
            best = Sup { d: d_lo, x: v, fn_: e_lo, f: f_lo, side: "just below" };
        }
        if best.d.is_nan() {
            return best;
        }
        if hi >= n {
            break;
        }
        // next evaluation point; the largest value is always included
        idx = (idx + stride).max(hi).min(n - 1);
    }
    best
}

// ---------------------------------------------------------------------------------------------
// univariate laws

#[derive(Clone, Debug, Serialize, Deserialize)]
pub struct Case {
    /// distribution name as exported by the library
    pub dist: String,
    /// constructor arguments in order (integers as exactly representable floats)
    pub params: Vec<f64>,
    /// number of single `sample()` calls
    pub n: usize,
    /// sizes passed to `sample_n`
    pub bulk: Vec<usize>,
    /// shapes passed to `sample_matrix`
    pub mats: Vec<[usize; 2]>,
    /// alea seed, set in the sampling thread right before the first draw
    pub seed: u64,
}

#[derive(Clone, Copy, Debug)]
enum Law {
    Normal { mu: f64, sigma: f64 },
    Gamma { a: f64, rate: f64 },
    Beta { a: f64, b: f64 },
    Chi2 { dof: usize },
    T { dof: f64 },
    Poisson { lam: f64 },
    Binomial { n: u64, p: f64 },
    Exp { rate: f64 },
    Gumbel { mu: f64, beta: f64 },
    Pareto { alpha: f64, minval: f64 },
    Uniform { lo: f64, hi: f64 },
    DUniform { lo: i64, hi: i64 },
    Bernoulli { p: f64 },
}

fn is_int(x: f64, lo: f64, hi: f64) -> bool {
    x.is_finite() && x.fract() == 0.0 && x >= lo && x <= hi
}

/// Decode and validate against the constructors' documented domains (and the ranges in which the
/// oracle CDFs are verified); `None` = outside the quantifier.
fn law_of(c: &Case) -> Option<Law> {
    let p = &c.params;
    if p.iter().any(|x| !x.is_finite()) {
        return None;
    }
    let pos = |x: f64| x > 0.0;
    Some(match (c.dist.as_str(), p.len()) {
        ("Normal", 2) if p[1] >= 0.0 => Law::Normal { mu: p[0], sigma: p[1] },
        ("Gamma", 2) if pos(p[0]) && pos(p[1]) && p[0] <= 1e6 => Law::Gamma { a: p[0], rate: p[1] },
        ("Beta", 2) if pos(p[0]) && pos(p[1]) && p[0] <= 1e6 && p[1] <= 1e6 => Law::Beta { a: p[0], b: p[1] },
        ("ChiSquared", 1) if is_int(p[0], 1.0, 1e6) => Law::Chi2 { dof: p[0] as usize },
        ("T", 1) if pos(p[0]) && p[0] <= 1e6 => Law::T { dof: p[0] },
        ("Poisson", 1) if pos(p[0]) && p[0] <= 1e7 => Law::Poisson { lam: p[0] },
        ("Binomial", 2) if is_int(p[0], 0.0, 1e7) && (0.0..=1.0).contains(&p[1]) => Law::Binomial { n: p[0] as u64, p: p[1] },
        ("Exponential", 1) if pos(p[0]) => Law::Exp { rate: p[0] },
        ("Gumbel", 2) if pos(p[1]) => Law::Gumbel { mu: p[0], beta: p[1] },
        ("Pareto", 2) if pos(p[0]) && pos(p[1]) => Law::Pareto { alpha: p[0], minval: p[1] },
        ("Uniform", 2) if p[0] <= p[1] => Law::Uniform { lo: p[0], hi: p[1] },
        ("DiscreteUniform", 2) if is_int(p[0], -1e15, 1e15) && is_int(p[1], -1e15, 1e15) && p[0] <= p[1] => {
            Law::DUniform { lo: p[0] as i64, hi: p[1] as i64 }
        }
        ("Bernoulli", 1) if (0.0..=1.0).contains(&p[0]) => Law::Bernoulli { p: p[0] },
        _ => return None,
    })
}

fn shape_regime(m: f64) -> &'static str {
    if m < 1.0 / 3.0 {
        "shape<1/3"
    } else if m < 1.0 {
        "shape<1"
    } else {
        "shape>=1"
    }
}

impl Law {
    fn name(&self) -> &'static str {
        match self {
            Law::Normal { .. } => "Normal",
            Law::Gamma { .. } => "Gamma",
            Law::Beta { .. } => "Beta",
            Law::Chi2 { .. } => "ChiSquared",
            Law::T { .. } => "T",
            Law::Poisson { .. } => "Poisson",
            Law::Binomial { .. } => "Binomial",
            Law::Exp { .. } => "Exponential",
            Law::Gumbel { .. } => "Gumbel",
            Law::Pareto { .. } => "Pareto",
            Law::Uniform { .. } => "Uniform",
            Law::DUniform { .. } => "DiscreteUniform",
            Law::Bernoulli { .. } => "Bernoulli",
        }
    }

    /// Algorithm branch / parameter regime; part of the failure signature.
    fn regime(&self) -> &'static str {
        match *self {
            Law::Normal { sigma, .. } => {
                if sigma == 0.0 {
                    "sigma=0"
                } else {
                    "sigma>0"
                }
            }
            Law::Gamma { a, .. } => shape_regime(a),
            Law::Beta { a, b } => shape_regime(a.min(b)),
            Law::Chi2 { dof } => {
                if dof == 1 {
                    "dof=1"
                } else {
                    "dof>=2"
                }
            }
            Law::T { dof } => {
                if dof < 2.0 / 3.0 {
                    "dof<2/3"
                } else if dof < 2.0 {
                    "dof<2"
                } else {
                    "dof>=2"
                }
            }
            Law::Poisson { lam } => {
                if lam < 10.0 {
                    "rate<10"
                } else if lam < 100.0 {
                    "10<=rate<100"
                } else {
                    "rate>=100"
                }
            }
            Law::Binomial { n, p } => {
                if n == 0 || p == 0.0 || p == 1.0 {
                    "degenerate"
                } else {
                    let flip = p > 0.5;
                    let q = if flip { 1.0 - p } else { p };
                    match (q * n as f64 <= 30.0, flip) {
                        (true, false) => "np<=30",
                        (true, true) => "np<=30,p>0.5",
                        (false, false) => "np>30",
                        (false, true) => "np>30,p>0.5",
                    }
                }
            }
            Law::Exp { .. } => "rate>0",
            Law::Gumbel { .. } => "any",
            Law::Pareto { .. } => "any",
            Law::Uniform { lo, hi } => {
                if lo == hi {
                    "equal-bounds"
                } else {
                    "proper"
                }
            }
            Law::DUniform { lo, hi } => {
                if lo == hi {
                    "equal-bounds"
                } else {
                    "proper"
                }
            }
            Law::Bernoulli { p } => {
                if p == 0.0 || p == 1.0 {
                    "degenerate"
                } else {
                    "0<p<1"
                }
            }
        }
    }

    fn class(&self) -> String {
        let extra = match *self {
            Law::Beta { a, b } => match ((a < 1.0) as u8) + ((b < 1.0) as u8) {
                0 => ",none<1",
                1 => ",one<1",
                _ => ",both<1",
            },
            Law::Poisson { lam } if lam >= 1000.0 => ",rate>=1000",
            Law::Binomial { n: 0, .. } => ",n=0",
            Law::Binomial { p, .. } if p == 0.0 => ",p=0",
            Law::Binomial { p, .. } if p == 1.0 => ",p=1",
            Law::Bernoulli { p } if p == 0.0 => ",p=0",
            Law::Bernoulli { p } if p == 1.0 => ",p=1",
            _ => "",
        };
        format!("{}/{}{}", self.name(), self.regime(), extra)
    }

    fn key(&self) -> String {
        format!("{}/{}", self.name(), self.regime())
    }

    /// Non-trivial = a branch other than the one containing the parameters of the library's own moment
    /// tests, a degenerate/boundary point, or a law without any sampler test (Gumbel).
    fn nontrivial(&self) -> bool {
        !matches!(
            (self.name(), self.regime()),
            ("Normal", "sigma>0")
                | ("Gamma", "shape>=1")
                | ("Beta", "shape>=1")
                | ("ChiSquared", "dof>=2")
                | ("T", "dof>=2")
                | ("Poisson", "rate<10")
                | ("Poisson", "10<=rate<100")
                | ("Binomial", "np<=30")
                | ("Binomial", "np>30")
                | ("Exponential", _)
                | ("Pareto", _)
                | ("Uniform", "proper")
                | ("DiscreteUniform", "proper")
                | ("Bernoulli", "0<p<1")
        )
    }

    fn discrete(&self) -> bool {
        matches!(self, Law::Poisson { .. } | Law::Binomial { .. } | Law::DUniform { .. } | Law::Bernoulli { .. })
    }

    fn cdf(&self, x: f64) -> f64 {
        match *self {
            Law::Normal { mu, sigma } => cdf::normal_cdf(mu, sigma, x),
            Law::Gamma { a, rate } => cdf::gamma_cdf(a, rate, x),
            Law::Beta { a, b } => cdf::beta_cdf(a, b, x),
            Law::Chi2 { dof } => cdf::chi2_cdf(dof as f64, x),
            Law::T { dof } => cdf::t_cdf(dof, x),
            Law::Poisson { lam } => cdf::poisson_cdf(lam, x),
            Law::Binomial { n, p } => cdf::binom_cdf(n as f64, p, x),
            Law::Exp { rate } => cdf::exp_cdf(rate, x),
            Law::Gumbel { mu, beta } => cdf::gumbel_cdf(mu, beta, x),
            Law::Pareto { alpha, minval } => cdf::pareto_cdf(alpha, minval, x),
            Law::Uniform { lo, hi } => cdf::uniform_cdf(lo, hi, x),
            Law::DUniform { lo, hi } => cdf::duniform_cdf(lo as f64, hi as f64, x),
            Law::Bernoulli { p } => cdf::bernoulli_cdf(p, x),
        }
    }

    /// F with the per-distribution constants (ln Γ(a), ln B(a,b)) computed once.
    fn cdf_fn(&self) -> Box<dyn Fn(f64) -> f64> {
        match *self {
            Law::Gamma { a, rate } => {
                let lga = cdf::lgam(a);
                Box::new(move |x| cdf::gamma_cdf_lg(a, rate, x, lga))
            }
            Law::Chi2 { dof } => {
                let a = 0.5 * dof as f64;
                let lga = cdf::lgam(a);
                Box::new(move |x| cdf::gamma_cdf_lg(a, 0.5, x, lga))
            }
            Law::Beta { a, b } => {
                let lb = cdf::lbeta(a, b);
                Box::new(move |x| cdf::beta_cdf_lb(a, b, x, lb))
            }
            Law::T { dof } => {
                let lb = cdf::lbeta(0.5 * dof, 0.5);
                Box::new(move |x| cdf::t_cdf_lb(dof, x, lb))
            }
            law => Box::new(move |x| law.cdf(x)),
        }
    }

    /// The law is absolutely continuous (no atoms).
    fn has_density(&self) -> bool {
        match *self {
            Law::Normal { sigma, .. } => sigma > 0.0,
            Law::Uniform { lo, hi } => lo < hi,
            _ => !self.discrete(),
        }
    }

    /// F(x−), the limit from the left.
    fn cdf_left(&self, x: f64) -> f64 {
        match *self {
            Law::Normal { mu, sigma } if sigma == 0.0 => {
                if x > mu {
                    1.0
                } else {
                    0.0
                }
            }
            Law::Uniform { lo, hi } if lo == hi => {
                if x > lo {
                    1.0
                } else {
                    0.0
                }
            }
            _ if self.discrete() => self.cdf(x - 1.0), // draws are verified to be integers first
            _ => self.cdf(x),
        }
    }

    /// Closed support; a few ulps of slack where a correctly rounded inverse-CDF formula may land on
    /// or marginally beyond the boundary.
    fn in_support(&self, x: f64) -> bool {
        if !x.is_finite() {
            return false;
        }
        const E: f64 = 4.0 * f64::EPSILON;
        match *self {
            Law::Normal { mu, sigma } => sigma > 0.0 || x == mu,
            Law::Gamma { .. } | Law::Chi2 { .. } | Law::Exp { .. } => x >= 0.0,
            Law::Beta { .. } => (0.0..=1.0).contains(&x),
            Law::T { .. } | Law::Gumbel { .. } => true,
            Law::Pareto { minval, .. } => x >= minval * (1.0 - E),
            Law::Uniform { lo, hi } => {
                let s = E * lo.abs().max(hi.abs());
                x >= lo - s && x <= hi + s
            }
            Law::Poisson { .. } => x >= 0.0 && x.fract() == 0.0,
            Law::Binomial { n, .. } => x >= 0.0 && x <= n as f64 && x.fract() == 0.0,
            Law::DUniform { lo, hi } => x >= lo as f64 && x <= hi as f64 && x.fract() == 0.0,
            Law::Bernoulli { .. } => x == 0.0 || x == 1.0,
        }
    }

    fn support_text(&self) -> String {
        match *self {
            Law::Normal { mu, sigma } if sigma == 0.0 => format!("{{{}}}", mu),
            Law::Normal { .. } | Law::T { .. } | Law::Gumbel { .. } => "the finite reals".into(),
            Law::Gamma { .. } | Law::Chi2 { .. } | Law::Exp { .. } => "[0, inf)".into(),
            Law::Beta { .. } => "[0, 1]".into(),
            Law::Pareto { minval, .. } => format!("[{}, inf)", minval),
            Law::Uniform { lo, hi } => format!("[{}, {}]", lo, hi),
            Law::Poisson { .. } => "the non-negative integers".into(),
            Law::Binomial { n, .. } => format!("the integers 0..={}", n),
            Law::DUniform { lo, hi } => format!("the integers {}..={}", lo, hi),
            Law::Bernoulli { .. } => "{0, 1}".into(),
        }
    }
}

/// What came back from the library for one case.
struct Sampled {
    /// all draws pooled: singles, then every `sample_n` result, then every matrix (row-major data)
    pool: Vec<f64>,
    /// (requested, returned) lengths of the `sample_n` calls
    bulk: Vec<(usize, usize)>,
    /// (requested rows, cols, returned nrows, ncols, data length)
    mats: Vec<(usize, usize, usize, usize, usize)>,
}

fn drive<D: Distribution1D>(d: &D, c: &Case, prog: &AtomicU64) -> Sampled {
    let total = c.n + c.bulk.iter().sum::<usize>() + c.mats.iter().map(|m| m[0] * m[1]).sum::<usize>();
    let mut pool = Vec::with_capacity(total);
    let mut done = 0u64;
    for _ in 0..c.n {
        pool.push(d.sample());
        done += 1;
        prog.store(done, Ordering::Relaxed);
    }
    let mut bulk = vec![];
    for &k in &c.bulk {
        let v = d.sample_n(k);
        bulk.push((k, v.len()));
        pool.extend_from_slice(&v);
        done += 1;
        prog.store(done, Ordering::Relaxed);
    }
    let mut mats = vec![];
    for m in &c.mats {
        let x = d.sample_matrix(m[0], m[1]);
        mats.push((m[0], m[1], x.nrows, x.ncols, x.data.len()));
        pool.extend_from_slice(&x.data);
        done += 1;
        prog.store(done, Ordering::Relaxed);
    }
    Sampled { pool, bulk, mats }
}

/// The only place that touches the library for sub-check `sample` (runs on the watched thread).
fn sample_all(law: Law, c: &Case, prog: &AtomicU64) -> Sampled {
    alea::set_seed(c.seed);
    // "Every valid parameter setting" includes settings reached by re-parameterising an existing object: for
    // odd seeds the object is first built with other valid parameters and then moved to the case's parameters
    // by a bulk `update` (a sampler that caches anything derived from its parameters must refresh it).
    let via_update = c.seed & 1 == 1;
    macro_rules! go {
        ($start:expr, $direct:expr, [$($p:expr),+]) => {{
            if via_update {
                let mut d = $start;
                d.update(&[$($p as f64),+]);
                drive(&d, c, prog)
            } else {
                drive(&$direct, c, prog)
            }
        }};
    }
    match law {
        Law::Normal { mu, sigma } => go!(Normal::new(-3.0, 2.5), Normal::new(mu, sigma), [mu, sigma]),
        Law::Gamma { a, rate } => go!(Gamma::new(3.5, 0.75), Gamma::new(a, rate), [a, rate]),
        Law::Beta { a, b } => go!(Beta::new(2.5, 1.75), Beta::new(a, b), [a, b]),
        Law::Chi2 { dof } => go!(ChiSquared::new(7), ChiSquared::new(dof), [dof]),
        Law::T { dof } => go!(T::new(7.5), T::new(dof), [dof]),
        Law::Poisson { lam } => go!(Poisson::new(50.0), Poisson::new(lam), [lam]),
        Law::Binomial { n, p } => go!(Binomial::new(23, 0.3), Binomial::new(n, p), [n, p]),
        Law::Exp { rate } => go!(Exponential::new(0.25), Exponential::new(rate), [rate]),
        Law::Gumbel { mu, beta } => go!(Gumbel::new(2.0, 3.5), Gumbel::new(mu, beta), [mu, beta]),
        Law::Pareto { alpha, minval } => go!(Pareto::new(3.5, 0.25), Pareto::new(alpha, minval), [alpha, minval]),
        Law::Uniform { lo, hi } => go!(Uniform::new(-4.0, 9.0), Uniform::new(lo, hi), [lo, hi]),
        Law::DUniform { lo, hi } => go!(DiscreteUniform::new(-4, 9), DiscreteUniform::new(lo, hi), [lo, hi]),
        Law::Bernoulli { p } => go!(Bernoulli::new(0.3), Bernoulli::new(p), [p]),
    }
}

/// Result of evaluating one case away from the `Ctx` (worker threads).
pub struct Outcome {
    res: R,
    /// class key `Dist/regime`, empty when the case is outside the quantifier
    key: String,
    class: String,
    nontrivial: bool,
    hang: bool,
    /// (name, observed / bound)
    ratios: Vec<(String, f64)>,
}

fn describe(c: &Case) -> String {
    format!("{}({}) seed {}", c.dist, c.params.iter().map(|x| format!("{}", x)).collect::<Vec<_>>().join(", "), c.seed)
}

fn eval(c: &Case) -> Outcome {
    let law = match law_of(c) {
        Some(l) => l,
        None => return Outcome { res: Ok(()), key: String::new(), class: String::new(), nontrivial: false, hang: false, ratios: vec![] },
    };
    let mut out = Outcome { res: Ok(()), key: law.key(), class: law.class(), nontrivial: law.nontrivial(), hang: false, ratios: vec![] };
    let r = eval_law(law, c, &mut out);
    out.res = r;
    out
}

fn eval_law(law: Law, c: &Case, out: &mut Outcome) -> R {
    let sig = |k: &str| format!("C03/{}/{}/{}", law.name(), law.regime(), k);
    let cc = c.clone();
    let s = match watched(move |prog| sample_all(law, &cc, prog)) {
        Watched::Done(s) => s,
        Watched::Panicked(msg) => {
            return fail(sig("panic"), format!("{}: constructing or sampling with valid parameters panicked: {}", describe(c), msg));
        }
        Watched::Hung { progress } => {
            out.hang = true;
            let which = if (progress as usize) < c.n {
                format!("sample() call #{}", progress + 1)
            } else {
                format!("bulk call #{} (after {} single draws)", progress as usize - c.n + 1, c.n)
            };
            return fail(
                sig("hang"),
                format!("{}: {} made no progress for {} s after {} completed calls — sampling does not terminate", describe(c), which, STALL.as_secs(), progress),
            );
        }
    };
    // bulk sampling: exactly the requested number and shape
    for &(want, got) in &s.bulk {
        ensure!(want == got, sig("bulk-shape"), "{}: sample_n({}) returned {} draws", describe(c), want, got);
    }
    for &(r, k, nr, nc, len) in &s.mats {
        ensure!(
            nr == r && nc == k && len == r * k,
            sig("bulk-shape"),
            "{}: sample_matrix({}, {}) returned a {}x{} matrix holding {} values",
            describe(c), r, k, nr, nc, len
        );
    }
    // support
    let mut pool = s.pool;
    for (i, &x) in pool.iter().enumerate() {
        let origin = || {
            if i < c.n {
                format!("sample() draw #{}", i + 1)
            } else {
                format!("bulk draw at pooled index {}", i)
            }
        };
        ensure!(!engine::alloc::is_poison(x), sig("support"), "{}: {} is an unwritten (poison-pattern) slot", describe(c), origin());
        ensure!(law.in_support(x), sig("support"), "{}: {} = {:e} lies outside the support {}", describe(c), origin(), x, law.support_text());
    }
    let n = pool.len();
    if n == 0 {
        return Ok(());
    }
    pool.sort_unstable_by(|a, b| a.partial_cmp(b).unwrap());
    let f = law.cdf_fn();
    let sup = if law.has_density() {
        dkw_sup(&pool, &*f, &*f, true)
    } else {
        dkw_sup(&pool, &*f, &|x| law.cdf_left(x), false)
    };
    let eps = band(n);
    if sup.d.is_nan() {
        // the oracle, not the library, failed (continued fraction did not converge): never a verdict
        engine::INCONCLUSIVE.store(1, Ordering::SeqCst);
        engine::report(&format!("INCONCLUSIVE property=C03 oracle CDF returned NaN for {} at x = {:e}", describe(c), sup.x));
        return Ok(());
    }
    out.ratios.push((format!("dkw/{}", law.key()), sup.d / eps));
    ensure!(
        sup.d <= eps,
        sig("dkw"),
        "{}: sup|F_n - F| = {:.5} > DKW band {:.5} (alpha = 1e-12, N = {} pooled draws: {} sample(), sample_n{:?}, sample_matrix{:?}); {} x = {:e}: F_n = {:.6}, F = {:.6}",
        describe(c), sup.d, eps, n, c.n, c.bulk, c.mats, sup.side, sup.x, sup.fn_, sup.f
    );
    Ok(())
}

fn account(ctx: &mut Ctx, sub: &str, class: &str, nontrivial: bool, hash: u64, o: &Outcome) {
    ctx.case(sub, class, nontrivial, hash);
    for (k, v) in &o.ratios {
        ctx.worst(k, *v);
    }
    if o.hang {
        EXCLUDED.lock().unwrap().insert(o.key.clone());
    }
}

/// Oracle entry for one univariate case (replay, regression replay).
pub fn check(ctx: &mut Ctx, c: &Case) -> R {
    let o = eval(c);
    if o.key.is_empty() {
        return Ok(()); // outside the quantifier (hand-edited replay files only)
    }
    account(ctx, "sample", &o.class, o.nontrivial, Hx::new().json(c).finish(), &o);
    ctx.sample("sample", || json!(c));
    o.res
}

// ---------------------------------------------------------------------------------------------
// multivariate normal

#[derive(Clone, Debug, Serialize, Deserialize)]
pub struct MvnCase {
    pub d: usize,
    pub mean: Vec<f64>,
    /// requested covariance, row-major d×d, exactly symmetric
    pub cov: Vec<f64>,
    /// number of single `sample()` calls
    pub n: usize,
    /// rows requested from `DistributionND::sample_n`
    pub bulk: usize,
    pub seed: u64,
    /// label only: how the covariance was constructed
    pub kind: String,
}

/// Lower Cholesky factor of `cov` computed on the correlation matrix (so that ill-matched scales do
/// not matter); `None` if the matrix is not safely positive definite.
fn oracle_chol(d: usize, cov: &[f64]) -> Option<Vec<f64>> {
    let s: Vec<f64> = (0..d).map(|i| cov[i * d + i].sqrt()).collect();
    if s.iter().any(|x| !(x.is_finite() && *x > 0.0)) {
        return None;
    }
    let mut l = vec![0.0; d * d];
    for i in 0..d {
        for j in 0..=i {
            let mut acc = cov[i * d + j] / (s[i] * s[j]);
            for k in 0..j {
                acc -= l[i * d + k] * l[j * d + k];
            }
            if i == j {
                if !(acc > 1e-6) {
                    return None;
                }
                l[i * d + j] = acc.sqrt();
            } else {
                l[i * d + j] = acc / l[j * d + j];
            }
        }
    }
    for i in 0..d {
        for j in 0..=i {
            l[i * d + j] *= s[i];
        }
    }
    Some(l)
}

struct MvnSampled {
    /// all rows, d values each
    rows: Vec<f64>,
    /// lengths of the vectors returned by `sample()` that differed from d (first one)
    bad_len: Option<usize>,
    bulk_shape: (usize, usize, usize),
}

fn mvn_sample_all(c: &MvnCase, prog: &AtomicU64) -> MvnSampled {
    alea::set_seed(c.seed);
    let d = c.d;
    let mvn = MVN::new(c.mean.clone(), Matrix::new(c.cov.clone(), d as i32, d as i32));
    let mut rows = Vec::with_capacity((c.n + c.bulk) * d);
    let mut bad_len = None;
    let mut done = 0u64;
    for _ in 0..c.n {
        let v = mvn.sample();
        if v.len() != d && bad_len.is_none() {
            bad_len = Some(v.len());
        }
        rows.extend_from_slice(&v);
        done += 1;
        prog.store(done, Ordering::Relaxed);
    }
    let m = DistributionND::sample_n(&mvn, c.bulk);
    let bulk_shape = (m.nrows, m.ncols, m.data.len());
    rows.extend_from_slice(&m.data);
    prog.store(done + 1, Ordering::Relaxed);
    MvnSampled { rows, bad_len, bulk_shape }
}

fn mvn_valid(c: &MvnCase) -> Option<Vec<f64>> {
    let d = c.d;
    if d == 0 || d > 16 || c.mean.len() != d || c.cov.len() != d * d {
        return None;
    }
    if c.mean.iter().chain(c.cov.iter()).any(|x| !x.is_finite()) {
        return None;
    }
    for i in 0..d {
        for j in 0..i {
            if c.cov[i * d + j] != c.cov[j * d + i] {
                return None;
            }
        }
    }
    oracle_chol(d, &c.cov)
}

fn mvn_regime(d: usize) -> &'static str {
    if d == 1 {
        "d=1"
    } else {
        "d>=2"
    }
}

const N_PROJ: usize = 8;

fn eval_mvn(c: &MvnCase) -> Outcome {
    let l = match mvn_valid(c) {
        Some(l) => l,
        None => return Outcome { res: Ok(()), key: String::new(), class: String::new(), nontrivial: false, hang: false, ratios: vec![] },
    };
    let regime = mvn_regime(c.d);
    let mut out = Outcome {
        res: Ok(()),
        key: format!("MVN/{}", regime),
        class: format!("MVN/d={}/{}", c.d, c.kind),
        nontrivial: c.d >= 2,
        hang: false,
        ratios: vec![],
    };
    let r = eval_mvn_inner(c, &l, &mut out);
    out.res = r;
    out
}

fn eval_mvn_inner(c: &MvnCase, l: &[f64], out: &mut Outcome) -> R {
    let d = c.d;
    let sig = |k: &str| format!("C03/MVN/{}/{}", mvn_regime(d), k);
    let desc = format!("MVN d={} ({}) mean {:?} cov {:?} seed {}", d, c.kind, c.mean, c.cov, c.seed);
    let cc = c.clone();
    let s = match watched(move |prog| mvn_sample_all(&cc, prog)) {
        Watched::Done(s) => s,
        Watched::Panicked(msg) => return fail(sig("panic"), format!("{}: constructing or sampling panicked: {}", desc, msg)),
        Watched::Hung { progress } => {
            out.hang = true;
            return fail(sig("hang"), format!("{}: no progress for {} s after {} completed calls — sampling does not terminate", desc, STALL.as_secs(), progress));
        }
    };
    if let Some(k) = s.bad_len {
        return fail(sig("bulk-shape"), format!("{}: sample() returned a vector of length {}", desc, k));
    }
    ensure!(
        s.bulk_shape == (c.bulk, d, c.bulk * d),
        sig("bulk-shape"),
        "{}: DistributionND::sample_n({}) returned a {}x{} matrix holding {} values, expected {}x{}",
        desc, c.bulk, s.bulk_shape.0, s.bulk_shape.1, s.bulk_shape.2, c.bulk, d
    );
    let n = c.n + c.bulk;
    for (i, &x) in s.rows.iter().enumerate() {
        ensure!(
            x.is_finite() && !engine::alloc::is_poison(x),
            sig("support"),
            "{}: draw #{} coordinate {} = {:e} is not a finite written value",
            desc, i / d + 1, i % d, x
        );
    }
    if n == 0 {
        return Ok(());
    }
    // whiten with the oracle's factor: z = L^{-1} (x − mean)
    let mut z = vec![0.0; n * d];
    for r in 0..n {
        for i in 0..d {
            let mut acc = s.rows[r * d + i] - c.mean[i];
            for k in 0..i {
                acc -= l[i * d + k] * z[r * d + k];
            }
            z[r * d + i] = acc / l[i * d + i];
        }
    }
    let eps = band(n);
    let phi = |x: f64| cdf::norm_cdf(x);
    let mut col = vec![0.0; n];
    for i in 0..d {
        for r in 0..n {
            col[r] = z[r * d + i];
        }
        col.sort_unstable_by(|a, b| a.partial_cmp(b).unwrap());
        let sup = dkw_sup(&col, &phi, &phi, true);
        out.ratios.push(("dkw/MVN/whitened-coord".into(), sup.d / eps));
        ensure!(
            sup.d <= eps,
            sig("whitened-coord"),
            "{}: whitened coordinate {} is not standard normal: sup|F_n - Phi| = {:.5} > DKW band {:.5} (N = {}); at z = {:.4}: F_n = {:.6}, Phi = {:.6}",
            desc, i, sup.d, eps, n, sup.x, sup.fn_, sup.f
        );
    }
    if d >= 2 {
        for k in 0..N_PROJ {
            // deterministic pseudo-random unit vector
            let mut u: Vec<f64> = (0..d)
                .map(|i| (mix_seed(c.seed, "C03/proj", (k * d + i) as u64) >> 11) as f64 / (1u64 << 53) as f64 * 2.0 - 1.0)
                .collect();
            let nrm = u.iter().map(|x| x * x).sum::<f64>().sqrt();
            if !(nrm > 1e-3) {
                continue;
            }
            u.iter_mut().for_each(|x| *x /= nrm);
            for r in 0..n {
                col[r] = (0..d).map(|i| u[i] * z[r * d + i]).sum();
            }
            col.sort_unstable_by(|a, b| a.partial_cmp(b).unwrap());
            let sup = dkw_sup(&col, &phi, &phi, true);
            out.ratios.push(("dkw/MVN/projection".into(), sup.d / eps));
            ensure!(
                sup.d <= eps,
                sig("projection"),
                "{}: projection of the whitened draws on u = {:?} is not standard normal: sup|F_n - Phi| = {:.5} > DKW band {:.5} (N = {}); at {:.4}: F_n = {:.6}, Phi = {:.6}",
                desc, u, sup.d, eps, n, sup.x, sup.fn_, sup.f
            );
        }
    }
    Ok(())
}

pub fn check_mvn(ctx: &mut Ctx, c: &MvnCase) -> R {
    let o = eval_mvn(c);
    if o.key.is_empty() {
        return Ok(());
    }
    account(ctx, "mvn", &o.class, o.nontrivial, Hx::new().json(c).finish(), &o);
    ctx.sample("mvn", || json!(c));
    o.res
}

// ---------------------------------------------------------------------------------------------
// generators

/// Round to 4 significant digits (readable replay files); exact decimal → nearest double.
fn r4(x: f64) -> f64 {
    if x == 0.0 || !x.is_finite() {
        return x;
    }
    format!("{:.3e}", x).parse::<f64>().unwrap_or(x)
}

/// log-uniform in [lo, hi]
fn lu(u: f64, lo: f64, hi: f64) -> f64 {
    r4(lo * (hi / lo).powf(u)).max(lo).min(hi)
}

/// (distribution, regime index) pairs the random generator chooses from uniformly.
const GEN: &[(&str, u8)] = &[
    ("Normal", 0), ("Normal", 1),
    ("Gamma", 0), ("Gamma", 1), ("Gamma", 2),
    ("Beta", 0), ("Beta", 1), ("Beta", 2), ("Beta", 3), ("Beta", 4), ("Beta", 5),
    ("ChiSquared", 0), ("ChiSquared", 1),
    ("T", 0), ("T", 1), ("T", 2),
    ("Poisson", 0), ("Poisson", 1), ("Poisson", 2), ("Poisson", 2),
    ("Binomial", 0), ("Binomial", 1), ("Binomial", 2), ("Binomial", 3), ("Binomial", 4),
    ("Exponential", 0), ("Gumbel", 0), ("Pareto", 0),
    ("Uniform", 0), ("Uniform", 1),
    ("DiscreteUniform", 0), ("DiscreteUniform", 1), ("DiscreteUniform", 2),
    ("Bernoulli", 0), ("Bernoulli", 1),
];

/// Construct parameters inside regime `k` of `dist` from three uniforms (no filtering).
fn make_params(dist: &str, k: u8, u: [f64; 3]) -> Vec<f64> {
    let shape = |r: u8, u: f64| match r {
        0 => lu(u, 0.05, 0.333),
        1 => lu(u, 0.334, 0.999),
        _ => lu(u, 1.0, 500.0),
    };
    match dist {
        "Normal" => {
            if k == 1 {
                vec![r4((2.0 * u[0] - 1.0) * 1e3), 0.0]
            } else {
                let s = lu(u[1], 1e-3, 1e3);
                vec![r4((2.0 * u[0] - 1.0) * 1e3 * s), s]
            }
        }
        "Gamma" => vec![shape(k, u[0]), lu(u[1], 1e-3, 1e3)],
        "Beta" => {
            let (ra, rb) = [(0, 0), (0, 2), (2, 1), (1, 1), (1, 2), (2, 2)][k as usize % 6];
            let (a, b) = (shape(ra, u[0]), shape(rb, u[1]));
            if u[2] < 0.5 {
                vec![a, b]
            } else {
                vec![b, a]
            }
        }
        "ChiSquared" => {
            if k == 0 {
                vec![1.0]
            } else {
                vec![(2.0 + (u[0] * u[0] * 199.0).floor()).min(200.0)]
            }
        }
        "T" => vec![match k {
            0 => lu(u[0], 0.2, 0.666),
            1 => lu(u[0], 0.667, 1.999),
            _ => lu(u[0], 2.0, 200.0),
        }],
        "Poisson" => vec![match k {
            0 => lu(u[0], 1e-3, 9.999),
            1 => lu(u[0], 10.0, 99.99),
            _ => lu(u[0], 100.0, 1e6),
        }],
        "Binomial" => match k {
            0 => {
                let n = lu(u[2], 1.0, 1e6).round();
                if u[0] < 1.0 / 3.0 {
                    vec![0.0, r4(u[1])]
                } else if u[0] < 2.0 / 3.0 {
                    vec![n, 0.0]
                } else {
                    vec![n, 1.0]
                }
            }
            1 | 2 => {
                let n = lu(u[0], 1.0, 1e6).round();
                let mut q = r4((0.5f64).min(30.0 / n) * u[1]).max(1e-9);
                if q * n > 30.0 || q > 0.5 {
                    q = (0.5f64).min(29.0 / n);
                }
                vec![n, if k == 1 { q } else { 1.0 - q }]
            }
            _ => {
                let n = lu(u[0], 61.0, 1e6).round().max(61.0);
                let q0 = 30.0 / n;
                let mut q = r4(q0 + (0.5 - q0) * u[1]);
                if !(q * n > 30.0) || q > 0.5 {
                    q = 0.5;
                }
                vec![n, if k == 3 { q } else { 1.0 - q }]
            }
        },
        "Exponential" => vec![lu(u[0], 1e-3, 1e3)],
        "Gumbel" => {
            let b = lu(u[1], 1e-3, 1e3);
            vec![r4((2.0 * u[0] - 1.0) * 1e3 * b), b]
        }
        "Pareto" => vec![lu(u[0], 0.1, 100.0), lu(u[1], 1e-3, 1e3)],
        "Uniform" => {
            if k == 1 {
                let a = r4((2.0 * u[0] - 1.0) * 1e3);
                vec![a, a]
            } else {
                let w = lu(u[1], 1e-3, 1e3);
                let lo = r4((2.0 * u[0] - 1.0) * 1e3 * w);
                vec![lo, lo + w]
            }
        }
        "DiscreteUniform" => {
            let lo = ((2.0 * u[0] - 1.0) * 1e6).round();
            match k {
                1 => vec![lo, lo],
                2 => vec![lo, lo + 1.0 + (u[1] * 3.0).floor()],
                _ => vec![lo, lo + lu(u[1], 1.0, 1e9).round().max(1.0)],
            }
        }
        "Bernoulli" => {
            if k == 1 {
                vec![if u[0] < 0.5 { 0.0 } else { 1.0 }]
            } else {
                vec![r4(u[0]).max(1e-4).min(0.9999)]
            }
        }
        _ => vec![],
    }
}

/// Split the budget of `n` draws: half single `sample()` calls, a quarter through `sample_n`, a
/// quarter through `sample_matrix` with `rows` rows; `sample_n(0)` and `sample_n(1)` always included.
fn mk_case(dist: &str, params: Vec<f64>, n: usize, rows_sel: usize, seed: u64) -> Case {
    let q = (n / 4).max(1);
    let rows = [1usize, 7, 100, 1000][rows_sel % 4].min(q);
    let cols = (q / rows).max(1);
    Case { dist: dist.to_string(), params, n: n - n / 2, bulk: vec![0, 1, q], mats: vec![[rows, cols], [cols.min(3), rows.min(5)]], seed }
}

fn strat(n: usize) -> impl Strategy<Value = Case> {
    (0usize..GEN.len(), 0.0f64..1.0, 0.0f64..1.0, 0.0f64..1.0, 0usize..4, any::<u64>()).prop_map(move |(g, u0, u1, u2, rs, seed)| {
        let (dist, k) = GEN[g];
        mk_case(dist, make_params(dist, k, [u0, u1, u2]), n, rs, seed)
    })
}

/// Grid points covering every algorithm branch and its switch points.
fn grid() -> Vec<(&'static str, Vec<f64>)> {
    let mut g: Vec<(&'static str, Vec<f64>)> = vec![];
    for p in [[0.0, 1.0], [5.0, 4.0], [-1000.0, 1e-3], [3.0, 0.0], [0.0, 1e3]] {
        g.push(("Normal", p.to_vec()));
    }
    for a in [0.05, 0.2, 0.32, 0.34, 0.5, 0.9, 1.0, 1.01, 2.5, 30.0, 500.0] {
        g.push(("Gamma", vec![a, 1.0]));
    }
    for a in [0.2, 0.5, 2.5] {
        for r in [1e-3, 1e3] {
            g.push(("Gamma", vec![a, r]));
        }
    }
    for p in [
        [0.5, 0.5], [0.2, 0.2], [0.2, 3.0], [3.0, 0.2], [0.9, 0.5], [0.5, 2.0], [2.0, 0.7], [1.0, 1.0], [2.0, 5.0], [30.0, 0.5], [500.0, 500.0], [1.0, 3.0],
        [0.05, 0.05],
    ] {
        g.push(("Beta", p.to_vec()));
    }
    for k in [1.0, 2.0, 3.0, 50.0] {
        g.push(("ChiSquared", vec![k]));
    }
    for v in [0.5, 0.7, 1.0, 1.9, 2.0, 5.0, 200.0] {
        g.push(("T", vec![v]));
    }
    for l in [1e-3, 0.5, 9.99, 10.0, 10.01, 42.0, 99.0, 140.0, 150.0, 200.0, 1e3, 1e5] {
        g.push(("Poisson", vec![l]));
    }
    for p in [
        [0.0, 0.3], [1.0, 0.5], [10.0, 0.3], [10.0, 0.0], [10.0, 1.0], [60.0, 0.5], [61.0, 0.5], [100.0, 0.3], [100.0, 0.31], [1000.0, 0.03],
        [1000.0, 0.031], [1000.0, 0.9], [1000.0, 0.97], [1000.0, 0.969], [50.0, 0.97], [20.0, 0.7], [200.0, 0.5], [100000.0, 2e-4], [1000000.0, 0.4],
        [1000000.0, 0.99999], [70.0, 0.5], [15.0, 0.3],
        // fair coins at machine-word sizes (bit-counting shortcuts) and just beside them
        [31.0, 0.5], [32.0, 0.5], [33.0, 0.5], [63.0, 0.5], [64.0, 0.5], [65.0, 0.5], [127.0, 0.5], [128.0, 0.5], [129.0, 0.5], [64.0, 0.25],
    ] {
        g.push(("Binomial", p.to_vec()));
    }
    for r in [1.0, 1e-3, 1e3] {
        g.push(("Exponential", vec![r]));
    }
    for p in [[0.0, 1.0], [0.5, 2.0], [-1000.0, 0.01], [1e3, 1e3]] {
        g.push(("Gumbel", p.to_vec()));
    }
    for p in [[1.0, 1.0], [2.5, 1.5], [0.1, 1e-3], [50.0, 1e3], [4.0, 4.0]] {
        g.push(("Pareto", p.to_vec()));
    }
    for p in [[0.0, 1.0], [-3.0, 5.0], [1000.0, 1000.001], [2.0, 2.0], [-7.5, -7.5]] {
        g.push(("Uniform", p.to_vec()));
    }
    for p in [[0.0, 1.0], [3.0, 3.0], [-5.0, 5.0], [0.0, 1e12], [-7.0, -7.0], [0.0, 0.0], [-1e6, 1e6], [-2.0, 6.0]] {
        g.push(("DiscreteUniform", p.to_vec()));
    }
    for p in [0.0, 1.0, 0.5, 0.01, 0.999, 0.75] {
        g.push(("Bernoulli", vec![p]));
    }
    g
}

fn unit(seed: u64, tag: &str, i: u64) -> f64 {
    (mix_seed(seed, tag, i) >> 11) as f64 / (1u64 << 53) as f64
}

/// Build an MVN case from a dimension, a construction class and a salt (deterministic).
fn mk_mvn(d: usize, kind: u8, salt: u64, n: usize, seed: u64) -> MvnCase {
    // correlation matrix: normalised GᵀG + δ·I (kind 0: identity)
    let mut c = vec![0.0; d * d];
    if kind == 0 {
        for i in 0..d {
            c[i * d + i] = 1.0;
        }
    } else {
        let g: Vec<f64> = (0..d * d).map(|i| 2.0 * unit(salt, "C03/mvn/g", i as u64) - 1.0).collect();
        for i in 0..d {
            for j in 0..=i {
                let mut acc = 0.0;
                for k in 0..d {
                    acc += g[k * d + i] * g[k * d + j];
                }
                c[i * d + j] = acc;
                c[j * d + i] = acc;
            }
        }
        let tr = (0..d).map(|i| c[i * d + i]).sum::<f64>() / d as f64;
        for i in 0..d {
            c[i * d + i] += 0.05 * tr + 1e-3;
        }
        let s: Vec<f64> = (0..d).map(|i| c[i * d + i].sqrt()).collect();
        for i in 0..d {
            for j in 0..d {
                c[i * d + j] /= s[i] * s[j];
            }
        }
    }
    // scales: kind 2 = ill-matched (1e-3 .. 1e3), otherwise within a decade
    let sc: Vec<f64> = (0..d)
        .map(|i| {
            let u = unit(salt, "C03/mvn/s", i as u64);
            match kind {
                0 => 1.0,
                2 => r4(10f64.powf(6.0 * u - 3.0)),
                // kind 3: a common scale far from 1 (standard deviations 1e-8 .. 1e-4 or 1e4 .. 1e8) times a
                // decade of variation: the requested covariance is what must come out, whatever its magnitude
                // (an absolute ridge / jitter / threshold inside the sampler shows up here)
                3 => {
                    let e = [-8.0, -6.0, -5.0, -4.0, 4.0, 8.0][(salt % 6) as usize];
                    10f64.powf(e) * r4(10f64.powf(u - 0.5))
                }
                _ => r4(10f64.powf(u - 0.5)),
            }
        })
        .collect();
    let mut cov = vec![0.0; d * d];
    for i in 0..d {
        for j in 0..=i {
            let v = (sc[i] * sc[j]) * c[i * d + j];
            cov[i * d + j] = v;
            cov[j * d + i] = v;
        }
    }
    let mean: Vec<f64> = (0..d)
        .map(|i| if kind == 0 { 0.0 } else { r4((2.0 * unit(salt, "C03/mvn/m", i as u64) - 1.0) * 100.0 * sc[i]) })
        .collect();
    let kinds = ["standard", "correlated", "ill-scaled", "tiny-or-huge-scale"];
    MvnCase { d, mean, cov, n: n - n / 4, bulk: n / 4, seed, kind: kinds[kind as usize % 4].to_string() }
}

fn mvn_strat(n: usize) -> impl Strategy<Value = MvnCase> {
    (1usize..=6, 1u8..4, any::<u64>(), any::<u64>()).prop_map(move |(d, kind, salt, seed)| mk_mvn(d, kind, salt, n, seed))
}

// ---------------------------------------------------------------------------------------------
// driver

/// Evaluate `cases` in parallel, in rounds. Round 1 holds the first case of every class (probes), so
/// that all hanging classes are discovered concurrently; a class in which a hang was seen is excluded
/// from all later rounds. Verdicts do not depend on scheduling: exclusion is applied between rounds.
fn run_rounds<C: Serialize + Clone + Sync>(
    ctx: &mut Ctx,
    sub: &str,
    cases: Vec<C>,
    key_of: &(dyn Fn(&C) -> String + Sync),
    eval_fn: &(dyn Fn(&C) -> Outcome + Sync),
) {
    let mut seen = BTreeSet::new();
    let mut probes = vec![];
    let mut rest = vec![];
    for c in cases {
        let k = key_of(&c);
        if k.is_empty() {
            continue;
        }
        if seen.insert(k) {
            probes.push(c);
        } else {
            rest.push(c);
        }
    }
    let round_len = 64usize;
    let mut rounds: Vec<Vec<C>> = vec![probes];
    for ch in rest.chunks(round_len) {
        rounds.push(ch.to_vec());
    }
    let mut skipped: std::collections::BTreeMap<String, u64> = Default::default();
    for round in rounds {
        let excl = EXCLUDED.lock().unwrap().clone();
        let todo: Vec<C> = round
            .into_iter()
            .filter(|c| {
                let k = key_of(c);
                if excl.contains(&k) {
                    *skipped.entry(k).or_insert(0) += 1;
                    false
                } else {
                    true
                }
            })
            .collect();
        let outs = engine::par_map(&todo, 16, |_, c| match catch(|| eval_fn(c)) {
            Ok(o) => o,
            Err(msg) => Outcome {
                res: Err(Fail { sig: format!("C03/{}/harness-panic", sub), what: format!("unexpected panic in the harness: {}", msg) }),
                key: key_of(c),
                class: "harness-panic".into(),
                nontrivial: false,
                hang: false,
                ratios: vec![],
            },
        });
        for (c, o) in todo.iter().zip(outs.iter()) {
            account(ctx, sub, &o.class, o.nontrivial, Hx::new().json(c).finish(), o);
            ctx.sample(sub, || serde_json::to_value(c).unwrap_or(Value::Null));
            if let Err(f) = &o.res {
                ctx.handle_fail(sub, f, c);
            }
        }
    }
    if !skipped.is_empty() {
        ctx.note(&format!("{}:cases-skipped-after-hang", sub), json!(skipped));
    }
}

pub fn run(ctx: &mut Ctx) {
    ctx.rule = "sub-check sample: every grid point (all algorithm branches and their switch points of the 13 univariate laws, degenerate \
points included) with fresh alea seeds, then (distribution, regime) chosen uniformly from 35 pairs with log-uniform parameters constructed \
inside the regime; each case draws n values (n/2 by sample(), n/4 by sample_n, n/4 by sample_matrix, plus sample_n(0), sample_n(1)); \
sub-check mvn: d = 1..=6 x {standard, correlated, correlated + scales 1e-3..1e3}; a case is non-trivial when its regime is not the one \
holding the parameters of the library's own moment tests, or is degenerate (MVN: d >= 2); distinct by (distribution, parameters, sizes, seed)"
        .into();
    ctx.assumptions = vec![
        "per DKW test the false-alarm probability is <= alpha = 1e-12 (Massart's constant, valid for discontinuous F); a run performs < 5000 tests".into(),
        "supports are taken closed and with 4 ulp slack at finite boundaries produced by inverse-CDF formulas (a correctly rounded draw may land on the boundary)".into(),
        "parameters are limited to ranges where the oracle CDFs are verified (shape, dof >= 0.05, rates/scales 1e-3..1e3, Poisson rate <= 1e6, binomial n <= 1e6, |location|/scale <= 1e3)".into(),
        "termination: a library call on the watched thread that makes no progress for 30 s is reported as a violation; this is the only time-dependent verdict".into(),
        "with more than 2^16 draws the CDF is evaluated on every (N/2^16)-th order statistic only; this can only under-estimate sup|F_n - F|".into(),
    ];
    let n = ctx.scale(200_000, 4_000_000) as usize;
    ctx.note("draws-per-case", json!(n));
    ctx.note("dkw-band", json!(band(n + 1)));

    // univariate
    let reps = ctx.scale(2, 3);
    let mut cases: Vec<Case> = vec![];
    for rep in 0..reps {
        for (i, (dist, params)) in grid().into_iter().enumerate() {
            let seed = mix_seed(ctx.seed, "C03/grid", rep * 10_000 + i as u64);
            cases.push(mk_case(dist, params, n, i + rep as usize, seed));
        }
    }
    ctx.exhaustive.push("every grid point of DESIGN §4 C03 (branch switch points of gamma / beta / chi-squared / t / Poisson / binomial, degenerate bounds) in every run".into());
    let n_random = ctx.scale(400, 300) as usize;
    cases.extend(ctx.draw("sample", n_random, strat(n)));
    run_rounds(ctx, "sample", cases, &|c: &Case| law_of(c).map(|l| l.key()).unwrap_or_default(), &eval);

    // multivariate normal
    let n_mvn = ctx.scale(200_000, 1_000_000) as usize;
    let mut mcases: Vec<MvnCase> = vec![];
    for d in 1..=6usize {
        for kind in 0u8..4 {
            let i = (d * 4 + kind as usize) as u64;
            mcases.push(mk_mvn(d, kind, mix_seed(ctx.seed, "C03/mvn/salt", i), n_mvn, mix_seed(ctx.seed, "C03/mvn/seed", i)));
        }
    }
    let n_mrandom = ctx.scale(30, 60) as usize;
    mcases.extend(ctx.draw("mvn", n_mrandom, mvn_strat(n_mvn)));
    run_rounds(ctx, "mvn", mcases, &|c: &MvnCase| if mvn_valid(c).is_some() { format!("MVN/{}", mvn_regime(c.d)) } else { String::new() }, &eval_mvn);
}

pub fn replay(ctx: &mut Ctx, sub: &str, v: Value) -> Option<R> {
    match sub {
        "sample" => Some(check(ctx, &decode::<Case>(v)?)),
        "mvn" => Some(check_mvn(ctx, &decode::<MvnCase>(v)?)),
        _ => None,
    }
}
