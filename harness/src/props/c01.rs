//! C01 — Linear systems are solved to working precision through every entry point.
//!
//! Generated: a matrix class (by index), an order n in 1..=32 (weighted toward 1–9 and 8k±1), a number
//! of right-hand sides k in 1..=6 and a salt that is expanded deterministically into the entries.
//! Every case goes through all six entry points: `solve`, `solve_sys`, `invert_matrix`,
//! `Matrix::solve(&Vector)`, `Matrix::solve(&Matrix)`, `Matrix::inv`.
//!
//! Oracle (ε = 2^-52, ∞-norms, residuals evaluated in double-double):
//!  (i)   no panic, right shape, no uninitialised slot, every entry finite;
//!  (ii)  column by column ‖A·x_j − b_j‖ ≤ 64·n·ε·g·(‖A‖‖x_j‖ + ‖b_j‖); inverses are the case B = I.
//!        g = max(1, ‖|L̂||Û|‖ / (8‖A‖)) from the oracle's own partial-pivoting LU. Derivation: Gaussian
//!        elimination gives (A+ΔA)x̂ = b with |ΔA| ≤ γ_3n|L̂||Û| (γ_3n ≈ 1.5·n·ε), Cholesky gives
//!        |ΔA| ≤ γ_3n+1|R̂ᵀ||R̂| with ‖|Rᵀ||R|‖ ≤ n‖A‖; so the tolerance is ≥ 5.3× the a-priori bound
//!        for LU and ≥ 1.3× the worst case (n = 32) for Cholesky, and equals the DESIGN's
//!        64·n·ε·(‖A‖‖X‖+‖B‖) whenever ‖|L||U|‖ ≤ 8‖A‖ ("growth ≤ 8");
//!  (iv)  integer class: ‖x_j − x_j*‖ ≤ 64·n·ε·g·κ̂·(‖x_j‖ + ‖x_j*‖), κ̂ = ‖A‖‖A⁻¹‖ from the oracle's
//!        own inverse (implied by (ii): x̂ − x = A⁻¹r and ‖b‖ ≤ ‖A‖‖x‖);
//!  (v)   route independence: the slice entry points (which route on symmetry + positive diagonal) and
//!        the `Matrix` entry points (always LU) are held to the same bound on the same input; the
//!        classes `sym-indef-posdiag` and `route-flip` are built to sit on both sides of the predicate;
//!  (vi)  multi-RHS: every column of the `solve_sys` / `Matrix::solve(&Matrix)` answer is checked against
//!        its own column of B (a row/column-major mix-up gets the signature `…/layout`).

use crate::engine::alloc::is_poison;
use crate::engine::{catch, decode, fail, mix_seed, Ctx, Hx, R};
use crate::oracle::linalg as la;
use compute::linalg::{invert_matrix, solve, solve_sys, Matrix, Solve, Vector};
use la::{build, Rng, EPS};
use proptest::prelude::*;
use serde::{Deserialize, Serialize};
use serde_json::{json, Value};

#[derive(Clone, Debug, Serialize, Deserialize)]
pub struct Case {
    /// index into `CLASSES`
    pub class: u8,
    pub n: usize,
    /// number of right-hand sides
    pub k: usize,
    /// 0 = all six entry points, 1..=6 = only that one (index into `ENTRIES`, 1-based)
    #[serde(default)]
    pub only: u8,
    /// A, n × n row-major
    pub a: Vec<f64>,
    /// B, n × k row-major
    pub b: Vec<f64>,
    /// known exact solution X (n × k row-major) for the integer class, empty otherwise
    #[serde(default)]
    pub xint: Vec<f64>,
}

pub const CLASSES: [&str; 15] = [
    "diagonal",
    "integer-known-solution",
    "dense-gauss",
    "spd",
    "spd-graded",
    "diag-dominant",
    "tri-perm-scaled",
    "row-scaled",
    "pivot-critical",
    "sym-indef-posdiag",
    "route-flip",
    "nearly-symmetric",
    "svd-graded",
    "sparse",
    "sym-indef-graded",
];
const GENERAL: [u8; 12] = [0, 1, 2, 3, 4, 5, 6, 7, 8, 12, 13, 14];
const SYMINDEF: [u8; 1] = [9];
const ROUTEFLIP: [u8; 2] = [10, 11];

pub const ENTRIES: [&str; 6] = ["solve", "solve_sys", "invert_matrix", "Matrix.solve(Vector)", "Matrix.solve(Matrix)", "Matrix.inv"];

/// orders, ascending (index shrinks toward n = 1); 1–9 and 8k±1 carry extra weight
pub const SIZES: [usize; 62] = [
    1, 1, 2, 2, 2, 3, 3, 3, 4, 4, 4, 5, 5, 5, 6, 6, 7, 7, 7, 8, 8, 8, 9, 9, 9, 10, 11, 12, 13, 14, 15, 15, 15, 16, 16, 16, 17, 17, 17, 18, 19,
    20, 21, 22, 23, 23, 24, 24, 24, 25, 25, 26, 27, 28, 29, 30, 31, 31, 31, 32, 32, 32,
];

/// "nonsingular" is taken as κ̂∞ ≤ 1e12 (the statement's classes go up to cond 1e10)
const KAPPA_MAX: f64 = 1e12;

fn sub_of(class: u8) -> &'static str {
    match class {
        9 => "symindef",
        10 | 11 => "routeflip",
        _ => "systems",
    }
}

fn sig(entry: &str, what: &str) -> String {
    format!("C01/{}/{}", entry, what)
}

// ------------------------------------------------------------------------------------------------
// generator
// ------------------------------------------------------------------------------------------------

pub fn build_case(class: u8, n: usize, k: usize, salt: u64) -> Case {
    let mut rng = Rng::new(Hx::new().u(salt).u(class as u64).u(n as u64).u(k as u64).finish());
    let mut n = n.max(1);
    if (class == 9 || class == 10 || class == 11) && n < 2 {
        n = 2; // no symmetric indefinite matrix with positive diagonal / no off-diagonal entry at n = 1
    }
    let mut xint: Vec<f64> = vec![];
    let a: Vec<f64> = match class {
        0 => {
            let mut a = vec![0.0; n * n];
            for i in 0..n {
                a[i * n + i] = rng.sign() * rng.unif_in(0.5, 4.0);
            }
            a
        }
        1 => {
            let mut a = build::ints(&mut rng, n, n, -9, 9);
            // deterministic repair of (near-)singular draws: push the diagonal away from zero
            for _ in 0..4 {
                if la::cond_inf(&a, n) <= 1e6 {
                    break;
                }
                for i in 0..n {
                    a[i * n + i] += if a[i * n + i] < 0.0 { -10.0 } else { 10.0 };
                }
            }
            a
        }
        2 => build::gauss(&mut rng, n, n),
        3 => {
            let delta = rng.unif_in(0.05, 1.0);
            build::spd_gram(&mut rng, n, delta)
        }
        4 => {
            let s = build::spd_gram(&mut rng, n, 0.5);
            let e = rng.int(0, 9) as f64; // condition number about 10^e · cond(S), cond(S) ≲ 10
            let d = build::grading(&mut rng, n, e / 2.0);
            build::sym_scale(&s, n, &d)
        }
        5 => {
            let mut a = build::gauss(&mut rng, n, n);
            for i in 0..n {
                let off: f64 = (0..n).filter(|j| *j != i).map(|j| a[i * n + j].abs()).sum();
                a[i * n + i] = rng.sign() * (off + rng.unif_in(0.1, 1.0));
            }
            a
        }
        6 => {
            let lower = rng.coin();
            let t = build::triangular(&mut rng, n, lower, 1.0 / (n as f64).sqrt());
            let d1: Vec<f64> = (0..n).map(|_| 2f64.powi(rng.int(-6, 6) as i32)).collect();
            let d2: Vec<f64> = (0..n).map(|_| 2f64.powi(rng.int(-6, 6) as i32)).collect();
            let mut s = t;
            for i in 0..n {
                for j in 0..n {
                    s[i * n + j] *= d1[i] * d2[j];
                }
            }
            let p = rng.perm(n);
            let q = rng.perm(n);
            build::permute_cols(&build::permute_rows(&s, n, n, &p), n, n, &q)
        }
        7 => {
            let mut a = build::gauss(&mut rng, n, n);
            for i in 0..n {
                let sc = 10f64.powf(rng.unif_in(-5.0, 5.0));
                for j in 0..n {
                    a[i * n + j] *= sc;
                }
            }
            a
        }
        8 => {
            let mut a = build::gauss(&mut rng, n, n);
            match rng.below(4) {
                0 => {
                    // tiny diagonal: every step needs a row exchange
                    for i in 0..n {
                        a[i * n + i] *= 1e-14;
                    }
                }
                1 => {
                    // exact zeros on the diagonal, starting with a_11
                    if n >= 2 {
                        a[0] = 0.0;
                        for i in 1..n {
                            if rng.below(3) == 0 {
                                a[i * n + i] = 0.0;
                            }
                        }
                    }
                }
                2 => {
                    // singular leading 2 × 2 minor
                    if n >= 3 {
                        let f = rng.unif_in(0.5, 2.0);
                        a[n] = f * a[0];
                        a[n + 1] = f * a[1];
                    }
                }
                _ => {
                    // zero leading j × j block, j ≤ n/2
                    let j = if n >= 2 { 1 + rng.below(n / 2) } else { 0 };
                    for r in 0..j {
                        for c in 0..j {
                            a[r * n + c] = 0.0;
                        }
                    }
                }
            }
            a
        }
        9 => {
            let integer = rng.coin();
            build::sym_indef_posdiag(&mut rng, n, integer)
        }
        12 => {
            // unstructured ill-conditioning: singular values graded to cond 10^0..10^10
            let e = rng.int(0, 10) as f64;
            build::svd_graded(&mut rng, n, e)
        }
        13 => {
            // matrices with many exact zeros whose factors fill in: arrowheads, grid Laplacians, random
            // sparse diagonally dominant matrices (symmetric ones are positive definite, so they take the
            // Cholesky route); a factorisation that mistakes "a_ij = 0" for "l_ij = 0" is wrong here only
            let mut a = vec![0.0; n * n];
            let integer = rng.coin();
            let val = |rng: &mut Rng| -> f64 {
                if integer {
                    rng.sign() * (1 + rng.below(3)) as f64
                } else {
                    rng.sign() * rng.unif_in(0.25, 2.0)
                }
            };
            let symmetric = rng.below(4) != 0;
            match rng.below(4) {
                0 => {
                    // arrowhead: first row/column (or a random hub) full, rest diagonal
                    let hub = if rng.coin() { 0 } else { rng.below(n) };
                    for i in 0..n {
                        if i != hub {
                            let v = val(&mut rng);
                            a[i * n + hub] = v;
                            a[hub * n + i] = if symmetric { v } else { val(&mut rng) };
                        }
                    }
                }
                1 => {
                    // 5-point Laplacian of an r x c grid on the first r*c indices (the rest stays diagonal)
                    let r = ((n as f64).sqrt().floor() as usize).max(1);
                    let c = n / r;
                    for gi in 0..r {
                        for gj in 0..c {
                            let p = gi * c + gj;
                            if gj + 1 < c {
                                a[p * n + p + 1] = -1.0;
                                a[(p + 1) * n + p] = -1.0;
                            }
                            if gi + 1 < r {
                                a[p * n + p + c] = -1.0;
                                a[(p + c) * n + p] = -1.0;
                            }
                        }
                    }
                }
                2 => {
                    // random sparse pattern, about 2 off-diagonal entries per row
                    for _ in 0..2 * n {
                        let i = rng.below(n);
                        let j = rng.below(n);
                        if i != j {
                            let v = val(&mut rng);
                            a[i * n + j] = v;
                            if symmetric {
                                a[j * n + i] = v;
                            }
                        }
                    }
                }
                _ => {
                    // band of half-width w with holes inside the band
                    let w = 1 + rng.below(4);
                    for i in 0..n {
                        for j in i + 1..(i + w + 1).min(n) {
                            if rng.below(3) != 0 {
                                let v = val(&mut rng);
                                a[i * n + j] = v;
                                a[j * n + i] = if symmetric { v } else if rng.coin() { 0.0 } else { val(&mut rng) };
                            }
                        }
                    }
                }
            }
            // strictly dominant positive diagonal (exactly representable when the entries are integers)
            for i in 0..n {
                let off: f64 = (0..n).filter(|j| *j != i).map(|j| a[i * n + j].abs()).sum();
                let col: f64 = (0..n).filter(|j| *j != i).map(|j| a[j * n + i].abs()).sum();
                let slack = if integer { (1 + rng.below(2)) as f64 } else { rng.unif_in(0.1, 1.0) };
                a[i * n + i] = off.max(col) + slack;
            }
            a
        }
        14 => {
            // exactly symmetric, indefinite, unstructured ill-conditioning: H·diag(±10^(-e·t))·H with one Householder
            // reflector H (a similarity, so the eigenvalues are the graded ±values), cond 10^0..10^10. Symmetric
            // problems that cannot use Cholesky: whatever is done "because the matrix is symmetric" on the LU route
            // (mirroring a triangle of the result, reading one triangle of the input) shows here
            let e = rng.int(0, 10) as f64;
            let mut a = vec![0.0; n * n];
            for i in 0..n {
                let t = if n > 1 { i as f64 / (n - 1) as f64 } else { 0.0 };
                a[i * n + i] = rng.sign() * 10f64.powf(-e * t);
            }
            if n >= 2 {
                a[0] = a[0].abs();
                a[n * n - 1] = -a[n * n - 1].abs();
            }
            let v: Vec<f64> = (0..n).map(|_| rng.gauss()).collect();
            let vv: f64 = v.iter().map(|x| x * x).sum();
            if vv > 0.0 {
                for j in 0..n {
                    let d: f64 = (0..n).map(|i| v[i] * a[i * n + j]).sum::<f64>() * 2.0 / vv;
                    for i in 0..n {
                        a[i * n + j] -= d * v[i];
                    }
                }
                for i in 0..n {
                    let d: f64 = (0..n).map(|j| a[i * n + j] * v[j]).sum::<f64>() * 2.0 / vv;
                    for j in 0..n {
                        a[i * n + j] -= d * v[j];
                    }
                }
            }
            for i in 0..n {
                for j in 0..i {
                    a[i * n + j] = a[j * n + i];
                }
            }
            a
        }
        11 => {
            // SPD plus an asymmetric perturbation of relative size 1e-3 .. 1e-12 in a few entries: far
            // above the predicate's threshold, so this is a general (LU) problem; a sloppier symmetry
            // test would hand it to Cholesky, which reads one triangle only
            let mut a = build::spd_gram(&mut rng, n, 0.5);
            for _ in 0..1 + rng.below(3) {
                let i = rng.below(n - 1);
                let j = i + 1 + rng.below(n - 1 - i);
                let (r, c) = if rng.coin() { (i, j) } else { (j, i) };
                a[r * n + c] += rng.sign() * 10f64.powf(-rng.unif_in(3.0, 12.0));
            }
            a
        }
        _ => {
            // SPD with one off-diagonal entry moved across (or just below) the absolute symmetry
            // threshold ε of the routing predicate; the problem itself is unchanged to ~1e-16
            let mut a = build::spd_gram(&mut rng, n, 0.5);
            let i = rng.below(n - 1);
            let j = i + 1 + rng.below(n - 1 - i);
            let above = rng.below(4) != 0;
            let mults: [f64; 5] = if above { [1.25, 1.5, 2.0, 3.0, 4.0] } else { [0.75, 0.5, 0.25, 0.125, 0.0625] };
            let (hi, lo) = if rng.coin() { (i, j) } else { (j, i) };
            let s = if rng.coin() { 1.0 } else { -1.0 };
            for m in mults {
                let cand = a[hi * n + lo] + s * m * EPS;
                let diff = (cand - a[lo * n + hi]).abs();
                if (above && diff > EPS) || (!above && diff <= EPS && diff > 0.0) {
                    a[hi * n + lo] = cand;
                    break;
                }
            }
            a
        }
    };
    let k = k.max(1);
    let b: Vec<f64> = if class == 1 {
        let x = build::ints(&mut rng, n, k, -9, 9);
        let prod = la::matmul_dd(&a, &x, n, n, k);
        xint = x;
        prod.iter().map(|v| v.f()).collect() // exact: integers below 2^15
    } else {
        match rng.below(6) {
            0 => build::ints(&mut rng, n, k, -9, 9),
            // consistent right-hand side B = fl(A·X) for a moderate X: the solution is O(1) however
            // ill-conditioned A is, so ‖A‖‖x‖+‖b‖ does not hide an error of size ε·cond (a forward-stable
            // but not backward-stable formula — e.g. Cramer's rule — passes random B and fails here)
            1 | 2 => {
                let x = if rng.coin() { build::ints(&mut rng, n, k, -9, 9) } else { build::gauss(&mut rng, n, k) };
                la::matmul_dd(&a, &x, n, n, k).iter().map(|v| v.f()).collect()
            }
            _ => build::gauss(&mut rng, n, k),
        }
    };
    Case { class, n, k, only: 0, a, b, xint }
}

/// Exact rescaling A·2^sa, B·2^sb (and X·2^(sb−sa)): the problem is the same up to powers of two, so every
/// relative quantity (residual ratio, condition number) is unchanged — but absolute thresholds inside the
/// library (e.g. a symmetry test with an absolute tolerance) see completely different numbers.
pub const SCALES: [i32; 12] = [0, 0, 0, 0, 0, 0, -40, -70, -200, 40, 70, 200];

pub fn scale_case(mut c: Case, sa: i32, sb: i32) -> Case {
    let (fa, fb, fx) = (2f64.powi(sa), 2f64.powi(sb), 2f64.powi(sb - sa));
    for v in c.a.iter_mut() {
        *v *= fa;
    }
    for v in c.b.iter_mut() {
        *v *= fb;
    }
    for v in c.xint.iter_mut() {
        *v *= fx;
    }
    c
}

fn strat(classes: &'static [u8]) -> impl Strategy<Value = Case> {
    (0..classes.len(), 0..SIZES.len(), 1usize..=6, any::<u64>(), 0..SCALES.len(), 0..SCALES.len())
        .prop_map(move |(ci, si, k, salt, ia, ib)| scale_case(build_case(classes[ci], SIZES[si], k, salt), SCALES[ia], SCALES[ib]))
}

// ------------------------------------------------------------------------------------------------
// oracle
// ------------------------------------------------------------------------------------------------

struct Sys<'a> {
    a: &'a [f64],
    n: usize,
    anorm: f64,
    kappa: f64,
    /// 64·n·ε·g
    tolc: f64,
}

/// Check one returned solution `x` (n × k row-major) of A·X = B.
fn check_out(ctx: &mut Ctx, s: &Sys, entry: &str, x: &[f64], shape_ok: bool, b: &[f64], k: usize, xint: Option<&[f64]>) -> R {
    let n = s.n;
    ensure!(
        shape_ok && x.len() == n * k,
        sig(entry, "shape"),
        "{}: result has {} elements (shape ok: {}), expected {} x {}",
        entry,
        x.len(),
        shape_ok,
        n,
        k
    );
    for (i, v) in x.iter().enumerate() {
        ensure!(!is_poison(*v), sig(entry, "uninitialised"), "{}: element {} of the result was never written (n = {}, k = {})", entry, i, n, k);
    }
    for (i, v) in x.iter().enumerate() {
        ensure!(v.is_finite(), sig(entry, "nonfinite"), "{}: element {} of the result is {} (n = {}, k = {}, cond ~ {:.1e})", entry, i, v, n, k, s.kappa);
    }
    let cols = la::residual_cols(s.a, n, x, b, k);
    let mut bad: Option<(usize, f64, f64)> = None;
    let mut worst = 0.0f64;
    for (j, (rn, xn, bn)) in cols.iter().enumerate() {
        let bound = s.tolc * (s.anorm * xn + bn);
        let ratio = if bound > 0.0 { rn / bound } else if *rn == 0.0 { 0.0 } else { f64::INFINITY };
        worst = worst.max(ratio);
        if !(ratio <= 1.0) && bad.is_none() {
            bad = Some((j, *rn, bound));
        }
    }
    if let Some((j, rn, bound)) = bad {
        // a transposed (column-major) answer is a different defect from an inaccurate one
        if k > 1 {
            let xt = la::transpose(x, k, n);
            let cols_t = la::residual_cols(s.a, n, &xt, b, k);
            if cols_t.iter().all(|(rn, xn, bn)| *rn <= s.tolc * (s.anorm * xn + bn)) {
                return fail(
                    sig(entry, "layout"),
                    format!("{}: the {} x {} answer only solves the system when read in column-major order (column {} residual {:e} > {:e})", entry, n, k, j, rn, bound),
                );
            }
        }
        return fail(
            sig(entry, "residual"),
            format!(
                "{}: column {} of A·X − B has norm {:e} > 64·n·ε·g·(‖A‖‖x‖+‖b‖) = {:e} (n = {}, k = {}, cond ~ {:.1e})",
                entry, j, rn, bound, n, k, s.kappa
            ),
        );
    }
    ctx.worst(&format!("{}: |A x - b| / (64 n eps g (|A||x|+|b|))", entry), worst);
    if let Some(xi) = xint {
        if s.tolc * s.kappa < 0.1 {
            let mut w = 0.0f64;
            for j in 0..k {
                let xc = la::column(x, n, k, j);
                let xr = la::column(xi, n, k, j);
                let err = xc.iter().zip(&xr).fold(0.0f64, |m, (p, q)| m.max((p - q).abs()));
                let bound = s.tolc * s.kappa * (la::vec_inf_norm(&xc) + la::vec_inf_norm(&xr));
                let ratio = if bound > 0.0 { err / bound } else if err == 0.0 { 0.0 } else { f64::INFINITY };
                w = w.max(ratio);
                ensure!(
                    ratio <= 1.0,
                    sig(entry, "forward-error"),
                    "{}: column {} differs from the known integer solution by {:e} > 64·n·ε·g·κ̂·(‖x‖+‖x*‖) = {:e} (κ̂ = {:.2e})",
                    entry, j, err, bound, s.kappa
                );
            }
            ctx.worst("integer class: |x - x*| / (64 n eps g cond (|x|+|x*|))", w);
        }
    }
    Ok(())
}

fn unwrap_panic<T>(entry: &str, r: Result<T, String>, n: usize, k: usize) -> Result<T, crate::engine::Fail> {
    match r {
        Ok(v) => Ok(v),
        Err(msg) => fail(sig(entry, "panic"), format!("{} panicked on a nonsingular {} x {} system with {} right-hand side(s): {}", entry, n, n, k, msg)),
    }
}

pub fn check(ctx: &mut Ctx, c: &Case) -> R {
    let (n, k) = (c.n, c.k);
    // outside the quantifier (only reachable from hand-edited replay files)
    if n == 0
        || n > 64
        || k == 0
        || k > 16
        || c.a.len() != n * n
        || c.b.len() != n * k
        || c.class as usize >= CLASSES.len()
        || c.only > 6
        || !la::all_finite(&c.a)
        || !la::all_finite(&c.b)
        || !(c.xint.is_empty() || c.xint.len() == n * k)
    {
        return Ok(());
    }
    let sub = sub_of(c.class);
    let cname = CLASSES[c.class as usize];
    let a = &c.a[..];
    let h = Hx::new().u(c.class as u64).u(n as u64).u(k as u64).u(c.only as u64).fs(a).fs(&c.b).finish();

    // oracle-side analysis with the oracle's own LU
    let f = la::lu_pp(a, n);
    let anorm = la::inf_norm(a, n, n);
    let kappa = match f.inverse() {
        Some(inv) => anorm * la::inf_norm(&inv, n, n),
        None => f64::INFINITY,
    };
    if !(kappa <= KAPPA_MAX) {
        ctx.case(sub, &format!("{}/skipped(cond>1e12)", cname), false, h);
        return Ok(());
    }
    ctx.case(sub, cname, n >= 2 && c.class != 0, h);
    ctx.sample(sub, || json!(c));
    ctx.label(sub, &format!("n:{}", if n <= 9 { "1-9" } else if n % 8 <= 1 || n % 8 == 7 { "8k±1" } else { "other" }));
    ctx.label(sub, &format!("k={}", if k == 1 { "1" } else if k == n { "n" } else { "2..6" }));
    ctx.label(sub, &format!("scale(A)=2^{}", if anorm > 0.0 { ((anorm.log2() / 35.0).round() * 35.0) as i32 } else { 0 }));
    ctx.label(sub, &format!("cond:1e{:02}", (kappa.log10().max(0.0) / 2.0).floor() as i32 * 2));
    let symmetric = la::is_exactly_symmetric(a, n) || {
        // the library's predicate: |a_ij − a_ji| ≤ ε absolutely
        (0..n).all(|i| (0..n).all(|j| (a[i * n + j] - a[j * n + i]).abs() <= EPS))
    };
    let posdiag = (0..n).all(|i| a[i * n + i] > 0.0);
    ctx.label(sub, if symmetric && posdiag { "route:cholesky-candidate" } else { "route:lu" });
    if c.class == 10 {
        ctx.label(sub, if symmetric { "route-flip/below-threshold" } else { "route-flip/above-threshold" });
    }
    let growth = f.abs_lu_norm() / (8.0 * anorm);
    ctx.worst("info: oracle |L||U| / (8 |A|)  (g = max(1, this) scales the tolerance; not a bound)", growth);
    let s = Sys { a, n, anorm, kappa, tolc: 64.0 * n as f64 * EPS * growth.max(1.0) };

    let b0 = la::column(&c.b, n, k, 0);
    let x0: Option<Vec<f64>> = if c.xint.is_empty() { None } else { Some(la::column(&c.xint, n, k, 0)) };
    let xall: Option<&[f64]> = if c.xint.is_empty() { None } else { Some(&c.xint[..]) };
    let ident = la::identity(n);
    let want = |e: u8| c.only == 0 || c.only == e;
    let ni = n as i32;

    if want(1) {
        let x = unwrap_panic(ENTRIES[0], catch(|| solve(a, &b0)), n, 1)?;
        check_out(ctx, &s, ENTRIES[0], &x, true, &b0, 1, x0.as_deref())?;
    }
    if want(2) {
        let x = unwrap_panic(ENTRIES[1], catch(|| solve_sys(a, &c.b)), n, k)?;
        check_out(ctx, &s, ENTRIES[1], &x, true, &c.b, k, xall)?;
    }
    if want(3) {
        let x = unwrap_panic(ENTRIES[2], catch(|| invert_matrix(a)), n, n)?;
        check_out(ctx, &s, ENTRIES[2], &x, true, &ident, n, None)?;
    }
    if want(4) {
        let x = unwrap_panic(
            ENTRIES[3],
            catch(|| {
                let m = Matrix::new(a.to_vec(), ni, ni);
                let v = Vector::new(b0.clone());
                m.solve(&v)
            }),
            n,
            1,
        )?;
        check_out(ctx, &s, ENTRIES[3], &x.v, true, &b0, 1, x0.as_deref())?;
    }
    if want(5) {
        let x: Matrix = unwrap_panic(
            ENTRIES[4],
            catch(|| {
                let m = Matrix::new(a.to_vec(), ni, ni);
                let bm = Matrix::new(c.b.clone(), ni, k as i32);
                m.solve(&bm)
            }),
            n,
            k,
        )?;
        check_out(ctx, &s, ENTRIES[4], &x.data.v, x.nrows == n && x.ncols == k, &c.b, k, xall)?;
    }
    if want(6) {
        let x: Matrix = unwrap_panic(
            ENTRIES[5],
            catch(|| {
                let m = Matrix::new(a.to_vec(), ni, ni);
                m.inv()
            }),
            n,
            n,
        )?;
        check_out(ctx, &s, ENTRIES[5], &x.data.v, x.nrows == n && x.ncols == n, &ident, n, None)?;
    }
    Ok(())
}

// ------------------------------------------------------------------------------------------------
// driver
// ------------------------------------------------------------------------------------------------

/// Small hand-written symmetric matrices with positive diagonal that are not positive definite,
/// each with a known integer solution X (B = A·X exactly).
fn fixed_symindef() -> Vec<Case> {
    let mk = |n: usize, k: usize, a: Vec<f64>, x: Vec<f64>| {
        let b: Vec<f64> = la::matmul_dd(&a, &x, n, n, k).iter().map(|v| v.f()).collect();
        Case { class: 9, n, k, only: 0, a, b, xint: x }
    };
    vec![
        // [[1,2],[2,1]]: eigenvalues −1, 3
        mk(2, 2, vec![1., 2., 2., 1.], vec![1., -1., 1., 1.]),
        // zero leading 2 × 2 minor, det = −1
        mk(3, 1, vec![1., 1., 0., 1., 1., 1., 0., 1., 1.], vec![1., 1., 1.]),
        // indefinite only in the last pivot (trailing block [[2,3],[3,1]])
        mk(4, 2, vec![4., 1., 0., 0., 1., 3., 1., 0., 0., 1., 2., 3., 0., 0., 3., 1.], vec![1., 1., 1., 0., 1., -1., 1., 1.]),
    ]
}

pub fn run(ctx: &mut Ctx) {
    ctx.rule = "a case is (class, n, k, salt) expanded deterministically into A (n x n) and B (n x k): class in {diagonal, integer with known \
solution, dense N(0,1), SPD Gram, SPD graded to cond 1e0..1e10, strictly diagonally dominant, permuted+scaled triangular, rows scaled by \
10^±5, Householder·diag(graded singular values)·Householder to cond 1e10, pivot-critical (diagonal x 1e-14 / zero diagonal entries / singular leading minor / zero leading block), symmetric indefinite with \
positive diagonal (eigen-signs verified by the oracle's Jacobi), SPD with one entry moved across the symmetry threshold, SPD plus an asymmetric perturbation of 1e-3..1e-12, sparse diagonally dominant with exact zeros (arrowhead / grid Laplacian / random pattern / band with holes; 3 in 4 symmetric, hence SPD), exactly symmetric indefinite with eigenvalues ±10^0..10^-10 (one Householder similarity)}; n in 1..=32 weighted \
toward 1-9 and 8k±1; k in 1..=6; each problem also rescaled exactly by powers of two (A and B independently by 2^{0,±40,±70,±200}); plus the full (class, n) grid (each point also once rescaled) and hand-written symmetric indefinite matrices run once per entry point. All six \
entry points run on every case. Non-trivial: n >= 2 and class != diagonal; distinct by hash of (class, n, k, entry selector, entries of A and B). \
Cases whose oracle condition estimate exceeds 1e12 are counted under '<class>/skipped(cond>1e12)' and not evaluated."
        .into();
    ctx.assumptions = vec![
        "nonsingular is taken as cond_inf(A) <= 1e12 with the oracle's own inverse; the property's classes go up to 1e10".into(),
        "entries are O(1e-5..1e5) and matrices are either exactly symmetric or asymmetric by far more than the predicate's absolute threshold eps (except the route-flip class, whose entries are O(1)), so the absolute tolerance of is_symmetric — a documented non-finding — is never the cause of a failure".into(),
        "tolerance 64 n eps g (|A||x|+|b|) per column with g = max(1, |L||U| / (8|A|)) from the oracle's LU: equals the DESIGN bound when growth <= 8".into(),
        "a panic on valid input is a violation".into(),
    ];

    // hand-written symmetric indefinite matrices, once with all entry points and once per entry point
    for base in fixed_symindef() {
        for only in 0..=6u8 {
            let mut c = base.clone();
            c.only = only;
            ctx.check_one("symindef", &c, check);
        }
    }
    ctx.exhaustive.push("3 hand-written symmetric indefinite matrices with positive diagonal x {all entry points together, each of the 6 alone}".into());

    // the full (class, n) grid
    let per = ctx.scale(1, 20);
    for class in 0..CLASSES.len() as u8 {
        for n in 1..=32usize {
            for s in 0..per {
                let salt = mix_seed(ctx.seed, "C01/grid", (class as u64) << 32 | (n as u64) << 16 | s);
                let k = 1 + ((n as u64 + s + (salt >> 7)) % 6) as usize;
                let c = build_case(class, n, k, salt);
                ctx.check_one(sub_of(class), &c, check);
                // the same problem rescaled by powers of two (A down or up, B independently)
                let (ia, ib) = ((salt >> 20) as usize % SCALES.len(), (salt >> 28) as usize % SCALES.len());
                let (sa, sb) = (if SCALES[ia] == 0 { -70 } else { SCALES[ia] }, SCALES[ib]);
                let c2 = scale_case(build_case(class, n, k, salt), sa, sb);
                ctx.check_one(sub_of(class), &c2, check);
            }
        }
    }
    ctx.exhaustive.push(format!("every (class, n) pair, 15 classes x n = 1..=32, {} salt(s) each", per));

    let n_gen = ctx.scale(24_000, 400_000);
    ctx.run_prop_par("systems", n_gen, 16, || strat(&GENERAL), check);
    let n_sym = ctx.scale(4_000, 60_000);
    ctx.run_prop_par("symindef", n_sym, 16, || strat(&SYMINDEF), check);
    let n_flip = ctx.scale(4_000, 60_000);
    ctx.run_prop_par("routeflip", n_flip, 16, || strat(&ROUTEFLIP), check);
}

pub fn replay(ctx: &mut Ctx, sub: &str, v: Value) -> Option<R> {
    match sub {
        "systems" | "symindef" | "routeflip" => Some(check(ctx, &decode::<Case>(v)?)),
        _ => None,
    }
}
