//! C05 — Matrix products follow the definition for every shape and transpose flag.
//!
//! Sub-checks
//!   matmul   `matmul` on all (m, l, n) in 1..=9^3 x 4 flag combinations (integer entries, equality), random real shapes
//!   blocked  `matmul_blocked`, same shapes, every block size 1..=2*max(m,l,n)
//!   xtx      `xtx(x, k)` = XᵀX
//!   dot      every `Dot` method x {Matrix·Matrix, Matrix·Vector, Vector·Matrix, Vector·Vector} x 4 ownership forms
//!   nonconf  non-conformable shapes for every entry point must panic
//! Oracle: op(A) is m x l, op(B) is l x n, C[i][j] = Σ_k op(A)[i][k] op(B)[k][j] evaluated in double-double on
//! explicitly indexed transposes; integer entries: equality; real entries: l ε Σ_k |a_ik||b_kj|.

use crate::engine::{catch, decode, fail, Ctx, Hx, R};
use crate::oracle::dd::DD;
use compute::linalg::{matmul, matmul_blocked, xtx, Dot, Matrix, Vector};
use proptest::prelude::*;
use serde::{Deserialize, Serialize};
use serde_json::{json, Value};

const EPS: f64 = f64::EPSILON;

/// entry `idx` (row-major position in the *stored* operand) of operand `side`
/// ent 0: canonical small integers, 1: hashed integers in -9..=9, 2: reals of magnitude 2^±20, distinct per position
fn entry(ent: u8, salt: u64, side: u64, idx: usize) -> f64 {
    match ent {
        0 => {
            if side == 0 {
                ((idx * 7 + 3) % 19) as f64 - 9.0
            } else {
                ((idx * 5 + 11) % 17) as f64 - 8.0
            }
        }
        1 => (Hx::new().u(salt).u(side).u(idx as u64).finish() % 19) as f64 - 9.0,
        // 3 / 4: the real entries of kind 2 rescaled exactly: one operand tiny (2^-80, far below machine epsilon
        // in absolute terms), the other large (2^60); the product is the kind-2 product times 2^-20
        3 => entry(2, salt, side, idx) * if side == 0 { 2f64.powi(-80) } else { 2f64.powi(60) },
        4 => entry(2, salt, side, idx) * if side == 0 { 2f64.powi(60) } else { 2f64.powi(-80) },
        _ => {
            let h = Hx::new().u(salt).u(side).u(idx as u64).finish();
            let mant = ((h >> 12) & !0xffffu64 & ((1u64 << 52) - 1)) | (idx as u64 & 0xffff);
            let e = ((h & 0x3ff) as i32 % 41) - 20;
            f64::from_bits((((h >> 11) & 1) << 63) | (((1023 + e) as u64) << 52) | mant)
        }
    }
}

fn operand(ent: u8, salt: u64, side: u64, len: usize) -> Vec<f64> {
    (0..len).map(|i| entry(ent, salt, side, i)).collect()
}

fn flags(ta: bool, tb: bool) -> String {
    format!("{}{}", if ta { 'T' } else { 'N' }, if tb { 'T' } else { 'N' })
}

/// Compare `got` with op(A)·op(B). `a` is stored l x m if `ta` else m x l; `b` is stored n x l if `tb` else l x n.
/// Returns a description of the first discrepancy and the worst error / bound ratio.
fn compare(got: &[f64], a: &[f64], b: &[f64], m: usize, l: usize, n: usize, ta: bool, tb: bool, exact: bool) -> (Option<String>, f64) {
    if got.len() != m * n {
        return (Some(format!("result has {} elements, expected {} x {} = {}", got.len(), m, n, m * n)), 0.0);
    }
    let mut worst = 0.0f64;
    for i in 0..m {
        for j in 0..n {
            let mut s = DD::ZERO;
            let mut abs = 0.0;
            for k in 0..l {
                let x = if ta { a[k * m + i] } else { a[i * l + k] };
                let y = if tb { b[j * l + k] } else { b[k * n + j] };
                s = s + DD::from_prod(x, y);
                abs += (x * y).abs();
            }
            let g = got[i * n + j];
            let err = (s - DD::new(g)).f().abs();
            let bound = if exact { 0.0 } else { l as f64 * EPS * abs };
            if !(g.is_finite() && err <= bound) {
                return (Some(format!("entry ({},{}) = {:e}, expected {:e} (|difference| {:e}, bound {:e})", i, j, g, s.f(), err, bound)), worst);
            }
            if bound > 0.0 {
                worst = worst.max(err / bound);
            }
        }
    }
    (None, worst)
}

fn shape_class(m: usize, l: usize, n: usize) -> &'static str {
    let mn = m.min(l).min(n);
    if mn == 1 {
        "has-dim-1"
    } else if m == l && l == n {
        "cube"
    } else if m == l || l == n || m == n {
        "two-equal"
    } else {
        "all-different"
    }
}

// ------------------------------------------------------------------------------------------------
// matmul / matmul_blocked / xtx

#[derive(Clone, Debug, Serialize, Deserialize)]
pub struct MmCase {
    /// 0 = matmul, 1 = matmul_blocked, 2 = xtx (X is l x m, result m x m; flags and n ignored)
    pub entry: u8,
    pub m: usize,
    pub l: usize,
    pub n: usize,
    pub ta: bool,
    pub tb: bool,
    pub bsize: usize,
    pub ent: u8,
    pub salt: u64,
    /// both operands are the same buffer (only when m = n, so that the stored lengths agree)
    #[serde(default)]
    pub alias: bool,
}

const MM_SUB: [&str; 3] = ["matmul", "blocked", "xtx"];

pub fn check_mm(ctx: &mut Ctx, c: &MmCase) -> R {
    if c.entry > 2 || c.m == 0 || c.l == 0 || c.n == 0 || c.ent > 4 || (c.entry == 1 && c.bsize == 0) || c.m.max(c.l).max(c.n) > 512 {
        return Ok(());
    }
    let sub = MM_SUB[c.entry as usize];
    let (m, l) = (c.m, c.l);
    let (n, ta, tb) = if c.entry == 2 { (c.m, true, false) } else { (c.n, c.ta, c.tb) };
    let a = operand(c.ent, c.salt, 0, m * l);
    let alias = c.alias && c.entry != 2 && c.m == c.n;
    let b = if c.entry == 2 || alias { a.clone() } else { operand(c.ent, c.salt, 1, l * n) };
    let (rows_a, rows_b) = (if ta { l } else { m }, if tb { n } else { l });
    let fl = flags(ta, tb);
    let nontrivial = if c.entry == 2 { m.min(l) >= 2 && m != l } else { m.min(l).min(n) >= 2 && !(m == l && l == n) };
    ctx.case(sub, &format!("flags={}/{}/{}", fl, shape_class(m, l, n), if c.ent == 2 { "real" } else if c.ent > 2 { "real-tiny-times-huge" } else { "int" }), nontrivial, Hx::new().json(c).finish());
    if c.entry == 1 {
        let mx = m.max(l).max(n);
        ctx.label(sub, if c.bsize == 1 { "bsize=1" } else if c.bsize >= mx { "bsize>=max" } else if l % c.bsize == 0 && n % c.bsize == 0 { "bsize-divides" } else { "bsize-ragged" });
    }
    if alias {
        ctx.label(sub, "same-buffer-twice");
    }
    ctx.sample(sub, || json!(c));
    let (name, sigbase) = match c.entry {
        0 => ("matmul", format!("C05/matmul/flags={}", fl)),
        1 => ("matmul_blocked", format!("C05/matmul_blocked/flags={}", fl)),
        _ => ("xtx", "C05/xtx".to_string()),
    };
    let desc = match c.entry {
        2 => format!("xtx of a {}x{} matrix", l, m),
        _ => format!(
            "{}({}x{}{}, {}x{}{}{})",
            name,
            rows_a, m * l / rows_a, if ta { "ᵀ" } else { "" },
            rows_b, l * n / rows_b, if tb { "ᵀ" } else { "" },
            if c.entry == 1 { format!(", bsize {}", c.bsize) } else { String::new() }
        ),
    };
    let (entry, bsize) = (c.entry, c.bsize);
    let (a2, b2) = (a.clone(), b.clone());
    let got = match catch(move || match entry {
        0 if alias => matmul(&a2, &a2, rows_a, rows_b, ta, tb),
        1 if alias => matmul_blocked(&a2, &a2, rows_a, rows_b, ta, tb, bsize),
        0 => matmul(&a2, &b2, rows_a, rows_b, ta, tb),
        1 => matmul_blocked(&a2, &b2, rows_a, rows_b, ta, tb, bsize),
        _ => xtx(&a2, rows_a),
    }) {
        Ok(g) => g,
        Err(msg) => return fail(format!("{}/panic", sigbase), format!("{} with conformable shapes (product {}x{}) panicked: {}", desc, m, n, msg)),
    };
    let (bad, worst) = compare(&got, &a, &b, m, l, n, ta, tb, c.ent < 2);
    if let Some(what) = bad {
        return fail(format!("{}/value", sigbase), format!("{}{}: {} [entries kind {}, salt {}]", desc, if alias { " with the same buffer as both operands" } else { "" }, what, c.ent, c.salt));
    }
    if c.ent >= 2 {
        ctx.worst(&format!("{}/real/{}", name, if l < 8 { "l<8" } else { "l>=8" }), worst);
    }
    Ok(())
}

// ------------------------------------------------------------------------------------------------
// Dot trait

#[derive(Clone, Debug, Serialize, Deserialize)]
pub struct DotCase {
    /// 0 Matrix·Matrix, 1 Matrix·Vector (n = 1), 2 Vector·Matrix (m = 1), 3 Vector·Vector (m = n = 1)
    pub kind: u8,
    /// 0 dot, 1 t_dot, 2 dot_t, 3 t_dot_t  (bit 0: transpose self, bit 1: transpose other)
    pub meth: u8,
    /// 0 = owned.m(owned), 1 = owned.m(&), 2 = (&).m(owned), 3 = (&).m(&)
    pub own: u8,
    pub m: usize,
    pub l: usize,
    pub n: usize,
    pub ent: u8,
    pub salt: u64,
    /// other is the very same object as self (Matrix·Matrix and Vector·Vector with m = n; the owned
    /// forms pass a clone of it)
    #[serde(default)]
    pub alias: bool,
}

const KINDS: [&str; 4] = ["Matrix.Matrix", "Matrix.Vector", "Vector.Matrix", "Vector.Vector"];
const METHS: [&str; 4] = ["dot", "t_dot", "dot_t", "t_dot_t"];

/// all four ownership combinations through the trait (`&&a` selects the impl for the reference type)
macro_rules! call_own {
    ($meth:ident, $own:expr, $a:expr, $b:expr) => {
        match $own {
            0 => Dot::$meth(&$a, $b.clone()),
            1 => Dot::$meth(&$a, &$b),
            2 => Dot::$meth(&&$a, $b.clone()),
            _ => Dot::$meth(&&$a, &$b),
        }
    };
}
macro_rules! call_meth {
    ($ret:ty, $meth:expr, $own:expr, $a:expr, $b:expr) => {{
        let r: $ret = match $meth {
            0 => call_own!(dot, $own, $a, $b),
            1 => call_own!(t_dot, $own, $a, $b),
            2 => call_own!(dot_t, $own, $a, $b),
            _ => call_own!(t_dot_t, $own, $a, $b),
        };
        r
    }};
}

/// run one trait call; result flattened to (data, Some(shape) for Matrix results)
fn run_dot(kind: u8, meth: u8, own: u8, a: Vec<f64>, ra: usize, b: Vec<f64>, rb: usize, alias: bool) -> Result<(Vec<f64>, Option<(usize, usize)>), String> {
    catch(move || match kind {
        0 if alias && ra == rb => {
            let x = Matrix::new(a.clone(), ra as i32, (a.len() / ra) as i32);
            let r = call_meth!(Matrix, meth, own, x, x);
            (r.data.v.clone(), Some((r.nrows, r.ncols)))
        }
        3 if alias => {
            let x = Vector::new(a);
            let r = call_meth!(f64, meth, own, x, x);
            (vec![r], None)
        }
        0 => {
            let (x, y) = (Matrix::new(a.clone(), ra as i32, (a.len() / ra) as i32), Matrix::new(b.clone(), rb as i32, (b.len() / rb) as i32));
            let r = call_meth!(Matrix, meth, own, x, y);
            (r.data.v.clone(), Some((r.nrows, r.ncols)))
        }
        1 => {
            let (x, y) = (Matrix::new(a.clone(), ra as i32, (a.len() / ra) as i32), Vector::new(b));
            let r = call_meth!(Vector, meth, own, x, y);
            (r.v, None)
        }
        2 => {
            let (x, y) = (Vector::new(a), Matrix::new(b.clone(), rb as i32, (b.len() / rb) as i32));
            let r = call_meth!(Vector, meth, own, x, y);
            (r.v, None)
        }
        _ => {
            let (x, y) = (Vector::new(a), Vector::new(b));
            let r = call_meth!(f64, meth, own, x, y);
            (vec![r], None)
        }
    })
}

pub fn check_dot(ctx: &mut Ctx, c: &DotCase) -> R {
    if c.kind > 3 || c.meth > 3 || c.own > 3 || c.m == 0 || c.l == 0 || c.n == 0 || c.ent > 4 || c.m.max(c.l).max(c.n) > 512 {
        return Ok(());
    }
    if (matches!(c.kind, 1 | 3) && c.n != 1) || (matches!(c.kind, 2 | 3) && c.m != 1) {
        return Ok(());
    }
    let (m, l, n) = (c.m, c.l, c.n);
    // a transpose flag on a Vector operand does nothing (dot.rs: "transpose on the vector does nothing")
    let ta = c.meth & 1 == 1 && matches!(c.kind, 0 | 1);
    let tb = c.meth & 2 == 2 && matches!(c.kind, 0 | 2);
    let a = operand(c.ent, c.salt, 0, m * l);
    let (rows_a, rows_b) = (if ta { l } else { m }, if tb { n } else { l });
    // the same object on both sides needs the same stored shape
    let alias = c.alias && m == n && ((c.kind == 0 && rows_a == rows_b) || c.kind == 3);
    let b = if alias { a.clone() } else { operand(c.ent, c.salt, 1, l * n) };
    let free: Vec<usize> = match c.kind {
        0 => vec![m, l, n],
        1 => vec![m, l],
        2 => vec![l, n],
        _ => vec![l],
    };
    let nontrivial = free.iter().all(|d| *d >= 2) && (free.len() == 1 || free.iter().any(|d| *d != free[0]));
    let (kname, mname) = (KINDS[c.kind as usize], METHS[c.meth as usize]);
    ctx.case("dot", &format!("{}/{}/{}", kname, mname, shape_class(m, l, n)), nontrivial, Hx::new().json(c).finish());
    ctx.label("dot", &format!("own={}", c.own));
    if alias {
        ctx.label("dot", "self-with-itself");
    }
    ctx.sample("dot", || json!(c));
    let sig = |t: &str| format!("C05/Dot/{}/{}/{}", kname, mname, t);
    let desc = format!(
        "{} {} (ownership form {}), self stored {}x{}, other stored {}x{}, product {}x{}",
        kname, mname, c.own, rows_a, m * l / rows_a, rows_b, l * n / rows_b, m, n
    );
    let (got, shape) = match run_dot(c.kind, c.meth, c.own, a.clone(), rows_a, b.clone(), rows_b, alias) {
        Ok(t) => t,
        Err(msg) => return fail(sig("panic"), format!("{}: panicked on conformable shapes: {}", desc, msg)),
    };
    if let Some((r, cc)) = shape {
        ensure!(r == m && cc == n, sig("value"), "{}: result shape {}x{} (len {}), expected {}x{}", desc, r, cc, got.len(), m, n);
    }
    let (bad, worst) = compare(&got, &a, &b, m, l, n, ta, tb, c.ent < 2);
    if let Some(what) = bad {
        return fail(sig("value"), format!("{}: {} [entries kind {}, salt {}]", desc, what, c.ent, c.salt));
    }
    if c.ent >= 2 {
        ctx.worst(if l < 8 { "Dot/real/l<8" } else { "Dot/real/l>=8" }, worst);
    }
    Ok(())
}

// ------------------------------------------------------------------------------------------------
// non-conformable shapes

#[derive(Clone, Debug, Serialize, Deserialize)]
pub struct NcCase {
    /// 0 matmul, 1 matmul_blocked, 2 Dot Matrix·Matrix, 3 Dot Matrix·Vector (cb = 1, Vector of length rb),
    /// 4 Dot Vector·Matrix (ra = 1, Vector of length ca), 5 Dot Vector·Vector (ra = 1, cb = 1)
    pub entry: u8,
    pub ra: usize,
    pub ca: usize,
    pub rb: usize,
    pub cb: usize,
    pub ta: bool,
    pub tb: bool,
    pub own: u8,
    pub bsize: usize,
}

pub fn check_nonconf(ctx: &mut Ctx, c: &NcCase) -> R {
    if c.entry > 5 || c.own > 3 || c.ra == 0 || c.ca == 0 || c.rb == 0 || c.cb == 0 || c.bsize == 0 || c.ra.max(c.ca).max(c.rb).max(c.cb) > 512 {
        return Ok(());
    }
    if (matches!(c.entry, 3 | 5) && c.cb != 1) || (matches!(c.entry, 4 | 5) && c.ra != 1) {
        return Ok(());
    }
    let a_is_vec = matches!(c.entry, 4 | 5);
    let b_is_vec = matches!(c.entry, 3 | 5);
    let inner_a = if a_is_vec { c.ca } else if c.ta { c.ra } else { c.ca };
    let inner_b = if b_is_vec { c.rb } else if c.tb { c.cb } else { c.rb };
    if inner_a == inner_b {
        return Ok(()); // conformable: not a case of this sub-check
    }
    let class = if inner_a + 1 == inner_b || inner_b + 1 == inner_a {
        "off-by-one"
    } else if inner_a % inner_b == 0 || inner_b % inner_a == 0 {
        "factor"
    } else {
        "other"
    };
    let meth = (c.ta as u8) | ((c.tb as u8) << 1);
    let (ename, sig) = match c.entry {
        0 => ("matmul".to_string(), "C05/matmul/nonconformable/missing-panic".to_string()),
        1 => ("matmul_blocked".to_string(), "C05/matmul_blocked/nonconformable/missing-panic".to_string()),
        e => {
            let k = KINDS[(e - 2) as usize];
            (format!("{} {}", k, METHS[meth as usize]), format!("C05/Dot/{}/{}/nonconformable/missing-panic", k, METHS[meth as usize]))
        }
    };
    ctx.case("nonconf", &format!("{}/{}", if c.entry < 2 { ename.as_str() } else { KINDS[(c.entry - 2) as usize] }, class), true, Hx::new().json(c).finish());
    ctx.label("nonconf", &format!("flags={}", flags(c.ta, c.tb)));
    ctx.sample("nonconf", || json!(c));
    let a = operand(0, 0, 0, c.ra * c.ca);
    let b = operand(0, 0, 1, c.rb * c.cb);
    let (entry, ra, rb, ta, tb, bsize) = (c.entry, c.ra, c.rb, c.ta, c.tb, c.bsize);
    let r: Result<usize, String> = match entry {
        0 => catch(move || matmul(&a, &b, ra, rb, ta, tb).len()),
        1 => catch(move || matmul_blocked(&a, &b, ra, rb, ta, tb, bsize).len()),
        e => run_dot(e - 2, meth, c.own, a, ra, b, if b_is_vec { 1 } else { rb }, false).map(|(d, _)| d.len()),
    };
    match r {
        Err(_) => Ok(()),
        Ok(len) => fail(
            sig,
            format!(
                "{} (flags {}, ownership form {}) on stored shapes {}x{} and {}x{} (inner dimensions {} vs {}) returned {} values instead of panicking",
                ename, flags(c.ta, c.tb), c.own, c.ra, c.ca, c.rb, c.cb, inner_a, inner_b, len
            ),
        ),
    }
}

// ------------------------------------------------------------------------------------------------
// drivers

pub fn run(ctx: &mut Ctx) {
    ctx.rule = "op(A) is m x l and op(B) is l x n. All (m, l, n) in 1..=9^3 x 4 flag combinations are enumerated with small-integer entries \
for matmul, matmul_blocked (every block size 1..=2 max(m,l,n)) and every Dot method / operand kind / ownership form; xtx for all k, c in 1..=9; \
then random shapes up to 64 (thorough 128) with real entries. Wherever m = n the product is also taken with the very same buffer / object as both operands (every flag combination; Dot: self with itself), in a quarter of the random matmul and Dot cases m = n is forced for that purpose. Non-conformable: all stored shapes in 1..=5^4 x 4 flags whose inner dimensions \
differ, for every entry point, plus random larger ones built as inner ± 1, a multiple, or unrelated. A case is non-trivial when every free \
dimension is >= 2 and they are not all equal (square inputs hide shape errors); every non-conformable case is non-trivial. \
Distinct by (entry point, shapes, flags, block size, ownership, entries)."
        .into();
    ctx.assumptions = vec![
        "integer entries in -9..=9: products and sums are exact in f64, so the oracle is equality".into(),
        "real entries: |error| <= l ε Σ_k |a_ik b_kj| (any summation order satisfies γ_l Σ|a||b|); magnitudes 2^±20, no over/underflow".into(),
        "Dot with a Vector: a Vector on the right is a column, on the left a row, the result is flattened; a transpose flag applying to the Vector operand does nothing (trait documentation and dot.rs)".into(),
        "dimensions are >= 1 (a 0-length Vector cannot be promoted to a Matrix by the library's own constructor)".into(),
        "a panic of any kind counts as rejection of non-conformable shapes".into(),
    ];
    let all_bs = true;
    for m in 1usize..=9 {
        for l in 1usize..=9 {
            for n in 1usize..=9 {
                for fl in 0u8..4 {
                    let (ta, tb) = (fl & 1 == 1, fl & 2 == 2);
                    for ent in [0u8, 1] {
                        ctx.check_one("matmul", &MmCase { entry: 0, m, l, n, ta, tb, bsize: 1, ent, salt: (m * 100 + l * 10 + n) as u64, alias: false }, check_mm);
                        if m == n {
                            ctx.check_one("matmul", &MmCase { entry: 0, m, l, n, ta, tb, bsize: 1, ent, salt: (m * 100 + l * 10 + n) as u64, alias: true }, check_mm);
                        }
                    }
                    let mx = m.max(l).max(n);
                    for bsize in 1..=2 * mx {
                        if all_bs || bsize == 1 || bsize == mx || bsize == 2 * mx {
                            ctx.check_one("blocked", &MmCase { entry: 1, m, l, n, ta, tb, bsize, ent: 0, salt: 0, alias: false }, check_mm);
                            if m == n {
                                ctx.check_one("blocked", &MmCase { entry: 1, m, l, n, ta, tb, bsize, ent: 0, salt: 0, alias: true }, check_mm);
                            }
                        }
                    }
                    for own in 0u8..4 {
                        ctx.check_one("dot", &DotCase { kind: 0, meth: fl, own, m, l, n, ent: 0, salt: 0, alias: false }, check_dot);
                        if m == n {
                            ctx.check_one("dot", &DotCase { kind: 0, meth: fl, own, m, l, n, ent: 0, salt: 0, alias: true }, check_dot);
                        }
                        if n == 1 {
                            ctx.check_one("dot", &DotCase { kind: 1, meth: fl, own, m, l, n, ent: 0, salt: 0, alias: false }, check_dot);
                        }
                        if m == 1 {
                            ctx.check_one("dot", &DotCase { kind: 2, meth: fl, own, m, l, n, ent: 0, salt: 0, alias: false }, check_dot);
                        }
                        if m == 1 && n == 1 {
                            ctx.check_one("dot", &DotCase { kind: 3, meth: fl, own, m, l, n, ent: 0, salt: 0, alias: false }, check_dot);
                            ctx.check_one("dot", &DotCase { kind: 3, meth: fl, own, m, l, n, ent: 0, salt: 0, alias: true }, check_dot);
                        }
                    }
                }
            }
        }
    }
    for k in 1usize..=9 {
        for cdim in 1usize..=9 {
            for ent in [0u8, 1] {
                ctx.check_one("xtx", &MmCase { entry: 2, m: cdim, l: k, n: cdim, ta: true, tb: false, bsize: 1, ent, salt: (k * 10 + cdim) as u64, alias: false }, check_mm);
            }
        }
    }
    ctx.exhaustive.push("matmul, matmul_blocked (all block sizes 1..=2 max), Dot Matrix·Matrix x 4 methods x 4 ownership forms: all (m,l,n) in 1..=9^3 x 4 flags".into());
    ctx.exhaustive.push("Dot Matrix·Vector, Vector·Matrix (81 shapes each), Vector·Vector (9 lengths) x 4 methods x 4 ownership forms; xtx for k, c in 1..=9".into());

    // non-conformable, enumerated
    for ra in 1usize..=5 {
        for ca in 1usize..=5 {
            for rb in 1usize..=5 {
                for cb in 1usize..=5 {
                    for fl in 0u8..4 {
                        let (ta, tb) = (fl & 1 == 1, fl & 2 == 2);
                        ctx.check_one("nonconf", &NcCase { entry: 0, ra, ca, rb, cb, ta, tb, own: 0, bsize: 1 }, check_nonconf);
                        for bsize in [1usize, 2, 7] {
                            ctx.check_one("nonconf", &NcCase { entry: 1, ra, ca, rb, cb, ta, tb, own: 0, bsize }, check_nonconf);
                        }
                        for own in 0u8..4 {
                            ctx.check_one("nonconf", &NcCase { entry: 2, ra, ca, rb, cb, ta, tb, own, bsize: 1 }, check_nonconf);
                            if cb == 1 {
                                ctx.check_one("nonconf", &NcCase { entry: 3, ra, ca, rb, cb, ta, tb, own, bsize: 1 }, check_nonconf);
                            }
                            if ra == 1 {
                                ctx.check_one("nonconf", &NcCase { entry: 4, ra, ca, rb, cb, ta, tb, own, bsize: 1 }, check_nonconf);
                            }
                            if ra == 1 && cb == 1 {
                                ctx.check_one("nonconf", &NcCase { entry: 5, ra, ca, rb, cb, ta, tb, own, bsize: 1 }, check_nonconf);
                            }
                        }
                    }
                }
            }
        }
    }
    ctx.exhaustive.push("nonconf: all stored shapes in 1..=5^4 x 4 flags with differing inner dimensions, every entry point (Dot: 4 ownership forms)".into());

    // random real shapes
    let maxdim = ctx.scale(64, 128) as usize;
    let nrand = ctx.scale(4_000, 20_000);
    ctx.run_prop_par(
        "matmul",
        nrand,
        16,
        || (1usize..=maxdim, 1usize..=maxdim, 1usize..=maxdim, any::<bool>(), any::<bool>(), any::<u64>()).prop_map(|(m, l, n, ta, tb, salt)| {
            let alias = (salt >> 8) % 4 == 0;
            MmCase { entry: 0, m, l, n: if alias { m } else { n }, ta, tb, bsize: 1, ent: [2, 2, 2, 3, 4][(salt % 5) as usize], salt, alias }
        }),
        check_mm,
    );
    ctx.run_prop_par(
        "blocked",
        nrand,
        16,
        || {
            (1usize..=maxdim, 1usize..=maxdim, 1usize..=maxdim, any::<bool>(), any::<bool>(), 0usize..1000, any::<u64>()).prop_map(|(m, l, n, ta, tb, bs, salt)| MmCase {
                entry: 1,
                m,
                l,
                n,
                ta,
                tb,
                bsize: 1 + bs % (2 * m.max(l).max(n)),
                ent: [2, 2, 2, 3, 4][(salt % 5) as usize],
                salt,
                alias: m == n,
            })
        },
        check_mm,
    );
    ctx.run_prop_par(
        "xtx",
        nrand / 4,
        8,
        || (1usize..=maxdim, 1usize..=maxdim, any::<u64>()).prop_map(|(k, cdim, salt)| MmCase { entry: 2, m: cdim, l: k, n: cdim, ta: true, tb: false, bsize: 1, ent: [2, 2, 2, 3, 4][(salt % 5) as usize], salt, alias: false }),
        check_mm,
    );
    ctx.run_prop_par(
        "dot",
        nrand,
        16,
        || {
            (0u8..4, 0u8..4, 0u8..4, 1usize..=maxdim, 1usize..=maxdim, 1usize..=maxdim, any::<u64>()).prop_map(|(kind, meth, own, m, l, n, salt)| DotCase {
                kind,
                meth,
                own,
                m: if matches!(kind, 2 | 3) { 1 } else { m },
                l,
                n: if matches!(kind, 1 | 3) { 1 } else { n },
                ent: [2, 2, 2, 3, 4][(salt % 5) as usize],
                salt,
                alias: (salt >> 8) % 4 == 0,
            })
            .prop_map(|mut c| {
                if c.alias && c.kind == 0 {
                    c.n = c.m;
                }
                c
            })
        },
        check_dot,
    );
    ctx.run_prop_par(
        "nonconf",
        ctx.scale(3_000, 40_000),
        8,
        || {
            (0u8..6, 1usize..=40, 1usize..=40, 1usize..=40, 0u8..6, 1usize..=40, (any::<bool>(), any::<bool>(), 0u8..4, 1usize..=50)).prop_map(|(entry, oa, ia, ob, how, other, (ta, tb, own, bsize))| {
                // inner dimension of op(A) is `ia`; the inner dimension of op(B) is built to differ from it
                let ib = match how {
                    0 => ia + 1,
                    1 => {
                        if ia > 1 {
                            ia - 1
                        } else {
                            ia + 2
                        }
                    }
                    2 => ia * 2,
                    3 => {
                        if ia % 2 == 0 {
                            ia / 2
                        } else {
                            ia * 3
                        }
                    }
                    4 => {
                        if oa != ia {
                            oa // "swapped": B's inner dimension equals A's outer one
                        } else {
                            ia + 3
                        }
                    }
                    _ => {
                        if other != ia {
                            other
                        } else {
                            ia + 5
                        }
                    }
                };
                let a_vec = matches!(entry, 4 | 5);
                let b_vec = matches!(entry, 3 | 5);
                let (ra, ca) = if a_vec { (1, ia) } else if ta { (ia, oa) } else { (oa, ia) };
                let (rb, cb) = if b_vec { (ib, 1) } else if tb { (ob, ib) } else { (ib, ob) };
                NcCase { entry, ra, ca, rb, cb, ta, tb, own, bsize }
            })
        },
        check_nonconf,
    );
}

pub fn replay(ctx: &mut Ctx, sub: &str, v: Value) -> Option<R> {
    match sub {
        "matmul" | "blocked" | "xtx" => Some(check_mm(ctx, &decode::<MmCase>(v)?)),
        "dot" => Some(check_dot(ctx, &decode::<DotCase>(v)?)),
        "nonconf" => Some(check_nonconf(ctx, &decode::<NcCase>(v)?)),
        _ => None,
    }
}
