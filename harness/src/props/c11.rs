//! C11 — Factorisations reconstruct the input and have the promised structure.
//!
//! Sub-checks (ε = 2^-52, ∞-norms, products evaluated in double-double):
//! * `perm`  — every permutation matrix of order 1..=6 (873): LU structure and det = sign, exactly ±1.
//! * `lu`    — general square matrices (random, integer ±9, permutations up to order 32 incl. single long
//!             cycles, singular, rank-deficient, zero leading pivots, late row exchange, symmetric
//!             indefinite, row-scaled), slice `lu` and `Matrix::lu`: pivots are a permutation, |l_ij| ≤ 1,
//!             finite, ‖L·U − P·A‖ ≤ 8·n·ε·‖L‖‖U‖ (rigorous: |ΔA| ≤ γ_n|L||U|, γ_n ≈ n·ε/2, 16× slack),
//!             both forms identical, `lu_solve` (three forms) residual ≤ 64·n·ε·g·(‖A‖‖x‖+‖b‖) as in C01.
//! * `det`   — `Matrix::det` and `Matrix::lu_det` = sign(pivots by inversion count) × Π u_ii within
//!             4·n·ε (n−1 roundings of the product, 8× slack), and = the exact Bareiss determinant of integer matrices
//!             (n ≤ 12) within the first-order perturbation bound Σ_i τ·Π_{k≠i}(‖a_k‖₂+τ), τ = 8·n·ε·‖L̂‖‖Û‖.
//! * `chol`  — SPD matrices with cond ≤ 1e9 (oracle estimate), slice `cholesky` and `Matrix::cholesky`:
//!             strictly upper part 0, diagonal > 0, finite, |(L·Lᵀ − A)_ij| ≤ 8·(n+1)·ε·√(a_ii·a_jj)
//!             (rigorous: |ΔA| ≤ γ_n+1|L||Lᵀ| and (|L||Lᵀ|)_ij ≤ ‖l_i‖₂‖l_j‖₂ ≈ √(a_ii a_jj), 16× slack),
//!             ‖L₁ − L₂‖ ≤ 8·n·ε·κ̂·‖L‖ between the two forms, `cholesky_solve` (three forms) residual.
//! * `chol_reject` — symmetric indefinite with positive diagonal (λ_min ≤ −1e-6·max|λ| by the oracle's
//!             Jacobi), symmetric with a non-positive diagonal entry, clearly asymmetric: both forms must panic.
//! * `tri`   — forward/backward substitution, slice and `Matrix` form: ‖T·x − b‖ ≤ 8·n·ε·(‖T‖‖x‖+‖b‖)
//!             (rigorous: |ΔT| ≤ γ_n|T|, 16× slack).

use crate::engine::alloc::is_poison;
use crate::engine::{catch, decode, fail, Ctx, Fail, Hx, R};
use crate::oracle::dd::DD;
use crate::oracle::linalg as la;
use crate::props::c01::SIZES;
use compute::linalg as cl;
use compute::linalg::{Matrix, Solve, Vector};
use la::{build, Rng, EPS};
use proptest::prelude::*;
use serde::{Deserialize, Serialize};
use serde_json::{json, Value};

const FORMS: [&str; 2] = ["slice", "Matrix"];
const KAPPA_MAX: f64 = 1e12;

// ================================================================================================
// shared pieces
// ================================================================================================

fn basic(sigbase: &str, what: &str, x: &[f64], want_len: usize, shape_ok: bool) -> R {
    ensure!(shape_ok && x.len() == want_len, format!("{}/shape", sigbase), "{}: result has {} elements (shape ok: {}), expected {}", what, x.len(), shape_ok, want_len);
    for (i, v) in x.iter().enumerate() {
        ensure!(!is_poison(*v), format!("{}/uninitialised", sigbase), "{}: element {} was never written", what, i);
    }
    for (i, v) in x.iter().enumerate() {
        ensure!(v.is_finite(), format!("{}/nonfinite", sigbase), "{}: element {} is {}", what, i, v);
    }
    Ok(())
}

fn no_panic<T>(sigbase: &str, what: &str, r: Result<T, String>) -> Result<T, Fail> {
    match r {
        Ok(v) => Ok(v),
        Err(msg) => fail(format!("{}/panic", sigbase), format!("{} panicked on valid input: {}", what, msg)),
    }
}

/// Column-wise residual check of a solve A·X = B (X, B n × k row-major) against `tolc·(‖A‖‖x‖+‖b‖)`.
fn resid(ctx: &mut Ctx, sigbase: &str, what: &str, wname: &str, a: &[f64], n: usize, x: &[f64], b: &[f64], k: usize, tolc: f64) -> R {
    let anorm = la::inf_norm(a, n, n);
    let mut worst = 0.0f64;
    for (j, (rn, xn, bn)) in la::residual_cols(a, n, x, b, k).iter().enumerate() {
        let bound = tolc * (anorm * xn + bn);
        let ratio = if bound > 0.0 { rn / bound } else if *rn == 0.0 { 0.0 } else { f64::INFINITY };
        ensure!(ratio <= 1.0, format!("{}/residual", sigbase), "{}: column {} residual {:e} exceeds the bound {:e} (n = {})", what, j, rn, bound, n);
        worst = worst.max(ratio);
    }
    ctx.worst(wname, worst);
    Ok(())
}

// ================================================================================================
// LU, determinant, permutation matrices
// ================================================================================================

#[derive(Clone, Debug, Serialize, Deserialize)]
pub struct LuCase {
    pub class: u8,
    pub n: usize,
    /// right-hand sides for lu_solve
    pub k: usize,
    pub a: Vec<f64>,
    pub b: Vec<f64>,
}

#[derive(Clone, Debug, Serialize, Deserialize)]
pub struct PermCase {
    /// the matrix has a 1 at (i, perm[i])
    pub perm: Vec<usize>,
}

pub const LU_CLASSES: [&str; 10] = [
    "diagonal",
    "integer",
    "dense-gauss",
    "permutation",
    "singular-integer",
    "rank-deficient-integer",
    "zero-leading-pivots",
    "late-swap",
    "sym-indef-posdiag",
    "row-scaled",
];

pub fn build_lu(class: u8, n: usize, k: usize, salt: u64) -> LuCase {
    let mut rng = Rng::new(Hx::new().u(salt).u(100 + class as u64).u(n as u64).finish());
    let mut n = n.max(1);
    // exact determinants need n ≤ 12
    if matches!(class, 1 | 4 | 5) {
        n = 1 + (n - 1) % 12;
    }
    if matches!(class, 4 | 5 | 8) && n < 2 {
        n = 2;
    }
    let a: Vec<f64> = match class {
        0 => {
            let mut a = vec![0.0; n * n];
            for i in 0..n {
                a[i * n + i] = rng.sign() * rng.unif_in(0.5, 4.0);
            }
            a
        }
        1 => build::ints(&mut rng, n, n, -9, 9),
        2 => build::gauss(&mut rng, n, n),
        3 => {
            let p = match rng.below(3) {
                0 => rng.perm(n),
                1 => rng.cycle(n),
                _ => {
                    // two long cycles
                    let h = n / 2;
                    let c1 = rng.cycle(h.max(1));
                    let c2 = rng.cycle(n - h.max(1));
                    let mut p: Vec<usize> = c1.clone();
                    p.extend(c2.iter().map(|v| v + c1.len()));
                    if p.len() == n {
                        p
                    } else {
                        rng.perm(n)
                    }
                }
            };
            let mut a = la::perm_matrix(&p);
            if rng.coin() {
                // signed, scaled by powers of two: determinant stays exactly representable
                for v in a.iter_mut() {
                    if *v != 0.0 {
                        *v = rng.sign() * 2f64.powi(rng.int(-3, 3) as i32);
                    }
                }
            }
            a
        }
        4 => {
            let mut a = build::ints(&mut rng, n, n, -9, 9);
            let i = rng.below(n);
            let j = (i + 1 + rng.below(n - 1)) % n;
            match rng.below(4) {
                0 => {
                    for c in 0..n {
                        a[i * n + c] = a[j * n + c]; // duplicate row
                    }
                }
                1 => {
                    for c in 0..n {
                        a[i * n + c] = 0.0; // zero row
                    }
                }
                2 => {
                    for r in 0..n {
                        a[r * n + i] = 0.0; // zero column
                    }
                }
                _ => {
                    for r in 0..n {
                        a[r * n + i] = 2.0 * a[r * n + j]; // proportional columns
                    }
                }
            }
            a
        }
        5 => {
            let r = 1 + rng.below(n - 1);
            let x = build::ints(&mut rng, n, r, -3, 3);
            let y = build::ints(&mut rng, r, n, -3, 3);
            la::matmul_dd(&x, &y, n, r, n).iter().map(|v| v.f()).collect()
        }
        6 => {
            let mut a = if rng.coin() { build::ints(&mut rng, n, n, -9, 9) } else { build::gauss(&mut rng, n, n) };
            let j = if n >= 2 { 1 + rng.below(n / 2) } else { 1 };
            for r in 0..j.min(n) {
                for c in 0..j.min(n) {
                    a[r * n + c] = 0.0;
                }
            }
            a
        }
        7 => {
            // column diagonally dominant (no exchange needed) except for one late column
            let mut a = build::gauss(&mut rng, n, n);
            for j in 0..n {
                let off: f64 = (0..n).filter(|i| *i != j).map(|i| a[i * n + j].abs()).sum();
                a[j * n + j] = rng.sign() * (off + 1.0);
            }
            if n >= 2 {
                let j = n - 2 - rng.below(2.min(n - 1));
                let i = j + 1 + rng.below(n - 1 - j);
                a[i * n + j] = rng.sign() * 3.0 * a[j * n + j].abs();
            }
            a
        }
        8 => {
            let integer = rng.coin();
            build::sym_indef_posdiag(&mut rng, n, integer)
        }
        _ => {
            let mut a = build::gauss(&mut rng, n, n);
            for i in 0..n {
                let sc = 10f64.powf(rng.unif_in(-3.0, 3.0));
                for j in 0..n {
                    a[i * n + j] *= sc;
                }
            }
            a
        }
    };
    let k = k.max(1);
    let b = build::gauss(&mut rng, n, k);
    LuCase { class, n, k, a, b }
}

fn lu_strat() -> impl Strategy<Value = LuCase> {
    (0..LU_CLASSES.len() as u8, 0..SIZES.len(), 1usize..=3, any::<u64>()).prop_map(|(class, si, k, salt)| build_lu(class, SIZES[si], k, salt))
}

fn lu_case_ok(c: &LuCase) -> bool {
    let (n, k) = (c.n, c.k);
    n >= 1 && n <= 64 && k >= 1 && k <= 16 && c.a.len() == n * n && c.b.len() == n * k && (c.class as usize) < LU_CLASSES.len() && la::all_finite(&c.a) && la::all_finite(&c.b)
}

fn lu_hash(c: &LuCase) -> u64 {
    Hx::new().u(c.class as u64).u(c.n as u64).u(c.k as u64).fs(&c.a).fs(&c.b).finish()
}

/// Structure, reconstruction and identity of the two LU forms plus lu_solve. No accounting.
fn lu_struct_inner(ctx: &mut Ctx, c: &LuCase, of: &la::LuPP) -> R {
    let n = c.n;
    let a = &c.a[..];
    let ni = n as i32;
    let slice_out = no_panic("C11/lu/slice", "lu (slice)", catch(|| cl::lu(a)))?;
    let mat_out = no_panic("C11/lu/Matrix", "Matrix::lu", catch(|| Matrix::new(a.to_vec(), ni, ni).lu()))?;
    let outs: [(&[f64], &[i32], bool); 2] =
        [(&slice_out.0[..], &slice_out.1[..], true), (&mat_out.0.data.v[..], &mat_out.1[..], mat_out.0.nrows == n && mat_out.0.ncols == n)];
    for (fi, (lu, piv, shape_ok)) in outs.iter().enumerate() {
        let form = FORMS[fi];
        let sb = format!("C11/lu/{}", form);
        let what = format!("lu ({} form, n = {})", form, n);
        basic(&sb, &what, lu, n * n, *shape_ok)?;
        let pv: Vec<i64> = piv.iter().map(|v| *v as i64).collect();
        ensure!(la::is_permutation(&pv, n), format!("{}/pivots-not-permutation", sb), "{}: pivots {:?} are not a permutation of 0..{}", what, piv, n);
        let mut l = la::identity(n);
        let mut u = vec![0.0; n * n];
        for i in 0..n {
            for j in 0..n {
                if j < i {
                    let m = lu[i * n + j];
                    ensure!(m.abs() <= 1.0, format!("{}/multiplier>1", sb), "{}: |l[{},{}]| = {:e} exceeds 1", what, i, j, m.abs());
                    l[i * n + j] = m;
                } else {
                    u[i * n + j] = lu[i * n + j];
                }
            }
        }
        let prod = la::matmul_dd(&l, &u, n, n, n);
        let mut rnorm = 0.0f64;
        for i in 0..n {
            let src = piv[i] as usize;
            let mut rs = 0.0;
            for j in 0..n {
                rs += (prod[i * n + j] - DD::new(a[src * n + j])).f().abs();
            }
            rnorm = rnorm.max(rs);
        }
        let bound = 8.0 * n as f64 * EPS * la::inf_norm(&l, n, n) * la::inf_norm(&u, n, n);
        let ratio = if bound > 0.0 { rnorm / bound } else if rnorm == 0.0 { 0.0 } else { f64::INFINITY };
        ensure!(ratio <= 1.0, format!("{}/reconstruction", sb), "{}: ‖L·U − P·A‖ = {:e} > 8·n·ε·‖L‖‖U‖ = {:e}", what, rnorm, bound);
        ctx.worst(&format!("lu {}: |LU - PA| / (8 n eps |L||U|)", form), ratio);
    }
    // identical factors from the two forms (exact numerical equality)
    {
        let (l1, p1, _) = outs[0];
        let (l2, p2, _) = outs[1];
        ensure!(p1 == p2, "C11/lu/slice-vs-Matrix", "slice lu and Matrix::lu return different pivots: {:?} vs {:?}", p1, p2);
        for i in 0..n * n {
            ensure!(l1[i] == l2[i], "C11/lu/slice-vs-Matrix", "slice lu and Matrix::lu differ at flat index {}: {:e} vs {:e} (n = {})", i, l1[i], l2[i], n);
        }
    }
    // lu_solve on nonsingular systems
    let anorm = la::inf_norm(a, n, n);
    let kappa = match of.inverse() {
        Some(inv) => anorm * la::inf_norm(&inv, n, n),
        None => f64::INFINITY,
    };
    if kappa <= KAPPA_MAX {
        let g = (of.abs_lu_norm() / (8.0 * anorm)).max(1.0);
        let tolc = 64.0 * n as f64 * EPS * g;
        let k = c.k;
        let b0 = la::column(&c.b, n, k, 0);
        let (lu_s, piv_s) = (&slice_out.0, &slice_out.1);
        let x = no_panic("C11/lu_solve/slice", "lu_solve (slice)", catch(|| cl::lu_solve(lu_s, piv_s, &b0)))?;
        basic("C11/lu_solve/slice", "lu_solve (slice)", &x, n, true)?;
        resid(ctx, "C11/lu_solve/slice", "lu_solve (slice)", "lu_solve slice: |Ax-b| / (64 n eps g (|A||x|+|b|))", a, n, &x, &b0, 1, tolc)?;
        let (lu_m, piv_m) = (&mat_out.0, &mat_out.1);
        let x = no_panic("C11/lu_solve/Matrix(Vector)", "Matrix::lu_solve(&Vector)", catch(|| lu_m.lu_solve(piv_m, &Vector::new(b0.clone()))))?;
        basic("C11/lu_solve/Matrix(Vector)", "Matrix::lu_solve(&Vector)", &x.v, n, true)?;
        resid(ctx, "C11/lu_solve/Matrix(Vector)", "Matrix::lu_solve(&Vector)", "lu_solve Matrix(Vector): |Ax-b| / (64 n eps g (|A||x|+|b|))", a, n, &x.v, &b0, 1, tolc)?;
        let x = no_panic("C11/lu_solve/Matrix(Matrix)", "Matrix::lu_solve(&Matrix)", catch(|| lu_m.lu_solve(piv_m, &Matrix::new(c.b.clone(), ni, k as i32))))?;
        basic("C11/lu_solve/Matrix(Matrix)", "Matrix::lu_solve(&Matrix)", &x.data.v, n * k, x.nrows == n && x.ncols == k)?;
        resid(ctx, "C11/lu_solve/Matrix(Matrix)", "Matrix::lu_solve(&Matrix)", "lu_solve Matrix(Matrix): |Ax-b| / (64 n eps g (|A||x|+|b|))", a, n, &x.data.v, &c.b, k, tolc)?;
    }
    Ok(())
}

/// Determinant checks. No accounting.
fn det_inner(ctx: &mut Ctx, c: &LuCase, of: &la::LuPP) -> R {
    let n = c.n;
    let a = &c.a[..];
    let ni = n as i32;
    let (lum, piv) = no_panic("C11/lu/Matrix", "Matrix::lu", catch(|| Matrix::new(a.to_vec(), ni, ni).lu()))?;
    let pv: Vec<i64> = piv.iter().map(|v| *v as i64).collect();
    ensure!(
        lum.data.len() == n * n && la::is_permutation(&pv, n),
        "C11/lu/Matrix/pivots-not-permutation",
        "Matrix::lu: pivots {:?} are not a permutation of 0..{}",
        piv,
        n
    );
    let pu: Vec<usize> = piv.iter().map(|v| *v as usize).collect();
    let sgn = la::perm_sign(&pu) as f64;
    let mut p = DD::ONE;
    for i in 0..n {
        p = p * DD::new(lum.data[i * n + i]);
    }
    let expected = sgn * p.f();
    let det = no_panic("C11/Matrix.det", "Matrix::det", catch(|| Matrix::new(a.to_vec(), ni, ni).det()))?;
    let lud = no_panic("C11/Matrix.lu_det", "Matrix::lu_det", catch(|| lum.lu_det(&piv)))?;

    // exact determinant of integer matrices
    let exact: Option<f64> = if n <= 12 {
        la::as_integers(a).and_then(|ai| if ai.iter().all(|v| v.abs() <= 1000) { la::bareiss_det(&ai, n) } else { None }).map(|d| d as f64)
    } else {
        None
    };
    // first-order bound on |det(A+E) − det(A)| for ‖rows of E‖ ≤ τ: Σ_i τ·Π_{k≠i}(‖a_k‖₂ + τ)
    let exact_bound = |d: f64| -> f64 {
        let mut l = la::identity(n);
        let mut u = vec![0.0; n * n];
        for i in 0..n {
            for j in 0..n {
                if j < i {
                    l[i * n + j] = of.lu[i * n + j];
                } else {
                    u[i * n + j] = of.lu[i * n + j];
                }
            }
        }
        let tau = 8.0 * n as f64 * EPS * la::inf_norm(&l, n, n) * la::inf_norm(&u, n, n);
        let rn: Vec<f64> = (0..n).map(|i| a[i * n..(i + 1) * n].iter().map(|v| v * v).sum::<f64>().sqrt() + tau).collect();
        let mut s = 0.0;
        for i in 0..n {
            let mut t = tau;
            for (k2, r) in rn.iter().enumerate() {
                if k2 != i {
                    t *= r;
                }
            }
            s += t;
        }
        s + 4.0 * n as f64 * EPS * d.abs()
    };
    let in_range = expected == 0.0 || (expected.abs() > 1e-280 && expected.abs() < 1e280);
    if !in_range {
        ctx.label("det", "product-out-of-range(skipped)");
        return Ok(());
    }
    for (name, val) in [("Matrix.det", det), ("Matrix.lu_det", lud)] {
        let sb = format!("C11/{}", name);
        ensure!(val.is_finite(), format!("{}/nonfinite", sb), "{} = {} for a finite {} x {} matrix whose pivot product is {:e}", name, val, n, n, expected);
        let tol = 4.0 * n as f64 * EPS * expected.abs();
        let err = (val - expected).abs();
        if err > tol {
            if (val + expected).abs() <= tol {
                return fail(
                    format!("{}/sign", sb),
                    format!("{} = {:e} but sign(pivots)·Πu_ii = {:e}: wrong sign for pivots {:?} (n = {})", name, val, expected, piv, n),
                );
            }
            return fail(format!("{}/value", sb), format!("{} = {:e} but sign(pivots)·Πu_ii = {:e} (n = {})", name, val, expected, n));
        }
        if tol > 0.0 {
            ctx.worst(&format!("{}: |det - sign*prod(u_ii)| / (4 n eps |prod|)", name), err / tol);
        }
        if let Some(d) = exact {
            let bound = exact_bound(d);
            let err = (val - d).abs();
            if err > bound {
                if d != 0.0 && (val + d).abs() <= bound {
                    return fail(format!("{}/sign", sb), format!("{} = {:e} but the exact determinant is {:e} (n = {}, pivots {:?})", name, val, d, n, piv));
                }
                return fail(
                    format!("{}/exact-value", sb),
                    format!("{} = {:e} but the exact determinant is {:e}; |difference| {:e} > perturbation bound {:e} (n = {})", name, val, d, err, bound, n),
                );
            }
            if bound > 0.0 {
                ctx.worst(&format!("{}: |det - exact| / perturbation bound", name), err / bound);
            }
        }
    }
    if exact.is_some() {
        ctx.label("det", "exact-determinant-available");
    }
    Ok(())
}

fn lu_classify(c: &LuCase, of: &la::LuPP) -> (String, bool) {
    let pu = &of.perm;
    let lc = la::longest_cycle(pu);
    let cyc = if lc <= 1 {
        "no-exchange"
    } else if lc == 2 {
        "cycles<=2"
    } else if lc == 3 {
        "cycle=3"
    } else {
        "cycle>=4"
    };
    (format!("{}/{}{}", LU_CLASSES[c.class as usize], cyc, if of.singular { "/singular" } else { "" }), c.n >= 3 && of.nswaps > 0)
}

pub fn check_lu(ctx: &mut Ctx, c: &LuCase) -> R {
    if !lu_case_ok(c) {
        return Ok(());
    }
    let of = la::lu_pp(&c.a, c.n);
    let (class, nontrivial) = lu_classify(c, &of);
    ctx.case("lu", &class, nontrivial, lu_hash(c));
    ctx.sample("lu", || json!(c));
    lu_struct_inner(ctx, c, &of)
}

pub fn check_det(ctx: &mut Ctx, c: &LuCase) -> R {
    if !lu_case_ok(c) {
        return Ok(());
    }
    let of = la::lu_pp(&c.a, c.n);
    let (class, nontrivial) = lu_classify(c, &of);
    ctx.case("det", &class, nontrivial, lu_hash(c));
    ctx.sample("det", || json!(c));
    det_inner(ctx, c, &of)
}

pub fn check_perm(ctx: &mut Ctx, pc: &PermCase) -> R {
    let n = pc.perm.len();
    let pv: Vec<i64> = pc.perm.iter().map(|v| *v as i64).collect();
    if n == 0 || n > 64 || !la::is_permutation(&pv, n) {
        return Ok(());
    }
    let lc = la::longest_cycle(&pc.perm);
    let h = Hx::new().json(&pc.perm).finish();
    ctx.case("perm", &format!("n={}/longest-cycle={}", n, lc), n >= 3 && lc >= 2, h);
    ctx.sample("perm", || json!(pc));
    let c = LuCase { class: 3, n, k: 1, a: la::perm_matrix(&pc.perm), b: (1..=n).map(|v| v as f64).collect() };
    let of = la::lu_pp(&c.a, n);
    lu_struct_inner(ctx, &c, &of)?;
    det_inner(ctx, &c, &of)?;
    // for a permutation matrix the determinant must be exactly ±1
    let want = la::perm_sign(&pc.perm) as f64;
    let det = no_panic("C11/Matrix.det", "Matrix::det", catch(|| Matrix::new(c.a.clone(), n as i32, n as i32).det()))?;
    ensure!(
        det == want,
        if det == -want { "C11/Matrix.det/sign" } else { "C11/Matrix.det/value" },
        "det of the permutation matrix of {:?} is {:e}, expected {}",
        pc.perm,
        det,
        want
    );
    Ok(())
}

// ================================================================================================
// Cholesky
// ================================================================================================

#[derive(Clone, Debug, Serialize, Deserialize)]
pub struct CholCase {
    pub class: u8,
    pub n: usize,
    pub k: usize,
    pub a: Vec<f64>,
    pub b: Vec<f64>,
}

pub const CHOL_CLASSES: [&str; 7] = ["diagonal", "gram", "graded", "integer-spd", "tridiagonal", "low-rank+delta", "nearly-dependent"];

pub fn build_chol(class: u8, n: usize, k: usize, salt: u64) -> CholCase {
    let mut rng = Rng::new(Hx::new().u(salt).u(200 + class as u64).u(n as u64).finish());
    let n = n.max(1);
    let a: Vec<f64> = match class {
        0 => {
            let mut a = vec![0.0; n * n];
            for i in 0..n {
                a[i * n + i] = rng.unif_in(0.25, 4.0);
            }
            a
        }
        1 => {
            let delta = rng.unif_in(0.05, 1.0);
            build::spd_gram(&mut rng, n, delta)
        }
        2 => {
            let s = build::spd_gram(&mut rng, n, 0.5);
            let e = rng.int(0, 7) as f64; // cond ≈ 10^e · cond(S) ≤ ~1e8
            let d = build::grading(&mut rng, n, e / 2.0);
            build::sym_scale(&s, n, &d)
        }
        3 => {
            // GᵀG + I with small integer G: exactly representable, positive definite by construction
            let g = build::ints(&mut rng, n, n, -3, 3);
            let gt = la::transpose(&g, n, n);
            let mut a: Vec<f64> = la::matmul_dd(&gt, &g, n, n, n).iter().map(|v| v.f()).collect();
            for i in 0..n {
                a[i * n + i] += 1.0;
            }
            a
        }
        4 => {
            let mut a = vec![0.0; n * n];
            let d = 2.0 + rng.unif_in(0.001, 1.0);
            for i in 0..n {
                a[i * n + i] = d;
                if i + 1 < n {
                    a[i * n + i + 1] = -1.0;
                    a[(i + 1) * n + i] = -1.0;
                }
            }
            a
        }
        6 => {
            // SPD matrices at the top of the stated condition range (2e6 .. 8e7) whose smallest Cholesky pivot is tiny
            // *relative to its own diagonal entry* (d_k / a_kk down to ~4/cond): a pair of nearly dependent coordinates
            // [[s, s(1−δ)], [s(1−δ), s]] inside an otherwise well-conditioned matrix, or I − (1−ε)·v·vᵀ with one tiny
            // eigenvalue. Grading by a diagonal (class "graded") never produces this: the ratio is invariant under D·A·D.
            let u = rng.unif_in(6.0, 7.6);
            let small = 10f64.powf(-u); // δ resp. ε: cond ≈ 2/δ resp. 1/ε ≤ 8e7
            if n >= 2 && rng.coin() {
                let mut a = build::spd_gram(&mut rng, n, 0.5);
                let i = rng.below(n - 1);
                let j = i + 1 + rng.below(n - 1 - i);
                let sc = rng.unif_in(0.5, 2.0);
                for t in 0..n {
                    for &r in &[i, j] {
                        a[r * n + t] = 0.0;
                        a[t * n + r] = 0.0;
                    }
                }
                a[i * n + i] = sc;
                a[j * n + j] = sc;
                a[i * n + j] = sc * (1.0 - small);
                a[j * n + i] = sc * (1.0 - small);
                a
            } else {
                let v: Vec<f64> = (0..n).map(|_| rng.sign() / (n as f64).sqrt()).collect();
                let mut a = vec![0.0; n * n];
                for i in 0..n {
                    for j in i..n {
                        let x = if i == j { 1.0 } else { 0.0 } - (1.0 - small) * v[i] * v[j];
                        a[i * n + j] = x;
                        a[j * n + i] = x;
                    }
                }
                a
            }
        }
        _ => {
            // rank ≈ n/2 Gram matrix plus δ·I: cond ≈ 4/δ
            let m = (n / 2).max(1);
            let g = build::gauss(&mut rng, m, n);
            let delta = 10f64.powf(-rng.unif_in(1.0, 6.0));
            let mut a = vec![0.0; n * n];
            for i in 0..n {
                for j in i..n {
                    let mut s = 0.0;
                    for r in 0..m {
                        s += g[r * n + i] * g[r * n + j];
                    }
                    let v = s / m as f64 + if i == j { delta } else { 0.0 };
                    a[i * n + j] = v;
                    a[j * n + i] = v;
                }
            }
            a
        }
    };
    let k = k.max(1);
    let b = build::gauss(&mut rng, n, k);
    CholCase { class, n, k, a, b }
}

fn chol_strat() -> impl Strategy<Value = CholCase> {
    (0..CHOL_CLASSES.len() as u8, 0..SIZES.len(), 1usize..=3, any::<u64>()).prop_map(|(class, si, k, salt)| build_chol(class, SIZES[si], k, salt))
}

pub fn check_chol(ctx: &mut Ctx, c: &CholCase) -> R {
    let (n, k) = (c.n, c.k);
    if n == 0 || n > 64 || k == 0 || k > 16 || c.a.len() != n * n || c.b.len() != n * k || c.class as usize >= CHOL_CLASSES.len() || !la::all_finite(&c.a) || !la::all_finite(&c.b) {
        return Ok(());
    }
    let a = &c.a[..];
    let ni = n as i32;
    let cname = CHOL_CLASSES[c.class as usize];
    let h = Hx::new().u(c.class as u64).u(n as u64).u(k as u64).fs(a).fs(&c.b).finish();
    // quantifier: exactly symmetric, positive definite (oracle's own Cholesky succeeds), cond ≤ 1e9
    let kappa = la::cond_inf(a, n);
    if !la::is_exactly_symmetric(a, n) || la::cholesky(a, n).is_none() || !(kappa <= 1e9) {
        ctx.case("chol", &format!("{}/skipped(not SPD with cond<=1e9)", cname), false, h);
        return Ok(());
    }
    ctx.case("chol", cname, n >= 3 && c.class != 0, h);
    ctx.sample("chol", || json!(c));
    ctx.label("chol", &format!("cond:1e{:02}", (kappa.log10().max(0.0) / 2.0).floor() as i32 * 2));
    let anorm = la::inf_norm(a, n, n);

    let l_slice = no_panic("C11/cholesky/slice", "cholesky (slice)", catch(|| cl::cholesky(a)))?;
    let l_mat = no_panic("C11/cholesky/Matrix", "Matrix::cholesky", catch(|| Matrix::new(a.to_vec(), ni, ni).cholesky()))?;
    let outs: [(&[f64], bool); 2] = [(&l_slice[..], true), (&l_mat.data.v[..], l_mat.nrows == n && l_mat.ncols == n)];
    for (fi, (l, shape_ok)) in outs.iter().enumerate() {
        let form = FORMS[fi];
        let sb = format!("C11/cholesky/{}", form);
        let what = format!("cholesky ({} form, n = {}, cond ~ {:.1e})", form, n, kappa);
        basic(&sb, &what, l, n * n, *shape_ok)?;
        for i in 0..n {
            for j in (i + 1)..n {
                ensure!(l[i * n + j] == 0.0, format!("{}/upper-not-zero", sb), "{}: entry ({},{}) above the diagonal is {:e}", what, i, j, l[i * n + j]);
            }
            ensure!(l[i * n + i] > 0.0, format!("{}/diagonal-not-positive", sb), "{}: diagonal entry {} is {:e}", what, i, l[i * n + i]);
        }
        let lt = la::transpose(l, n, n);
        let prod = la::matmul_dd(l, &lt, n, n, n);
        let mut worst = 0.0f64;
        let mut rnorm = 0.0f64;
        for i in 0..n {
            let mut rs = 0.0;
            for j in 0..n {
                let r = (prod[i * n + j] - DD::new(a[i * n + j])).f().abs();
                rs += r;
                let bound = 8.0 * (n + 1) as f64 * EPS * (a[i * n + i] * a[j * n + j]).sqrt();
                let ratio = r / bound;
                ensure!(
                    ratio <= 1.0,
                    format!("{}/reconstruction", sb),
                    "{}: |(L·Lᵀ − A)[{},{}]| = {:e} > 8·(n+1)·ε·√(a_ii·a_jj) = {:e}",
                    what, i, j, r, bound
                );
                worst = worst.max(ratio);
            }
            rnorm = rnorm.max(rs);
        }
        ctx.worst(&format!("cholesky {}: |(LL^T - A)_ij| / (8 (n+1) eps sqrt(a_ii a_jj))", form), worst);
        ctx.worst(&format!("info: cholesky {}: |LL^T - A| / (8 (n+1) eps |A|)  (DESIGN's norm form, not a verdict)", form), rnorm / (8.0 * (n + 1) as f64 * EPS * anorm));
    }
    // the two forms agree up to the forward error either is entitled to
    {
        let diff: Vec<f64> = outs[0].0.iter().zip(outs[1].0.iter()).map(|(p, q)| p - q).collect();
        let dn = la::inf_norm(&diff, n, n);
        let bound = 8.0 * n as f64 * EPS * kappa * la::inf_norm(outs[0].0, n, n);
        ensure!(dn <= bound, "C11/cholesky/slice-vs-Matrix", "slice and Matrix Cholesky factors differ by {:e} > 8·n·ε·κ̂·‖L‖ = {:e} (n = {}, κ̂ = {:.1e})", dn, bound, n, kappa);
        ctx.worst("cholesky: |L_slice - L_Matrix| / (8 n eps cond |L|)", dn / bound);
    }
    // cholesky_solve, three forms
    let tolc = 64.0 * n as f64 * EPS;
    let b0 = la::column(&c.b, n, k, 0);
    let x = no_panic("C11/cholesky_solve/slice", "cholesky_solve (slice)", catch(|| cl::cholesky_solve(&l_slice, &b0)))?;
    basic("C11/cholesky_solve/slice", "cholesky_solve (slice)", &x, n, true)?;
    resid(ctx, "C11/cholesky_solve/slice", "cholesky_solve (slice)", "cholesky_solve slice: |Ax-b| / (64 n eps (|A||x|+|b|))", a, n, &x, &b0, 1, tolc)?;
    let x = no_panic("C11/cholesky_solve/Matrix(Vector)", "Matrix::cholesky_solve(&Vector)", catch(|| l_mat.cholesky_solve(&Vector::new(b0.clone()))))?;
    basic("C11/cholesky_solve/Matrix(Vector)", "Matrix::cholesky_solve(&Vector)", &x.v, n, true)?;
    resid(ctx, "C11/cholesky_solve/Matrix(Vector)", "Matrix::cholesky_solve(&Vector)", "cholesky_solve Matrix(Vector): |Ax-b| / (64 n eps (|A||x|+|b|))", a, n, &x.v, &b0, 1, tolc)?;
    let x = no_panic("C11/cholesky_solve/Matrix(Matrix)", "Matrix::cholesky_solve(&Matrix)", catch(|| l_mat.cholesky_solve(&Matrix::new(c.b.clone(), ni, k as i32))))?;
    basic("C11/cholesky_solve/Matrix(Matrix)", "Matrix::cholesky_solve(&Matrix)", &x.data.v, n * k, x.nrows == n && x.ncols == k)?;
    resid(ctx, "C11/cholesky_solve/Matrix(Matrix)", "Matrix::cholesky_solve(&Matrix)", "cholesky_solve Matrix(Matrix): |Ax-b| / (64 n eps (|A||x|+|b|))", a, n, &x.data.v, &c.b, k, tolc)?;
    Ok(())
}

// ------------------------------------------------------------------------------------------------
// rejection of input that is not positive definite
// ------------------------------------------------------------------------------------------------

#[derive(Clone, Debug, Serialize, Deserialize)]
pub struct RejectCase {
    /// 0 symmetric indefinite with positive diagonal, 1 symmetric with a non-positive diagonal entry, 2 asymmetric
    pub class: u8,
    /// 0 slice `cholesky`, 1 `Matrix::cholesky`
    pub form: u8,
    pub n: usize,
    pub a: Vec<f64>,
}

pub const REJECT_CLASSES: [&str; 3] = ["sym-indef-posdiag", "nonpositive-diagonal", "asymmetric"];

pub fn build_reject(class: u8, form: u8, n: usize, salt: u64) -> RejectCase {
    let mut rng = Rng::new(Hx::new().u(salt).u(300 + class as u64).u(n as u64).finish());
    let mut n = n.max(1);
    if class != 1 && n < 2 {
        n = 2;
    }
    let a = match class {
        0 => {
            let integer = rng.coin();
            build::sym_indef_posdiag(&mut rng, n, integer)
        }
        1 => {
            let mut a = build::spd_gram(&mut rng, n, 0.5);
            let i = rng.below(n);
            a[i * n + i] = match rng.below(3) {
                0 => 0.0,
                1 => -a[i * n + i],
                _ => -1e-3,
            };
            a
        }
        _ => {
            let mut a = build::spd_gram(&mut rng, n, 0.5);
            let i = rng.below(n - 1);
            let j = i + 1 + rng.below(n - 1 - i);
            let (r, c) = if rng.coin() { (i, j) } else { (j, i) };
            a[r * n + c] += rng.sign() * rng.unif_in(0.05, 0.5);
            a
        }
    };
    RejectCase { class, form, n, a }
}

fn reject_strat() -> impl Strategy<Value = RejectCase> {
    (0u8..3, 0u8..2, 0..SIZES.len(), any::<u64>()).prop_map(|(class, form, si, salt)| build_reject(class, form, SIZES[si], salt))
}

pub fn check_reject(ctx: &mut Ctx, c: &RejectCase) -> R {
    let n = c.n;
    if n == 0 || n > 64 || c.a.len() != n * n || c.class > 2 || c.form > 1 || !la::all_finite(&c.a) {
        return Ok(());
    }
    let a = &c.a[..];
    let cname = REJECT_CLASSES[c.class as usize];
    let form = FORMS[c.form as usize];
    let h = Hx::new().u(c.class as u64).u(c.form as u64).u(n as u64).fs(a).finish();
    // the class condition is re-established from the matrix itself
    let amax = la::max_abs(a);
    let clearly = match c.class {
        0 => {
            la::is_exactly_symmetric(a, n) && (0..n).all(|i| a[i * n + i] > 0.0) && {
                let (lmin, _, _, labs) = la::sym_spectrum(a, n);
                lmin <= -1e-6 * labs
            }
        }
        1 => la::is_exactly_symmetric(a, n) && (0..n).any(|i| a[i * n + i] <= 0.0),
        _ => (0..n).any(|i| (0..n).any(|j| (a[i * n + j] - a[j * n + i]).abs() >= 1e-3 * amax && amax > 1e-3)),
    };
    if !clearly {
        ctx.case("chol_reject", &format!("{}/{}/skipped(not clearly outside the domain)", cname, form), false, h);
        return Ok(());
    }
    ctx.case("chol_reject", &format!("{}/{}", cname, form), n >= 3, h);
    ctx.sample("chol_reject", || json!(c));
    let ni = n as i32;
    let out: Result<Vec<f64>, String> = if c.form == 0 { catch(|| cl::cholesky(a)) } else { catch(|| Matrix::new(a.to_vec(), ni, ni).cholesky().data.v) };
    match out {
        Err(_) => Ok(()),
        Ok(l) => {
            let bad = l.iter().filter(|v| !v.is_finite()).count();
            let tag = if c.class == 2 { "asymmetric-accepted" } else { "non-pd-accepted" };
            fail(
                format!("C11/cholesky/{}/{}", form, tag),
                format!(
                    "cholesky ({} form) returned a factor with {} non-finite of {} entries instead of rejecting a {} x {} matrix of class {}",
                    form, bad, l.len(), n, n, cname
                ),
            )
        }
    }
}

// ================================================================================================
// triangular substitution
// ================================================================================================

#[derive(Clone, Debug, Serialize, Deserialize)]
pub struct TriCase {
    pub lower: bool,
    pub n: usize,
    /// n × n, the other triangle exactly zero
    pub t: Vec<f64>,
    pub b: Vec<f64>,
}

pub fn build_tri(lower: bool, n: usize, salt: u64) -> TriCase {
    let mut rng = Rng::new(Hx::new().u(salt).u(400 + lower as u64).u(n as u64).finish());
    let n = n.max(1);
    let off = match rng.below(3) {
        0 => 1.0 / (n as f64).sqrt(),
        1 => 1.0 / n as f64,
        _ => 0.5,
    };
    let mut t = build::triangular(&mut rng, n, lower, off);
    if rng.below(3) == 0 {
        // scaled rows
        for i in 0..n {
            let sc = 2f64.powi(rng.int(-8, 8) as i32);
            for j in 0..n {
                t[i * n + j] *= sc;
            }
        }
    }
    if rng.below(4) == 0 {
        // exact zeros inside the triangle
        for i in 0..n {
            for j in 0..n {
                if i != j && rng.below(2) == 0 {
                    t[i * n + j] = 0.0;
                }
            }
        }
    }
    // right-hand sides with exact zeros: columns of the identity, leading / trailing runs of zeros, sparse —
    // the solution of a triangular system has zeros only on one side of the first / last non-zero of b
    let mut b = build::gauss(&mut rng, n, 1);
    match rng.below(6) {
        0 => {
            let k = rng.below(n);
            for (i, v) in b.iter_mut().enumerate() {
                *v = if i == k { 1.0 } else { 0.0 };
            }
        }
        1 => {
            let k = rng.below(n);
            for v in b.iter_mut().take(k) {
                *v = 0.0;
            }
        }
        2 => {
            let k = rng.below(n);
            for v in b.iter_mut().skip(k + 1) {
                *v = 0.0;
            }
        }
        3 => {
            for v in b.iter_mut() {
                if rng.below(2) == 0 {
                    *v = 0.0;
                }
            }
        }
        _ => {}
    }
    TriCase { lower, n, t, b }
}

fn tri_strat() -> impl Strategy<Value = TriCase> {
    (any::<bool>(), 0..SIZES.len(), any::<u64>()).prop_map(|(lower, si, salt)| build_tri(lower, SIZES[si], salt))
}

pub fn check_tri(ctx: &mut Ctx, c: &TriCase) -> R {
    let n = c.n;
    if n == 0 || n > 64 || c.t.len() != n * n || c.b.len() != n || !la::all_finite(&c.t) || !la::all_finite(&c.b) {
        return Ok(());
    }
    let t = &c.t[..];
    // triangular with non-zero diagonal
    for i in 0..n {
        if t[i * n + i] == 0.0 {
            return Ok(());
        }
        for j in 0..n {
            if (c.lower && j > i || !c.lower && j < i) && t[i * n + j] != 0.0 {
                return Ok(());
            }
        }
    }
    let which = if c.lower { "forward_substitution" } else { "backward_substitution" };
    let h = Hx::new().u(c.lower as u64).u(n as u64).fs(t).fs(&c.b).finish();
    ctx.case("tri", which, n >= 3, h);
    ctx.sample("tri", || json!(c));
    let tolc = 8.0 * n as f64 * EPS;
    let ni = n as i32;
    let b = &c.b;
    for fi in 0..2 {
        let form = FORMS[fi];
        let sb = format!("C11/{}/{}", which, form);
        let what = format!("{} ({} form, n = {})", which, form, n);
        let out: Result<Vec<f64>, String> = match (fi, c.lower) {
            (0, true) => catch(|| cl::forward_substitution(t, b)),
            (0, false) => catch(|| cl::backward_substitution(t, b)),
            (_, true) => catch(|| Matrix::new(t.to_vec(), ni, ni).forward_substitution(b).v),
            (_, false) => catch(|| Matrix::new(t.to_vec(), ni, ni).backward_substitution(b).v),
        };
        let x = no_panic(&sb, &what, out)?;
        basic(&sb, &what, &x, n, true)?;
        resid(ctx, &sb, &what, &format!("{} {}: |Tx-b| / (8 n eps (|T||x|+|b|))", which, form), t, n, &x, b, 1, tolc)?;
    }
    Ok(())
}

// ================================================================================================
// driver
// ================================================================================================

fn fixed_reject() -> Vec<RejectCase> {
    let mats: Vec<(u8, usize, Vec<f64>)> = vec![
        (0, 2, vec![1., 2., 2., 1.]),
        (0, 3, vec![1., 1., 0., 1., 1., 1., 0., 1., 1.]),
        (0, 3, vec![2., 1., 3., 1., 2., 1., 3., 1., 2.]),
        (1, 1, vec![0.]),
        (1, 1, vec![-4.]),
        (1, 2, vec![1., 0., 0., -1.]),
        (1, 2, vec![4., 2., 2., 0.]),
        (2, 2, vec![2., 1., 0., 2.]),
    ];
    let mut v = vec![];
    for (class, n, a) in mats {
        for form in 0..2u8 {
            v.push(RejectCase { class, form, n, a: a.clone() });
        }
    }
    v
}

pub fn run(ctx: &mut Ctx) {
    ctx.rule = "perm: every permutation matrix of order 1..=6; lu/det: (class, n, salt) expanded deterministically, class in {diagonal, integer ±9 (n<=12, \
exact determinant), dense N(0,1), permutation up to order 32 (random / one n-cycle / two long cycles, optionally signed and scaled by powers of two), \
singular integer, rank-deficient integer, zero leading block, late row exchange, symmetric indefinite with positive diagonal, rows scaled 10^±3}; \
chol: SPD classes {diagonal, Gram+δI, graded to cond 1e8, integer GᵀG+I, tridiagonal, low-rank+δI}; chol_reject: {symmetric indefinite with positive \
diagonal, non-positive diagonal entry, asymmetric} x {slice, Matrix}; tri: lower/upper triangular with random right-hand side. n in 1..=32 weighted toward \
1-9 and 8k±1. Non-trivial: n >= 3, and for lu/det/perm at least one row exchange (oracle's own LU); distinct by hash of the entries."
        .into();
    ctx.assumptions = vec![
        "slice and Matrix LU factors are compared with exact numerical equality (−0 == +0)".into(),
        "the two Cholesky forms accumulate over different lengths and are compared up to 8 n eps cond |L|".into(),
        "Cholesky reconstruction is judged entry-wise against 8 (n+1) eps sqrt(a_ii a_jj) (rigorous, scale-invariant); the DESIGN's norm-wise ratio is logged only".into(),
        "'not positive definite' is only demanded to be rejected when it is clear: λ_min <= −1e-6 max|λ| (Jacobi), a diagonal entry <= 0, or asymmetry >= 1e-3 max|a|; any panic counts as rejection".into(),
        "lu_solve is only exercised when the oracle's cond estimate is <= 1e12; rejection of non-triangular input by the Matrix substitution routines is not asserted (not in the statement)".into(),
    ];

    // exhaustive: all permutation matrices up to order 6
    let mut nperm = 0;
    for n in 1..=6usize {
        for p in la::all_permutations(n) {
            ctx.check_one("perm", &PermCase { perm: p }, check_perm);
            nperm += 1;
        }
    }
    ctx.exhaustive.push(format!("all {} permutation matrices of order 1..=6 (LU structure, det = sign exactly)", nperm));

    for c in fixed_reject() {
        ctx.check_one("chol_reject", &c, check_reject);
    }
    ctx.exhaustive.push("8 hand-written matrices that are not positive definite x {slice, Matrix} Cholesky".into());

    let n_lu = ctx.scale(24_000, 250_000);
    ctx.run_prop_par("lu", n_lu, 16, lu_strat, check_lu);
    let n_det = ctx.scale(24_000, 250_000);
    ctx.run_prop_par("det", n_det, 16, lu_strat, check_det);
    let n_chol = ctx.scale(12_000, 120_000);
    ctx.run_prop_par("chol", n_chol, 16, chol_strat, check_chol);
    let n_rej = ctx.scale(6_000, 60_000);
    ctx.run_prop_par("chol_reject", n_rej, 16, reject_strat, check_reject);
    let n_tri = ctx.scale(8_000, 60_000);
    ctx.run_prop_par("tri", n_tri, 16, tri_strat, check_tri);
}

pub fn replay(ctx: &mut Ctx, sub: &str, v: Value) -> Option<R> {
    match sub {
        "perm" => Some(check_perm(ctx, &decode::<PermCase>(v)?)),
        "lu" => Some(check_lu(ctx, &decode::<LuCase>(v)?)),
        "det" => Some(check_det(ctx, &decode::<LuCase>(v)?)),
        "chol" => Some(check_chol(ctx, &decode::<CholCase>(v)?)),
        "chol_reject" => Some(check_reject(ctx, &decode::<RejectCase>(v)?)),
        "tri" => Some(check_tri(ctx, &decode::<TriCase>(v)?)),
        _ => None,
    }
}
