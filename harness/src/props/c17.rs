//! C17 — Statistical transforms and combinatorics satisfy their defining identities.
//!
//! Sub-checks (signature = "C17/" + sub-check name unless noted):
//!   logistic/range            logistic(x) in [0,1] for x in ±745
//!   logistic/monotone         x < y  =>  logistic(x) <= logistic(y)   (f32 neighbours, random pairs)
//!   logistic/reflection       |logistic(−x) − (1 − logistic(x))| <= 8ε
//!   logistic/logit-roundtrip  |logistic(logit(p)) − p| <= 8ε on [0,1] (logit must not panic there);
//!                             |logit(logistic(x)) − x| <= 8ε(2 + e^x) + 2ε|x| for −700 <= x <= 30
//!   logit/rejects-outside     logit(p) panics for p < 0, p > 1, NaN
//!   softmax/finite, /sum, /order, /shift, /value   (see the check functions)
//!   boxcox/value, boxcox/rejects, boxcox_shifted/value, boxcox_shifted/rejects
//!   binom/value, /symmetry, /pascal, /alt
//!
//! ε = 2^-52. Tolerance derivations are next to each check.

use super::ptsweep::{self as ps, Arg, PointSub, Pt};
use crate::engine::{catch, decode, fail, mix_seed, Ctx, Hx, R};
use crate::oracle::dd::DD;
use crate::oracle::special as sp;
use compute::functions::{binom_coeff, binom_coeff_alt, boxcox, boxcox_shifted, logistic, logit, softmax};
use proptest::prelude::*;
use serde::{Deserialize, Serialize};
use serde_json::{json, Value};
use std::sync::OnceLock;

const EPS: f64 = f64::EPSILON;
const XMAX: f64 = 745.0;

// ---------------------------------------------------------------------------------------------
// logistic / logit (point sub-checks)
// ---------------------------------------------------------------------------------------------

fn lclass(x: f64) -> &'static str {
    let a = x.abs();
    if a < 1.0 {
        "|x|<1"
    } else if a <= 36.0 {
        "|x| in [1,36]"
    } else if a <= 709.0 {
        "|x| in (36,709]"
    } else {
        "|x| in (709,745]"
    }
}

fn f_logistic_range(x: f64, _: f64) -> Option<Pt> {
    if !(x.abs() <= XMAX) {
        return None;
    }
    let v = logistic(x);
    if v >= 0.0 && v <= 1.0 {
        Pt::ok(lclass(x), f64::NAN)
    } else {
        Pt::bad(lclass(x), f64::NAN, format!("logistic({:e}) = {:e} is not in [0,1]", x, v))
    }
}

fn f_logistic_monotone(x: f64, y: f64) -> Option<Pt> {
    if !(x.abs() <= XMAX && y.abs() <= XMAX && x < y) {
        return None;
    }
    let (a, b) = (logistic(x), logistic(y));
    if a <= b {
        Pt::ok(lclass(x), f64::NAN)
    } else {
        Pt::bad(lclass(x), f64::NAN, format!("{:e} < {:e} but logistic gives {:e} > {:e}", x, y, a, b))
    }
}

/// L(x) = 1/(1+e^-x) has relative error <= 2ε (exp 1 ulp, one addition, one division), so
/// |L(−x) − (1 − L(x))| <= 2ε(L(x)+L(−x)) + ε/2 = 2.5ε a priori; bound 8ε.
fn f_logistic_reflection(x: f64, _: f64) -> Option<Pt> {
    if !(x.abs() <= XMAX) {
        return None;
    }
    let (p, m) = (logistic(x), logistic(-x));
    let d = (m - (1.0 - p)).abs();
    let r = if d.is_nan() { f64::INFINITY } else { d / (8.0 * EPS) };
    Pt::judge(lclass(x), r, || format!("logistic({:e}) = {:e}, logistic({:e}) = {:e}: sum − 1 = {:.3e} > 8ε", x, p, -x, m, d))
}

/// y = 0: x is p in [0,1], check logistic(logit(p)) = p. logit's absolute error δ <= (1.5 + |logit p|)·ε/2
/// moves logistic by p(1−p)δ <= 0.25·ε; plus logistic's own 2ε·p: < 2.5ε a priori; bound 8ε (absolute).
/// y = 1: −700 <= x <= 30, check logit(logistic(x)) = x: bound 8ε(2 + e^x) + 2ε|x| (derivation at the check).
fn f_logit_roundtrip(x: f64, y: f64) -> Option<Pt> {
    if y == 0.0 {
        let p = x;
        if !(p >= 0.0 && p <= 1.0) {
            return None;
        }
        let class = if p == 0.0 || p == 1.0 {
            "p endpoint"
        } else if p < 1e-300 {
            "p tiny"
        } else {
            "p in (0,1)"
        };
        let l = match catch(|| logit(p)) {
            Ok(l) => l,
            Err(msg) => return Pt::bad(class, f64::NAN, format!("logit({:e}) panicked on an argument in [0,1]: {}", p, msg)),
        };
        let back = logistic(l);
        let d = (back - p).abs();
        let r = if d.is_nan() { f64::INFINITY } else { d / (8.0 * EPS) };
        Pt::judge(class, r, || format!("logit({:e}) = {:e}, logistic of that = {:e}: off by {:.3e} > 8ε", p, l, back, d))
    } else if y == 1.0 {
        // upper end 30: beyond it 1 − logistic(x) has no significant bits left; lower end −700: there
        // logistic(x) ≈ e^x is a tiny but normal number carrying its full relative precision, so the logit
        // must recover x (a formula that is only *absolutely* accurate near 0 — e.g. 0.5 + 0.5·tanh(x/2) —
        // is not inverted by the logit in the lower tail)
        if !(x >= -700.0 && x <= 30.0) {
            return None;
        }
        let p = logistic(x);
        let back = match catch(|| logit(p)) {
            Ok(l) => l,
            Err(msg) => return Pt::bad("x -> logistic -> logit", f64::NAN, format!("logit(logistic({:e}) = {:e}) panicked: {}", x, p, msg)),
        };
        // logistic's error 2ε·L (relative) is amplified by 1/(L(1−L)) = 2 + e^x + e^-x: 2ε(1 + e^x)·(slack 4),
        // logit adds (1.5 + |x|)ε/2
        let tol = 8.0 * EPS * (2.0 + x.exp()) + 2.0 * EPS * x.abs();
        let d = (back - x).abs();
        let r = if d.is_nan() { f64::INFINITY } else { d / tol };
        Pt::judge("x -> logistic -> logit", r, || format!("logistic({:e}) = {:e}, logit of that = {:e}: off by {:.3e} > {:.3e}", x, p, back, d, tol))
    } else {
        None
    }
}

fn f_logit_rejects(p: f64, _: f64) -> Option<Pt> {
    if p >= 0.0 && p <= 1.0 {
        return None;
    }
    let class = if p.is_nan() {
        "NaN"
    } else if p < 0.0 {
        "p<0"
    } else {
        "p>1"
    };
    match catch(|| logit(p)) {
        Err(_) => Pt::ok(class, f64::NAN),
        Ok(v) => Pt::bad(class, f64::NAN, format!("logit({:e}) returned {:e} instead of rejecting an argument outside [0,1]", p, v)),
    }
}

macro_rules! psub {
    ($name:ident, $sub:expr, $tol:expr, $f:ident) => {
        pub static $name: PointSub = PointSub { sub: $sub, sig: concat!("C17/", $sub), tol: $tol, f: $f };
    };
}
psub!(LOGISTIC_RANGE, "logistic/range", "-", f_logistic_range);
psub!(LOGISTIC_MONOTONE, "logistic/monotone", "-", f_logistic_monotone);
psub!(LOGISTIC_REFLECTION, "logistic/reflection", "logistic reflection / 8eps", f_logistic_reflection);
psub!(LOGIT_ROUNDTRIP, "logistic/logit-roundtrip", "logit roundtrip / bound", f_logit_roundtrip);
psub!(LOGIT_REJECTS, "logit/rejects-outside", "-", f_logit_rejects);

static POINT_SUBS: [&PointSub; 5] = [&LOGISTIC_RANGE, &LOGISTIC_MONOTONE, &LOGISTIC_REFLECTION, &LOGIT_ROUNDTRIP, &LOGIT_REJECTS];

fn sign(u: f64) -> f64 {
    if u < 0.5 {
        -1.0
    } else {
        1.0
    }
}

fn next_f32(x: f32) -> f32 {
    // next representable f32 toward +inf (finite inputs only)
    if x == 0.0 {
        f32::from_bits(1)
    } else if x > 0.0 {
        f32::from_bits(x.to_bits() + 1)
    } else {
        f32::from_bits(x.to_bits() - 1)
    }
}

fn logistic_arg(base: u64, i: u64) -> f64 {
    let (u, v) = (ps::unit(base, i, 0), ps::unit(base, i, 1));
    match i % 8 {
        0 => ps::lerp(u, -XMAX, XMAX),
        1 => (ps::lerp(u, -XMAX, XMAX) as f32) as f64,
        2 | 3 => ps::lerp(u, -40.0, 40.0),
        4 => sign(v) * ps::logu(u, 1e-300, 1.0),
        5 => sign(v) * ps::lerp(u, 700.0, XMAX),
        6 => sign(v) * ps::lerp(u, 30.0, 40.0),
        _ => ((u * 1491.0).floor() - 745.0) + if v < 0.5 { 0.0 } else { 0.5 },
    }
}

fn monotone_pair(base: u64, i: u64) -> (f64, f64) {
    let x = logistic_arg(base, i);
    let w = ps::unit(base, i, 2);
    let y = match i % 3 {
        0 => next_f32(x as f32) as f64,
        1 => x + ps::logu(w, 1e-9, 10.0),
        _ => ps::lerp(w, x, XMAX),
    };
    // the pair is only used when x < y (x as f32 may round below x: then the f32 neighbour pair is (x32, next))
    if i % 3 == 0 {
        ((x as f32) as f64, y)
    } else {
        (x, y)
    }
}

fn prob_arg(base: u64, i: u64) -> f64 {
    let u = ps::unit(base, i, 0);
    match i % 8 {
        0 | 1 => u,
        2 => (u as f32) as f64,
        3 => ps::logu(u, 1e-300, 1.0),
        4 => 1.0 - ps::logu(u, 1e-16, 1.0),
        5 => f64::from_bits((u * 4503599627370496.0) as u64), // subnormals
        6 => 0.5 + (u - 0.5) * 1e-6,
        _ => [0.0, 1.0, 1.0 - EPS / 2.0, f64::MIN_POSITIVE, 5e-324, 0.5, 0.25, 0.75][(u * 8.0) as usize % 8],
    }
}

fn outside_arg(base: u64, i: u64) -> f64 {
    let u = ps::unit(base, i, 0);
    match i % 8 {
        0 => -ps::logu(u, 1e-320, 1e300),
        1 => 1.0 + ps::logu(u, 2.3e-16, 1e300),
        2 => -f64::from_bits(1 + (u * 1e6) as u64),
        3 => 1.0 + EPS * (1.0 + (u * 1000.0).floor()),
        4 => ps::lerp(u, 1.0, 2.0) + EPS,
        5 => -ps::lerp(u, 1e-9, 1.0),
        6 => [f64::NAN, f64::INFINITY, f64::NEG_INFINITY, 2.0, -1.0, 1.5, -0.5, 1.0000000000000002][(u * 8.0) as usize % 8],
        _ => ((1.0 + ps::logu(u, 1e-7, 10.0)) as f32) as f64,
    }
}

// ---------------------------------------------------------------------------------------------
// softmax (proptest)
// ---------------------------------------------------------------------------------------------

#[derive(Clone, Debug, Serialize, Deserialize)]
pub struct SCase {
    #[serde(with = "crate::engine::fx::v")]
    pub x: Vec<f64>,
    /// constant added to every entry (shift sub-check only)
    #[serde(with = "crate::engine::fx::f", default)]
    pub c: f64,
    /// generator class (label only)
    #[serde(default)]
    pub class: u8,
}

const SCLASS: [&str; 7] = ["small", "all large positive", "all large negative", "mixed ±1e4", "constant", "ties", "few large, rest far below"];

fn softmax_strat() -> impl Strategy<Value = SCase> {
    (0u8..3)
        .prop_flat_map(|lc| {
            let maxlen = [8usize, 64, 1000][lc as usize];
            (prop::collection::vec(0f64..1.0, 1..=maxlen), 0u8..7, 0f64..1.0, 0u8..3, 0f64..1.0)
        })
        .prop_map(|(us, class, b, cclass, cu)| {
            let big = 700.0 + b * 9200.0;
            let x: Vec<f64> = us
                .iter()
                .map(|&u| match class {
                    0 => (u - 0.5) * 20.0,
                    1 => big + (u - 0.5) * 100.0,
                    2 => -big + (u - 0.5) * 100.0,
                    3 => (u - 0.5) * 2e4,
                    4 => (b - 0.5) * 2e4,
                    5 => (b - 0.5) * 1e4 + (u * 4.0).floor() * if b < 0.5 { 0.5 } else { 300.0 },
                    _ => {
                        if u < 0.1 {
                            big
                        } else {
                            -big * u
                        }
                    }
                })
                .collect();
            let mx = x.iter().cloned().fold(f64::NEG_INFINITY, f64::max);
            let mn = x.iter().cloned().fold(f64::INFINITY, f64::min);
            // keep x + c inside ±1e4 as well
            let (clo, chi) = (-1e4 - mn, 1e4 - mx);
            let c = match cclass {
                0 => ps::lerp(cu, clo, chi),
                1 => ((cu - 0.5) * 2.0).clamp(clo, chi),
                _ => ps::lerp(cu, clo, chi).round().clamp(clo.ceil(), chi.floor()),
            };
            SCase { x, c, class }
        })
}

fn s_valid(c: &SCase) -> bool {
    !c.x.is_empty() && c.x.len() <= 1000 && c.x.iter().all(|v| v.is_finite() && v.abs() <= 1e4)
}

fn s_account(ctx: &mut Ctx, sub: &str, c: &SCase) {
    let m = c.x.iter().fold(0f64, |a, v| a.max(v.abs()));
    let label = SCLASS[(c.class as usize).min(6)];
    ctx.case(sub, label, c.x.len() >= 2 && m > 700.0, Hx::new().fs(&c.x).f(c.c).finish());
    ctx.label(sub, if c.x.len() == 1 { "len=1" } else if c.x.len() <= 8 { "len 2..=8" } else if c.x.len() <= 64 { "len 9..=64" } else { "len 65..=1000" });
    ctx.sample(sub, || json!(c));
}

fn s_call(x: &[f64]) -> Result<Vec<f64>, crate::engine::Fail> {
    match catch(|| softmax(x)) {
        Ok(v) => Ok(v),
        Err(msg) => fail("C17/softmax/panic", format!("softmax panicked on a finite input of length {}: {}", x.len(), msg)),
    }
}

fn all_finite(s: &[f64]) -> bool {
    s.iter().all(|v| v.is_finite())
}

fn maxabs(x: &[f64]) -> f64 {
    x.iter().fold(0f64, |a, v| a.max(v.abs()))
}

pub fn check_softmax_finite(ctx: &mut Ctx, c: &SCase) -> R {
    if !s_valid(c) {
        return Ok(());
    }
    s_account(ctx, "softmax/finite", c);
    let s = s_call(&c.x)?;
    ensure!(s.len() == c.x.len(), "C17/softmax/length", "softmax of {} entries returned {} entries", c.x.len(), s.len());
    for (i, v) in s.iter().enumerate() {
        ensure!(
            v.is_finite() && *v >= 0.0,
            "C17/softmax/finite",
            "softmax of a finite vector (length {}, min {:e}, max {:e}): entry {} for input {:e} is {:e}",
            c.x.len(),
            c.x.iter().cloned().fold(f64::INFINITY, f64::min),
            c.x.iter().cloned().fold(f64::NEG_INFINITY, f64::max),
            i,
            c.x[i],
            v
        );
    }
    Ok(())
}

/// Σ s_i with s_i = e_i(1+δ_i)/Ŝ, Ŝ = S(1+θ), |θ| <= (n−1)ε/2, |δ_i| <= ε/2: |Σ − 1| <= nε/2 a priori
/// for any summation order; bound (4n + 8)ε. The sum is taken in double-double.
pub fn check_softmax_sum(ctx: &mut Ctx, c: &SCase) -> R {
    if !s_valid(c) {
        return Ok(());
    }
    s_account(ctx, "softmax/sum", c);
    let s = s_call(&c.x)?;
    if !all_finite(&s) {
        ctx.label("softmax/sum", "non-finite output (left to softmax/finite)");
        return Ok(());
    }
    let n = s.len() as f64;
    let d = (crate::oracle::dd::dd_sum(&s) - 1.0).f().abs();
    let tol = (4.0 * n + 8.0) * EPS;
    ctx.worst("softmax |sum-1| / (4n+8)eps", d / tol);
    ensure!(d <= tol, "C17/softmax/sum", "softmax of {} entries sums to 1 {:+.3e}, bound {:.3e}", s.len(), d, tol);
    Ok(())
}

pub fn check_softmax_order(ctx: &mut Ctx, c: &SCase) -> R {
    if !s_valid(c) {
        return Ok(());
    }
    s_account(ctx, "softmax/order", c);
    let s = s_call(&c.x)?;
    if !all_finite(&s) || s.len() != c.x.len() {
        ctx.label("softmax/order", "non-finite output (left to softmax/finite)");
        return Ok(());
    }
    let mut idx: Vec<usize> = (0..s.len()).collect();
    idx.sort_by(|&a, &b| c.x[a].total_cmp(&c.x[b]).then(a.cmp(&b)));
    for w in idx.windows(2) {
        let (i, j) = (w[0], w[1]);
        if c.x[i] == c.x[j] {
            ensure!(s[i] == s[j], "C17/softmax/order", "equal inputs x[{}] = x[{}] = {:e} map to different outputs {:e}, {:e}", i, j, c.x[i], s[i], s[j]);
        } else {
            ensure!(s[i] <= s[j], "C17/softmax/order", "x[{}] = {:e} < x[{}] = {:e} but outputs {:e} > {:e}", i, c.x[i], j, c.x[j], s[i], s[j]);
        }
    }
    Ok(())
}

/// One call on x has relative error <= ε(2M + n/2 + 1.5) per entry (M = max|x|: the rounding of x_i − max
/// is an absolute perturbation <= εM of the exponent, in numerator and denominator; exp 1 ulp; the sum
/// nε/2; the division ε/2). The harness's y_i = fl(x_i + c) perturbs the exponents by <= ε(|c|+M)/2 each,
/// i.e. the true softmax by <= ε(|c|+M). Two calls (M and M' <= M + |c|): ε(5M + 3|c| + n + 3) a priori;
/// bound 8× that, plus 1e-300 absolute for entries in the subnormal range.
pub fn check_softmax_shift(ctx: &mut Ctx, c: &SCase) -> R {
    if !s_valid(c) || !c.c.is_finite() {
        return Ok(());
    }
    let y: Vec<f64> = c.x.iter().map(|v| v + c.c).collect();
    if maxabs(&y) > 1e4 {
        return Ok(()); // shifted vector outside the quantifier (decoded replay files only)
    }
    s_account(ctx, "softmax/shift", c);
    let s = s_call(&c.x)?;
    let t = s_call(&y)?;
    if !all_finite(&s) || !all_finite(&t) || s.len() != t.len() {
        ctx.label("softmax/shift", "non-finite output (left to softmax/finite)");
        return Ok(());
    }
    let m = maxabs(&c.x);
    let n = s.len() as f64;
    let rel = 8.0 * EPS * (5.0 * m + 3.0 * c.c.abs() + n + 3.0);
    for i in 0..s.len() {
        let d = (s[i] - t[i]).abs();
        let tol = rel * s[i].max(t[i]) + 1e-300;
        ctx.worst("softmax shift diff / bound", d / tol);
        ensure!(
            d <= tol,
            "C17/softmax/shift",
            "softmax(x)[{}] = {:e} but softmax(x + {:e})[{}] = {:e} (x[{}] = {:e}, length {}): difference {:.3e} > {:.3e}",
            i, s[i], c.c, i, t[i], i, c.x[i], s.len(), d, tol
        );
    }
    Ok(())
}

/// Reference exp(x_i − max)/Σ exp(x_j − max) in double-double; bound 8·ε(2M + n/2 + 1.5) relative
/// (a-priori bound of the shifted evaluation, see `check_softmax_shift`) + 1e-300 absolute.
pub fn check_softmax_value(ctx: &mut Ctx, c: &SCase) -> R {
    if !s_valid(c) {
        return Ok(());
    }
    s_account(ctx, "softmax/value", c);
    let s = s_call(&c.x)?;
    if !all_finite(&s) || s.len() != c.x.len() {
        ctx.label("softmax/value", "non-finite output (left to softmax/finite)");
        return Ok(());
    }
    let mx = c.x.iter().cloned().fold(f64::NEG_INFINITY, f64::max);
    let e: Vec<DD> = c.x.iter().map(|&v| DD::from_sum(v, -mx).exp()).collect();
    let mut tot = DD::ZERO;
    for v in e.iter() {
        tot = tot + *v;
    }
    let m = maxabs(&c.x);
    let n = s.len() as f64;
    let rel = 8.0 * EPS * (2.0 * m + 0.5 * n + 1.5);
    for i in 0..s.len() {
        let want = (e[i] / tot).f();
        let d = (s[i] - want).abs();
        let tol = rel * want + 1e-300;
        ctx.worst("softmax value diff / bound", d / tol);
        ensure!(d <= tol, "C17/softmax/value", "softmax(x)[{}] = {:e} for x[{}] = {:e} (max {:e}, length {}), expected {:e}: difference {:.3e} > {:.3e}", i, s[i], i, c.x[i], mx, s.len(), want, d, tol);
    }
    Ok(())
}

// ---------------------------------------------------------------------------------------------
// Box–Cox (proptest)
// ---------------------------------------------------------------------------------------------

#[derive(Clone, Debug, Serialize, Deserialize)]
pub struct BCase {
    #[serde(with = "crate::engine::fx::f")]
    pub x: f64,
    #[serde(with = "crate::engine::fx::f")]
    pub lambda: f64,
    #[serde(with = "crate::engine::fx::f", default)]
    pub shift: f64,
}

fn lambda_from(lclass: u8, lu: f64, neg: bool) -> f64 {
    let s = if neg { -1.0 } else { 1.0 };
    match lclass {
        0 => 0.0,
        1 => s * 1e-300,
        2 => s * ps::logu(lu, 1e-20, 1e-8),
        3 => (lu - 0.5) * 10.0,
        4 => s * [0.5, 1.0, 2.0, 3.0, 0.25, 1.5, 4.0, 5.0][(lu * 8.0) as usize % 8],
        _ => s * ps::logu(lu, 1e-8, 5.0),
    }
}

fn lambda_class(l: f64) -> &'static str {
    let a = l.abs();
    if a == 0.0 {
        "lambda=0"
    } else if a < 1e-8 {
        "|lambda|<1e-8"
    } else if a < 1e-2 {
        "|lambda| in [1e-8,1e-2)"
    } else if l == 1.0 {
        "lambda=1"
    } else {
        "|lambda| in [1e-2,5]"
    }
}

fn boxcox_strat() -> impl Strategy<Value = BCase> {
    (0f64..1.0, 0u8..6, 0f64..1.0, any::<bool>()).prop_map(|(xu, lc, lu, neg)| BCase { x: ps::logu(xu, 1.000001e-6, 0.999999e6), lambda: lambda_from(lc, lu, neg), shift: 0.0 })
}

fn boxcox_bad_strat() -> impl Strategy<Value = BCase> {
    (0u8..4, 0f64..1.0, 0u8..6, 0f64..1.0, any::<bool>()).prop_map(|(xc, xu, lc, lu, neg)| {
        let x = match xc {
            0 => 0.0,
            1 => -0.0,
            2 => -ps::logu(xu, 1e-300, 1e300),
            _ => -ps::lerp(xu, 0.0, 10.0),
        };
        BCase { x, lambda: lambda_from(lc, lu, neg), shift: 0.0 }
    })
}

/// z = x + shift is built from z log-uniform in (1e-6, 1e6) and a shift of either sign (or 0): x = z − shift.
fn shifted_strat() -> impl Strategy<Value = BCase> {
    (0f64..1.0, 0u8..6, 0f64..1.0, any::<bool>(), 0u8..5, 0f64..1.0).prop_map(|(zu, lc, lu, neg, sc, su)| {
        let z = ps::logu(zu, 1.000001e-6, 0.999999e6);
        let shift = match sc {
            0 => 0.0,
            1 => ps::logu(su, 1e-3, 1e3),
            2 => -ps::logu(su, 1e-3, 1e3),
            3 => [1.0, 2.0, 0.5, 10.0][(su * 4.0) as usize % 4],
            _ => -[1.0, 2.0, 0.5, 10.0][(su * 4.0) as usize % 4],
        };
        BCase { x: z - shift, lambda: lambda_from(lc, lu, neg), shift }
    })
}

/// x + shift <= 0: x = −shift − w with w = 0 or log-uniform.
fn shifted_bad_strat() -> impl Strategy<Value = BCase> {
    (0u8..3, 0f64..1.0, 0u8..6, 0f64..1.0, any::<bool>(), 0u8..5, 0f64..1.0).prop_map(|(wc, wu, lc, lu, neg, sc, su)| {
        let w = match wc {
            0 => 0.0,
            1 => ps::logu(wu, 1e-6, 1e6),
            _ => [1.0, 0.5, 2.0, 3.0][(wu * 4.0) as usize % 4],
        };
        let shift = match sc {
            0 => 0.0,
            1 => ps::logu(su, 1e-3, 1e3),
            2 => -ps::logu(su, 1e-3, 1e3),
            3 => [1.0, 2.0, 0.5, 10.0][(su * 4.0) as usize % 4],
            _ => -[1.0, 2.0, 0.5, 10.0][(su * 4.0) as usize % 4],
        };
        BCase { x: -shift - w, lambda: lambda_from(lc, lu, neg), shift }
    })
}

/// Reference value (z^λ − 1)/λ (ln z at λ = 0) in double-double, and z^λ.
fn boxcox_ref(z: DD, lambda: f64) -> (DD, f64, f64) {
    let l = z.ln();
    if lambda == 0.0 {
        (l, 1.0, 0.0)
    } else {
        let t = l * lambda;
        let e = t.exp();
        ((e - 1.0) / lambda, e.f(), t.f().abs())
    }
}

/// Forward-error bound of the textbook formula (DESIGN §4 C17): (8 + |λ ln z|)·ε·(z^λ + 1)/|λ| + 8ε|result|;
/// at λ = 0: 8ε|ln z|. `extra` = 2ε·z^λ for the shifted form (rounding of x + shift, relative ε/2 in z,
/// moves the result by z^λ·ε/2; at λ = 0 this is the only absolute term).
fn boxcox_tol(want: f64, zl: f64, t: f64, lambda: f64, extra: f64) -> f64 {
    if lambda == 0.0 {
        8.0 * EPS * want.abs() + extra
    } else {
        (8.0 + t) * EPS * (zl + 1.0) / lambda.abs() + 8.0 * EPS * want.abs() + extra
    }
}

pub fn check_boxcox_value(ctx: &mut Ctx, c: &BCase) -> R {
    if !(c.x > 1e-6 && c.x < 1e6 && c.lambda.abs() <= 5.0) {
        return Ok(());
    }
    ctx.case("boxcox/value", lambda_class(c.lambda), c.lambda != 1.0, Hx::new().f(c.x).f(c.lambda).finish());
    ctx.sample("boxcox/value", || json!(c));
    let (want, zl, t) = boxcox_ref(DD::new(c.x), c.lambda);
    let got = match catch(|| boxcox(c.x, c.lambda)) {
        Ok(v) => v,
        Err(msg) => return fail("C17/boxcox/value", format!("boxcox({:e}, {:e}) panicked on x > 0: {}", c.x, c.lambda, msg)),
    };
    let tol = boxcox_tol(want.f(), zl, t, c.lambda, 0.0);
    let d = (DD::new(got) - want).f().abs();
    if c.lambda.abs() >= 1e-8 || c.lambda == 0.0 {
        ctx.worst("boxcox err / forward bound (|lambda|>=1e-8 or 0)", d / tol);
    }
    ensure!(d <= tol, "C17/boxcox/value", "boxcox({:e}, {:e}) = {:e}, expected {:e}: error {:.3e} > {:.3e}", c.x, c.lambda, got, want.f(), d, tol);
    Ok(())
}

pub fn check_boxcox_rejects(ctx: &mut Ctx, c: &BCase) -> R {
    if !(c.x <= 0.0) {
        return Ok(());
    }
    ctx.case("boxcox/rejects", if c.x == 0.0 { "x=0" } else { "x<0" }, true, Hx::new().f(c.x).f(c.lambda).finish());
    ctx.sample("boxcox/rejects", || json!(c));
    match catch(|| boxcox(c.x, c.lambda)) {
        Err(_) => Ok(()),
        Ok(v) => fail("C17/boxcox/rejects", format!("boxcox({:e}, {:e}) returned {:e} instead of rejecting x <= 0", c.x, c.lambda, v)),
    }
}

fn shift_class(c: &BCase) -> &'static str {
    if c.shift == 0.0 {
        "shift=0"
    } else if c.shift > 0.0 {
        if c.x > c.shift {
            "shift>0, x>shift"
        } else if c.x > 0.0 {
            "shift>0, 0<x<=shift"
        } else {
            "shift>0, x<=0"
        }
    } else if c.x > -c.shift {
        "shift<0, x+shift>0"
    } else if c.x > c.shift {
        "shift<0, shift<x<=-shift"
    } else {
        "shift<0, x<=shift"
    }
}

pub fn check_shifted_value(ctx: &mut Ctx, c: &BCase) -> R {
    if !(c.x.is_finite() && c.shift.is_finite() && c.lambda.abs() <= 5.0) {
        return Ok(());
    }
    let z = DD::from_sum(c.x, c.shift); // exact
    if !(z.hi > 1e-7 && z.hi < 1e7) {
        return Ok(()); // not in the valid domain of this sub-check (x + shift <= 0 belongs to /rejects)
    }
    ctx.case("boxcox_shifted/value", &format!("{}; {}", shift_class(c), lambda_class(c.lambda)), c.lambda != 1.0, Hx::new().f(c.x).f(c.lambda).f(c.shift).finish());
    ctx.sample("boxcox_shifted/value", || json!(c));
    let (want, zl, t) = boxcox_ref(z, c.lambda);
    let got = match catch(|| boxcox_shifted(c.x, c.lambda, c.shift)) {
        Ok(v) => v,
        Err(msg) => {
            return fail(
                "C17/boxcox_shifted/value",
                format!("boxcox_shifted({:e}, {:e}, {:e}) panicked although x + shift = {:e} > 0: {}", c.x, c.lambda, c.shift, z.hi, msg),
            )
        }
    };
    let tol = boxcox_tol(want.f(), zl, t, c.lambda, 2.0 * EPS * zl);
    let d = (DD::new(got) - want).f().abs();
    if c.lambda.abs() >= 1e-8 || c.lambda == 0.0 {
        ctx.worst("boxcox_shifted err / forward bound (|lambda|>=1e-8 or 0)", d / tol);
    }
    ensure!(
        d <= tol,
        "C17/boxcox_shifted/value",
        "boxcox_shifted({:e}, {:e}, {:e}) = {:e}, expected boxcox({:e}, {:e}) = {:e}: error {:.3e} > {:.3e}",
        c.x, c.lambda, c.shift, got, z.hi, c.lambda, want.f(), d, tol
    );
    Ok(())
}

pub fn check_shifted_rejects(ctx: &mut Ctx, c: &BCase) -> R {
    if !(c.x.is_finite() && c.shift.is_finite()) {
        return Ok(());
    }
    let z = DD::from_sum(c.x, c.shift);
    if z.hi > 0.0 {
        return Ok(());
    }
    ctx.case("boxcox_shifted/rejects", &format!("{}; x+shift{}", shift_class(c), if z.hi == 0.0 { "=0" } else { "<0" }), true, Hx::new().f(c.x).f(c.lambda).f(c.shift).finish());
    ctx.sample("boxcox_shifted/rejects", || json!(c));
    match catch(|| boxcox_shifted(c.x, c.lambda, c.shift)) {
        Err(_) => Ok(()),
        Ok(v) => fail(
            "C17/boxcox_shifted/rejects",
            format!("boxcox_shifted({:e}, {:e}, {:e}) returned {:e} instead of rejecting x + shift = {:e} <= 0", c.x, c.lambda, c.shift, v, z.hi),
        ),
    }
}

// ---------------------------------------------------------------------------------------------
// binomial coefficient
// ---------------------------------------------------------------------------------------------

#[derive(Clone, Debug, Serialize, Deserialize)]
pub struct NCase {
    pub n: u64,
    pub k: u64,
}

/// Largest n with C(n, k) < 2^64, k = 0..=32 (u64::MAX for k <= 1).
fn nmax_table() -> &'static [u64; 33] {
    static T: OnceLock<[u64; 33]> = OnceLock::new();
    T.get_or_init(|| {
        let mut t = [u64::MAX; 33];
        for k in 2..=32u64 {
            let (mut lo, mut hi) = (2 * k, u64::MAX >> 1); // C(lo,k) fits (lo <= 64), C(hi,k) does not
            while hi - lo > 1 {
                let mid = lo + (hi - lo) / 2;
                if sp::binom_exact(mid, k).is_some() {
                    lo = mid;
                } else {
                    hi = mid;
                }
            }
            t[k as usize] = lo;
        }
        t
    })
}

fn binom_class(c: &NCase) -> String {
    let m = c.k.min(c.n - c.k);
    let ncl = if c.n <= 67 {
        "n<=67"
    } else if c.n <= 1000 {
        "n in 68..=1000"
    } else if c.n <= 1_000_000 {
        "n in 1e3..1e6"
    } else {
        "n>1e6"
    };
    format!("{}; min(k,n-k){}", ncl, if m < 2 { "<2" } else if m <= 8 { " in 2..=8" } else { ">8" })
}

fn nontrivial_binom(c: &NCase) -> bool {
    c.k >= 2 && c.n - c.k >= 2
}

fn lib_binom(n: u64, k: u64) -> Result<u64, String> {
    catch(|| binom_coeff(n, k))
}

pub fn check_binom_value(ctx: &mut Ctx, c: &NCase) -> R {
    if c.k > c.n {
        return Ok(());
    }
    let want = sp::binom_exact(c.n, c.k);
    if want.is_none() {
        // outside the statement: recorded only
        let what = match lib_binom(c.n, c.k) {
            Err(_) => "does not fit u64 (recorded only): panics",
            Ok(0) => "does not fit u64 (recorded only): returns 0",
            Ok(_) => "does not fit u64 (recorded only): returns a non-zero value",
        };
        ctx.case("binom/value", what, false, Hx::new().u(c.n).u(c.k).finish());
        return Ok(());
    }
    let want = want.unwrap();
    ctx.case("binom/value", &binom_class(c), nontrivial_binom(c), Hx::new().u(c.n).u(c.k).finish());
    ctx.sample("binom/value", || json!(c));
    match lib_binom(c.n, c.k) {
        Err(msg) => fail("C17/binom/value", format!("binom_coeff({}, {}) panicked although C(n,k) = {} fits in 64 bits: {}", c.n, c.k, want, msg)),
        Ok(v) => {
            ensure!(v == want, "C17/binom/value", "binom_coeff({}, {}) = {}, exact value {}", c.n, c.k, v, want);
            Ok(())
        }
    }
}

pub fn check_binom_symmetry(ctx: &mut Ctx, c: &NCase) -> R {
    if c.k > c.n || sp::binom_exact(c.n, c.k).is_none() {
        return Ok(());
    }
    ctx.case("binom/symmetry", &binom_class(c), nontrivial_binom(c), Hx::new().u(c.n).u(c.k).finish());
    ctx.sample("binom/symmetry", || json!(c));
    let a = lib_binom(c.n, c.k);
    let b = lib_binom(c.n, c.n - c.k);
    match (a, b) {
        (Ok(a), Ok(b)) => {
            ensure!(a == b, "C17/binom/symmetry", "binom_coeff({}, {}) = {} but binom_coeff({}, {}) = {}", c.n, c.k, a, c.n, c.n - c.k, b);
            Ok(())
        }
        (a, b) => fail("C17/binom/symmetry", format!("binom_coeff({}, {}) -> {:?}, binom_coeff({}, {}) -> {:?} (value fits in 64 bits)", c.n, c.k, a, c.n, c.n - c.k, b)),
    }
}

/// C(n,k) + C(n,k+1) = C(n+1,k+1) whenever all three fit (decided by the exact oracle).
pub fn check_binom_pascal(ctx: &mut Ctx, c: &NCase) -> R {
    if c.k >= c.n || c.n == u64::MAX {
        return Ok(());
    }
    if sp::binom_exact(c.n, c.k).is_none() || sp::binom_exact(c.n, c.k + 1).is_none() || sp::binom_exact(c.n + 1, c.k + 1).is_none() {
        return Ok(());
    }
    ctx.case("binom/pascal", &binom_class(c), nontrivial_binom(c), Hx::new().u(c.n).u(c.k).finish());
    ctx.sample("binom/pascal", || json!(c));
    let a = lib_binom(c.n, c.k);
    let b = lib_binom(c.n, c.k + 1);
    let s = lib_binom(c.n + 1, c.k + 1);
    match (a, b, s) {
        (Ok(a), Ok(b), Ok(s)) => {
            ensure!(
                a.checked_add(b) == Some(s),
                "C17/binom/pascal",
                "binom_coeff({n}, {k}) + binom_coeff({n}, {k1}) = {a} + {b} but binom_coeff({n1}, {k1}) = {s}",
                n = c.n, k = c.k, k1 = c.k + 1, n1 = c.n + 1, a = a, b = b, s = s
            );
            Ok(())
        }
        (a, b, s) => fail("C17/binom/pascal", format!("Pascal's rule at ({}, {}): a panic among {:?}, {:?}, {:?} (all three values fit in 64 bits)", c.n, c.k, a, b, s)),
    }
}

/// `binom_coeff_alt` (gamma-based), n <= 40: the exact integer.
pub fn check_binom_alt(ctx: &mut Ctx, c: &NCase) -> R {
    if c.k > c.n || c.n > 40 {
        return Ok(());
    }
    let want = sp::binom_exact(c.n, c.k).unwrap();
    ctx.case("binom/alt", "n<=40", nontrivial_binom(c), Hx::new().u(c.n).u(c.k).finish());
    match catch(|| binom_coeff_alt(c.n, c.k)) {
        Err(msg) => fail("C17/binom/alt", format!("binom_coeff_alt({}, {}) panicked: {}", c.n, c.k, msg)),
        Ok(v) => {
            ensure!(v == want, "C17/binom/alt", "binom_coeff_alt({}, {}) = {}, exact value {}", c.n, c.k, v, want);
            Ok(())
        }
    }
}

/// (n, k) with C(n,k) < 2^64 and n >= 68 by construction: m = min(k, n−k) in 0..=32, n log-uniform in
/// [max(68, 2m), nmax(m)], k = m or n − m.
fn binom_strat() -> impl Strategy<Value = NCase> {
    (0u64..=32, 0f64..1.0, any::<bool>(), 0u8..4).prop_map(|(m, u, flip, nc)| {
        let hi = nmax_table()[m as usize];
        let lo = 68u64.max(2 * m);
        let n = if hi <= lo {
            hi.max(2 * m)
        } else {
            match nc {
                0 => hi - ((u * 3.0) as u64).min(hi - lo), // right at the 2^64 boundary
                1 => lo + ((u * 200.0) as u64).min(hi - lo),
                _ => (ps::logu(u, lo as f64, hi as f64) as u64).clamp(lo, hi),
            }
        };
        NCase { n, k: if flip { n - m } else { m } }
    })
}

// ---------------------------------------------------------------------------------------------

pub fn run(ctx: &mut Ctx) {
    ctx.rule = "logistic/logit: stratified x in ±745 (uniform, f32 grid, ±40, tiny, 700–745, integers and half-integers), p in [0,1] \
(uniform, f32 grid, log-uniform toward 0 and toward 1, subnormals, endpoints), p outside [0,1] and NaN; thorough additionally every f32 in ±745 and in [0,1]. \
softmax: lengths 1..=1000 (three length scales), entries in ±1e4 in 7 classes (small, all large positive, all large negative, mixed, constant, ties, few large); \
non-trivial = length >= 2 and max|x| > 700. Box–Cox: x (or x+shift) log-uniform in (1e-6,1e6), λ in 6 classes (0, ±1e-300, |λ|<1e-8, uniform ±5, simple, log-uniform), \
shifts of both signs, x+shift <= 0 for rejection; non-trivial = λ != 1. binomial: all (n,k) with n <= 67 (and n <= 128 where the value does not fit, recorded only), \
n >= 68 with min(k,n−k) <= 32 up to the largest n whose value fits; non-trivial = 2 <= k <= n−2"
        .into();
    ctx.assumptions = vec![
        "softmax sum / shift / value bounds are a-priori rounding bounds of the direct (shifted) evaluation with slack 8; outputs below 1e-300 are compared absolutely".into(),
        "softmax sum/order/shift/value skip cases whose output is not finite: those are reported once by softmax/finite".into(),
        "logistic monotonicity is checked on f32 neighbours and separated pairs, not on adjacent f64 (libm exp is not proven monotone at 1 ulp)".into(),
        "binomial coefficients that do not fit in 64 bits are outside the statement: behaviour recorded in the class histogram only".into(),
        "a panic of any kind counts as rejection".into(),
    ];
    let base = mix_seed(ctx.seed, "C17", 0);

    // ---- logistic / logit
    for &x in &[0.0, -0.0, 1e-300, 0.5, 1.0, 30.0, 36.0, 37.0, 40.0, 709.0, 710.0, 744.0, 745.0] {
        for s in [1.0, -1.0] {
            ps::one(ctx, &LOGISTIC_RANGE, s * x, 0.0);
            ps::one(ctx, &LOGISTIC_REFLECTION, s * x, 0.0);
            ps::one(ctx, &LOGIT_ROUNDTRIP, s * x, 1.0);
        }
    }
    for &p in &[0.0, -0.0, 1.0, 0.5, 5e-324, f64::MIN_POSITIVE, 1.0 - EPS / 2.0, EPS, 0.25, 0.9] {
        ps::one(ctx, &LOGIT_ROUNDTRIP, p, 0.0);
    }
    for &p in &[f64::NAN, f64::INFINITY, f64::NEG_INFINITY, -5e-324, 1.0 + EPS, -1.0, 2.0, 1.5, -1e-300, 1e300] {
        ps::one(ctx, &LOGIT_REJECTS, p, 0.0);
    }
    let n = ctx.scale(2_000_000, 20_000_000);
    let lb = mix_seed(base, "logistic", 0);
    ps::sweep(ctx, &[&LOGISTIC_RANGE, &LOGISTIC_REFLECTION], n, &|i| (logistic_arg(lb, i), 0.0));
    ps::sweep(ctx, &[&LOGIT_ROUNDTRIP], n / 2, &|i| (ps::lerp(ps::unit(lb, i, 3), -30.0, 30.0), 1.0));
    let mb = mix_seed(base, "monotone", 0);
    ps::sweep(ctx, &[&LOGISTIC_MONOTONE], n, &|i| monotone_pair(mb, i));
    let pb = mix_seed(base, "prob", 0);
    ps::sweep(ctx, &[&LOGIT_ROUNDTRIP], n, &|i| (prob_arg(pb, i), 0.0));
    let ob = mix_seed(base, "outside", 0);
    let nrej = ctx.scale(200_000, 2_000_000);
    ps::sweep(ctx, &[&LOGIT_REJECTS], nrej, &|i| (outside_arg(ob, i), 0.0));
    if !ctx.quick() {
        let nx = ps::f32_count(0.0, XMAX as f32);
        ps::sweep(ctx, &[&LOGISTIC_RANGE, &LOGISTIC_REFLECTION, &LOGISTIC_MONOTONE], nx, &|i| {
            let x = ps::f32_at(0.0, i);
            (x as f64, next_f32(x) as f64)
        });
        ps::sweep(ctx, &[&LOGISTIC_RANGE, &LOGISTIC_MONOTONE], nx, &|i| {
            let x = -ps::f32_at(0.0, i);
            (x as f64, next_f32(x) as f64)
        });
        ctx.exhaustive.push("logistic range / reflection / monotonicity between neighbours at every f32 in ±745".into());
        let np = ps::f32_count(0.0, 1.0);
        ps::sweep(ctx, &[&LOGIT_ROUNDTRIP], np, &|i| (ps::f32_at(0.0, i) as f64, 0.0));
        ctx.exhaustive.push("logistic(logit(p)) = p at every f32 in [0,1]".into());
    }

    // ---- softmax
    for x in [vec![1000.0, 1001.0, 999.0], vec![-1000.0, -1001.0, -999.0], vec![1e4], vec![-1e4], vec![1e4, -1e4], vec![0.0], vec![710.0, 0.0], vec![-746.0, -746.0]] {
        let c = SCase { x, c: 0.0, class: 3 };
        ctx.check_one("softmax/finite", &c, check_softmax_finite);
        ctx.check_one("softmax/sum", &c, check_softmax_sum);
        ctx.check_one("softmax/order", &c, check_softmax_order);
        ctx.check_one("softmax/value", &c, check_softmax_value);
    }
    let n = ctx.scale(24_000, 480_000);
    ctx.run_prop_par("softmax/finite", n, 16, softmax_strat, check_softmax_finite);
    ctx.run_prop_par("softmax/sum", n, 16, softmax_strat, check_softmax_sum);
    ctx.run_prop_par("softmax/order", n, 16, softmax_strat, check_softmax_order);
    ctx.run_prop_par("softmax/shift", n, 16, softmax_strat, check_softmax_shift);
    ctx.run_prop_par("softmax/value", n / 3, 16, softmax_strat, check_softmax_value);

    // ---- Box–Cox
    for &(x, l, s) in &[(1.0, 0.5, 2.0), (-1.0, 0.5, 2.0), (3.0, 0.0, -2.0), (1.0, 2.0, 0.0), (0.5, -1.0, 1.0)] {
        ctx.check_one("boxcox_shifted/value", &BCase { x, lambda: l, shift: s }, check_shifted_value);
    }
    for &(x, l, s) in &[(-1.0, 0.5, -2.0), (1.0, 0.5, -1.0), (-2.0, 0.0, 2.0), (0.0, 1.0, 0.0), (-3.0, 2.0, 1.0)] {
        ctx.check_one("boxcox_shifted/rejects", &BCase { x, lambda: l, shift: s }, check_shifted_rejects);
    }
    let n = ctx.scale(400_000, 8_000_000);
    ctx.run_prop_par("boxcox/value", n, 16, boxcox_strat, check_boxcox_value);
    let nrej = ctx.scale(20_000, 200_000);
    ctx.run_prop_par("boxcox/rejects", nrej, 16, boxcox_bad_strat, check_boxcox_rejects);
    ctx.run_prop_par("boxcox_shifted/value", n, 16, shifted_strat, check_shifted_value);
    let nrej = ctx.scale(40_000, 400_000);
    ctx.run_prop_par("boxcox_shifted/rejects", nrej, 16, shifted_bad_strat, check_shifted_rejects);

    // ---- binomial coefficient
    for n in 0..=128u64 {
        for k in 0..=n {
            let c = NCase { n, k };
            ctx.check_one("binom/value", &c, check_binom_value);
            ctx.check_one("binom/symmetry", &c, check_binom_symmetry);
            ctx.check_one("binom/pascal", &c, check_binom_pascal);
            if n <= 40 {
                ctx.check_one("binom/alt", &c, check_binom_alt);
            }
        }
    }
    ctx.exhaustive.push("binom_coeff value / symmetry / Pascal's rule for every (n,k) with n <= 128 whose value fits in 64 bits (all of n <= 67); binom_coeff_alt for n <= 40".into());
    for (m, hi) in nmax_table().iter().enumerate() {
        // the last fitting and the first non-fitting n for every m
        let m = m as u64;
        for n in [*hi, hi.saturating_sub(1)] {
            if n >= 2 * m {
                ctx.check_one("binom/value", &NCase { n, k: m }, check_binom_value);
                ctx.check_one("binom/value", &NCase { n, k: n - m }, check_binom_value);
                ctx.check_one("binom/pascal", &NCase { n: n - 1, k: m.saturating_sub(1) }, check_binom_pascal);
            }
        }
        if *hi < u64::MAX {
            ctx.check_one("binom/value", &NCase { n: hi + 1, k: m }, check_binom_value);
        }
    }
    ctx.exhaustive.push("for every m in 0..=32: the largest n with C(n,m) < 2^64, its predecessor and successor".into());
    let n = ctx.scale(200_000, 4_000_000);
    ctx.run_prop_par("binom/value", n, 16, binom_strat, check_binom_value);
    ctx.run_prop_par("binom/symmetry", n, 16, binom_strat, check_binom_symmetry);
    ctx.run_prop_par("binom/pascal", n, 16, binom_strat, check_binom_pascal);
}

pub fn replay(ctx: &mut Ctx, sub: &str, v: Value) -> Option<R> {
    if let Some(p) = POINT_SUBS.iter().find(|p| p.sub == sub) {
        return Some(ps::check_point(ctx, p, &decode::<Arg>(v)?));
    }
    match sub {
        "softmax/finite" => Some(check_softmax_finite(ctx, &decode::<SCase>(v)?)),
        "softmax/sum" => Some(check_softmax_sum(ctx, &decode::<SCase>(v)?)),
        "softmax/order" => Some(check_softmax_order(ctx, &decode::<SCase>(v)?)),
        "softmax/shift" => Some(check_softmax_shift(ctx, &decode::<SCase>(v)?)),
        "softmax/value" => Some(check_softmax_value(ctx, &decode::<SCase>(v)?)),
        "boxcox/value" => Some(check_boxcox_value(ctx, &decode::<BCase>(v)?)),
        "boxcox/rejects" => Some(check_boxcox_rejects(ctx, &decode::<BCase>(v)?)),
        "boxcox_shifted/value" => Some(check_shifted_value(ctx, &decode::<BCase>(v)?)),
        "boxcox_shifted/rejects" => Some(check_shifted_rejects(ctx, &decode::<BCase>(v)?)),
        "binom/value" => Some(check_binom_value(ctx, &decode::<NCase>(v)?)),
        "binom/symmetry" => Some(check_binom_symmetry(ctx, &decode::<NCase>(v)?)),
        "binom/pascal" => Some(check_binom_pascal(ctx, &decode::<NCase>(v)?)),
        "binom/alt" => Some(check_binom_alt(ctx, &decode::<NCase>(v)?)),
        _ => None,
    }
}
