//! C18 — Distributions are a pure function of current parameters and the RNG seed.
//!
//! Generated: *histories* (see `c18_model.rs`): constructor + 1..=20 operations (thorough 1..=60) out
//! of {individual setter, bulk update} with valid targets on both sides of the current value / interval
//! and invalid targets, interleaved with creation / dropping / sampling of unrelated objects,
//! re-seeding and reproducibility probes. One proptest run per distribution (`hist/<Dist>`), plus the
//! complete grid of all one- and two-mutation histories over every (operation, target class) pair
//! (`grid/<Dist>`), so that one defect cannot hide another.
//!
//! Oracle: parameter model + documented domain predicate. Valid mutation ⇒ no panic; invalid ⇒ panic
//! (model unchanged for setters and one-parameter laws; "unknown but in-domain" + re-synchronisation
//! for a rejected bulk update of a two-parameter law). After every step the object is compared with a
//! twin freshly constructed from the model parameters: pdf/pmf at 9 points, mean, var and — after
//! `alea::set_seed(s)` — 64 samples, all bit-identical (a panic on both sides counts as identical).
//! No tolerances: every comparison is bit-for-bit.

use crate::engine::{decode, par_map, Ctx, Fail, Hx, R};
use crate::props::c18_model::*;
use proptest::prelude::*;
use serde_json::{json, Value};

fn sub_of(kind: &str, dist: u8) -> String {
    format!("{}/{}", kind, DIST_NAMES[dist as usize % N_DIST])
}

fn history_class(st: &Stats) -> String {
    let m = match st.mutations_ok {
        0 => "0",
        1 => "1",
        2..=4 => "2-4",
        5..=9 => "5-9",
        _ => "10+",
    };
    format!(
        "muts={},crossing={},rejected={}{}",
        m,
        if st.crossings > 0 { "y" } else { "n" },
        if st.rejected > 0 || st.ctor_rejected { "y" } else { "n" },
        if st.sampling_unsafe { ",partly-unsampled" } else { "" }
    )
}

fn account(ctx: &mut Ctx, sub: &str, h: &History, res: &Result<Stats, Fail>) {
    let hash = Hx::new().json(h).finish();
    match res {
        Ok(st) => {
            // non-trivial: >= 2 successful mutations, one of which crosses a branch / bound / cached sampler
            let nontrivial = st.mutations_ok >= 2 && st.crossings >= 1;
            ctx.case(sub, &history_class(st), nontrivial, hash);
            for l in &st.labels {
                ctx.label(sub, &format!("has:{}", l));
            }
            if st.resyncs > 0 {
                ctx.label(sub, "has:resync-after-rejected-bulk");
            }
            if st.both_panicked > 0 {
                ctx.label(sub, "has:panic-on-both-sides");
            }
            if st.reproduce_checks > 0 {
                ctx.label(sub, "has:reproduce-check");
            }
        }
        Err(_) => ctx.case(sub, "failed", true, hash),
    }
    ctx.sample(sub, || json!(h));
}

fn check_as(ctx: &mut Ctx, kind: &str, h: &History) -> R {
    let sub = sub_of(kind, h.dist);
    let res = run_history(h);
    account(ctx, &sub, h, &res);
    res.map(|_| ())
}

pub fn check_hist(ctx: &mut Ctx, h: &History) -> R {
    check_as(ctx, "hist", h)
}

pub fn check_grid(ctx: &mut Ctx, h: &History) -> R {
    check_as(ctx, "grid", h)
}

/// Same oracle behind the byte decoder a libFuzzer target will use (`History::from_bytes`).
#[derive(Clone, Debug, serde::Serialize, serde::Deserialize)]
pub struct BytesCase {
    pub bytes: Vec<u8>,
}

pub fn check_bytes(ctx: &mut Ctx, c: &BytesCase) -> R {
    let h = History::from_bytes(&c.bytes);
    let res = run_history(&h);
    account(ctx, "bytes", &h, &res);
    res.map(|_| ())
}

// ------------------------------------------------------------------------------------------------
// strategies

fn sel() -> impl Strategy<Value = Sel> {
    (any::<u8>(), 0u16..96).prop_map(|(c, m)| Sel { c, m })
}

fn bulk() -> impl Strategy<Value = Bulk> {
    (any::<u8>(), sel(), sel()).prop_map(|(j, a, b)| Bulk { j, t: [a, b] })
}

fn op() -> impl Strategy<Value = Op> {
    prop_oneof![
        8 => (any::<u8>(), sel()).prop_map(|(p, t)| Op::Set { p, t }),
        7 => bulk().prop_map(Op::Update),
        1 => (any::<u8>(), 0u16..96, 0u16..96).prop_map(|(d, a, b)| Op::Spawn { d, a, b }),
        1 => any::<u8>().prop_map(|i| Op::DropOther { i }),
        1 => (any::<u8>(), any::<u8>()).prop_map(|(i, n)| Op::SampleOther { i, n }),
        1 => any::<u64>().prop_map(|s| Op::Reseed { s }),
        2 => any::<u8>().prop_map(|churn| Op::Reproduce { churn }),
    ]
}

fn history(dist: u8, max_ops: usize, nseeds: usize) -> impl Strategy<Value = History> {
    (bulk(), proptest::collection::vec(op(), 1..=max_ops), proptest::collection::vec(any::<u64>(), nseeds))
        .prop_map(move |(ctor, ops, seeds)| History { dist, ctor, ops, seeds })
}

// ------------------------------------------------------------------------------------------------
// exhaustive class grid

/// Every mutation (each setter × each target class, bulk update × each class combination) with the
/// first `mags` magnitude selectors.
fn grid_ops(dist: u8, mags: u16) -> Vec<Op> {
    let sp = specs(dist);
    let mut ops = Vec::new();
    for (i, s) in sp.iter().enumerate() {
        let w = class_weights(s.kind);
        for class in 0..w.len() {
            for m in 0..mags {
                ops.push(Op::Set { p: i as u8, t: Sel { c: sel_for_class(w, class), m } });
            }
        }
    }
    if dist == 4 || dist == 12 {
        for class in 0..JOINT_WEIGHTS.len() {
            for m in 0..mags {
                for m2 in 0..mags.min(2) {
                    ops.push(Op::Update(Bulk { j: sel_for_class(&JOINT_WEIGHTS, class), t: [Sel { c: 0, m }, Sel { c: 0, m: m2 }] }));
                }
            }
        }
    } else {
        let w0 = class_weights(sp[0].kind);
        let w1 = if sp.len() > 1 { class_weights(sp[1].kind) } else { &[1u8][..] };
        for c0 in 0..w0.len() {
            for c1 in 0..w1.len() {
                for m in 0..mags {
                    ops.push(Op::Update(Bulk { j: 0, t: [Sel { c: sel_for_class(w0, c0), m }, Sel { c: sel_for_class(w1, c1), m: m + 1 }] }));
                }
            }
        }
    }
    ops
}

/// "same" constructor: the law's default parameters.
fn default_ctor(dist: u8) -> Bulk {
    let sp = specs(dist);
    let same = |k: PK| -> u8 {
        let w = class_weights(k);
        let idx = match k {
            PK::Prob => 2,
            PK::RealLo | PK::RealHi | PK::IntLo | PK::IntHi => 4,
            _ => 3,
        };
        sel_for_class(w, idx)
    };
    let s0 = Sel { c: same(sp[0].kind), m: 0 };
    let s1 = if sp.len() > 1 { Sel { c: same(sp[1].kind), m: 0 } } else { Sel { c: 0, m: 0 } };
    Bulk { j: sel_for_class(&JOINT_WEIGHTS, 6), t: [s0, s1] }
}

fn grid_histories(dist: u8, seed: u64) -> Vec<History> {
    let mut out = Vec::new();
    let ctor = default_ctor(dist);
    let seeds = vec![seed, seed ^ 0xABCDEF];
    // every constructor class
    for o in grid_ops(dist, 6) {
        if let Op::Update(b) = o {
            out.push(History { dist, ctor: b, ops: vec![Op::Reproduce { churn: 3 }], seeds: seeds.clone() });
        }
    }
    // single mutations
    for o in grid_ops(dist, 6) {
        out.push(History { dist, ctor, ops: vec![o], seeds: seeds.clone() });
    }
    // all ordered pairs
    let g = grid_ops(dist, 2);
    for a in &g {
        for b in &g {
            out.push(History { dist, ctor, ops: vec![a.clone(), b.clone()], seeds: seeds.clone() });
        }
    }
    out
}

pub fn run(ctx: &mut Ctx) {
    ctx.rule = "a case is one history: distribution, constructor selectors, 1..=20 operations (thorough 1..=60) from {setter, bulk update, \
create/drop/sample unrelated objects, re-seed, reproducibility probe}, 5 RNG seeds (thorough 50); target selectors are resolved against the \
current model parameters (valid: absolute, above, below, same, next to a switch point, interval entirely above / below / overlapping / \
containing / degenerate; invalid: zero or negative scale/shape/rate/dof, p outside [0,1], lower > upper). Non-trivial: at least 2 \
successful mutations of which one moves a parameter across a branch or bound (new interval disjoint from the old one, sampler switch \
point, any change on a law with a cached helper sampler); distinct by hash of the whole history"
        .into();
    ctx.assumptions = vec![
        "parameter domains are the documented ones: p in [0,1]; alpha, beta, lambda, minval, dof > 0; sigma >= 0; lower <= upper; n any non-negative integer; mu any finite real".into(),
        "integer-typed parameters travel through update(&[f64]) as integer-valued floats; NaN, infinite and non-integral values for integer parameters are not generated".into(),
        "a panic of any kind counts as rejection; a panic raised by both the mutated object and its fresh twin on the same observation counts as identical behaviour".into(),
        "after a rejected setter (and a rejected update of a one-parameter law) the parameters are unchanged; after a rejected bulk update of a two-parameter law they are unknown but in-domain and the next valid bulk update must succeed".into(),
        format!("sample streams are not compared while a gamma-sampler shape below {} is current (Gamma::sample does not terminate there on the unchanged tree, F10/C03); densities, mean and variance still are", SAFE_SHAPE),
        "all parameters finite, |real| <= ~1e7, positive reals in [1e-8, 1e6], n <= 200000".into(),
    ];

    // --- exhaustive grid -----------------------------------------------------------------------
    let mut grid_total = 0usize;
    for dist in 0..N_DIST as u8 {
        let hs = grid_histories(dist, crate::engine::mix_seed(ctx.seed, "C18/grid", dist as u64));
        grid_total += hs.len();
        let res = par_map(&hs, 16, |_, h| run_history(h));
        let sub = sub_of("grid", dist);
        for (h, r) in hs.iter().zip(res.iter()) {
            account(ctx, &sub, h, r);
            if let Err(f) = r {
                ctx.handle_fail(&sub, f, h);
            }
        }
    }
    ctx.note("grid_histories", json!(grid_total));
    ctx.exhaustive.push(
        "per distribution, from the default constructor: every constructor class, every single mutation and every ordered pair of mutations over \
(setter of each parameter x each target class, bulk update x each class combination), first 2 magnitudes (6 for single steps)"
            .into(),
    );

    // --- random histories ----------------------------------------------------------------------
    let n = ctx.scale(4_000, 50_000);
    let max_ops = ctx.scale(20, 60) as usize;
    let nseeds = ctx.scale(5, 50) as usize;
    for dist in 0..N_DIST as u8 {
        let sub = sub_of("hist", dist);
        ctx.run_prop_par(&sub, n, 16, || history(dist, max_ops, nseeds), check_hist);
    }
    // byte-decoded histories (all distributions mixed; exercises the fuzz decoder)
    ctx.run_prop_par("bytes", ctx.scale(4_000, 50_000), 8, || proptest::collection::vec(any::<u8>(), 0..160).prop_map(|bytes| BytesCase { bytes }), check_bytes);
}

pub fn replay(ctx: &mut Ctx, sub: &str, v: Value) -> Option<R> {
    if sub == "bytes" {
        return Some(check_bytes(ctx, &decode::<BytesCase>(v)?));
    }
    if sub.starts_with("hist/") {
        Some(check_hist(ctx, &decode::<History>(v)?))
    } else if sub.starts_with("grid/") {
        Some(check_grid(ctx, &decode::<History>(v)?))
    } else {
        None
    }
}
